(* C17 — generic facts about the fuel-driven loop of Model.v. *)
From Yv Require Import Common.Base C17.Model.
From Coq Require Import Lia PeanoNat.

Section LoopFacts.
  Context {A R : Type} (step : A -> outcome A R).

  (* [iter n s]: at most [n] steps *)
  Fixpoint iter (n : nat) (s : A) : outcome A R :=
    match n with
    | O => Cont s
    | S n' => match step s with Cont s' => iter n' s' | o => o end
    end.

  Definition bind (o : outcome A R) (k : A -> outcome A R) : outcome A R :=
    match o with Cont s => k s | o' => o' end.

  Lemma iter_add n m s : iter (n + m) s = bind (iter n s) (iter m).
  Proof.
    revert s; induction n as [|n IH]; intros s; cbn; [reflexivity|].
    destruct (step s); cbn; auto.
  Qed.

  Lemma iter_1 s : iter 1 s = step s.
  Proof. cbn. destruct (step s); reflexivity. Qed.

  Lemma loop_iter p s : loop step p s = iter (Pos.to_nat p) s.
  Proof.
    revert s; induction p as [p IH|p IH|]; intros s; cbn [loop].
    - rewrite Pos2Nat.inj_xI.
      replace (S (2 * Pos.to_nat p)) with (1 + (Pos.to_nat p + Pos.to_nat p))%nat by lia.
      rewrite iter_add, iter_1. destruct (step s) as [s1| |]; cbn [bind]; auto.
      rewrite iter_add, <- IH. destruct (loop step p s1); cbn [bind]; auto.
    - rewrite Pos2Nat.inj_xO.
      replace (2 * Pos.to_nat p)%nat with (Pos.to_nat p + Pos.to_nat p)%nat by lia.
      rewrite iter_add, <- IH. destruct (loop step p s); cbn [bind]; auto.
    - rewrite iter_1. reflexivity.
  Qed.

  (* a measure that every continuing step decreases bounds the number of steps *)
  Variable Inv : A -> Prop.
  Variable mu : A -> nat.
  Hypothesis step_dec : forall s s', Inv s -> step s = Cont s' -> Inv s' /\ (mu s' < mu s)%nat.

  Lemma iter_bound n s s' : Inv s -> iter n s = Cont s' -> Inv s' /\ (mu s' + n <= mu s)%nat.
  Proof.
    revert s; induction n as [|n IH]; intros s HI; cbn.
    - intros E; inversion E; subst; split; auto; lia.
    - destruct (step s) as [s1| |] eqn:Es; try discriminate.
      destruct (step_dec _ _ HI Es) as [HI1 Hlt].
      intros E. destruct (IH _ HI1 E) as [HI' Hle]. split; auto; lia.
  Qed.

  Lemma run_enough_fuel p s : Inv s -> (mu s < Pos.to_nat p)%nat -> run step p s <> ROutOfFuel.
  Proof.
    intros HI Hlt. unfold run. rewrite loop_iter.
    destruct (iter (Pos.to_nat p) s) as [s'| |] eqn:E; try discriminate.
    destruct (iter_bound _ _ _ HI E) as [_ Hle]. lia.
  Qed.

  (* an invariant of the states holds of every state the loop passes through *)
  Lemma iter_inv (P : A -> Prop) n s s' :
    (forall a b, P a -> step a = Cont b -> P b) -> P s -> iter n s = Cont s' -> P s'.
  Proof.
    intros Hs. revert s; induction n as [|n IH]; intros s HP; cbn.
    - intros E; inversion E; subst; auto.
    - destruct (step s) as [s1| |] eqn:Es; try discriminate. intros E.
      apply (IH s1); [exact (Hs _ _ HP Es)|exact E].
  Qed.

  Lemma iter_fin_inv (P : A -> Prop) (Q : R -> Prop) n s r :
    (forall a b, P a -> step a = Cont b -> P b) ->
    (forall a r, P a -> step a = Fin r -> Q r) ->
    P s -> iter n s = Fin r -> Q r.
  Proof.
    intros Hs Hf. revert s; induction n as [|n IH]; intros s HP; cbn; [discriminate|].
    destruct (step s) as [s1|r1|] eqn:Es; try discriminate.
    - intros E. apply (IH s1); [exact (Hs _ _ HP Es)|exact E].
    - intros E; inversion E; subst. exact (Hf _ _ HP Es).
  Qed.
End LoopFacts.

(* two step functions related by a simulation produce related results *)
Section Simulation.
  Context {A B RA RB : Type} (stepA : A -> outcome A RA) (stepB : B -> outcome B RB).
  Variable Rel : A -> B -> Prop.
  Variable RelR : RA -> RB -> Prop.

  Definition rel_outcome (x : outcome A RA) (y : outcome B RB) : Prop :=
    match x, y with
    | Cont a, Cont b => Rel a b
    | Fin r, Fin r' => RelR r r'
    | Outside, Outside => True
    | _, _ => False
    end.

  Hypothesis sim : forall a b, Rel a b -> rel_outcome (stepA a) (stepB b).

  Lemma iter_sim n a b : Rel a b -> rel_outcome (iter stepA n a) (iter stepB n b).
  Proof.
    revert a b; induction n as [|n IH]; intros a b HR; cbn; auto.
    specialize (sim _ _ HR). destruct (stepA a), (stepB b); cbn in *; auto; contradiction.
  Qed.

  Lemma loop_sim p a b : Rel a b -> rel_outcome (loop stepA p a) (loop stepB p b).
  Proof. intros. rewrite !loop_iter. apply iter_sim; auto. Qed.
End Simulation.
