(* C17 — the statements of Properties.v, assembled from the lemma files
   PLoop (fuel), PLex (lexer facts), PMeasure (termination measure),
   PSim (model = specification). *)
From Yv Require Import Common.Base C17.Model C17.Spec C17.PList C17.PLoop C17.PLex C17.PMeasure C17.PSim.
From Coq Require Import Lia PeanoNat.
Local Open Scope N_scope.

Lemma applicable_guard t pre suf nm c a :
  applicable t pre suf (Some nm) c = Some a ->
  in_chain nm (head_chain suf) = false /\ lookup t nm = Some a.
Proof.
  intros H. destruct (applicable_some _ _ _ _ _ _ H) as (nm' & E & H1 & H2 & _).
  inversion E; subst. auto.
Qed.

(* ---------- termination ---------- *)

Lemma spec_terminates t line : spec_run t line <> ROutOfFuel.
Proof.
  rewrite <- model_refines_spec. pose proof (model_terminates t line).
  destruct (model_run t line); cbn; congruence.
Qed.

(* the measure, stated on its own *)
Lemma measure_decreases t s s' :
  chains_inv t s -> mstep t s = Cont s' -> chains_inv t s' /\ (mu t s' < mu t s)%nat.
Proof. apply mstep_decreases. Qed.

Lemma measure_initial t line :
  chains_inv t (m_init line) /\ (mu t (m_init line) < Pos.to_nat (fuel_of t line))%nat.
Proof. split; [apply chains_inv_init|apply fuel_of_enough]. Qed.

(* ---------- not within its own replacement ---------- *)

Lemma lookup_in_names t n : In n (tnames t) -> exists a, lookup t n = Some a.
Proof.
  induction t as [|b t IH]; cbn; [contradiction|].
  destruct (str_eqb (a_name b) n) eqn:E; [eauto|].
  intros [H|H]; [|auto]. apply str_eqb_eq in H. congruence.
Qed.

Lemma nodup_str_true l : NoDup l -> nodup_str l = true.
Proof.
  induction 1 as [|x l Hx Hl IH]; [reflexivity|]. cbn. rewrite IH, andb_true_r.
  apply negb_true_iff. apply mem_str_false. exact Hx.
Qed.

Lemma chain_ok_bool t c : chain_ok t c ->
  nodup_str c && forallb (fun n => match lookup t n with Some _ => true | None => false end) c = true.
Proof.
  intros [H1 H2]. rewrite (nodup_str_true _ H1). cbn. apply forallb_forall. intros n Hn.
  destruct (lookup_in_names t n (H2 _ Hn)) as [a ->]. reflexivity.
Qed.

Lemma model_chains_bool t line b : model_run t line = RFin b -> chains_ok t (observe b) = true.
Proof.
  intros H. pose proof (model_chains_ok _ _ _ H) as HF. unfold chains_ok, observe.
  apply forallb_forall. intros x Hx. apply in_map_iff in Hx. destruct Hx as (y & <- & Hy). cbn [snd].
  rewrite Forall_forall in HF. apply chain_ok_bool. apply HF; auto.
Qed.

Lemma spec_chains_bool t line b : spec_run t line = RFin b -> chains_ok t b = true.
Proof.
  rewrite <- model_refines_spec. destruct (model_run t line) as [mb| |] eqn:E; cbn; try discriminate.
  intros H; inversion H; subst. eapply model_chains_bool; eauto.
Qed.

(* nesting depth is bounded by the number of aliases *)
Lemma model_depth_bound t line b x :
  model_run t line = RFin b -> In x b -> (length (b_chain x) <= length t)%nat.
Proof.
  intros H Hx. pose proof (model_chains_ok _ _ _ H) as HF. rewrite Forall_forall in HF.
  apply chain_ok_len. auto.
Qed.

(* ---------- which words are replaced ---------- *)

Lemma eligible_iff t s lit cmd a :
  eligible t s lit cmd = Some a <->
  exists nm, lit = Some nm /\ ~ In nm (names (s_stack s)) /\ lookup t nm = Some a
             /\ (cmd = true \/ a_global a = true \/ s_flag s = true).
Proof.
  unfold eligible. split.
  - destruct lit as [nm|]; [|discriminate].
    destruct (mem_str nm (names (s_stack s))) eqn:Em; [discriminate|].
    destruct (lookup t nm) as [a'|] eqn:El; [|discriminate].
    destruct (cmd || a_global a' || s_flag s) eqn:Ee; [|discriminate].
    intros E; inversion E; subst. exists nm. repeat split; auto.
    + apply mem_str_false; auto.
    + apply orb_true_iff in Ee. destruct Ee as [Ee|Ee]; [apply orb_true_iff in Ee; tauto|auto].
  - intros (nm & -> & Hn & Hl & Hc). apply mem_str_false in Hn. rewrite Hn, Hl.
    replace (cmd || a_global a || s_flag s) with true; [reflexivity|].
    symmetry. destruct Hc as [Hc|[Hc|Hc]]; rewrite Hc; rewrite ?orb_true_r; reflexivity.
Qed.

Lemma global_alias_any_position t s nm a cmd :
  lookup t nm = Some a -> a_global a = true -> ~ In nm (names (s_stack s)) ->
  eligible t s (Some nm) cmd = Some a.
Proof. intros H1 H2 H3. apply eligible_iff. exists nm. repeat split; auto. Qed.

Lemma in_progress_not_eligible t s nm cmd :
  In nm (names (s_stack s)) -> eligible t s (Some nm) cmd = None.
Proof. intros H. unfold eligible. apply mem_str_In in H. rewrite H. reflexivity. Qed.

(* ---------- the blank-ending continuation ---------- *)

(* reading the last character of a value that ends in a blank raises the flag *)
Lemma flag_raised_at_end_of_value f st s lc c :
  s_stack s = f :: st -> f_rest f = [c] -> f_blank f = true -> s_flag (read1 lc s) = true.
Proof.
  intros Hs Hr Hb. unfold read1. rewrite Hs, Hr. cbn [pop_done f_rest].
  destruct (pop_done st ((if keeps_flag lc c then s_flag s else false) || f_blank (mkF (f_name f) [] (f_blank f)))) as [st2 fl2] eqn:E.
  cbn [s_flag]. destruct (pop_done_spec _ _ _ _ E) as (pp & _ & _ & _ & ->).
  cbn [f_blank]. rewrite Hb, orb_true_r. reflexivity.
Qed.

(* a raised flag survives blanks, line continuations and completed values *)
Lemma flag_survives_blank s lc c :
  s_flag s = true -> keeps_flag lc c = true ->
  (match s_stack s with f :: _ => exists r, f_rest f = c :: r | [] => exists r, s_base s = c :: r end) ->
  s_flag (read1 lc s) = true.
Proof.
  intros Hf Hk Hc. unfold read1. destruct (s_stack s) as [|f st].
  - destruct Hc as [r ->]. cbn [s_flag]. rewrite Hk. exact Hf.
  - destruct Hc as [r ->]. rewrite Hk, Hf.
    destruct (pop_done (mkF (f_name f) r (f_blank f) :: st) true) as [st2 fl2] eqn:E.
    cbn [s_flag]. destruct (pop_done_spec _ _ _ _ E) as (pp & _ & _ & _ & ->). reflexivity.
Qed.

(* anything else lowers it, unless the character completes another blank-ending value *)
Lemma flag_lowered_by_word_char s c :
  keeps_flag false c = false -> s_stack s = [] -> s_base s <> [] -> hd 0 (s_base s) = c ->
  s_flag (read1 false s) = false.
Proof.
  intros Hk Hs Hb Hc. unfold read1. rewrite Hs. destruct (s_base s) as [|c' r]; [contradiction|].
  cbn in Hc. subst c'. cbn [s_flag]. rewrite Hk. reflexivity.
Qed.

(* with a raised flag a word in argument position is replaced *)
Lemma flag_makes_eligible t s nm a :
  s_flag s = true -> lookup t nm = Some a -> ~ In nm (names (s_stack s)) ->
  eligible t s (Some nm) false = Some a.
Proof. intros H1 H2 H3. apply eligible_iff. exists nm. repeat split; auto. Qed.

(* ---------- the oracle accepts the model ---------- *)

Lemma obs_eqb_refl b : obs_eqb b b = true.
Proof.
  unfold obs_eqb. apply list_eqb_spec; [|reflexivity].
  intros [c1 h1] [c2 h2]. cbn [fst snd]. rewrite andb_true_iff, N.eqb_eq.
  unfold chain_eqb. rewrite (list_eqb_spec str_eqb str_eqb_eq). split; [intros [-> ->]; reflexivity|intros E; inversion E; auto].
Qed.

Lemma oracle_accepts_model t line mb sb :
  model_run t line = RFin mb -> spec_run t line = RFin sb ->
  chains_ok t (observe mb) = true /\ str_eqb (text_of (observe mb)) (text_of sb) = true
  /\ obs_eqb (observe mb) sb = true.
Proof.
  intros Hm Hs. pose proof (model_refines_spec t line) as E. rewrite Hm, Hs in E. cbn in E. inversion E; subst.
  split; [eapply model_chains_bool; eauto|]. split; [apply str_eqb_eq; reflexivity|apply obs_eqb_refl].
Qed.

(* ---------- what can be a candidate at all ---------- *)

(* operators, IO numbers and the end of input are never looked up, wherever they come from *)
Lemma only_words_are_candidates ps k a g c n :
  decide ps k a g = ATry c n -> k = TWord \/ exists kw, k = TKey kw.
Proof.
  intros H. pose proof (decide_try_word _ _ _ _ _ _ H) as Hw.
  destruct k; try discriminate; eauto.
Qed.

(* a reserved word at the beginning of a command is taken as such, alias or not *)
Lemma reserved_word_first_not_candidate kw a g c n : decide PCmd (TKey kw) a g <> ATry c n.
Proof. destruct kw; discriminate. Qed.

(* the first word of a command is a candidate as a command name; so is the word
   behind assignments and redirections *)
Lemma command_word_is_candidate a g :
  (exists n, decide PCmd TWord a g = ATry true n) /\
  (forall fn arr, exists n, decide (PSimple true fn arr) TWord a g = ATry true n) /\
  (forall fn arr, exists n, decide (PSimple false fn arr) TWord a g = ATry false n).
Proof. repeat split; intros; eexists; reflexivity. Qed.
