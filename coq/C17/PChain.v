(* C17 — the blank-ending continuation on a concrete family of inputs:
   for every n, n aliases whose values end in a blank, named one after the
   other on a command line, are all replaced. *)
From Yv Require Import Common.Base C17.Model C17.Spec C17.PList C17.PLoop C17.PLex C17.PMeasure C17.PSim C17.Proofs.
From Coq Require Import Lia PeanoNat.
Local Open Scope N_scope.

(* ---------- plain words ---------- *)

Definition plainc (c : N) : bool :=
  negb (is_delim c) && negb (c =? 92) && negb (c =? 39) && negb (c =? 34)
  && negb (c =? 36) && negb (c =? 96) && negb (c =? 61).

Record plain_word (w : str) : Prop := mkPlain {
  pw_nonempty : w <> [];
  pw_chars : forallb plainc w = true;
  pw_first : (hd 0 w =? 35) || (hd 0 w =? 126) = false;
  pw_nokey : keyword_of w = None
}.

Lemma plainc_inv c : plainc c = true ->
  is_delim c = false /\ (c =? 92) = false /\ (c =? 39) = false /\ (c =? 34) = false
  /\ (c =? 36) = false /\ (c =? 96) = false /\ (c =? 61) = false.
Proof.
  unfold plainc. rewrite !andb_true_iff, !negb_true_iff. tauto.
Qed.

Lemma word_body_plain w : forall fuel rest wi,
  (length w < fuel)%nat -> forallb plainc w = true -> w_assign wi = None ->
  word_body fuel (w ++ 32 :: rest) wi =
  inl (falses (length w), 32 :: rest,
       mkW (match w_lit wi with Some s => Some (rev w ++ s) | None => None end)
           (length w + w_units wi) None).
Proof.
  induction w as [|c w IH]; intros fuel rest wi Hf Hp Ha.
  - destruct fuel; [cbn in Hf; lia|]. destruct wi as [l u a]. cbn in Ha. subst a.
    cbn. destruct l; reflexivity.
  - destruct fuel; [cbn in Hf; lia|]. cbn [forallb] in Hp. apply andb_true_iff in Hp. destruct Hp as [Hc Hp].
    destruct (plainc_inv _ Hc) as (H1 & H2 & H3 & H4 & H5 & H6 & H7).
    cbn [word_body app]. rewrite H2, H3, H4, H5, H6, H1. cbn [orb].
    rewrite (IH fuel rest (w_literal c wi)); [|cbn in Hf; lia|exact Hp|].
    + cbn [app length falses repeat]. unfold w_literal. cbn [w_lit w_units w_assign].
      replace (length w + S (w_units wi))%nat with (S (length w) + w_units wi)%nat by lia.
      destruct (w_lit wi); [|reflexivity]. cbn [rev]. rewrite <- app_assoc. reflexivity.
    + unfold w_literal. cbn [w_assign]. rewrite Ha, H7. reflexivity.
Qed.

Lemma plain_first w : plain_word w -> exists c w', w = c :: w' /\ plainc c = true /\ (c =? 35) || (c =? 126) = false.
Proof.
  intros [H1 H2 H3 H4]. destruct w as [|c w']; [contradiction|]. exists c, w'. cbn in *.
  apply andb_true_iff in H2. tauto.
Qed.

Lemma not_delim_first_op c : is_delim c = false -> first_op c = None /\ is_blank c = false.
Proof.
  unfold is_delim. intros H. apply orb_false_iff in H. destruct H as [H1 H2]. split; auto.
  unfold is_op_char in H1. unfold first_op.
  repeat (apply orb_false_iff in H1; destruct H1 as [H1 ?]).
  repeat match goal with H : (c =? _) = false |- _ => rewrite H; clear H end. reflexivity.
Qed.

Lemma lex_plain w rest : plain_word w ->
  lex (w ++ 32 :: rest) = inl (mkLexed [] (falses (length w)) TWord (Some w) NoAsg).
Proof.
  intros Hw. destruct (plain_first _ Hw) as (c & w' & -> & Hc & Hf).
  destruct (plainc_inv _ Hc) as (H1 & H2 & _). destruct (not_delim_first_op _ H1) as [Hop Hb].
  unfold lex.
  apply orb_false_iff in Hf. destruct Hf as [Hf35 Hf126].
  assert (Hsk : skip_gap ((c :: w') ++ 32 :: rest) = ([], (c :: w') ++ 32 :: rest)).
  { unfold skip_gap. cbn [app skip_blanks]. destruct (w' ++ 32 :: rest) eqn:E; [destruct w'; discriminate|].
    unfold is_lc. rewrite H2, Hb. cbn [andb]. rewrite Hf35. reflexivity. }
  rewrite Hsk. cbn [app]. rewrite Hf126, Hop.
  change (c :: w' ++ 32 :: rest) with ((c :: w') ++ 32 :: rest).
  rewrite (word_body_plain (c :: w')); [| rewrite app_length; cbn; lia | exact (pw_chars _ Hw) | reflexivity].
  cbn [w_lit w_assign w_units w0 fst snd]. rewrite app_nil_r, rev_involutive.
  rewrite (pw_nokey _ Hw). cbn [head_is_redir]. change ((32 =? 60) || (32 =? 62)) with false.
  rewrite !andb_false_r. reflexivity.
Qed.

Lemma skip_blanks_blank b l : is_blank b = true ->
  skip_blanks (b :: l) = (false :: fst (skip_blanks l), snd (skip_blanks l)).
Proof.
  intros Hb. assert (H92 : (b =? 92) = false).
  { destruct (b =? 92) eqn:E; [|reflexivity]. apply N.eqb_eq in E. subst. discriminate. }
  cbn [skip_blanks]. destruct l as [|d r2].
  - rewrite Hb. reflexivity.
  - unfold is_lc at 1. rewrite H92, Hb. cbn [andb]. destruct (skip_blanks (d :: r2)). reflexivity.
Qed.

Lemma skip_gap_blank b l : is_blank b = true ->
  skip_gap (b :: l) = (false :: fst (skip_gap l), snd (skip_gap l)).
Proof.
  intros Hb. unfold skip_gap. rewrite (skip_blanks_blank _ _ Hb).
  destruct (skip_blanks l) as [gm l1]. cbn [fst snd].
  destruct l1 as [|c r]; [reflexivity|]. destruct (c =? 35); [|reflexivity].
  destruct (skip_comment (c :: r)). reflexivity.
Qed.

Definition add_gap (lx : lexed) : lexed :=
  mkLexed (false :: lx_gap lx) (lx_tok lx) (lx_kind lx) (lx_lit lx) (lx_assign lx).

Lemma lex_blank b l : is_blank b = true ->
  lex (b :: l) = match lex l with inl lx => inl (add_gap lx) | inr e => inr e end.
Proof.
  intros Hb. unfold lex. rewrite (skip_gap_blank _ _ Hb).
  destruct (skip_gap l) as [gm l1]. cbn [fst snd].
  destruct l1 as [|c r]; [reflexivity|].
  destruct (c =? 126); [reflexivity|].
  destruct (first_op c).
  - destruct (op_tail 3 o r) as [[o' m] rr]. reflexivity.
  - destruct (word_body (S (length (c :: r))) (c :: r) w0) as [[[m rest] w]|]; [|reflexivity].
    match goal with |- context [if ?b then _ else _] => destruct b end; reflexivity.
Qed.

(* ---------- the machine on a chain ---------- *)

Section Chain.
  Variable t : table.

  Definition link_ok (p : str * str) : Prop :=
    plain_word (fst p) /\ plain_word (snd p) /\ lookup t (snd p) = None /\
    exists al, lookup t (fst p) = Some al /\ a_value al = snd p ++ [32].

  Definition chain_line (ws : list (str * str)) : str :=
    concat (map (fun p => fst p ++ [32]) ws) ++ [10].
  Definition chain_out (ws : list (str * str)) : str :=
    concat (map (fun p => snd p ++ [32; 32]) ws) ++ [10].

  (* between two words: the blank that ends the previous value and the blank of the line are unread *)
  Definition stB (out : list (N * chain)) (prev : str) (rest : str) (fn : bool) : sstate :=
    mkS out [mkF prev [32] true] (32 :: rest) false (PSimple false fn false).
  (* a value has just been put on the stack *)
  Definition stW (out : list (N * chain)) (a x : str) (rest : str) (flag : bool) (ps : pstate) : sstate :=
    mkS out [mkF a (x ++ [32]) true] (32 :: rest) flag ps.

  Lemma plain_nonblank w : forallb plainc w = true -> Forall (fun c => is_blank c = false) w.
  Proof.
    intros H. apply Forall_forall. intros c Hc. rewrite forallb_forall in H.
    destruct (plainc_inv _ (H _ Hc)) as (H1 & _). apply not_delim_nonblank. exact H1.
  Qed.

  (* reading a plain word out of the value on top of the stack *)
  Lemma read_word w : forall out a r base flag ps,
    Forall (fun c => is_blank c = false) w -> w <> [] ->
    read (falses (length w)) (mkS out [mkF a (w ++ 32 :: r) true] base flag ps)
    = mkS (rev (map (fun c => (c, [a])) w) ++ out) [mkF a (32 :: r) true] base false ps.
  Proof.
    induction w as [|c w IH]; intros out a r base flag ps Hw Hne; [contradiction|].
    pose proof (Forall_inv Hw) as Hc. pose proof (Forall_inv_tail Hw) as Hw'.
    cbn [length falses repeat read]. unfold read1 at 1. cbn [s_stack f_rest app s_flag s_out s_base s_ps f_name f_blank names map].
    unfold keeps_flag. rewrite Hc. cbn [orb].
    destruct w as [|c2 w2].
    - cbn [app pop_done f_rest length repeat read map rev]. reflexivity.
    - cbn [app pop_done f_rest]. change (repeat false (length (c2 :: w2))) with (falses (length (c2 :: w2))).
      change (c2 :: w2 ++ 32 :: r) with ((c2 :: w2) ++ 32 :: r).
      rewrite IH; [|exact Hw'|discriminate]. cbn [map rev]. rewrite <- !app_assoc. reflexivity.
  Qed.

  Lemma eligible_word s x cmd :
    lookup t x = None -> eligible t s (Some x) cmd = None.
  Proof. intros H. unfold eligible. destruct (mem_str x (names (s_stack s))); [reflexivity|]. rewrite H. reflexivity. Qed.

  (* the word out of an alias value is consumed *)
  Lemma step_word out a x rest flag ps cmd ps' :
    plain_word x -> lookup t x = None ->
    decide ps TWord NoAsg true = ATry cmd ps' ->
    sstep t (stW out a x rest flag ps)
    = Cont (mkS (rev (map (fun c => (c, [a])) x) ++ out) [mkF a [32] true] (32 :: rest) false ps').
  Proof.
    intros Hx Hl Hd. unfold sstep, stW. cbn [s_stack s_base s_ps].
    unfold flat. cbn [map concat f_rest]. rewrite app_nil_r, <- app_assoc. cbn [app].
    rewrite (lex_plain x (32 :: rest) Hx). cbn [lx_gap lx_tok lx_kind lx_lit lx_assign read].
    unfold decide_lx. cbn [lx_gap lx_kind lx_assign forallb]. rewrite Hd.
    rewrite eligible_word by exact Hl.
    rewrite read_word; [reflexivity|apply plain_nonblank; exact (pw_chars _ Hx)|exact (pw_nonempty _ Hx)].
  Qed.
End Chain.

Section Chain2.
  Variable t : table.

  Lemma ends_blank_word x : ends_blank (x ++ [32]) = true.
  Proof. rewrite ends_blank_last. reflexivity. Qed.

  Lemma lex_plain_gap2 w rest : plain_word w ->
    lex (32 :: 32 :: w ++ 32 :: rest) = inl (mkLexed [false; false] (falses (length w)) TWord (Some w) NoAsg).
  Proof.
    intros Hw. rewrite lex_blank by reflexivity. rewrite lex_blank by reflexivity.
    rewrite (lex_plain w rest Hw). reflexivity.
  Qed.

  Lemma skipn_app_exact {A} (l1 l2 : list A) : skipn (length l1) (l1 ++ l2) = l2.
  Proof. induction l1; cbn; auto. Qed.

  Lemma read_gap_B out prev base' fn :
    read [false; false] (mkS out [mkF prev [32] true] (32 :: base') false (PSimple false fn false))
    = mkS ((32, []) :: (32, [prev]) :: out) [] base' true (PSimple false fn false).
  Proof. reflexivity. Qed.

  (* between two words, the next word names an alias: it is replaced although
     it is an argument, because the previous value ended in a blank *)
  Lemma step_alias_B out prev a x rest fn al :
    plain_word a -> lookup t a = Some al -> a_value al = x ++ [32] -> x <> [] ->
    sstep t (stB out prev (a ++ 32 :: rest) fn)
    = Cont (stW ((32, []) :: (32, [prev]) :: out) a x rest true (PSimple false fn false)).
  Proof.
    intros Ha Hl Hv Hx. destruct (lookup_some _ _ _ Hl) as [_ Hn].
    unfold sstep, stB. cbn [s_stack s_base s_ps].
    unfold flat. cbn [map concat f_rest app].
    rewrite (lex_plain_gap2 a rest Ha). cbn [lx_gap lx_tok lx_kind lx_lit lx_assign].
    rewrite read_gap_B.
    unfold decide_lx. cbn [lx_gap lx_kind lx_assign forallb decide after_word].
    unfold eligible. cbn [s_stack names map mem_str existsb s_flag]. rewrite Hl. rewrite !orb_true_r.
    cbn [drop_input s_stack s_base s_out]. unfold falses. rewrite repeat_length.
    rewrite skipn_app_exact.
    rewrite Hv, Hn, ends_blank_word. cbn [pop_done f_rest].
    destruct (x ++ [32]) eqn:E; [destruct x; discriminate|]. rewrite <- E. reflexivity.
  Qed.

  (* the first word of the line is in command position *)
  Lemma step_alias_I a x rest al :
    plain_word a -> lookup t a = Some al -> a_value al = x ++ [32] -> x <> [] ->
    sstep t (mkS [] [] (a ++ 32 :: rest) false PCmd) = Cont (stW [] a x rest false PCmd).
  Proof.
    intros Ha Hl Hv Hx. destruct (lookup_some _ _ _ Hl) as [_ Hn].
    unfold sstep. cbn [s_stack s_base s_ps]. unfold flat. cbn [map concat app].
    rewrite (lex_plain a rest Ha). cbn [lx_gap lx_tok lx_kind lx_lit lx_assign read].
    unfold decide_lx. cbn [lx_gap lx_kind lx_assign forallb decide after_word].
    unfold eligible. cbn [s_stack names map mem_str existsb s_flag]. rewrite Hl. cbn [orb].
    cbn [drop_input s_stack s_base s_out]. unfold falses. rewrite repeat_length.
    rewrite skipn_app_exact.
    rewrite Hv, Hn, ends_blank_word. cbn [pop_done f_rest].
    destruct (x ++ [32]) eqn:E; [destruct x; discriminate|]. rewrite <- E. reflexivity.
  Qed.

  Lemma step_newline_B out prev fn :
    sstep t (stB out prev [10] fn)
    = Cont (mkS ((10, []) :: (32, []) :: (32, [prev]) :: out) [] [] false PCmd).
  Proof. reflexivity. Qed.

  Lemma step_eof out fl ps : sstep t (mkS out [] [] fl ps) = Fin (rev out).
  Proof. unfold sstep. cbn. rewrite app_nil_r. destruct ps; reflexivity. Qed.

  Lemma text_rev_cons c ch out : text_of (rev ((c, ch) :: out)) = text_of (rev out) ++ [c].
  Proof. unfold text_of. cbn [rev]. rewrite map_app. reflexivity. Qed.

  Lemma text_rev_word (a : str) x out :
    text_of (rev (rev (map (fun c => (c, [a])) x) ++ out)) = text_of (rev out) ++ x.
  Proof.
    unfold text_of. rewrite rev_app_distr, rev_involutive, map_app, map_map. cbn [fst]. rewrite map_id. reflexivity.
  Qed.

  Lemma chain_line_cons a x ws : chain_line ((a, x) :: ws) = a ++ 32 :: chain_line ws.
  Proof. unfold chain_line. cbn [map concat fst]. rewrite <- !app_assoc. reflexivity. Qed.

  Lemma chain_out_cons a x ws : chain_out ((a, x) :: ws) = x ++ 32 :: 32 :: chain_out ws.
  Proof. unfold chain_out. cbn [map concat snd]. rewrite <- !app_assoc. reflexivity. Qed.

  Lemma from_B ws : forall out prev fn,
    Forall (link_ok t) ws ->
    exists n b, iter (sstep t) n (stB out prev (chain_line ws) fn) = Fin b
                /\ text_of b = text_of (rev out) ++ 32 :: 32 :: chain_out ws.
  Proof.
    induction ws as [|[a x] ws IH]; intros out prev fn Hok.
    - exists 2%nat. eexists. split.
      + cbn [iter]. unfold chain_line. cbn [map concat app]. rewrite step_newline_B, step_eof. reflexivity.
      + rewrite !text_rev_cons, <- !app_assoc. reflexivity.
    - pose proof (Forall_inv Hok) as (Ha & Hx & Hlx & al & Hl & Hv). cbn [fst snd] in *.
      pose proof (Forall_inv_tail Hok) as Hok'.
      rewrite chain_line_cons.
      destruct (IH (rev (map (fun c => (c, [a])) x) ++ (32, []) :: (32, [prev]) :: out) a false Hok') as (n & b & Hn & Hb).
      exists (S (S n)), b. split.
      + cbn [iter]. rewrite (step_alias_B out prev a x (chain_line ws) fn al Ha Hl Hv (pw_nonempty _ Hx)).
        rewrite (step_word t _ a x (chain_line ws) true (PSimple false fn false) false (PSimple false false false) Hx Hlx eq_refl).
        exact Hn.
      + rewrite Hb, text_rev_word, !text_rev_cons, chain_out_cons, <- !app_assoc. reflexivity.
  Qed.

  Lemma from_init ws :
    Forall (link_ok t) ws ->
    exists n b, iter (sstep t) n (s_init (chain_line ws)) = Fin b /\ text_of b = chain_out ws.
  Proof.
    destruct ws as [|[a x] ws]; intros Hok.
    - exists 2%nat. eexists. split; [reflexivity|reflexivity].
    - pose proof (Forall_inv Hok) as (Ha & Hx & Hlx & al & Hl & Hv). cbn [fst snd] in *.
      pose proof (Forall_inv_tail Hok) as Hok'.
      destruct (from_B ws (rev (map (fun c => (c, [a])) x)) a true Hok') as (n & b & Hn & Hb).
      exists (S (S n)), b. split.
      + unfold s_init. rewrite chain_line_cons. cbn [iter].
        rewrite (step_alias_I a x (chain_line ws) al Ha Hl Hv (pw_nonempty _ Hx)).
        rewrite (step_word t _ a x (chain_line ws) false PCmd true (PSimple false true false) Hx Hlx eq_refl).
        rewrite app_nil_r. exact Hn.
      + rewrite Hb, chain_out_cons. unfold text_of at 1. rewrite rev_involutive, map_map. cbn [fst]. rewrite map_id. reflexivity.
  Qed.

  (* enough fuel: a run that ends after n steps ends the same way with any fuel that does not run out *)
  Lemma iter_fin_stable {A R} (step : A -> outcome A R) n m s r :
    iter step n s = Fin r -> (forall s', iter step m s <> Cont s') -> iter step m s = Fin r.
  Proof.
    intros Hn Hm. destruct (Nat.le_ge_cases m n) as [Hle|Hge].
    - replace n with (m + (n - m))%nat in Hn by lia. rewrite iter_add in Hn.
      destruct (iter step m s) as [s'| |] eqn:E; cbn [bind] in Hn; auto. exfalso. eapply Hm; eauto.
    - replace m with (n + (m - n))%nat by lia. rewrite iter_add, Hn. reflexivity.
  Qed.

  Theorem chain_substituted ws :
    Forall (link_ok t) ws ->
    exists b, spec_run t (chain_line ws) = RFin b /\ text_of b = chain_out ws.
  Proof.
    intros Hok. destruct (from_init ws Hok) as (n & b & Hn & Hb). exists b. split; [|exact Hb].
    pose proof (spec_terminates t (chain_line ws)) as Ht. unfold spec_run, run in *. rewrite loop_iter in *.
    rewrite (iter_fin_stable _ n _ _ b Hn); [reflexivity|].
    intros s' E. rewrite E in Ht. congruence.
  Qed.

  Theorem chain_substituted_model ws :
    Forall (link_ok t) ws ->
    exists mb, model_run t (chain_line ws) = RFin mb /\ map b_ch mb = chain_out ws.
  Proof.
    intros Hok. destruct (chain_substituted ws Hok) as (b & Hs & Hb).
    pose proof (model_refines_spec t (chain_line ws)) as E. rewrite Hs in E.
    destruct (model_run t (chain_line ws)) as [mb| |]; cbn in E; try discriminate.
    exists mb. split; [reflexivity|]. inversion E; subst. rewrite <- Hb. unfold text_of, observe. rewrite map_map. reflexivity.
  Qed.
End Chain2.

(* non-vacuity: a chain of three aliases *)
Example chain_example_ok :
  let t := [mkAlias [97] [120; 32] false; mkAlias [98] [121; 32] false; mkAlias [99] [122; 32] true] in
  Forall (link_ok t) [([97], [120]); ([98], [121]); ([99], [122])].
Proof.
  assert (P : forall c, In c [97; 98; 99; 120; 121; 122] -> plain_word [c]).
  { intros c Hc. cbn in Hc. repeat destruct Hc as [<-|Hc]; try contradiction;
      (constructor; [discriminate|reflexivity|reflexivity|reflexivity]). }
  cbv zeta. repeat constructor; cbn [fst snd]; try (apply P; cbn; tauto);
    try (eexists; split; reflexivity).
Qed.

Example chain_example_run :
  let t := [mkAlias [97] [120; 32] false; mkAlias [98] [121; 32] false; mkAlias [99] [122; 32] true] in
  match spec_run t (chain_line [([97], [120]); ([98], [121]); ([99], [122])]) with
  | RFin b => text_of b = [120; 32; 32; 121; 32; 32; 122; 32; 32; 10]
  | _ => False
  end.
Proof. vm_compute. reflexivity. Qed.
