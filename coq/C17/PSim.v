(* C17 — the model (lexer buffer with origin chains, in-place splice, backward
   scan for a blank-ending alias) computes exactly what the specification
   (stack of pending texts, forward flag) computes: a step-by-step simulation. *)
From Yv Require Import Common.Base C17.Model C17.Spec C17.PList C17.PLoop C17.PLex C17.PMeasure.
From Coq Require Import Lia PeanoNat.
Local Open Scope N_scope.

(* ------------------------------------------------------------------ *)
(** * The buffer that corresponds to a stack of pending texts *)

Fixpoint flat_b (st : list frame) (base : list N) : list bchar :=
  match st with
  | [] => tag [] base
  | f :: st' => tag (names st) (f_rest f) ++ flat_b st' base
  end.

Lemma map_ch_tag ch v : map b_ch (tag ch v) = v.
Proof. unfold tag. rewrite map_map. cbn. apply map_id. Qed.

Lemma flat_b_chars st base : map b_ch (flat_b st base) = flat st base.
Proof.
  unfold flat. induction st as [|f st IH]; cbn [flat_b map concat].
  - rewrite map_ch_tag. reflexivity.
  - rewrite map_app, map_ch_tag, IH, app_assoc. reflexivity.
Qed.

Lemma observe_tag ch v : observe (tag ch v) = map (fun c => (c, ch)) v.
Proof. unfold observe, tag. rewrite map_map. reflexivity. Qed.

Lemma flat_b_obs st base : observe (flat_b st base) = flat_obs st base.
Proof.
  induction st as [|f st IH]; cbn [flat_b flat_obs].
  - apply observe_tag.
  - unfold observe in *. rewrite map_app. fold (observe (tag (names (f :: st)) (f_rest f))).
    rewrite observe_tag, IH. reflexivity.
Qed.

Lemma flat_cons f st base : flat (f :: st) base = f_rest f ++ flat st base.
Proof. unfold flat. cbn. rewrite app_assoc. reflexivity. Qed.

Definition hd_delim (l : list N) : Prop :=
  match l with [] => True | d :: _ => is_delim d = true end.

Definition frame_ok (t : table) (f : frame) : Prop :=
  exists a p, lookup t (f_name f) = Some a /\ f_blank f = ends_blank (a_value a) /\ a_value a = p ++ f_rest f.

Definition top_ok (st : list frame) : Prop :=
  match st with [] => True | f :: _ => f_rest f <> [] end.

Definition all_delim (st : list frame) (base : list N) : Prop :=
  Forall (fun f => hd_delim (f_rest f)) st /\ hd_delim base.

Definition delim_below (st : list frame) (base : list N) : Prop :=
  match st with [] => True | _ :: st' => all_delim st' base end.

Definition dead_ok (st : list frame) : Prop :=
  Forall (fun f => f_rest f = [] -> f_blank f = false) st.

Definition last_ok (pre : list bchar) (st : list frame) (base : list N) : Prop :=
  match pre with
  | x :: _ =>
      match b_chain x with
      | b :: _ => ~ In b (names st) -> hd_delim (flat st base)
      | [] => True
      end
  | [] => True
  end.

Record Rel (t : table) (m : mstate) (s : sstate) : Prop := mkRel {
  r_out : observe (m_pre m) = s_out s;
  r_suf : m_suf m = flat_b (s_stack s) (s_base s);
  r_ps : m_ps m = s_ps s;
  r_flag : s_flag s = after_blank_alias t (m_pre m) (head_chain (m_suf m));
  r_nodup : NoDup (names (s_stack s));
  r_top : top_ok (s_stack s);
  r_frames : Forall (frame_ok t) (s_stack s);
  r_delim : delim_below (s_stack s) (s_base s);
  r_dead : dead_ok (tl (s_stack s));
  r_last : last_ok (m_pre m) (s_stack s) (s_base s)
}.

(* ------------------------------------------------------------------ *)
(** * pop_done *)

Lemma pop_done_spec st : forall fl st2 fl2, pop_done st fl = (st2, fl2) ->
  exists popped, st = popped ++ st2 /\ Forall (fun f => f_rest f = []) popped /\ top_ok st2
                 /\ fl2 = fl || existsb f_blank popped.
Proof.
  induction st as [|f st IH]; intros fl st2 fl2; cbn [pop_done].
  - intros E; inversion E; subst. exists []. cbn. rewrite orb_false_r. auto.
  - destruct (f_rest f) as [|c r] eqn:Er.
    + intros E. destruct (IH _ _ _ E) as (pp & -> & Hp & Ht & ->).
      exists (f :: pp). cbn. repeat split; auto. rewrite orb_assoc. reflexivity.
    + intros E; inversion E; subst. exists []. cbn. rewrite orb_false_r, Er. repeat split; auto. discriminate.
Qed.

Lemma flat_b_popped popped st base :
  Forall (fun f => f_rest f = []) popped -> flat_b (popped ++ st) base = flat_b st base.
Proof.
  induction popped as [|f pp IH]; intros H; [reflexivity|].
  inversion H; subst. cbn [app flat_b]. rewrite H2. cbn. apply IH; auto.
Qed.

Lemma flat_popped popped st base :
  Forall (fun f => f_rest f = []) popped -> flat (popped ++ st) base = flat st base.
Proof.
  intros H. rewrite <- !flat_b_chars, flat_b_popped; auto.
Qed.

Lemma existsb_dead popped : dead_ok popped -> Forall (fun f => f_rest f = []) popped -> existsb f_blank popped = false.
Proof.
  induction popped as [|f pp IH]; intros Hd He; [reflexivity|].
  inversion Hd; subst. inversion He; subst. cbn. rewrite (H1 H3). apply IH; auto.
Qed.

Lemma names_app a b : names (a ++ b) = names a ++ names b.
Proof. apply map_app. Qed.

Lemma NoDup_app_r {A} (l1 l2 : list A) : NoDup (l1 ++ l2) -> NoDup l2.
Proof. induction l1; cbn; auto. intros H; inversion H; auto. Qed.

Lemma Forall_app_r {A} (P : A -> Prop) l1 l2 : Forall P (l1 ++ l2) -> Forall P l2.
Proof. intros H. apply Forall_app in H. tauto. Qed.

Lemma head_chain_flat_b st base : top_ok st ->
  head_chain (flat_b st base) =
  match st with
  | _ :: _ => Some (names st)
  | [] => match base with _ :: _ => Some [] | [] => None end
  end.
Proof.
  destruct st as [|f st]; cbn [top_ok flat_b].
  - intros _. destruct base; reflexivity.
  - intros H. destruct (f_rest f); [contradiction|]. reflexivity.
Qed.

(* the chain of the next unread character never mentions a popped name *)
Lemma in_chain_head_flat_b n st base :
  top_ok st -> ~ In n (names st) -> in_chain n (head_chain (flat_b st base)) = false.
Proof.
  intros Ht Hn. rewrite head_chain_flat_b by auto.
  destruct st; [destruct base; reflexivity|]. cbn [in_chain]. apply mem_str_false; auto.
Qed.

Lemma in_chain_head_flat_b_in n st base :
  top_ok st -> In n (names st) -> in_chain n (head_chain (flat_b st base)) = true.
Proof.
  intros Ht Hn. rewrite head_chain_flat_b by auto.
  destruct st; [contradiction|]. cbn [in_chain]. apply mem_str_In; auto.
Qed.

Lemma all_delim_hd st base : all_delim st base -> hd_delim (flat st base).
Proof.
  intros [H1 H2]. induction st as [|f st IH].
  - exact H2.
  - inversion H1; subst. rewrite flat_cons. destruct (f_rest f); cbn; auto.
Qed.

Lemma ends_blank_last p c : ends_blank (p ++ [c]) = is_blank c.
Proof. unfold ends_blank. rewrite rev_app_distr. reflexivity. Qed.

Lemma frame_ok_blank t f : frame_ok t f -> f_blank f = alias_ends_blank t (f_name f).
Proof. intros (a & p & Hl & Hb & _). unfold alias_ends_blank. rewrite Hl. exact Hb. Qed.

(* ------------------------------------------------------------------ *)
(** * Reading one character *)

Definition mark1 (mk : bool) (x : bchar) : bchar := mkB (b_ch x) (b_lc x || mk) (b_chain x).

Lemma observe_cons x l : observe (x :: l) = (b_ch x, b_chain x) :: observe l.
Proof. reflexivity. Qed.

Lemma mark1_fresh mk c ch : mark1 mk (mkB c false ch) = mkB c mk ch.
Proof. reflexivity. Qed.

Lemma aba_cons t c mk ch pre next :
  after_blank_alias t (mkB c mk ch :: pre) next =
  if negb (mk || is_blank c) then false
  else match ch with
       | a :: _ => if alias_ends_blank t a && negb (in_chain a next) then true
                   else after_blank_alias t pre (Some ch)
       | [] => after_blank_alias t pre (Some [])
       end.
Proof. reflexivity. Qed.

Lemma tag_cons ch c v : tag ch (c :: v) = mkB c false ch :: tag ch v.
Proof. reflexivity. Qed.

Lemma read1_rel t pre x suf ps s mk :
  Rel t (mkM pre (x :: suf) ps) s ->
  Rel t (mkM (mark1 mk x :: pre) suf ps) (read1 mk s).
Proof.
  intros [Ho Hs Hp Hf Hn Ht Hfr Hd Hdd Hl]. cbn [m_pre m_suf m_ps] in *.
  unfold read1. destruct (s_stack s) as [|f st'] eqn:Est.
  - (* the original line *)
    cbn [flat_b] in Hs. destruct (s_base s) as [|c r] eqn:Eb; [discriminate|].
    rewrite tag_cons in Hs. inversion Hs; subst x suf. clear Hs. rewrite mark1_fresh.
    constructor; cbn [m_pre m_suf m_ps s_out s_stack s_base s_flag s_ps flat_b tl].
    + rewrite observe_cons, Ho. reflexivity.
    + reflexivity.
    + exact Hp.
    + rewrite aba_cons. unfold keeps_flag.
      destruct (mk || is_blank c); cbn [negb]; [|reflexivity].
      rewrite Hf. reflexivity.
    + constructor.
    + exact I.
    + constructor.
    + exact I.
    + constructor.
    + exact I.
  - (* the value of an alias *)
    cbn [top_ok] in Ht. destruct (f_rest f) as [|c r] eqn:Er; [contradiction|].
    cbn [flat_b] in Hs. rewrite Er, tag_cons in Hs. cbn [app] in Hs. inversion Hs; subst x suf. clear Hs.
    rewrite mark1_fresh.
    set (f' := mkF (f_name f) r (f_blank f)).
    assert (Hnames : names (f' :: st') = names (f :: st')) by reflexivity.
    pose proof (Forall_inv Hfr) as Hf0. pose proof (Forall_inv_tail Hfr) as Hfr'.
    assert (Hf'ok : frame_ok t f').
    { destruct Hf0 as (a & p & H1 & H2 & H3). exists a, (p ++ [c]). cbn [f_name f_blank f_rest f'].
      repeat split; auto. rewrite H3, Er, <- app_assoc. reflexivity. }
    destruct (pop_done (f' :: st') (if keeps_flag mk c then s_flag s else false)) as [st2 fl2] eqn:Epop.
    destruct (pop_done_spec _ _ _ _ Epop) as (pp & Hsplit & Hpp & Htop2 & Hfl2).
    cbn [names map] in Hn. pose proof (proj1 (NoDup_cons_iff _ _) Hn) as [Hnotin Hnd'].
    destruct r as [|c2 r2] eqn:Err.
    + (* the value has been read completely *)
      destruct pp as [|f0 pp'].
      { exfalso. cbn in Hsplit. subst st2. cbn in Htop2. apply Htop2. reflexivity. }
      cbn [app] in Hsplit. injection Hsplit as Hf0eq Hst'. subst f0. subst st'.
      pose proof (Forall_inv_tail Hpp) as Hpp'.
      assert (Hdead_pp : existsb f_blank pp' = false).
      { apply existsb_dead; auto. cbn [tl] in Hdd. apply Forall_app in Hdd. tauto. }
      assert (Hnot2 : ~ In (f_name f) (names st2)).
      { intros Hin. apply Hnotin. fold (names (pp' ++ st2)). rewrite names_app. apply in_or_app; auto. }
      constructor; cbn [m_pre m_suf m_ps s_out s_stack s_base s_flag s_ps].
      * rewrite observe_cons, Ho. reflexivity.
      * cbn [app tag map]. rewrite flat_b_popped; auto.
      * exact Hp.
      * rewrite Hfl2. cbn [existsb f_blank f']. rewrite Hdead_pp, orb_false_r.
        rewrite aba_cons. cbn [names map tag app]. unfold keeps_flag.
        rewrite flat_b_popped by auto.
        rewrite (in_chain_head_flat_b _ _ _ Htop2 Hnot2). cbn [negb]. rewrite andb_true_r.
        rewrite <- (frame_ok_blank _ _ Hf0).
        destruct Hf0 as (a & p & H1 & H2 & H3). rewrite Er in H3.
        assert (Hbc : f_blank f = is_blank c) by (rewrite H2, H3; apply ends_blank_last).
        destruct (mk || is_blank c) eqn:Ek; cbn [negb].
        -- destruct (f_blank f); [apply orb_true_r|]. rewrite orb_false_r.
           rewrite Hf. cbn [head_chain flat_b]. reflexivity.
        -- apply orb_false_iff in Ek. destruct Ek as [_ Ek]. rewrite Hbc, Ek. reflexivity.
      * fold (names (pp' ++ st2)) in Hnd'. rewrite names_app in Hnd'. apply NoDup_app_r in Hnd'. exact Hnd'.
      * exact Htop2.
      * apply Forall_app_r in Hfr'. exact Hfr'.
      * cbn [delim_below] in Hd. destruct Hd as [Hd1 Hd2].
        apply Forall_app_r in Hd1. destruct st2; cbn; auto. split; auto. exact (Forall_inv_tail Hd1).
      * cbn [tl] in Hdd. apply Forall_app_r in Hdd. destruct st2; [constructor|].
        cbn [tl]. exact (Forall_inv_tail Hdd).
      * cbn [last_ok b_chain names map]. intros _.
        cbn [delim_below] in Hd. rewrite <- (flat_popped pp' st2 (s_base s)) by auto.
        apply all_delim_hd; auto.
    + (* more of the value is left *)
      destruct pp as [|f0 pp'].
      2:{ exfalso. cbn [app] in Hsplit. injection Hsplit as Hf0eq _. subst f0.
          pose proof (Forall_inv Hpp) as Hrest0. cbn in Hrest0. discriminate. }
      cbn [app] in Hsplit. subst st2. cbn [existsb] in Hfl2. rewrite orb_false_r in Hfl2.
      constructor; cbn [m_pre m_suf m_ps s_out s_stack s_base s_flag s_ps].
      * rewrite observe_cons, Ho. reflexivity.
      * cbn [flat_b f_rest f']. reflexivity.
      * exact Hp.
      * rewrite Hfl2. rewrite aba_cons. cbn [names map]. unfold keeps_flag.
        destruct (mk || is_blank c); cbn [negb]; [|reflexivity].
        cbn [flat_b f_rest f' app tag map head_chain b_chain names in_chain].
        assert (Hm : mem_str (f_name f) (f_name f :: names st') = true) by (apply mem_str_In; left; reflexivity).
        cbn [f_name f']. rewrite Hm. cbn [negb]. rewrite andb_false_r.
        rewrite Hf. reflexivity.
      * exact Hn.
      * cbn. discriminate.
      * constructor; auto.
      * exact Hd.
      * exact Hdd.
      * cbn [last_ok b_chain names map f_name f']. intros Hni. exfalso. apply Hni. left; reflexivity.
Qed.

(* ------------------------------------------------------------------ *)
(** * Reading several characters *)

Lemma read_empty marks : forall s, s_stack s = [] -> s_base s = [] -> read marks s = s.
Proof.
  induction marks as [|m marks IH]; intros s H1 H2; [reflexivity|].
  cbn [read]. assert (E : read1 m s = s) by (unfold read1; rewrite H1, H2; reflexivity).
  rewrite E. apply IH; auto.
Qed.

Lemma rel_empty_input t pre ps s : Rel t (mkM pre [] ps) s -> s_stack s = [] /\ s_base s = [].
Proof.
  intros H. pose proof (r_suf _ _ _ H) as Hs. pose proof (r_top _ _ _ H) as Ht. cbn [m_suf] in Hs.
  destruct (s_stack s) as [|f st].
  - split; auto. cbn in Hs. destruct (s_base s); [reflexivity|discriminate].
  - cbn [top_ok] in Ht. cbn [flat_b] in Hs. destruct (f_rest f); [contradiction|discriminate].
Qed.

Lemma shift_rel t marks : forall pre suf ps s,
  Rel t (mkM pre suf ps) s ->
  Rel t (mkM (fst (shift marks pre suf)) (snd (shift marks pre suf)) ps) (read marks s).
Proof.
  induction marks as [|m marks IH]; intros pre suf ps s H; [exact H|].
  destruct suf as [|x suf].
  - destruct (rel_empty_input _ _ _ _ H) as [H1 H2]. rewrite read_empty by auto. exact H.
  - cbn [shift read]. apply (IH (mark1 m x :: pre) suf ps). apply read1_rel. exact H.
Qed.

Lemma set_ps_rel t pre suf ps ps' s :
  Rel t (mkM pre suf ps) s -> Rel t (mkM pre suf ps') (set_ps ps' s).
Proof.
  intros [Ho Hs Hp Hf Hn Ht Hfr Hd Hdd Hl]. constructor; cbn [m_pre m_suf m_ps set_ps s_out s_stack s_base s_flag s_ps] in *; auto.
Qed.

(* ------------------------------------------------------------------ *)
(** * Removing the word that is replaced *)

Lemma drop_names n : forall st base, names (fst (drop_input n st base)) = names st.
Proof.
  intros st; revert n; induction st as [|f st IH]; intros n base; [reflexivity|].
  cbn [drop_input]. destruct (Nat.leb n (length (f_rest f))); [reflexivity|].
  specialize (IH (n - length (f_rest f))%nat base).
  destruct (drop_input (n - length (f_rest f)) st base) as [st2 base2]. cbn [fst names map f_name] in *.
  rewrite IH. reflexivity.
Qed.

Lemma tag_length ch v : length (tag ch v) = length v.
Proof. unfold tag. apply map_length. Qed.

Lemma skipn_tag n ch v : skipn n (tag ch v) = tag ch (skipn n v).
Proof. unfold tag. apply skipn_map. Qed.

Lemma drop_flat_b : forall st n base,
  flat_b (fst (drop_input n st base)) (snd (drop_input n st base)) = skipn n (flat_b st base).
Proof.
  induction st as [|f st IH]; intros n base.
  - cbn [drop_input fst snd flat_b]. rewrite skipn_tag. reflexivity.
  - cbn [drop_input]. destruct (Nat.leb n (length (f_rest f))) eqn:En.
    + apply Nat.leb_le in En. cbn [fst snd flat_b f_rest names map f_name].
      rewrite skipn_app, tag_length, skipn_tag.
      replace (n - length (f_rest f))%nat with 0%nat by lia. reflexivity.
    + apply Nat.leb_gt in En. specialize (IH (n - length (f_rest f))%nat base).
      destruct (drop_input (n - length (f_rest f)) st base) as [st2 base2]. cbn [fst snd] in *.
      cbn [flat_b f_rest]. cbn [tag map app]. rewrite IH.
      rewrite skipn_app, tag_length. rewrite (skipn_all2 (n:=n) (tag (names (f :: st)) (f_rest f))) by (rewrite tag_length; lia). reflexivity.
Qed.

Lemma drop_frames t : forall st n base,
  Forall (frame_ok t) st -> Forall (frame_ok t) (fst (drop_input n st base)).
Proof.
  induction st as [|f st IH]; intros n base H; [constructor|].
  pose proof (Forall_inv H) as (a & p & H1 & H2 & H3). pose proof (Forall_inv_tail H) as Ht.
  cbn [drop_input]. destruct (Nat.leb n (length (f_rest f))).
  - cbn [fst]. constructor; auto. exists a, (p ++ firstn n (f_rest f)). cbn [f_name f_blank f_rest].
    repeat split; auto. rewrite <- app_assoc, firstn_skipn. exact H3.
  - specialize (IH (n - length (f_rest f))%nat base Ht).
    destruct (drop_input (n - length (f_rest f)) st base) as [st2 base2]. cbn [fst] in *.
    constructor; auto. exists a, (p ++ f_rest f). cbn [f_name f_blank f_rest].
    repeat split; auto. rewrite app_nil_r. exact H3.
Qed.

Lemma all_delim_below st base : all_delim st base -> delim_below st base.
Proof.
  destruct st as [|f st]; [intros _; exact I|]. intros [H1 H2]. split; auto. exact (Forall_inv_tail H1).
Qed.

Lemma hd_delim_app_l l1 l2 : hd_delim (l1 ++ l2) -> l1 <> [] -> hd_delim l1.
Proof. destruct l1; [intros _ H; contradiction|cbn; auto]. Qed.

Lemma drop_delim : forall st n base,
  delim_below st base -> hd_delim (skipn n (flat st base)) ->
  all_delim (fst (drop_input n st base)) (snd (drop_input n st base)).
Proof.
  induction st as [|f st IH]; intros n base Hb Hh.
  - cbn [drop_input fst snd]. split; [constructor|]. exact Hh.
  - cbn [delim_below] in Hb. destruct Hb as [Hb1 Hb2]. rewrite flat_cons in Hh.
    cbn [drop_input]. destruct (Nat.leb n (length (f_rest f))) eqn:En.
    + apply Nat.leb_le in En. cbn [fst snd]. split; auto. constructor; auto. cbn [f_rest].
      rewrite skipn_app in Hh. destruct (skipn n (f_rest f)) eqn:Es; [exact I|].
      exact Hh.
    + apply Nat.leb_gt in En.
      assert (Hh' : hd_delim (skipn (n - length (f_rest f)) (flat st base))).
      { rewrite skipn_app in Hh. rewrite skipn_all2 in Hh by lia. exact Hh. }
      specialize (IH (n - length (f_rest f))%nat base (all_delim_below _ _ (conj Hb1 Hb2)) Hh').
      destruct (drop_input (n - length (f_rest f)) st base) as [st2 base2]. cbn [fst snd] in *.
      destruct IH as [I1 I2]. split; auto. constructor; auto. exact I.
Qed.

Lemma all_first_skip P n k l1 l2 :
  all_first P n (l1 ++ l2) -> length l1 = k -> all_first P (n - k) l2.
Proof.
  intros H Hk i c Hi Hn. apply (H (k + i)%nat c); [lia|].
  rewrite nth_error_app2 by lia. replace (k + i - length l1)%nat with i by lia. exact Hn.
Qed.

Lemma frame_emptied_blank t f n base' :
  frame_ok t f -> (f_rest f = [] -> f_blank f = false) ->
  all_first nonblank n (f_rest f ++ base') -> (length (f_rest f) <= n)%nat -> f_blank f = false.
Proof.
  intros (a & p & H1 & H2 & H3) Hd Hall Hle.
  destruct (f_rest f) as [|c0 r0] eqn:Er; [auto|].
  destruct (exists_last (l := c0 :: r0) ltac:(discriminate)) as (q & c & Hq).
  rewrite H2, H3, Hq, app_assoc, ends_blank_last.
  apply (Hall (length q) c).
  - rewrite Hq, app_length in Hle. cbn in Hle. lia.
  - rewrite Hq, <- app_assoc. rewrite nth_error_app2 by lia. rewrite Nat.sub_diag. reflexivity.
Qed.

Lemma drop_dead t : forall st n base,
  dead_ok st -> Forall (frame_ok t) st -> all_first nonblank n (flat st base) ->
  dead_ok (fst (drop_input n st base)).
Proof.
  induction st as [|f st IH]; intros n base Hd Hf Hall; [constructor|].
  pose proof (Forall_inv Hd) as Hd0. pose proof (Forall_inv_tail Hd) as Hd'.
  pose proof (Forall_inv Hf) as Hf0. pose proof (Forall_inv_tail Hf) as Hf'.
  rewrite flat_cons in Hall.
  cbn [drop_input]. destruct (Nat.leb n (length (f_rest f))) eqn:En.
  - apply Nat.leb_le in En. cbn [fst]. constructor; auto. cbn [f_rest f_blank]. intros Hs.
    assert (length (f_rest f) <= n)%nat.
    { apply (f_equal (@length N)) in Hs. rewrite skipn_length in Hs. cbn in Hs. lia. }
    eapply frame_emptied_blank; eauto.
  - apply Nat.leb_gt in En.
    specialize (IH (n - length (f_rest f))%nat base Hd' Hf' (all_first_skip _ _ _ _ _ Hall eq_refl)).
    destruct (drop_input (n - length (f_rest f)) st base) as [st2 base2]. cbn [fst] in *.
    constructor; auto. cbn [f_rest f_blank]. intros _.
    eapply frame_emptied_blank; eauto. lia.
Qed.

(* ------------------------------------------------------------------ *)
(** * Substitution *)

Lemma aba_next_change t pre n1 n2 :
  (forall x rest b c', pre = x :: rest -> b_chain x = b :: c' -> alias_ends_blank t b = true ->
                       in_chain b n1 = in_chain b n2) ->
  after_blank_alias t pre n1 = after_blank_alias t pre n2.
Proof.
  intros H. destruct pre as [|x rest]; [reflexivity|]. cbn [after_blank_alias].
  destruct (negb (b_lc x || is_blank (b_ch x))); [reflexivity|].
  destruct (b_chain x) as [|b c'] eqn:Ec; [reflexivity|].
  destruct (alias_ends_blank t b) eqn:Eb; [|reflexivity].
  rewrite (H x rest b c' eq_refl Ec Eb). reflexivity.
Qed.

Lemma dead_ok_top st : top_ok st -> dead_ok (tl st) -> dead_ok st.
Proof.
  destruct st as [|f st]; [constructor|]. cbn [top_ok tl]. intros H1 H2. constructor; auto.
  intros H; contradiction.
Qed.

Lemma flat_b_length st base : length (flat_b st base) = length (flat st base).
Proof. rewrite <- flat_b_chars, map_length. reflexivity. Qed.

Lemma in_names_frame b st : In b (names st) -> exists g, In g st /\ f_name g = b.
Proof. unfold names. intros H. apply in_map_iff in H. destruct H as (g & H1 & H2). eauto. Qed.

Lemma subst_rel t pre suf ps s n nm a :
  Rel t (mkM pre suf ps) s ->
  (1 <= n)%nat -> (n <= length suf)%nat ->
  (exists c r, flat (s_stack s) (s_base s) = c :: r /\ is_delim c = false) ->
  hd_delim (skipn n (flat (s_stack s) (s_base s))) ->
  all_first nonblank n (flat (s_stack s) (s_base s)) ->
  lookup t nm = Some a -> ~ In nm (names (s_stack s)) ->
  Rel t (mkM pre (tag (a_name a :: match head_chain suf with Some c => c | None => [] end) (a_value a)
                  ++ skipn n suf) ps)
        (mkS (s_out s)
             (fst (pop_done (mkF (a_name a) (a_value a) (ends_blank (a_value a))
                             :: fst (drop_input n (s_stack s) (s_base s))) (s_flag s)))
             (snd (drop_input n (s_stack s) (s_base s)))
             (snd (pop_done (mkF (a_name a) (a_value a) (ends_blank (a_value a))
                             :: fst (drop_input n (s_stack s) (s_base s))) (s_flag s)))
             (s_ps s)).
Proof.
  intros [Ho Hs Hp Hf Hn Ht Hfr Hd Hdd Hl] Hn1 Hnle (c0 & r0 & Hflat & Hc0) HF1 HF3 Hlk Hnotin.
  cbn [m_pre m_suf m_ps] in *.
  destruct (lookup_some _ _ _ Hlk) as [Hat Hnm].
  set (C := names (s_stack s)) in *.
  (* the chain of the word's first character *)
  assert (Hhc : head_chain suf = Some C).
  { rewrite Hs, head_chain_flat_b by auto. subst C. destruct (s_stack s) as [|f st]; [|reflexivity].
    unfold flat in Hflat. cbn in Hflat. rewrite Hflat. reflexivity. }
  (* the alias of the last character read is still in progress *)
  assert (Hlast : forall x rest b c', pre = x :: rest -> b_chain x = b :: c' -> In b C).
  { intros x rest b c' -> Hb. cbn [last_ok] in Hl. rewrite Hb in Hl.
    destruct (in_dec (list_eq_dec N.eq_dec) b C) as [Hi|Hni]; [exact Hi|].
    specialize (Hl Hni). rewrite Hflat in Hl. cbn in Hl. congruence. }
  pose proof (drop_names n (s_stack s) (s_base s)) as Hnames2.
  pose proof (drop_flat_b (s_stack s) n (s_base s)) as Hflat2.
  pose proof (drop_frames t (s_stack s) n (s_base s) Hfr) as Hfr2.
  pose proof (drop_delim (s_stack s) n (s_base s) Hd HF1) as Hdel2.
  pose proof (drop_dead t (s_stack s) n (s_base s) (dead_ok_top _ Ht Hdd) Hfr HF3) as Hdead2.
  destruct (drop_input n (s_stack s) (s_base s)) as [st2 base2]. cbn [fst snd] in *.
  set (newf := mkF (a_name a) (a_value a) (ends_blank (a_value a))).
  destruct (pop_done (newf :: st2) (s_flag s)) as [st3 fl3] eqn:Epop. cbn [fst snd].
  destruct (pop_done_spec _ _ _ _ Epop) as (pp & Hsplit & Hpp & Htop3 & Hfl3).
  assert (Hnewok : frame_ok t newf).
  { exists a, []. cbn [f_name f_blank f_rest newf app]. rewrite Hnm. auto. }
  assert (Hfr_all : Forall (frame_ok t) (newf :: st2)) by (constructor; auto).
  (* what is popped at once is an empty value and words that were used up *)
  assert (Hpp_cases : (pp = [] /\ st3 = newf :: st2) \/
                      (exists pp', pp = newf :: pp' /\ st2 = pp' ++ st3 /\ a_value a = [])).
  { destruct pp as [|g pp']; [left; auto|right].
    cbn [app] in Hsplit. injection Hsplit as Hg Hst2. subst g. exists pp'. repeat split; auto.
    exact (Forall_inv Hpp). }
  assert (Hfl3' : fl3 = s_flag s).
  { rewrite Hfl3. destruct Hpp_cases as [[-> _]|(pp' & -> & Hst2 & Hv)]; [cbn; apply orb_false_r|].
    cbn [existsb newf f_blank]. rewrite Hv. cbn [ends_blank rev orb].
    rewrite existsb_dead; [apply orb_false_r| |exact (Forall_inv_tail Hpp)].
    rewrite Hst2 in Hdead2. apply Forall_app in Hdead2. tauto. }
  assert (Hflat3 : flat_b st3 base2 = tag (a_name a :: C) (a_value a) ++ skipn n suf).
  { rewrite <- (flat_b_popped pp st3 base2 Hpp), <- Hsplit. cbn [flat_b names map f_name newf f_rest].
    fold (names st2). rewrite Hnames2, Hflat2, Hs. reflexivity. }
  constructor; cbn [m_pre m_suf m_ps s_out s_stack s_base s_flag s_ps].
  - exact Ho.
  - rewrite Hhc. symmetry. exact Hflat3.
  - exact Hp.
  - rewrite Hhc, <- Hflat3, Hfl3', Hf, Hhc.
    apply aba_next_change. intros x rest b c' Hpre Hb Hbl.
    pose proof (Hlast _ _ _ _ Hpre Hb) as HbC.
    cbn [in_chain]. rewrite (proj2 (mem_str_In b C) HbC). symmetry.
    apply in_chain_head_flat_b_in; auto.
    destruct Hpp_cases as [[_ ->]|(pp' & Hppe & Hst2 & Hv)].
    + cbn [names map]. right. fold (names st2). rewrite Hnames2. exact HbC.
    + rewrite Hppe in Hpp. unfold C in HbC. rewrite <- Hnames2, Hst2, names_app in HbC. apply in_app_or in HbC. destruct HbC as [Hin|Hin]; [|exact Hin].
      exfalso. destruct (in_names_frame _ _ Hin) as (g & Hg & Hgn).
      assert (Hgpp : In g pp') by exact Hg.
      pose proof (Forall_inv_tail Hpp) as Hpp'. rewrite Forall_forall in Hpp'.
      specialize (Hpp' _ Hgpp).
      rewrite Hst2 in Hdead2, Hfr2. apply Forall_app in Hdead2. apply Forall_app in Hfr2.
      destruct Hdead2 as [Hdead2 _]. destruct Hfr2 as [Hfr2 _].
      rewrite Forall_forall in Hdead2, Hfr2.
      pose proof (Hdead2 _ Hgpp Hpp') as Hgb. rewrite (frame_ok_blank _ _ (Hfr2 _ Hgpp)), Hgn in Hgb. congruence.
  - assert (Hnd : NoDup (names (newf :: st2))).
    { cbn [names map f_name newf]. fold (names st2). rewrite Hnames2, Hnm. constructor; auto. }
    rewrite Hsplit, names_app in Hnd. apply NoDup_app_r in Hnd. exact Hnd.
  - exact Htop3.
  - rewrite Hsplit in Hfr_all. apply Forall_app_r in Hfr_all. exact Hfr_all.
  - destruct Hpp_cases as [[_ ->]|(pp' & _ & Hst2 & _)].
    + exact Hdel2.
    + apply all_delim_below. destruct Hdel2 as [D1 D2]. split; auto. rewrite Hst2 in D1. apply Forall_app_r in D1. exact D1.
  - destruct Hpp_cases as [[_ ->]|(pp' & _ & Hst2 & _)].
    + exact Hdead2.
    + rewrite Hst2 in Hdead2. apply Forall_app_r in Hdead2. destruct st3; [constructor|exact (Forall_inv_tail Hdead2)].
  - unfold last_ok. destruct pre as [|x rest]; [exact I|]. destruct (b_chain x) as [|b c'] eqn:Hb; [exact I|].
    intros Hni. pose proof (Hlast _ _ _ _ eq_refl Hb) as HbC.
    destruct Hpp_cases as [[_ ->]|(pp' & Hppeq & Hst2 & Hv)].
    + exfalso. apply Hni. cbn [names map]. right. fold (names st2). rewrite Hnames2. exact HbC.
    + rewrite <- flat_b_chars, <- (flat_b_popped pp st3 base2 Hpp), <- Hsplit.
      cbn [flat_b newf f_rest]. rewrite Hv. cbn [tag map app]. rewrite Hflat2.
      rewrite <- skipn_map, flat_b_chars. exact HF1.
Qed.

(* ------------------------------------------------------------------ *)
(** * One step *)

Lemma decide_try_word ps k a g c n : decide ps k a g = ATry c n -> is_word_kind k = true.
Proof.
  destruct k as [|kw| |o|]; try reflexivity; intros H; exfalso.
  - destruct ps; cbn in H; try discriminate.
  - destruct ps; destruct o; cbn in H; try discriminate;
      repeat match type of H with
             | context [if ?b then _ else _] => destruct b
             end; try discriminate.
  - destruct ps; cbn in H; discriminate.
Qed.

Lemma fin_obs pre suf s t ps :
  Rel t (mkM pre suf ps) s ->
  observe (rev pre ++ suf) = rev (s_out s) ++ flat_obs (s_stack s) (s_base s).
Proof.
  intros H. pose proof (r_out _ _ _ H) as Ho. pose proof (r_suf _ _ _ H) as Hs. cbn [m_pre m_suf] in Ho, Hs.
  unfold observe in *. rewrite map_app, map_rev, Ho. f_equal.
  rewrite Hs. apply flat_b_obs.
Qed.

Lemma applicable_eligible t pre suf ps s lit cmd :
  Rel t (mkM pre suf ps) s -> applicable t pre suf lit cmd = eligible t s lit cmd.
Proof.
  intros H. unfold applicable, eligible. destruct lit as [nm|]; [|reflexivity].
  pose proof (r_suf _ _ _ H) as Hs. pose proof (r_top _ _ _ H) as Ht. pose proof (r_flag _ _ _ H) as Hf.
  cbn [m_suf m_pre] in *.
  assert (E : in_chain nm (head_chain suf) = mem_str nm (names (s_stack s))).
  { rewrite Hs, head_chain_flat_b by auto. destruct (s_stack s); [destruct (s_base s)|]; reflexivity. }
  rewrite E, <- Hf. reflexivity.
Qed.

Lemma hd_delim_skipn k l :
  match nth_error l k with Some d => is_delim d = true | None => True end -> hd_delim (skipn k l).
Proof.
  intros H. assert (E : nth_error l k = nth_error (skipn k l) 0) by (rewrite nth_error_skipn, Nat.add_0_r; reflexivity).
  rewrite E in H. destruct (skipn k l); cbn in *; auto.
Qed.

Lemma read_ps marks : forall s, s_ps (read marks s) = s_ps s.
Proof.
  induction marks as [|m marks IH]; intros s; [reflexivity|]. cbn [read]. rewrite IH.
  unfold read1. destruct (s_stack s) as [|f st].
  - destruct (s_base s); reflexivity.
  - destruct (f_rest f); [reflexivity|].
    destruct (pop_done _ _). reflexivity.
Qed.

Definition same_obs (b : list bchar) (o : list (N * chain)) : Prop := observe b = o.

Lemma step_sim t m s :
  Rel t m s -> rel_outcome (Rel t) same_obs (mstep t m) (sstep t s).
Proof.
  destruct m as [pre suf ps]. intros H.
  pose proof (r_suf _ _ _ H) as Hs. pose proof (r_ps _ _ _ H) as Hp. cbn [m_suf m_ps] in Hs, Hp.
  unfold mstep, sstep. cbn [m_pre m_suf m_ps].
  assert (Hl : map b_ch suf = flat (s_stack s) (s_base s)) by (rewrite Hs; apply flat_b_chars).
  rewrite Hl. destruct (lex (flat (s_stack s) (s_base s))) as [lx|[]] eqn:El.
  2:{ cbn. unfold same_obs. eapply fin_obs; eauto. }
  2:{ exact I. }
  pose proof (shift_rel t (lx_gap lx) pre suf ps s H) as H1.
  destruct (shift (lx_gap lx) pre suf) as [pre1 suf1] eqn:Esh. cbn [fst snd] in H1.
  set (s1 := read (lx_gap lx) s) in *.
  rewrite <- Hp.
  destruct (decide_lx ps lx) as [cmd ps'|ps'| |] eqn:Ed.
  - (* ATry *)
    rewrite <- (applicable_eligible t pre1 suf1 ps s1 (lx_lit lx) cmd H1).
    destruct (applicable t pre1 suf1 (lx_lit lx) cmd) as [a|] eqn:Ea.
    + (* substitution *)
      destruct (applicable_some _ _ _ _ _ _ Ea) as (nm & Hlit & Hin & Hlk & _).
      assert (Hword : is_word_kind (lx_kind lx) = true) by (eapply decide_try_word; exact Ed).
      assert (Hk : lx_kind lx <> TEof) by (intros E; rewrite E in Hword; discriminate).
      pose proof (lex_tok_nonempty _ _ El Hk) as Hn1.
      pose proof (lex_len _ _ El) as Hlen.
      assert (Hsuf1 : suf1 = skipn (length (lx_gap lx)) suf).
      { rewrite <- (shift_suf (lx_gap lx) pre suf), Esh. reflexivity. }
      assert (Hflat1 : flat (s_stack s1) (s_base s1) = skipn (length (lx_gap lx)) (flat (s_stack s) (s_base s))).
      { rewrite <- flat_b_chars, <- (r_suf _ _ _ H1). cbn [m_suf]. rewrite Hsuf1, <- Hl. symmetry. apply skipn_map. }
      assert (Hnle : (length (lx_tok lx) <= length suf1)%nat).
      { rewrite Hsuf1, skipn_length. rewrite <- Hl, map_length in Hlen. lia. }
      assert (HF2 : exists c r, flat (s_stack s1) (s_base s1) = c :: r /\ is_delim c = false).
      { destruct (lex_word_start _ _ El Hword) as (c & Hc1 & Hc2). rewrite Hflat1.
        rewrite <- (Nat.add_0_r (length (lx_gap lx))), <- nth_error_skipn in Hc1.
        destruct (skipn (length (lx_gap lx)) (flat (s_stack s) (s_base s))) as [|c' r]; [discriminate|].
        cbn in Hc1. inversion Hc1; subst. eauto. }
      assert (HF1 : hd_delim (skipn (length (lx_tok lx)) (flat (s_stack s1) (s_base s1)))).
      { rewrite Hflat1, skipn_skipn. apply hd_delim_skipn. rewrite Nat.add_comm. exact (lex_word_end _ _ El Hword). }
      assert (HF3 : all_first nonblank (length (lx_tok lx)) (flat (s_stack s1) (s_base s1))).
      { intros i c Hi Hc. rewrite Hflat1, nth_error_skipn in Hc. exact (lex_lit_nonblank _ _ _ El Hlit i c Hi Hc). }
      assert (Hnotin : ~ In nm (names (s_stack s1))).
      { pose proof (applicable_eligible t pre1 suf1 ps s1 (lx_lit lx) cmd H1) as E. rewrite Ea in E.
        unfold eligible in E. rewrite Hlit in E. destruct (mem_str nm (names (s_stack s1))) eqn:Em; [discriminate|].
        apply mem_str_false; auto. }
      pose proof (subst_rel t pre1 suf1 ps s1 (length (lx_tok lx)) nm a H1 Hn1 Hnle HF2 HF1 HF3 Hlk Hnotin) as HR.
      destruct (drop_input (length (lx_tok lx)) (s_stack s1) (s_base s1)) as [st2 base2]. cbn [fst snd] in HR.
      destruct (pop_done (mkF (a_name a) (a_value a) (ends_blank (a_value a)) :: st2) (s_flag s1)) as [st3 fl3].
      cbn [fst snd] in HR. cbn [rel_outcome].
      pose proof (r_ps _ _ _ H1) as Hp1. cbn [m_ps] in Hp1. rewrite <- Hp1 in HR. exact HR.
    + (* the word stays *)
      pose proof (shift_rel t (lx_tok lx) pre1 suf1 ps s1 H1) as H2.
      destruct (shift (lx_tok lx) pre1 suf1) as [pre2 suf2]. cbn [fst snd] in H2.
      cbn [rel_outcome]. apply (set_ps_rel t _ _ ps). exact H2.
  - (* ATake *)
    pose proof (shift_rel t (lx_tok lx) pre1 suf1 ps s1 H1) as H2.
    destruct (shift (lx_tok lx) pre1 suf1) as [pre2 suf2]. cbn [fst snd] in H2.
    cbn [rel_outcome]. apply (set_ps_rel t _ _ ps). exact H2.
  - (* AStop *)
    cbn [rel_outcome]. unfold same_obs. eapply fin_obs; eauto.
  - exact I.
Qed.

(* ------------------------------------------------------------------ *)
(** * The whole run *)

Lemma rel_init t line : Rel t (m_init line) (s_init line).
Proof.
  constructor; cbn [m_init s_init m_pre m_suf m_ps s_out s_stack s_base s_flag s_ps flat_b tl]; auto.
  - constructor.
  - exact I.
  - exact I.
  - constructor.
  - exact I.
Qed.

Definition result_map {A B} (f : A -> B) (r : result A) : result B :=
  match r with RFin x => RFin (f x) | ROutside => ROutside | ROutOfFuel => ROutOfFuel end.

Theorem model_refines_spec t line :
  result_map observe (model_run t line) = spec_run t line.
Proof.
  unfold model_run, spec_run, run.
  pose proof (loop_sim (mstep t) (sstep t) (Rel t) same_obs (step_sim t) (fuel_of t line)
                       (m_init line) (s_init line) (rel_init t line)) as H.
  destruct (loop (mstep t) (fuel_of t line) (m_init line)), (loop (sstep t) (fuel_of t line) (s_init line));
    cbn in *; try contradiction; auto.
  unfold same_obs in H. rewrite H. reflexivity.
Qed.
