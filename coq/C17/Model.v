(* C17 — MODEL: alias substitution as yash-rs implements it.

   Anchors (under /repo):
     yash-syntax/src/parser/core.rs        Parser::substitute_alias, take_token_manual/auto, Rec
     yash-syntax/src/parser/lex/core.rs    LexerCore::{substitute_alias, is_after_blank_ending_alias}
     yash-env/src/source.rs                Source::is_alias_for
     yash-syntax/src/parser/{simple_command,command,pipeline,and_or,list,
                             compound_command,grouping,if,while_loop,for_loop,
                             case,function,redir}.rs
                                           where tokens are taken raw / manual / auto
                                           ([decide]: one state per such place)
     yash-syntax/src/parser/lex/{op,token,word,text,misc,keyword}.rs   the lexer

   The lexer buffer [LexerCore::source] is a vector of characters, each with
   the chain of aliases it came from ([Location::code::source], a linked list
   of [Source::Alias]) and the flag [is_line_continuation].  It is modelled in
   zipper form: [m_pre] is the part before [LexerCore::index] in reverse,
   [m_suf] the part from the index on.  One step of the model lexes the next
   token at the index, asks the parser-position automaton what the parser
   does with it (raw / manual / auto take) and either splices the alias value
   in place of the token and rewinds to its beginning (the
   [Rec::AliasSubstituted] restart), or moves the index behind the token.

   Not modelled (the model answers [Outside]): here-documents, $-expansions,
   backquotes, tilde words, {name}> redirections.  Syntax errors are
   not predicted in general: where the real parser stops, the harness reports
   how far the lexer got and only that prefix of the buffer is compared. *)
From Yv Require Import Common.Base.
From Coq Require String Ascii.
Local Open Scope N_scope.

(* ------------------------------------------------------------------ *)
(** * Characters *)

(* lex/core.rs is_blank: [c != '\n' && c.is_whitespace()]; the Unicode
   White_Space code points are listed explicitly (the harness compares this
   list with char::is_whitespace on every run). *)
Definition is_blank (c : N) : bool :=
  (c =? 9) || ((11 <=? c) && (c <=? 13)) || (c =? 32) || (c =? 133) || (c =? 160)
  || (c =? 5760) || ((8192 <=? c) && (c <=? 8202)) || (c =? 8232) || (c =? 8233)
  || (c =? 8239) || (c =? 8287) || (c =? 12288).

(* lex/op.rs is_operator_char: the keys of the top level of the OPERATORS trie *)
Definition is_op_char (c : N) : bool :=
  (c =? 10) || (c =? 38) || (c =? 40) || (c =? 41) || (c =? 59) || (c =? 60) || (c =? 62) || (c =? 124).

(* lex/token.rs is_token_delimiter_char *)
Definition is_delim (c : N) : bool := is_op_char c || is_blank c.

Definition mem_str (s : str) (l : list str) : bool := existsb (str_eqb s) l.

(* ------------------------------------------------------------------ *)
(** * Aliases *)

Record alias := mkAlias { a_name : str; a_value : str; a_global : bool }.
Definition table := list alias.

(* Glossary::look_up; the glossary is a hash set keyed by name *)
Fixpoint lookup (t : table) (n : str) : option alias :=
  match t with
  | [] => None
  | a :: t' => if str_eqb (a_name a) n then Some a else lookup t' n
  end.

(* lex/core.rs ends_with_blank *)
Definition ends_blank (v : str) : bool :=
  match rev v with c :: _ => is_blank c | [] => false end.

(* ------------------------------------------------------------------ *)
(** * Operators and reserved words *)

Inductive oper :=
| ONewline | OAnd | OAndAnd | OOpenParen | OCloseParen | OSemi | OSemiAnd | OSemiSemi
| OSemiSemiAnd | OSemiBar | OLess | OLessAnd | OLessOpenParen | OLessLess | OLessLessDash
| OLessLessLess | OLessGreater | OGreater | OGreaterAnd | OGreaterOpenParen | OGreaterGreater
| OGreaterGreaterBar | OGreaterBar | OBar | OBarBar.

(* top level of the OPERATORS trie *)
Definition first_op (c : N) : option oper :=
  if c =? 10 then Some ONewline else if c =? 38 then Some OAnd
  else if c =? 40 then Some OOpenParen else if c =? 41 then Some OCloseParen
  else if c =? 59 then Some OSemi else if c =? 60 then Some OLess
  else if c =? 62 then Some OGreater else if c =? 124 then Some OBar else None.

(* the sub-tries AND, SEMICOLON, SEMICOLON_SEMICOLON, LESS, LESS_LESS, GREATER,
   GREATER_GREATER, BAR: [ext o c] is the operator reached from [o] by [c] *)
Definition ext_op (o : oper) (c : N) : option oper :=
  match o with
  | OAnd => if c =? 38 then Some OAndAnd else None
  | OSemi => if c =? 38 then Some OSemiAnd else if c =? 59 then Some OSemiSemi
             else if c =? 124 then Some OSemiBar else None
  | OSemiSemi => if c =? 38 then Some OSemiSemiAnd else None
  | OLess => if c =? 38 then Some OLessAnd else if c =? 40 then Some OLessOpenParen
             else if c =? 60 then Some OLessLess else if c =? 62 then Some OLessGreater else None
  | OLessLess => if c =? 45 then Some OLessLessDash else if c =? 60 then Some OLessLessLess else None
  | OGreater => if c =? 38 then Some OGreaterAnd else if c =? 40 then Some OGreaterOpenParen
                else if c =? 62 then Some OGreaterGreater else if c =? 124 then Some OGreaterBar else None
  | OGreaterGreater => if c =? 124 then Some OGreaterGreaterBar else None
  | OBar => if c =? 124 then Some OBarBar else None
  | _ => None
  end.

(* a node whose sub-trie is not empty: operator_tail peeks one more character *)
Definition op_has_next (o : oper) : bool :=
  match o with
  | OAnd | OSemi | OSemiSemi | OLess | OLessLess | OGreater | OGreaterGreater | OBar => true
  | _ => false
  end.

Inductive keyword :=
| KBang | KDBrOpen | KDBrClose | KCase | KDo | KDone | KElif | KElse | KEsac | KFi | KFor
| KFunction | KIf | KIn | KNamespace | KSelect | KThen | KUntil | KWhile | KBraceOpen | KBraceClose.

Module Lit.
  Import String Ascii.
  Fixpoint str_of_string (s : string) : str :=
    match s with
    | EmptyString => []
    | String a s' => N_of_ascii a :: str_of_string s'
    end.
  Definition kw (x : string) : str := str_of_string x.
  Arguments kw x%string.
  Definition keyword_table : list (str * keyword) :=
    [ (kw "!", KBang); (kw "[[", KDBrOpen); (kw "]]", KDBrClose); (kw "case", KCase); (kw "do", KDo);
      (kw "done", KDone); (kw "elif", KElif); (kw "else", KElse); (kw "esac", KEsac); (kw "fi", KFi);
      (kw "for", KFor); (kw "function", KFunction); (kw "if", KIf); (kw "in", KIn);
      (kw "namespace", KNamespace); (kw "select", KSelect); (kw "then", KThen); (kw "until", KUntil);
      (kw "while", KWhile); (kw "{", KBraceOpen); (kw "}", KBraceClose) ].
End Lit.
Definition keyword_table := Lit.keyword_table.

Fixpoint assoc_str {A} (l : list (str * A)) (s : str) : option A :=
  match l with
  | [] => None
  | (k, v) :: l' => if str_eqb k s then Some v else assoc_str l' s
  end.

Definition keyword_of (s : str) : option keyword := assoc_str keyword_table s.

(* ------------------------------------------------------------------ *)
(** * The lexer (the part of it alias substitution depends on)

   All functions work on the characters from the current index on and return
   the LC marks ([true] = the character is part of a backslash-newline line
   continuation that the lexer skipped and flagged) of the characters they
   consumed, in order, and the remaining characters. *)

Definition is_lc (c d : N) : bool := (c =? 92) && (d =? 10).

(* Lexer::line_continuation as used by peek_char: skip backslash-newline pairs *)
Fixpoint skip_lc (l : list N) : list bool * list N :=
  match l with
  | c :: d :: r =>
      if is_lc c d then let '(m, r') := skip_lc r in (true :: true :: m, r') else ([], l)
  | _ => ([], l)
  end.

(* skip_blanks: blanks and line continuations *)
Fixpoint skip_blanks (l : list N) : list bool * list N :=
  match l with
  | [] => ([], [])
  | c :: r =>
      match r with
      | d :: r2 =>
          if is_lc c d then let '(m, r') := skip_blanks r2 in (true :: true :: m, r')
          else if is_blank c then let '(m, r') := skip_blanks r in (false :: m, r')
          else ([], l)
      | [] => if is_blank c then ([false], []) else ([], l)
      end
  end.

(* skip_comment: a comment ends just before the newline; line continuation is
   not recognised in it *)
Fixpoint skip_comment (l : list N) : list bool * list N :=
  match l with
  | [] => ([], [])
  | c :: r => if c =? 10 then ([], l) else let '(m, r') := skip_comment r in (false :: m, r')
  end.

(* skip_blanks_and_comment *)
Definition skip_gap (l : list N) : list bool * list N :=
  let '(gm, l1) := skip_blanks l in
  match l1 with
  | c :: _ => if c =? 35 then let '(cm, l2) := skip_comment l1 in (gm ++ cm, l2) else (gm, l1)
  | [] => (gm, l1)
  end.

(* operator_tail below the first character *)
Fixpoint op_tail (fuel : nat) (o : oper) (l : list N) : oper * list bool * list N :=
  match fuel with
  | O => (o, [], l)
  | S fuel' =>
      if op_has_next o then
        let '(m, l1) := skip_lc l in
        match l1 with
        | c :: r =>
            match ext_op o c with
            | Some o' => let '(o2, m2, r2) := op_tail fuel' o' r in (o2, m ++ false :: m2, r2)
            | None => (o, m, l1)
            end
        | [] => (o, m, l1)
        end
      else (o, [], l)
  end.

Definition falses (n : nat) : list bool := repeat false n.

(* single_quote: up to and including the closing quote; line continuation disabled *)
Fixpoint sq_body (l : list N) : option (nat * list N) :=
  match l with
  | [] => None
  | c :: r => if c =? 39 then Some (1%nat, r)
              else match sq_body r with Some (n, r') => Some (S n, r') | None => None end
  end.

Inductive lexfail := LexError | LexOutside.

(* double_quote / text(is_delimiter = '"', is_escapable = $ ` " \): up to and
   including the closing quote.  $ and ` are outside the model. *)
Definition dq_escapable (c : N) : bool := (c =? 36) || (c =? 96) || (c =? 34) || (c =? 92).

Fixpoint dq_body (fuel : nat) (l : list N) : (list bool * list N) + lexfail :=
  match fuel with
  | O => inr LexError
  | S fuel' =>
      let cont (m0 : list bool) (r : list N) :=
        match dq_body fuel' r with inl (m, r') => inl (m0 ++ m, r') | inr e => inr e end in
      match l with
      | [] => inr LexError
      | c :: r =>
          if c =? 92 then
            match r with
            | d :: r2 =>
                if d =? 10 then cont [true; true] r2            (* line continuation *)
                else if dq_escapable d then cont [false; false] r2   (* Backslashed(d) *)
                else cont [false] r                              (* Literal('\\') *)
            | [] => cont [false] []
            end
          else if c =? 34 then inl ([false], r)
          else if (c =? 36) || (c =? 96) then inr LexOutside
          else cont [false] r
      end
  end.

(* What the parser needs to know about a word token. *)
Record winfo := mkW {
  w_lit : option str;      (* Word::to_string_if_literal (built in reverse) *)
  w_units : nat;           (* number of word units so far *)
  w_assign : option (bool * nat)
    (* the first unquoted literal '=' was seen: was everything before it literal
       and non-empty (Assign::try_from), and the number of units up to and
       including it *)
}.
Definition w0 : winfo := mkW (Some []) 0 None.
Definition w_quoted (w : winfo) : winfo := mkW None (S (w_units w)) (w_assign w).
Definition w_literal (c : N) (w : winfo) : winfo :=
  mkW (match w_lit w with Some s => Some (c :: s) | None => None end)
      (S (w_units w))
      (match w_assign w with
       | Some b => Some b
       | None => if c =? 61
                 then Some (match w_lit w with Some _ => negb (Nat.eqb (w_units w) 0) | None => false end,
                            S (w_units w))
                 else None
       end).

(* WordLexer::word with is_token_delimiter_char, WordContext::Word *)
Fixpoint word_body (fuel : nat) (l : list N) (w : winfo) : (list bool * list N * winfo) + lexfail :=
  match fuel with
  | O => inr LexError
  | S fuel' =>
      let cont (m0 : list bool) (r : list N) (w' : winfo) :=
        match word_body fuel' r w' with
        | inl (m, r', w2) => inl (m0 ++ m, r', w2)
        | inr e => inr e
        end in
      match l with
      | [] => inl ([], [], w)
      | c :: r =>
          if c =? 92 then
            match r with
            | d :: r2 =>
                if d =? 10 then cont [true; true] r2 w               (* line continuation *)
                else cont [false; false] r2 (w_quoted w)           (* Backslashed(d) *)
            | [] => cont [false] [] (w_literal 92 w)               (* Literal('\\') at the end of input *)
            end
          else if c =? 39 then
            match sq_body r with
            | Some (n, r') => cont (falses (S n)) r' (w_quoted w)
            | None => inr LexError
            end
          else if c =? 34 then
            match dq_body (S (length r)) r with
            | inl (m, r') => cont (false :: m) r' (w_quoted w)
            | inr e => inr e
            end
          else if (c =? 36) || (c =? 96) then inr LexOutside
          else if is_delim c then inl ([], l, w)
          else cont [false] r (w_literal c w)
      end
  end.

Inductive tkind :=
| TWord                   (* Token(None) *)
| TKey (k : keyword)      (* Token(Some(k)) *)
| TIoNum                  (* IoNumber *)
| TOp (o : oper)          (* Operator(o) *)
| TEof.                   (* EndOfInput *)

Inductive asg := NoAsg | Asg | AsgEmpty.

Record lexed := mkLexed {
  lx_gap : list bool;      (* marks of the blanks, line continuations and comment skipped before the token *)
  lx_tok : list bool;      (* marks of the characters of the token (Token::index .. Lexer::index) *)
  lx_kind : tkind;
  lx_lit : option str;     (* to_string_if_literal of a TWord / TKey token *)
  lx_assign : asg          (* would Assign::try_from succeed, and with an empty value? *)
}.

Definition all_digits (s : str) : bool :=
  negb (Nat.eqb (length s) 0) && forallb (fun c => (48 <=? c) && (c <=? 57)) s.

Definition head_is_redir (l : list N) : bool :=
  match l with c :: _ => (c =? 60) || (c =? 62) | [] => false end.

(* Parser::require_token = skip_blanks_and_comment + Lexer::token.
   [inr LexOutside]: a construct the model does not cover ($, `, ~, {x}> ...);
   [inr LexError]: a lexical error (unclosed quotation). *)
Definition lex (l : list N) : lexed + lexfail :=
  let '(gm, l1) := skip_gap l in
  match l1 with
  | [] => inl (mkLexed gm [] TEof None NoAsg)
  | c :: r =>
      if c =? 126 then inr LexOutside
      else
        match first_op c with
        | Some o =>
            let '(o', m, _) := op_tail 3 o r in
            inl (mkLexed gm (false :: m) (TOp o') None NoAsg)
        | None =>
            match word_body (S (length l1)) l1 w0 with
            | inr e => inr e
            | inl (m, rest, w) =>
                let lit := match w_lit w with Some s => Some (rev s) | None => None end in
                let asg := match w_assign w with
                           | Some (true, n) => if Nat.eqb n (w_units w) then AsgEmpty else Asg
                           | _ => NoAsg
                           end in
                if (c =? 123) && negb (Nat.eqb (length m) 1) && head_is_redir rest then inr LexOutside
                else
                  let kind :=
                    match lit with
                    | Some s =>
                        match keyword_of s with
                        | Some k => TKey k
                        | None => if all_digits s && head_is_redir rest then TIoNum else TWord
                        end
                    | None => TWord
                    end in
                  inl (mkLexed gm m kind lit asg)
            end
        end
  end.

(* ------------------------------------------------------------------ *)
(** * Where the parser is: which take_token_* it will call on the next token *)

Inductive pstate :=
| PCmd
    (* about to parse a command: simple_command with an empty Builder, then
       compound_command, `!`, or the clause delimiter of the enclosing command *)
| PSimple (words_empty fn_ok arr_ok : bool)
    (* inside simple_command's loop, Builder not empty.  words_empty: no
       command word yet; fn_ok: the Builder holds exactly one word and nothing
       else (a `(` starts a function definition); arr_ok: the last token was an
       assignment with an empty value (a `(` directly behind it starts an array) *)
| PRedirS (words_empty : bool)   (* redirection_operand in a simple command *)
| PRedirA                        (* redirection_operand behind a compound command *)
| PAfter                         (* behind a compound command: redirections, then a separator *)
| PArray                         (* array_values: words up to `)` *)
| PFnParen                       (* short_function_definition: the `)` *)
| PFnBody                        (* short_function_definition: the body *)
| PForName                       (* for_loop_name *)
| PForIn (first_line : bool)     (* for_loop_values: `in`, `;`, `do` or newlines *)
| PForValues                     (* for_loop_values: the words *)
| PForBody                       (* for_loop_body: newlines, then `do` *)
| PCaseSubj                      (* case_command: the subject *)
| PCaseIn                        (* case_command: `in` *)
| PCasePat                       (* case_item: first pattern, `(` or `esac` *)
| PCasePat1                      (* case_item: the pattern behind `(` *)
| PCaseSep                       (* case_item: `|` or `)` *)
| PCasePat2                      (* case_item: a pattern behind `|` *)
| PErr.                          (* the token just taken is reported as a syntax error *)

Inductive action :=
| ATry (is_command_name : bool) (next : pstate)
    (* take_token_manual(is_command_name) / take_token_auto(..): substitute if
       applicable (and look at the same place again), otherwise the token is
       consumed and the parser goes to [next] *)
| ATake (next : pstate)     (* peeked and taken raw: never substituted *)
| AStop                     (* end of input, or a token on which the parser reports a syntax error *)
| AOutside.                 (* grammar the model does not cover: here-documents *)

Definition is_redir_op (o : oper) : bool :=
  match o with
  | OLess | OLessGreater | OGreater | OGreaterGreater | OGreaterBar | OLessAnd | OGreaterAnd
  | OGreaterGreaterBar | OLessLessLess => true
  | _ => false
  end.

Definition is_heredoc_op (o : oper) : bool :=
  match o with OLessLess | OLessLessDash => true | _ => false end.

(* and-or list / pipeline / list separators and the newline *)
Definition is_separator_op (o : oper) : bool :=
  match o with
  | ONewline | OAnd | OAndAnd | OSemi | OBar | OBarBar => true
  | _ => false
  end.

(* `;;` `;&` `;;&` `;|` *)
Definition is_case_cont_op (o : oper) : bool :=
  match o with
  | OSemiSemi | OSemiAnd | OSemiSemiAnd | OSemiBar => true
  | _ => false
  end.

(* simple_command after a word or assignment has been added to the Builder *)
Definition after_word (we : bool) (first : bool) (a : asg) : pstate :=
  match a with
  | NoAsg => PSimple false first false
  | Asg => if we then PSimple true false false else PSimple false false false
  | AsgEmpty => if we then PSimple true false true else PSimple false false false
  end.

(* what ends a command: separators, `)`, the case terminators; and redirections *)
Definition command_end (o : oper) : action :=
  if is_separator_op o then ATake PCmd
  else if is_case_cont_op o then ATake PCasePat
  else match o with
       | OCloseParen => ATake PAfter
       | _ => AStop
       end.

(* [gap_lc]: no blank between the previous token and this one (has_blank() = false) *)
Definition decide (ps : pstate) (k : tkind) (a : asg) (gap_lc : bool) : action :=
  match ps, k with
  | _, TEof => AStop
  | PErr, _ => AStop
  (* ---- simple_command with an empty Builder; compound_command; pipeline's `!` ---- *)
  | PCmd, TWord => ATry true (after_word true true a)
  | PCmd, TKey kw =>
      match kw with
      | KIf | KWhile | KUntil | KThen | KElse | KElif | KDo | KBraceOpen | KBang => ATake PCmd
      | KFi | KDone | KBraceClose | KEsac => ATake PAfter
      | KFor => ATake PForName
      | KCase => ATake PCaseSubj
      | KFunction | KDBrOpen | KDBrClose | KIn | KNamespace | KSelect => AStop
      end
  | PCmd, TIoNum => ATake PCmd
  | PCmd, TOp o =>
      if is_redir_op o then ATake (PRedirS true)
      else if is_heredoc_op o then AOutside
      else match o with
           | ONewline => ATake PCmd
           | OOpenParen => ATake PCmd
           | OCloseParen => ATake PAfter
           | _ => if is_case_cont_op o then ATake PCasePat else AStop
           end
  (* ---- simple_command, Builder not empty ---- *)
  | PSimple we fn arr, (TWord | TKey _) => ATry we (after_word we false a)
  | PSimple we fn arr, TIoNum => ATake (PSimple we false false)
  | PSimple we fn arr, TOp o =>
      if is_redir_op o then ATake (PRedirS we)
      else if is_heredoc_op o then AOutside
      else match o with
           | OOpenParen =>
               if arr && gap_lc then ATake PArray
               else if fn then ATake PFnParen
               else AStop
           | _ => command_end o
           end
  (* ---- redirection_operand: take_token_auto(&[]) ---- *)
  | PRedirS we, (TWord | TKey _) => ATry false (PSimple we false false)
  | PRedirS we, TIoNum => ATake (PSimple we false false)
  | PRedirS _, TOp _ => AStop
  | PRedirA, (TWord | TKey _) => ATry false PAfter
  | PRedirA, TIoNum => ATake PAfter
  | PRedirA, TOp _ => AStop
  (* ---- behind a compound command ---- *)
  | PAfter, TOp o =>
      if is_redir_op o then ATake PRedirA
      else if is_heredoc_op o then AOutside
      else command_end o
  | PAfter, TIoNum => ATake PAfter
  | PAfter, TKey kw =>
      match kw with
      | KThen | KElse | KElif | KDo => ATake PCmd
      | KFi | KDone | KBraceClose | KEsac => ATake PAfter
      | _ => AStop
      end
  | PAfter, TWord => AStop
  (* ---- array_values: take_token_auto(&[]) ---- *)
  | PArray, (TWord | TKey _) => ATry false PArray
  | PArray, TOp ONewline => ATake PArray
  | PArray, TOp OCloseParen => ATake (PSimple true false false)
  | PArray, _ => AStop
  (* ---- short_function_definition ---- *)
  | PFnParen, (TWord | TKey _) => ATry false PErr
  | PFnParen, TOp OCloseParen => ATake PFnBody
  | PFnParen, _ => AStop
  | PFnBody, TOp ONewline => ATake PFnBody
  | PFnBody, TOp OOpenParen => ATake PCmd
  | PFnBody, TKey (KBraceOpen | KIf | KWhile | KUntil) => ATake PCmd
  | PFnBody, TKey KFor => ATake PForName
  | PFnBody, TKey KCase => ATake PCaseSubj
  | PFnBody, (TWord | TKey _) => ATry false PErr
  | PFnBody, _ => AStop
  (* ---- for_loop ---- *)
  | PForName, (TWord | TKey _) => ATry false (PForIn true)
  | PForName, TIoNum => ATake (PForIn true)
  | PForName, TOp _ => AStop
  | PForIn fl, TOp OSemi => if fl then ATake PForBody else AStop
  | PForIn _, TKey KDo => ATake PCmd
  | PForIn _, TOp ONewline => ATake (PForIn false)
  | PForIn _, TKey KIn => ATake PForValues
  | PForIn _, (TWord | TKey _) => ATry false PErr
  | PForIn _, _ => AStop
  | PForValues, (TWord | TKey _) => ATry false PForValues
  | PForValues, TIoNum => ATake PForValues
  | PForValues, TOp (OSemi | ONewline) => ATake PForBody
  | PForValues, TOp _ => AStop
  | PForBody, TOp ONewline => ATake PForBody
  | PForBody, TKey KDo => ATake PCmd
  | PForBody, (TWord | TKey _) => ATry false PErr
  | PForBody, _ => AStop
  (* ---- case_command / case_item ---- *)
  | PCaseSubj, (TWord | TKey _) => ATry false PCaseIn
  | PCaseSubj, _ => AStop
  | PCaseIn, TOp ONewline => ATake PCaseIn
  | PCaseIn, TKey KIn => ATake PCasePat
  | PCaseIn, (TWord | TKey _) => ATry false PErr
  | PCaseIn, _ => AStop
  | PCasePat, TOp ONewline => ATake PCasePat
  | PCasePat, TKey KEsac => ATake PAfter
  | PCasePat, (TWord | TKey _) => ATry false PCaseSep
  | PCasePat, TOp OOpenParen => ATake PCasePat1
  | PCasePat, _ => AStop
  | PCasePat1, TKey KEsac => ATake PCaseSep
  | PCasePat1, (TWord | TKey _) => ATry false PCaseSep
  | PCasePat1, _ => AStop
  | PCaseSep, TOp OCloseParen => ATake PCmd
  | PCaseSep, TOp OBar => ATake PCasePat2
  | PCaseSep, (TWord | TKey _) => ATry false PErr
  | PCaseSep, _ => AStop
  | PCasePat2, (TWord | TKey _) => ATry false PCaseSep
  | PCasePat2, _ => AStop
  end.

Definition decide_lx (ps : pstate) (lx : lexed) : action :=
  decide ps (lx_kind lx) (lx_assign lx) (forallb (fun m => m) (lx_gap lx)).

(* ------------------------------------------------------------------ *)
(** * The buffer *)

Definition chain := list str.      (* alias names, innermost first *)
Record bchar := mkB { b_ch : N; b_lc : bool; b_chain : chain }.

(* Source::is_alias_for on the source of an optional character *)
Definition in_chain (n : str) (c : option chain) : bool :=
  match c with Some l => mem_str n l | None => false end.

Definition alias_ends_blank (t : table) (n : str) : bool :=
  match lookup t n with Some a => ends_blank (a_value a) | None => false end.

(* LexerCore::is_after_blank_ending_alias(index): [rp] is the buffer before
   [index] in reverse, [next] the chain of the character behind the one under
   inspection ([self.source.get(index + 1)]). *)
Fixpoint after_blank_alias (t : table) (rp : list bchar) (next : option chain) : bool :=
  match rp with
  | [] => false
  | x :: rp' =>
      if negb (b_lc x || is_blank (b_ch x)) then false
      else
        match b_chain x with
        | a :: _ =>
            if alias_ends_blank t a && negb (in_chain a next) then true
            else after_blank_alias t rp' (Some (b_chain x))
        | [] => after_blank_alias t rp' (Some [])
        end
  end.

Record mstate := mkM { m_pre : list bchar; m_suf : list bchar; m_ps : pstate }.

(* move [marks] characters from the front of [suf] onto [pre], flagging them *)
Fixpoint shift (marks : list bool) (pre suf : list bchar) : list bchar * list bchar :=
  match marks, suf with
  | m :: marks', x :: suf' => shift marks' (mkB (b_ch x) (b_lc x || m) (b_chain x) :: pre) suf'
  | _, _ => (pre, suf)
  end.

Definition head_chain (suf : list bchar) : option chain :=
  match suf with x :: _ => Some (b_chain x) | [] => None end.

(* Parser::substitute_alias: the alias to substitute for the token at the front of [suf], if any *)
Definition applicable (t : table) (pre suf : list bchar) (lit : option str) (is_cmd : bool) : option alias :=
  match lit with
  | None => None
  | Some nm =>
      if in_chain nm (head_chain suf) then None
      else match lookup t nm with
           | None => None
           | Some a =>
               if is_cmd || a_global a || after_blank_alias t pre (head_chain suf) then Some a else None
           end
  end.

Definition tag (ch : chain) (v : str) : list bchar := map (fun c => mkB c false ch) v.

Inductive outcome (A R : Type) := Cont (s : A) | Fin (r : R) | Outside.
Arguments Cont {A R}. Arguments Fin {A R}. Arguments Outside {A R}.

Definition mstep (t : table) (s : mstate) : outcome mstate (list bchar) :=
  match lex (map b_ch (m_suf s)) with
  | inr LexOutside => Outside
  | inr LexError => Fin (rev (m_pre s) ++ m_suf s)     (* a lexical error ends parsing *)
  | inl lx =>
      let '(pre1, suf1) := shift (lx_gap lx) (m_pre s) (m_suf s) in
      match decide_lx (m_ps s) lx with
      | AOutside => Outside
      | AStop => Fin (rev pre1 ++ suf1)
      | ATake ps' =>
          let '(pre2, suf2) := shift (lx_tok lx) pre1 suf1 in
          Cont (mkM pre2 suf2 ps')
      | ATry is_cmd ps' =>
          match applicable t pre1 suf1 (lx_lit lx) is_cmd with
          | Some a =>
              (* LexerCore::substitute_alias: splice, index := begin *)
              let ch := a_name a :: match head_chain suf1 with Some c => c | None => [] end in
              Cont (mkM pre1 (tag ch (a_value a) ++ skipn (length (lx_tok lx)) suf1) (m_ps s))
          | None =>
              let '(pre2, suf2) := shift (lx_tok lx) pre1 suf1 in
              Cont (mkM pre2 suf2 ps')
          end
      end
  end.

(* ------------------------------------------------------------------ *)
(** * Iteration with binary fuel *)

Inductive result (R : Type) := RFin (r : R) | ROutside | ROutOfFuel.
Arguments RFin {R}. Arguments ROutside {R}. Arguments ROutOfFuel {R}.

Section Loop.
  Context {A R : Type} (step : A -> outcome A R).

  (* [loop p s] performs up to [p] steps *)
  Fixpoint loop (p : positive) (s : A) : outcome A R :=
    match p with
    | xH => step s
    | xO p' => match loop p' s with Cont s' => loop p' s' | o => o end
    | xI p' =>
        match step s with
        | Cont s1 => match loop p' s1 with Cont s2 => loop p' s2 | o => o end
        | o => o
        end
    end.

  Definition run (p : positive) (s : A) : result R :=
    match loop p s with
    | Cont _ => ROutOfFuel
    | Fin r => RFin r
    | Outside => ROutside
    end.
End Loop.

(* the measure's weight base: one more than the longest alias value *)
Definition max_value_len (t : table) : nat :=
  fold_right (fun a m => Nat.max (length (a_value a)) m) 0%nat t.

Definition fuel_of (t : table) (line : str) : positive :=
  N.succ_pos (N.of_nat (S (length line)) * (N.of_nat (S (max_value_len t))) ^ (N.of_nat (length t))).

Definition m_init (line : str) : mstate := mkM [] (tag [] line) PCmd.

Definition model_run (t : table) (line : str) : result (list bchar) :=
  run (mstep t) (fuel_of t line) (m_init line).

(* what is compared with the implementation: characters with their chains *)
Definition observe (b : list bchar) : list (N * chain) := map (fun x => (b_ch x, b_chain x)) b.
