(* C17 — what the correspondence check evaluates on every case. *)
From Yv Require Export Common.Base C17.Model C17.Spec.
Local Open Scope N_scope.

(* What the harness observed on the real parser:
     status   0 = the whole input was parsed, 1 = the parser reported a syntax
              error, 2 = the alias look-up budget was exhausted (no
              termination), 3 = panic, 10 = a case of the nested-program
              stream (executed only, see run_case)
     lexed    number of characters the lexer had consumed when parsing stopped
     segs     the lexer's buffer after parsing, as runs of characters with the
              same chain of alias origins (indices into the alias table,
              innermost first)
     tree     the parsed command lines printed (with aliases); tree_plain: the
              command lines parsed from the buffer text without any alias
              (after a syntax error: from the consumed part of the buffer; the
              lines completed before the error have to be the same)
     trace    executed probe trace with the aliases defined through the shell /
              trace of the buffer text executed without aliases (empty if the
              case was not executed) *)
Definition impl_out : Type :=
  (N * nat * list (list nat * str) * (str * str) * (str * str))%type.

Definition case : Type := (list (str * str * bool) * str * impl_out)%type.

Definition table_of (l : list (str * str * bool)) : table :=
  map (fun x => mkAlias (fst (fst x)) (snd (fst x)) (snd x)) l.

Definition chain_of (t : table) (idx : list nat) : chain :=
  map (fun i => match nth_error t i with Some a => a_name a | None => [] end) idx.

Definition unsegment (t : table) (segs : list (list nat * str)) : list (N * chain) :=
  flat_map (fun sg => map (fun c => (c, chain_of t (fst sg))) (snd sg)) segs.

Definition names_unique (t : table) : bool := nodup_str (map a_name t).

(* When the parser reported a syntax error it stopped reading: only the part
   of the buffer the lexer had consumed ([lexed] characters) is compared, and
   the model and the specification are run up to that point. *)
Definition mstep_upto (t : table) (k : nat) (s : mstate) : outcome mstate (list bchar) :=
  if Nat.leb k (length (m_pre s)) then Fin (rev (m_pre s) ++ m_suf s) else mstep t s.
Definition sstep_upto (t : table) (k : nat) (s : sstate) : outcome sstate (list (N * chain)) :=
  if Nat.leb k (length (s_out s)) then Fin (rev (s_out s) ++ flat_obs (s_stack s) (s_base s)) else sstep t s.

(* Where substitutions happen, as positions in the final text (computed with
   the specification).  The claim "the commands are those of the substituted
   text" is about text; yash-rs (like POSIX) substitutes tokens.  The two differ
   exactly when an operator token stands directly in front of a replaced word
   and the text that ends up at that place starts with a character that would
   extend the operator (`x |a` with a='| y' reads `x || y`; `b;a;; esac` with
   a='' reads `b;;; esac`): the operator was delimited before the substitution
   and stays a token of its own.  For such inputs only the buffer-level clauses
   (2, 3, 4) and the model are checked, not the re-parse / re-execution of the
   text (5, 7). *)
Definition subst_pos (t : table) (s : sstate) : option nat :=
  match lex (flat (s_stack s) (s_base s)) with
  | inl lx =>
      match decide_lx (s_ps s) lx with
      | ATry cmd _ =>
          match eligible t (read (lx_gap lx) s) (lx_lit lx) cmd with
          | Some _ => Some (length (s_out s) + length (lx_gap lx))%nat
          | None => None
          end
      | _ => None
      end
  | inr _ => None
  end.

Definition sstep_pos (step : sstate -> outcome sstate (list (N * chain))) (t : table)
    (sp : sstate * list nat) : outcome (sstate * list nat) (list (N * chain) * list nat) :=
  let '(s, ps) := sp in
  match step s with
  | Cont s' => Cont (s', match subst_pos t s with Some p => p :: ps | None => ps end)
  | Fin b => Fin (b, ps)
  | Outside => Outside
  end.

Definition op_left (c : N) : bool := (c =? 38) || (c =? 59) || (c =? 60) || (c =? 62) || (c =? 124).
Definition op_right (c : N) : bool :=
  (c =? 38) || (c =? 59) || (c =? 60) || (c =? 62) || (c =? 124) || (c =? 40) || (c =? 45).

(* [a] consists of the first lines of [b] *)
Definition line_prefix (a b : str) : bool :=
  match a with
  | [] => true
  | _ => str_eqb (firstn (length a) b) a
         && match nth_error b (length a) with Some c => c =? 10 | None => true end
  end.

(* the character in front of position [p], not counting line continuations *)
Fixpoint char_before (fuel : nat) (text : str) (p : nat) : option N :=
  match fuel, p with
  | S fuel', S p' =>
      match nth_error text p', p' with
      | Some 10, S p'' =>
          match nth_error text p'' with
          | Some 92 => char_before fuel' text p''
          | _ => Some 10
          end
      | x, _ => x
      end
  | _, _ => None
  end.

Definition merges_at (text : str) (p : nat) : bool :=
  match char_before (S p) text p, nth_error text p with
  | Some x, Some y => op_left x && op_right y
  | _, _ => false
  end.

(* ------------------------------------------------------------------ *)
(** * Token level: the tokens the parser takes, and in which position

   [tokens t line]: the tokens consumed (not replaced) while the text is read
   with the alias table [t], each with the parser position it is taken in, its
   class and its characters (line continuations removed).  The claim "the
   commands are those of the substituted text" at the level of the model:
   [tokens t line = tokens [] (the hand-substituted text)], outside the
   token-versus-text boundary ([merges_at]).  It is evaluated on every case
   that was parsed completely (verdict 10 if it fails); it is not proved. *)
Scheme Equality for keyword.
Scheme Equality for oper.
Scheme Equality for tkind.
Scheme Equality for pstate.

Definition tok_entry : Type := (pstate * tkind * str)%type.

Definition entry_eqb (a b : tok_entry) : bool :=
  let '(p1, k1, s1) := a in let '(p2, k2, s2) := b in
  pstate_beq p1 p2 && tkind_beq k1 k2 && str_eqb s1 s2.

Fixpoint unmarked (marks : list bool) (l : list N) : str :=
  match marks, l with
  | m :: marks', c :: l' => if m then unmarked marks' l' else c :: unmarked marks' l'
  | _, _ => []
  end.

(* the token the next step consumes, if it consumes one *)
Definition consumed_token (t : table) (s : sstate) : option tok_entry :=
  let inp := flat (s_stack s) (s_base s) in
  match lex inp with
  | inl lx =>
      let e := (s_ps s, lx_kind lx, unmarked (lx_tok lx) (skipn (length (lx_gap lx)) inp)) in
      match decide_lx (s_ps s) lx with
      | ATry cmd _ =>
          match eligible t (read (lx_gap lx) s) (lx_lit lx) cmd with
          | Some _ => None
          | None => Some e
          end
      | ATake _ => Some e
      | _ => None
      end
  | inr _ => None
  end.

Definition sstep_tok (t : table) (sp : sstate * list tok_entry)
  : outcome (sstate * list tok_entry) (list tok_entry) :=
  let '(s, acc) := sp in
  match sstep t s with
  | Cont s' => Cont (s', match consumed_token t s with Some e => e :: acc | None => acc end)
  | Fin _ => Fin (rev acc)
  | Outside => Outside
  end.

Definition tokens (t : table) (line : str) : result (list tok_entry) :=
  run (sstep_tok t) (fuel_of t line) (s_init line, []).

(* the oracle: boolean clauses evaluated on the implementation's output only *)
Definition run_case (c : case) : verdict :=
  let '(tl, line, io) := c in
  let '(status, lexed, segs, trees, traces) := io in
  let t := table_of tl in
  if negb (names_unique t) then 99
  else if status =? 10 then
    (* nested programs ($( ), backquotes, eval): outside the model, executed only.
       traces = (observed, trace of the script expanded by hand at every level),
       trees  = (observed, probe sequence computed by the harness's reference evaluator) *)
    if negb (str_eqb (fst traces) (snd traces)) then 8
    else if negb (str_eqb (fst trees) (snd trees)) then 9
    else 0
  else if 2 <=? status then 6                        (* no termination / panic *)
  else
    let ibuf := unsegment t segs in
    if negb (chains_ok t ibuf) then 3                (* substituted within its own replacement *)
    else
      match run (sstep_pos (if status =? 0 then sstep t else sstep_upto t lexed) t)
                (fuel_of t line) (s_init line, []) with
      | ROutside | ROutOfFuel => 99
      | RFin (sbuf, poss) =>
            let textual := negb (existsb (merges_at (text_of sbuf)) poss) in
            let n := if status =? 0 then length sbuf else lexed in
            let same_as (b : list (N * chain)) : bool :=
              if status =? 0 then obs_eqb ibuf b else obs_eqb (firstn n ibuf) (firstn n b) in
            if negb (if status =? 0 then str_eqb (text_of ibuf) (text_of sbuf)
                     else str_eqb (firstn n (text_of ibuf)) (firstn n (text_of sbuf))) then 2
            else if negb (same_as sbuf) then 4
            else if textual && negb (if status =? 0 then str_eqb (fst trees) (snd trees)
                                     else line_prefix (fst trees) (snd trees)) then 5
            else if textual && negb (str_eqb (fst traces) (snd traces)) then 7
            else if (status =? 0) && textual &&
                    negb (match tokens t line, tokens [] (text_of sbuf) with
                          | RFin a, RFin b => list_eqb entry_eqb a b
                          | _, _ => false
                          end) then 10
            else
              match (if status =? 0 then model_run t line
                     else run (mstep_upto t lexed) (fuel_of t line) (m_init line)) with
              | RFin mbuf => if same_as (observe mbuf) then 0 else 1
              | _ => 1
              end
      end.

Definition run_cases := run_cases_with run_case.
