(* C17 — what the correspondence check evaluates on every case. *)
From Yv Require Export Common.Base C17.Model C17.Spec.
Local Open Scope N_scope.

(* What the harness observed on the real parser:
     status   0 = the whole input was parsed, 1 = the parser reported a syntax
              error, 2 = the alias look-up budget was exhausted (no
              termination), 3 = panic
     lexed    number of characters the lexer had consumed when parsing stopped
     segs     the lexer's buffer after parsing, as runs of characters with the
              same chain of alias origins (indices into the alias table,
              innermost first)
     tree     the parsed commands printed (with aliases); tree_plain: the
              commands parsed from the buffer text without any alias
     trace    executed probe trace with the aliases defined through the shell /
              trace of the buffer text executed without aliases (empty if the
              case was not executed) *)
Definition impl_out : Type :=
  (N * nat * list (list nat * str) * (str * str) * (str * str))%type.

Definition case : Type := (list (str * str * bool) * str * impl_out)%type.

Definition table_of (l : list (str * str * bool)) : table :=
  map (fun x => mkAlias (fst (fst x)) (snd (fst x)) (snd x)) l.

Definition chain_of (t : table) (idx : list nat) : chain :=
  map (fun i => match nth_error t i with Some a => a_name a | None => [] end) idx.

Definition unsegment (t : table) (segs : list (list nat * str)) : list (N * chain) :=
  flat_map (fun sg => map (fun c => (c, chain_of t (fst sg))) (snd sg)) segs.

Definition names_unique (t : table) : bool := nodup_str (map a_name t).

(* When the parser reported a syntax error it stopped reading: only the part
   of the buffer the lexer had consumed ([lexed] characters) is compared, and
   the model and the specification are run up to that point. *)
Definition mstep_upto (t : table) (k : nat) (s : mstate) : outcome mstate (list bchar) :=
  if Nat.leb k (length (m_pre s)) then Fin (rev (m_pre s) ++ m_suf s) else mstep t s.
Definition sstep_upto (t : table) (k : nat) (s : sstate) : outcome sstate (list (N * chain)) :=
  if Nat.leb k (length (s_out s)) then Fin (rev (s_out s) ++ flat_obs (s_stack s) (s_base s)) else sstep t s.

(* the oracle: boolean clauses evaluated on the implementation's output only *)
Definition run_case (c : case) : verdict :=
  let '(tl, line, io) := c in
  let '(status, lexed, segs, trees, traces) := io in
  let t := table_of tl in
  if negb (names_unique t) then 99
  else if 2 <=? status then 6                        (* no termination / panic *)
  else
    let ibuf := unsegment t segs in
    if negb (chains_ok t ibuf) then 3                (* substituted within its own replacement *)
    else
      match (if status =? 0 then spec_run t line
             else run (sstep_upto t lexed) (fuel_of t line) (s_init line)) with
      | ROutside | ROutOfFuel => 99
      | RFin sbuf =>
          if left_merge sbuf then 99
          else
            let n := if status =? 0 then length sbuf else lexed in
            let same_as (b : list (N * chain)) : bool :=
              if status =? 0 then obs_eqb ibuf b else obs_eqb (firstn n ibuf) (firstn n b) in
            if negb (if status =? 0 then str_eqb (text_of ibuf) (text_of sbuf)
                     else str_eqb (firstn n (text_of ibuf)) (firstn n (text_of sbuf))) then 2
            else if negb (same_as sbuf) then 4
            else if (status =? 0) && negb (str_eqb (fst trees) (snd trees)) then 5
            else if negb (str_eqb (fst traces) (snd traces)) then 7
            else
              match (if status =? 0 then model_run t line
                     else run (mstep_upto t lexed) (fuel_of t line) (m_init line)) with
              | RFin mbuf => if same_as (observe mbuf) then 0 else 1
              | _ => 1
              end
      end.

Definition run_cases := run_cases_with run_case.
