(* C17 — reading a text with the empty alias table reproduces the text: the
   token sequence [Run.tokens [] text] is the plain lexing of [text] by the
   position automaton, nothing is replaced. *)
From Yv Require Import Common.Base C17.Model C17.Spec C17.PList C17.PLoop C17.PMeasure C17.PSim C17.Proofs.
From Coq Require Import Lia.
Local Open Scope N_scope.

(* a state of the run with the empty table: no value is pending, and what was
   read followed by what is unread is the text *)
Definition plain_inv (text : str) (s : sstate) : Prop :=
  s_stack s = [] /\ text_of (rev (s_out s)) ++ s_base s = text.

Lemma text_of_app a b : text_of (a ++ b) = text_of a ++ text_of b.
Proof. apply map_app. Qed.

Lemma read1_plain text lc s : plain_inv text s -> plain_inv text (read1 lc s).
Proof.
  intros [Hs Ht]. unfold read1. rewrite Hs. destruct (s_base s) as [|c r] eqn:Eb.
  - split; auto. rewrite Eb. exact Ht.
  - split; [reflexivity|]. cbn [s_out s_base rev]. rewrite text_of_app, <- app_assoc. exact Ht.
Qed.

Lemma read_plain text marks : forall s, plain_inv text s -> plain_inv text (read marks s).
Proof.
  induction marks as [|m marks IH]; intros s H; [exact H|]. cbn [read]. apply IH. apply read1_plain. exact H.
Qed.

Lemma eligible_empty s lit cmd : eligible [] s lit cmd = None.
Proof. unfold eligible. destruct lit; [|reflexivity]. destruct (mem_str s0 (names (s_stack s))); reflexivity. Qed.

Lemma plain_fin text s : plain_inv text s ->
  text_of (rev (s_out s) ++ flat_obs (s_stack s) (s_base s)) = text.
Proof.
  intros [Hs Ht]. rewrite Hs. cbn [flat_obs]. rewrite text_of_app.
  unfold text_of at 2. rewrite map_map. cbn [fst]. rewrite map_id. exact Ht.
Qed.

Lemma sstep_plain text s :
  plain_inv text s ->
  match sstep [] s with
  | Cont s' => plain_inv text s'
  | Fin b => text_of b = text
  | Outside => True
  end.
Proof.
  intros H. unfold sstep. destruct (lex (flat (s_stack s) (s_base s))) as [lx|[]]; [|apply plain_fin; exact H|exact I].
  pose proof (read_plain text (lx_gap lx) s H) as H1.
  destruct (decide_lx (s_ps s) lx) as [cmd ps'|ps'| |].
  - rewrite eligible_empty. apply (read_plain text (lx_tok lx)) in H1. exact H1.
  - apply (read_plain text (lx_tok lx)) in H1. exact H1.
  - apply plain_fin. exact H1.
  - exact I.
Qed.

Theorem plain_run_identity text b : spec_run [] text = RFin b -> text_of b = text.
Proof.
  unfold spec_run, run. rewrite loop_iter.
  destruct (iter (sstep []) (Pos.to_nat (fuel_of [] text)) (s_init text)) as [s'|r|] eqn:E; try discriminate.
  intros H; inversion H; subst.
  assert (Hinit : plain_inv text (s_init text)) by (split; reflexivity).
  refine (iter_fin_inv (sstep []) (plain_inv text) (fun b => text_of b = text) _ _ _ _ _ Hinit E).
  - intros a b0 Ha Hs. pose proof (sstep_plain text a Ha) as K. rewrite Hs in K. exact K.
  - intros a r Ha Hs. pose proof (sstep_plain text a Ha) as K. rewrite Hs in K. exact K.
Qed.

(* together with the equivalence: reading the substituted text again changes nothing *)
Corollary substituted_text_is_stable t line b b' :
  spec_run t line = RFin b -> spec_run [] (text_of b) = RFin b' -> text_of b' = text_of b.
Proof. intros _ H. exact (plain_run_identity _ _ H). Qed.
