(* C17 — list lemmas missing from the standard library of Coq 8.16. *)
From Coq Require Import List Lia PeanoNat.
Import ListNotations.

Lemma skipn_skipn {A} (x y : nat) (l : list A) : skipn x (skipn y l) = skipn (x + y) l.
Proof.
  revert l; induction y as [|y IH]; intros l.
  - rewrite Nat.add_0_r. reflexivity.
  - destruct l as [|a l]; [rewrite !skipn_nil; reflexivity|].
    rewrite Nat.add_succ_r. cbn [skipn]. apply IH.
Qed.

Lemma nth_error_skipn {A} (n : nat) (l : list A) (i : nat) :
  nth_error (skipn n l) i = nth_error l (n + i).
Proof.
  revert l; induction n as [|n IH]; intros l; [reflexivity|].
  destruct l as [|a l]; [destruct i; reflexivity|]. cbn. apply IH.
Qed.

Lemma nth_error_firstn {A} (n : nat) (l : list A) (i : nat) :
  i < n -> nth_error (firstn n l) i = nth_error l i.
Proof.
  revert l i; induction n as [|n IH]; intros l i Hi; [lia|].
  destruct l as [|a l]; [destruct i; reflexivity|].
  destruct i; [reflexivity|]. cbn. apply IH. lia.
Qed.
