(* C17 — non-vacuity: concrete states that satisfy the hypotheses of the
   implication-shaped theorems of Properties.v. *)
From Yv Require Import Common.Base C17.Model C17.Spec C17.PLex C17.PMeasure C17.PSim C17.Proofs.
Local Open Scope N_scope.

(* alias a='b x ' ; alias b='a y'   (mutually recursive),  text: a a<newline> *)
Definition ex_t : table := [mkAlias [97] [98; 32; 120; 32] false; mkAlias [98] [97; 32; 121] false].
Definition ex_line : str := [97; 32; 97; 10].

(* measure_decreases: the first step is a substitution and continues *)
Example ex_step_continues : exists s', mstep ex_t (m_init ex_line) = Cont s' /\ chains_inv ex_t (m_init ex_line).
Proof. eexists. split; [vm_compute; reflexivity|apply chains_inv_init]. Qed.

Example ex_measure : (mu ex_t (m_init ex_line) = 4 * 5 ^ 2)%nat.
Proof. reflexivity. Qed.

(* substitution_guarded / eligible_iff: an applicable substitution exists *)
Example ex_applicable :
  applicable ex_t [] (tag [] ex_line) (Some [97]) true = Some (mkAlias [97] [98; 32; 120; 32] false).
Proof. reflexivity. Qed.

(* not_within_own_expansion, nesting_depth_bounded, oracle_accepts_model: the run ends,
   the inner `a` (origin chain b, a) is left alone: a y x  a y x <newline> *)
Example ex_run :
  match model_run ex_t ex_line, spec_run ex_t ex_line with
  | RFin mb, RFin sb =>
      map b_ch mb = [97; 32; 121; 32; 120; 32; 32; 97; 32; 121; 32; 120; 32; 10]
      /\ map (fun x => length (b_chain x)) mb = [2; 2; 2; 1; 1; 1; 0; 2; 2; 2; 1; 1; 1; 0]%nat
      /\ observe mb = sb
  | _, _ => False
  end.
Proof. vm_compute. repeat split. Qed.

(* in_progress_not_eligible, flag lemmas: a state in the middle of a value that ends in a blank *)
Definition ex_state : sstate :=
  mkS [] [mkF [97] [32] true] [32; 98; 10] false (PSimple false true false).

Example ex_in_progress : In [97] (names (s_stack ex_state)).
Proof. left; reflexivity. Qed.

Example ex_flag_raised : s_flag (read1 false ex_state) = true.
Proof. reflexivity. Qed.

Example ex_flag_survives : s_flag (read1 false (read1 false ex_state)) = true.
Proof. reflexivity. Qed.

(* global_alias_any_position / flag_makes_eligible: the argument `b` after the blank-ending value *)
Example ex_arg_eligible :
  eligible ex_t (read [false; false] ex_state) (Some [98]) false = Some (mkAlias [98] [97; 32; 121] false).
Proof. reflexivity. Qed.

(* the lexer facts: `ab cd` *)
Example ex_lex : exists lx, lex [97; 98; 32; 99; 100] = inl lx /\ is_word_kind (lx_kind lx) = true /\ lx_lit lx = Some [97; 98].
Proof. eexists. split; [vm_compute; reflexivity|split; reflexivity]. Qed.
