(* C04 — property theorems only.  Each is closed by [exact] of a lemma from
   the Proofs*.v files; the driver pins the statements with [Check] and
   prints the assumptions on every run.  (Generated together with the
   "theorems" list of props/C04.json.) *)
From Yv Require Import Common.Base C04.Model C04.Spec C04.Proofs.
From Coq Require Import List NArith Bool.
Import ListNotations.

(* the implementation's parser (push, make_range, after_hyphen, suffix test) reads exactly the bracket grammar of the specification, for every sequence of pattern characters *)
Theorem parser_reads_posix_grammar :
  forall i : list pchar, parse_pattern i = spec_parse i.
Proof. exact parse_pattern_spec. Qed.

(* the fuel of the model's parser never runs out *)
Theorem parser_fuel_suffices :
  forall i : list pchar, parse_pattern i <> None.
Proof. exact parse_pattern_fuel. Qed.

(* without a backslash, with_escape and without_escape yield the same pattern characters *)
Theorem escape_free_patterns_agree :
  forall s : str, existsb (N.eqb c_bslash) s = false -> with_escape s = without_escape s.
Proof. exact with_escape_no_bslash. Qed.

(* a backslash makes the next character a literal pattern character, whatever it is *)
Theorem escaped_chars_are_literal :
  forall s : str, with_escape (flat_map (fun c => [c_bslash; c]) s) = map Literal s.
Proof. exact with_escape_all_escaped. Qed.

(* the shell reads the unquoted result of an expansion as with_escape does (a backslash quotes the next character), except that a backslash at the very end stays an ordinary character *)
Theorem unquoted_expansion_reads_like_with_escape :
  forall s : str, to_pattern_chars (apply_escapes (map (fun c => mkAchar c false false) s)) = with_escape s ++ (if dangling_bslash s then [Normal c_bslash] else []).
Proof. exact expansion_chars_like_with_escape. Qed.

(* the model of Pattern::parse_with_config is total on its domain: the emitted regex is always inside the modelled syntax and no fuel runs out *)
Theorem compile_has_definite_outcome :
  forall (cfg : config) (p : list pchar) (a : ast), parse_pattern p = Some a -> (exists b : body, compile cfg p = COk b) \/ (exists e : perr, compile cfg p = CErr e).
Proof. exact compile_total. Qed.

(* the emitted regex string, read by the regex syntax, is the intended structure (every special character of either language is escaped where needed); an error is reported exactly when no such structure exists *)
Theorem regex_escaping_complete :
  forall (cfg : config) (a : ast), match ast_fmt cfg a with | EOk s => parse_rx s = match rx_of_ast cfg a with Some r => RxOk r | None => RxErr end | EErr _ => rx_of_ast cfg a = None end.
Proof. exact fmt_regex_parses_back. Qed.

(* the regex crate's ASCII class ranges are the POSIX-locale classes of the specification *)
Theorem class_tables_agree :
  forall name : str, match class_of_name name, class_pred name with | Some k, Some p => forall x : N, p x = existsb (in_range x) (ascii_ranges k) | None, None => True | _, _ => False end.
Proof. exact class_tables. Qed.

(* what the backtracking matcher returns is a match *)
Theorem leftmost_first_sound :
  forall (lazy : bool) (r : rx) (pos : nat) (s : str) (k : nat), bt lazy r pos s = Some k -> RM r pos s k.
Proof. exact bt_sound. Qed.

(* if a match exists the backtracking matcher finds one *)
Theorem leftmost_first_complete :
  forall (lazy : bool) (r : rx) (pos : nat) (s : str) (k : nat), RM r pos s k -> exists k', bt lazy r pos s = Some k'.
Proof. exact bt_complete. Qed.

(* for glob-shaped regexes the first match in priority order with greedy stars is the longest *)
Theorem greedy_find_is_longest :
  forall r : rx, glob_rx r = true -> forall (pos : nat) (s : str) (k : nat), bt false r pos s = Some k -> forall p' k' : nat, RM r p' s k' -> k' <= k.
Proof. exact bt_greedy_max. Qed.

(* ... and with lazy stars (swap_greed) the shortest *)
Theorem lazy_find_is_shortest :
  forall r : rx, glob_rx r = true -> forall (pos : nat) (s : str) (k : nat), bt true r pos s = Some k -> forall p' k' : nat, RM r p' s k' -> k <= k'.
Proof. exact bt_lazy_min. Qed.

(* the oracle's matcher decides the declarative denotation (all bracket shapes, multi-character collating elements included) *)
Theorem matcher_decides_denotation :
  forall (p : ast) (s : str), dmatch p s = true <-> Denote p s.
Proof. exact dmatch_iff. Qed.

(* a compiled pattern anchored at both ends (case) accepts exactly the strings POSIX notation denotes; compilation fails exactly for invalid patterns *)
Theorem case_pattern_matches_iff_denoted :
  forall (p : list pchar) (a : ast) (s : str), parse_pattern p = Some a -> match compile case_config p with | COk b => pat_is_match case_config b s = true <-> Matches a s | CErr _ => valid_ast a = false | CUnsup | CFuel => False end.
Proof. exact case_pattern_correct_any. Qed.

(* Config::literal_period in the fully anchored configuration (pathname expansion): the string is accepted iff the pattern denotes it and, if the string starts with a period, the pattern starts with a literal period; nothing else in the string (no slash) is special *)
Theorem leading_period_needs_literal_period :
  forall (p : list pchar) (a : ast) (s : str), parse_pattern p = Some a -> match compile period_config p with | COk b => pat_is_match period_config b s = true <-> Matches a s /\ (starts_with [c_dot] s = true -> starts_with_literal_dot a = true) | CErr _ => valid_ast a = false | CUnsup | CFuel => False end.
Proof. exact period_pattern_correct. Qed.

(* with literal_period and an anchored start, a non-empty pattern that does not start with a literal period never matches a string with a leading period (the empty pattern is a literal and matches the empty prefix) *)
Theorem leading_period_blocks_anchored_match :
  forall (cfg : config) (p : list pchar) (a : ast) (b : body) (s : str), literal_period cfg = true -> anchor_begin cfg = true -> parse_pattern p = Some a -> a <> [] -> compile cfg p = COk b -> starts_with [c_dot] s = true -> starts_with_literal_dot a = false -> pat_is_match cfg b s = false /\ pat_find cfg b s = None.
Proof. exact period_blocks_anchored. Qed.

(* the four forms # ## % %% remove exactly the shortest / longest matching prefix / suffix (find for three of them, the rfind loop for %) *)
Theorem trim_forms_remove_shortest_longest :
  forall (side : trim_side) (len : trim_length) (p : list pchar) (a : ast) (v : str), parse_pattern p = Some a -> single_width a = true -> exists out : str, trim_model side len p v = Some out /\ TrimSpec side len a v out.
Proof. exact trim_correct. Qed.

(* oracle soundness (Pattern stream): under every configuration without the period rule the three oracle clauses accept the model's is_match / find / rfind, for the literal fast path and for the regex path; the rfind loop never runs out of fuel *)
Theorem pattern_oracle_accepts_model :
  forall (cfg : config) (p : list pchar) (a : ast) (text : str), literal_period cfg = false -> parse_pattern p = Some a -> single_width a = true -> let tbl := table_of cfg a text in match compile cfg p with | COk b => oracle_is_match tbl (pat_is_match cfg b text) = true /\ oracle_find cfg tbl (pat_find cfg b text) = true /\ match pat_rfind cfg b text with | FSome x y => oracle_rfind cfg tbl (Some (x, y)) = true | FNone => oracle_rfind cfg tbl None = true | FFuel => False end | CErr _ => tbl = [] | CUnsup | CFuel => False end.
Proof. exact pattern_oracle_accepts_model. Qed.

(* oracle soundness (trim stream): the executable form of the trim specification accepts what the model computes *)
Theorem trim_oracle_accepts_model :
  forall (side : trim_side) (len : trim_length) (p : list pchar) (a : ast) (v : str), parse_pattern p = Some a -> single_width a = true -> exists out : str, trim_model side len p v = Some out /\ str_eqb out (spec_trim side len a v) = true.
Proof. exact trim_oracle_accepts_model. Qed.

(* the executable min / max over matching splits is the declarative shortest / longest prefix / suffix *)
Theorem spec_trim_computes_the_specification :
  forall (side : trim_side) (len : trim_length) (a : ast) (v out : str), TrimSpec side len a v out -> spec_trim side len a v = out.
Proof. exact spec_trim_sound. Qed.

(* a quoted character at the top level is a literal character whatever it is *)
Theorem literal_head_is_literal :
  forall (c : N) (p : list pchar), parse_pattern (Literal c :: p) = omap (cons (AChar c)) (parse_pattern p).
Proof. exact literal_head. Qed.

(* a fully quoted pattern matches exactly itself *)
Theorem quoted_pattern_matches_itself :
  forall s : str, parse_pattern (map Literal s) = Some (map AChar s) /\ (forall t : str, Matches (map AChar s) t <-> t = s).
Proof. exact quoted_is_literal. Qed.

(* the shell hands quoted characters to the matcher as literal pattern characters *)
Theorem quoted_chars_are_literal :
  forall l : list achar, Forall (fun a => a_quoted a = true /\ a_quoting a = false) l -> to_pattern_chars (apply_escapes l) = map (fun a => Literal (a_value a)) l.
Proof. exact quoted_chars_are_literal. Qed.

(* an opening bracket that no unquoted closing bracket follows is a literal character *)
Theorem unclosed_bracket_is_literal :
  forall p : list pchar, ~ In (Normal c_rbr) p -> parse_pattern (Normal c_lbr :: p) = omap (cons (AChar c_lbr)) (parse_pattern p).
Proof. exact unclosed_bracket_is_literal. Qed.

(* the first body `case` runs belongs to the first item one of whose patterns matches; none runs if none matches *)
Theorem case_runs_first_matching_item :
  forall (subject : str) (items : list (list (list pchar) * continuation)) (sitems : list (list ast)) (idx : nat), Forall2 (fun it sit => item_parsed (fst it) sit) items sitems -> exists l : list nat, case_run subject items idx false = Some l /\ hd_error l = first_matching subject sitems idx.
Proof. exact case_first_match. Qed.

(* with ;; terminators exactly that one body runs *)
Theorem case_with_breaks_runs_only_that_item :
  forall (subject : str) (items : list (list (list pchar) * continuation)) (sitems : list (list ast)) (idx : nat), Forall2 (fun it sit => item_parsed (fst it) sit) items sitems -> Forall (fun it => snd it = CBreak) items -> case_run subject items idx false = Some match first_matching subject sitems idx with Some i => [i] | None => [] end.
Proof. exact case_break_only. Qed.

(* for every mix of ;; ;& ;;& the bodies that run are the ones the terminators prescribe *)
Theorem case_bodies_follow_terminators :
  forall (subject : str) (items : list (list (list pchar) * continuation)) (sitems : list (list ast * continuation)) (idx : nat) (falling : bool), Forall2 (fun it sit => item_parsed (fst it) (fst sit) /\ snd it = snd sit) items sitems -> case_run subject items idx falling = Some (spec_case_run subject sitems idx falling).
Proof. exact case_run_spec. Qed.

(* F31 (open finding): with a two-character collating symbol ${v#p} need not remove the shortest prefix ([[.ch.]c]h on chh) *)
Theorem prefix_shortest_multichar_refuted :
  exists (p : list pchar) (a : ast) (v out : str), parse_pattern p = Some a /\ trim_model Prefix Shortest p v = Some out /\ ~ TrimSpec Prefix Shortest a v out.
Proof. exact f31_prefix_shortest_refuted. Qed.

(* F31: ... nor ${v##p} the longest ([[.a.][.ab.]] on ab) *)
Theorem prefix_longest_multichar_refuted :
  exists (p : list pchar) (a : ast) (v out : str), parse_pattern p = Some a /\ trim_model Prefix Longest p v = Some out /\ ~ TrimSpec Prefix Longest a v out.
Proof. exact f31_prefix_longest_refuted. Qed.

Print Assumptions parser_reads_posix_grammar.
Print Assumptions parser_fuel_suffices.
Print Assumptions escape_free_patterns_agree.
Print Assumptions escaped_chars_are_literal.
Print Assumptions unquoted_expansion_reads_like_with_escape.
Print Assumptions compile_has_definite_outcome.
Print Assumptions regex_escaping_complete.
Print Assumptions class_tables_agree.
Print Assumptions leftmost_first_sound.
Print Assumptions leftmost_first_complete.
Print Assumptions greedy_find_is_longest.
Print Assumptions lazy_find_is_shortest.
Print Assumptions matcher_decides_denotation.
Print Assumptions case_pattern_matches_iff_denoted.
Print Assumptions leading_period_needs_literal_period.
Print Assumptions leading_period_blocks_anchored_match.
Print Assumptions trim_forms_remove_shortest_longest.
Print Assumptions pattern_oracle_accepts_model.
Print Assumptions trim_oracle_accepts_model.
Print Assumptions spec_trim_computes_the_specification.
Print Assumptions literal_head_is_literal.
Print Assumptions quoted_pattern_matches_itself.
Print Assumptions quoted_chars_are_literal.
Print Assumptions unclosed_bracket_is_literal.
Print Assumptions case_runs_first_matching_item.
Print Assumptions case_with_breaks_runs_only_that_item.
Print Assumptions case_bodies_follow_terminators.
Print Assumptions prefix_shortest_multichar_refuted.
Print Assumptions prefix_longest_multichar_refuted.
