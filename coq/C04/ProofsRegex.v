(* C04 — the string emitted by ast/regex.rs, read back by the regex syntax,
   is the intended structure: escaping is complete for every character. *)
From Yv Require Import Common.Base C04.Model C04.Spec.
From Coq Require Import List NArith Bool Arith Lia.
Import ListNotations.

(* ------------------------------------------------------------------ *)
(* every parsing step consumes input; fuel beyond the length is irrelevant *)

Lemma take_until_colon_len s name r :
  take_until_colon s = Some (name, r) -> length r <= length s.
Proof.
  revert name r. induction s as [|c s IH]; intros name r H; [discriminate|].
  cbn [take_until_colon] in H. destruct (N.eqb c c_colon).
  - inversion H; subst. lia.
  - destruct (take_until_colon s) as [[n' r']|] eqn:E; [|discriminate].
    cbn in H. inversion H; subst. specialize (IH _ _ eq_refl). cbn. lia.
Qed.

Lemma parse_ascii_class_len s nk r : parse_ascii_class s = Some (nk, r) -> length r < length s.
Proof.
  unfold parse_ascii_class. destruct s as [|c s]; [discriminate|].
  destruct (N.eqb c c_colon); [|discriminate].
  set (neg := match s with d :: _ => N.eqb d c_caret | [] => false end).
  set (r1 := if neg then tl s else s).
  assert (Hr1 : length r1 <= length s) by (subst r1; destruct neg; [destruct s; cbn; lia|lia]).
  destruct (take_until_colon r1) as [[name [|c1 [|c2 rest]]]|] eqn:E; try discriminate.
  destruct (N.eqb c1 c_colon && N.eqb c2 c_rbr); [|discriminate].
  destruct (class_of_name name); [|discriminate].
  intros H. inversion H; subst. apply take_until_colon_len in E. cbn in *. lia.
Qed.

Lemma class_prim_len s c r : class_prim s = RxOk (c, r) -> length r < length s.
Proof.
  unfold class_prim. destruct s as [|c0 s]; [discriminate|].
  destruct (N.eqb c0 c_bslash).
  - destruct s as [|d r']; [discriminate|].
    destruct (escaped_literal d).
    + intros H. inversion H; subst. cbn. lia.
    + destruct (mem_N d _); discriminate.
  - intros H. inversion H; subst. cbn. lia.
Qed.

Lemma leading_hyphens_len s : length (snd (leading_hyphens s)) <= length s.
Proof.
  induction s as [|c r IH]; [cbn; lia|].
  cbn [leading_hyphens]. destruct (N.eqb c c_hyphen); [|cbn; lia].
  destruct (leading_hyphens r) as [l t]. cbn [snd] in *. cbn. lia.
Qed.

Lemma class_open_len s neg acc s' : class_open s = RxOk (neg, acc, s') -> length s' <= length s.
Proof.
  unfold class_open. destruct s as [|c r]; [discriminate|].
  set (s1 := if N.eqb c c_caret then r else c :: r).
  assert (H1 : length s1 <= length (c :: r)) by (subst s1; destruct (N.eqb c c_caret); cbn; lia).
  destruct s1 as [|c1 s1']; [discriminate|].
  pose proof (leading_hyphens_len (c1 :: s1')) as H2.
  destruct (leading_hyphens (c1 :: s1')) as [hy s2]. cbn [snd] in H2.
  destruct s2 as [|d s3]; [discriminate|].
  destruct (is_nil hy && N.eqb d c_rbr).
  - destruct s3 as [|e s4]; [discriminate|]. intros H. inversion H; subst. cbn [length] in *. lia.
  - intros H. inversion H; subst. cbn [length] in *. lia.
Qed.

Lemma class_loop_len : forall f neg acc s n r,
  class_loop f neg acc s = RxOk (n, r) -> length r < length s.
Proof.
  induction f as [|f IH]; intros neg acc s n r H; [discriminate|].
  destruct s as [|c s']; [discriminate|].
  cbn [class_loop] in H.
  destruct (N.eqb c c_lbr).
  { destruct (parse_ascii_class s') as [[nk rest]|] eqn:E.
    - apply parse_ascii_class_len in E. apply IH in H. cbn. lia.
    - destruct (class_open s') as [[[neg' acc'] r']| |] eqn:Eo; try discriminate.
      apply class_open_len in Eo.
      destruct (class_loop f neg' acc' r') as [[[c0| |n0 items] r'']| |] eqn:El; try discriminate.
      apply IH in El. apply IH in H. cbn. lia. }
  destruct (N.eqb c c_rbr).
  { inversion H; subst. cbn. lia. }
  destruct ((N.eqb c c_amp || N.eqb c c_hyphen || N.eqb c c_tilde) &&
            match s' with d :: _ => N.eqb d c | [] => false end); [discriminate|].
  destruct (class_prim (c :: s')) as [[lo s1]| |] eqn:E1; try discriminate.
  apply class_prim_len in E1.
  destruct s1 as [|h s2]; [discriminate|].
  destruct (N.eqb h c_hyphen && _).
  - destruct (class_prim s2) as [[hi s3]| |] eqn:E2; try discriminate.
    apply class_prim_len in E2.
    destruct (N.leb lo hi); [|discriminate]. apply IH in H. cbn [length] in *. lia.
  - apply IH in H. cbn [length] in *. lia.
Qed.

Lemma class_loop_fuel : forall f1 f2 neg acc s,
  length s < f1 -> length s < f2 -> class_loop f1 neg acc s = class_loop f2 neg acc s.
Proof.
  induction f1 as [|f1 IH]; intros f2 neg acc s H1 H2; [lia|].
  destruct f2 as [|f2]; [lia|].
  destruct s as [|c r]; [reflexivity|].
  cbn [class_loop]. cbn [length] in H1, H2.
  destruct (N.eqb c c_lbr).
  { destruct (parse_ascii_class r) as [[nk rest]|] eqn:E.
    - apply parse_ascii_class_len in E. apply IH; lia.
    - destruct (class_open r) as [[[neg' acc'] r']| |] eqn:Eo; try reflexivity.
      apply class_open_len in Eo.
      rewrite (IH f2 neg' acc' r') by lia.
      destruct (class_loop f2 neg' acc' r') as [[[c0| |n0 items] r'']| |] eqn:El; try reflexivity.
      apply class_loop_len in El. apply IH; lia. }
  destruct (N.eqb c c_rbr); [reflexivity|].
  destruct ((N.eqb c c_amp || N.eqb c c_hyphen || N.eqb c c_tilde) &&
            match r with d :: _ => N.eqb d c | [] => false end); [reflexivity|].
  destruct (class_prim (c :: r)) as [[lo s1]| |] eqn:E1; try reflexivity.
  apply class_prim_len in E1. cbn [length] in E1.
  destruct s1 as [|h s2]; [reflexivity|].
  destruct (N.eqb h c_hyphen && _).
  - destruct (class_prim s2) as [[hi s3]| |] eqn:E2; try reflexivity.
    apply class_prim_len in E2. cbn [length] in E1.
    destruct (N.leb lo hi); [|reflexivity]. apply IH; lia.
  - apply IH; cbn [length] in *; lia.
Qed.

Lemma parse_class_len s n r : parse_class s = RxOk (n, r) -> length r < length s.
Proof.
  unfold parse_class. destruct (class_open s) as [[[neg acc] s']| |] eqn:Eo; try discriminate.
  apply class_open_len in Eo. intros H. apply class_loop_len in H. lia.
Qed.

Lemma group_loop_fuel : forall f1 f2 cur alts s,
  length s < f1 -> length s < f2 -> group_loop f1 cur alts s = group_loop f2 cur alts s.
Proof.
  induction f1 as [|f1 IH]; intros f2 cur alts s H1 H2; [lia|].
  destruct f2 as [|f2]; [lia|].
  destruct s as [|c r]; [reflexivity|].
  cbn [group_loop]. cbn [length] in H1, H2.
  destruct (N.eqb c c_rpar); [reflexivity|].
  destruct (N.eqb c c_bar); [apply IH; lia|].
  destruct (N.eqb c c_bslash).
  { destruct r as [|d r']; [reflexivity|]. destruct (escaped_literal d); [|reflexivity].
    apply IH; cbn [length] in *; lia. }
  destruct (N.eqb c c_dot); [apply IH; lia|].
  destruct (N.eqb c c_lbr).
  { destruct (parse_class r) as [[n r']| |] eqn:E; try reflexivity.
    apply parse_class_len in E. apply IH; lia. }
  destruct (mem_N c _); [reflexivity|]. apply IH; lia.
Qed.

Lemma group_loop_len : forall f cur alts s l r,
  group_loop f cur alts s = RxOk (l, r) -> length r < length s.
Proof.
  induction f as [|f IH]; intros cur alts s l r H; [discriminate|].
  destruct s as [|c s']; [discriminate|].
  cbn [group_loop] in H.
  destruct (N.eqb c c_rpar). { inversion H; subst. cbn. lia. }
  destruct (N.eqb c c_bar). { apply IH in H. cbn. lia. }
  destruct (N.eqb c c_bslash).
  { destruct s' as [|d r']; [discriminate|]. destruct (escaped_literal d); [|discriminate].
    apply IH in H. cbn [length] in *. lia. }
  destruct (N.eqb c c_dot). { apply IH in H. cbn. lia. }
  destruct (N.eqb c c_lbr).
  { destruct (parse_class s') as [[n r']| |] eqn:E; try discriminate.
    apply parse_class_len in E. apply IH in H. cbn. lia. }
  destruct (mem_N c _); [discriminate|]. apply IH in H. cbn. lia.
Qed.

Lemma rx_loop_fuel : forall f1 f2 acc s,
  length s < f1 -> length s < f2 -> rx_loop f1 acc s = rx_loop f2 acc s.
Proof.
  induction f1 as [|f1 IH]; intros f2 acc s H1 H2; [lia|].
  destruct f2 as [|f2]; [lia|].
  destruct s as [|c r]; [reflexivity|].
  cbn [rx_loop]. cbn [length] in H1, H2.
  destruct (N.eqb c c_bslash).
  { destruct r as [|d r']; [reflexivity|]. cbn [length] in *.
    destruct (N.eqb d c_A); [apply IH; lia|].
    destruct (N.eqb d c_z); [apply IH; lia|].
    destruct (escaped_literal d); [apply IH; lia|reflexivity]. }
  destruct (N.eqb c c_dot); [apply IH; lia|].
  destruct (N.eqb c c_star).
  { destruct acc as [|[n|n|alts| |] acc']; try reflexivity. apply IH; lia. }
  destruct (N.eqb c c_lbr).
  { destruct (parse_class r) as [[n r']| |] eqn:E; try reflexivity.
    apply parse_class_len in E. apply IH; lia. }
  destruct (N.eqb c c_lpar).
  { destruct r as [|q [|k r']]; try reflexivity.
    destruct (N.eqb q c_quest && N.eqb k c_colon); [|reflexivity].
    destruct (group_loop (S (length r')) [] [] r') as [[alts r'']| |] eqn:E; try reflexivity.
    apply group_loop_len in E. cbn [length] in *. apply IH; lia. }
  destruct (mem_N c _); [reflexivity|]. apply IH; lia.
Qed.

(* ------------------------------------------------------------------ *)
(* characters: what is escaped is escapable; what is not escaped is not
   special to the regex syntax                                          *)

Definition bspecial (c : N) : bool := mem_N c bracket_special_chars || mem_N c special_chars.

Lemma mem_N_in c l : mem_N c l = true <-> In c l.
Proof.
  unfold mem_N. rewrite existsb_exists. split.
  - intros (x & Hx & E). apply N.eqb_eq in E. subst. exact Hx.
  - intros H. exists c. split; [exact H|apply N.eqb_refl].
Qed.

Lemma mem_N_false_in c l x : mem_N c l = false -> In x l -> N.eqb c x = false.
Proof.
  intros H Hx. destruct (N.eqb c x) eqn:E; [|reflexivity].
  apply N.eqb_eq in E. subst x. apply mem_N_in in Hx. congruence.
Qed.

Lemma mem_N_false_subset c l sub :
  mem_N c l = false -> forallb (fun x => mem_N x l) sub = true -> mem_N c sub = false.
Proof.
  intros H Hs. destruct (mem_N c sub) eqn:E; [|reflexivity].
  apply mem_N_in in E. rewrite forallb_forall in Hs. specialize (Hs c E). congruence.
Qed.

(* The facts below are all the development needs to know about the two
   constants (read from the source on every run): every escaped character
   can be escaped in the regex syntax and none of them is A or z; every
   character with a meaning in the regex syntax is among them. *)
Lemma special_all_escapable : forallb escaped_literal special_chars = true.
Proof. vm_compute. reflexivity. Qed.

Lemma bracket_special_all_escapable : forallb escaped_literal bracket_special_chars = true.
Proof. vm_compute. reflexivity. Qed.

Lemma special_none_Az :
  forallb (fun c => negb (N.eqb c c_A) && negb (N.eqb c c_z)) special_chars = true.
Proof. vm_compute. reflexivity. Qed.

Definition top_meta : list N :=
  [c_bslash; c_dot; c_star; c_lbr; c_lpar; c_rpar; c_bar; c_plus; c_quest; c_lbrace; c_rbrace;
   c_caret; c_dollar; c_rbr].

Lemma top_meta_special : forallb (fun x => mem_N x special_chars) top_meta = true.
Proof. vm_compute. reflexivity. Qed.

Lemma class_meta_bspecial :
  forallb (fun x => mem_N x bracket_special_chars || mem_N x special_chars)
          [c_rbr; c_caret; c_amp; c_hyphen; c_tilde] = true.
Proof. vm_compute. reflexivity. Qed.

Lemma special_escapable c : mem_N c special_chars = true -> escaped_literal c = true.
Proof.
  intros H. apply mem_N_in in H. pose proof special_all_escapable as A.
  rewrite forallb_forall in A. apply A. exact H.
Qed.

Lemma bspecial_escapable c : bspecial c = true -> escaped_literal c = true.
Proof.
  unfold bspecial. intros H. apply orb_true_iff in H as [H|H].
  - apply mem_N_in in H. pose proof bracket_special_all_escapable as A.
    rewrite forallb_forall in A. apply A. exact H.
  - apply special_escapable. exact H.
Qed.

Lemma special_not_Az c : mem_N c special_chars = true -> N.eqb c c_A = false /\ N.eqb c c_z = false.
Proof.
  intros H. apply mem_N_in in H. pose proof special_none_Az as A.
  rewrite forallb_forall in A. specialize (A c H). apply andb_true_iff in A as [A1 A2].
  apply negb_true_iff in A1. apply negb_true_iff in A2. split; assumption.
Qed.

(* the characters the top level of the regex syntax gives a meaning to *)
Record top_plain (c : N) : Prop := {
  tp_bslash : N.eqb c c_bslash = false;
  tp_dot : N.eqb c c_dot = false;
  tp_star : N.eqb c c_star = false;
  tp_lbr : N.eqb c c_lbr = false;
  tp_lpar : N.eqb c c_lpar = false;
  tp_rpar : N.eqb c c_rpar = false;
  tp_bar : N.eqb c c_bar = false;
  tp_rest : mem_N c [c_plus; c_quest; c_rpar; c_bar; c_lbrace; c_rbrace; c_caret; c_dollar; c_rbr] = false;
  tp_grp : mem_N c [c_plus; c_star; c_quest; c_lpar; c_lbrace; c_rbrace; c_caret; c_dollar; c_rbr] = false
}.

Lemma not_special_plain c : mem_N c special_chars = false -> top_plain c.
Proof.
  intros H.
  assert (G : forall x, In x top_meta -> N.eqb c x = false).
  { intros x Hx. apply (mem_N_false_in c special_chars x H).
    pose proof top_meta_special as A. rewrite forallb_forall in A. apply mem_N_in. apply A. exact Hx. }
  assert (S : forall sub, forallb (fun x => mem_N x top_meta) sub = true -> mem_N c sub = false).
  { intros sub Hsub. destruct (mem_N c sub) eqn:E; [|reflexivity].
    apply mem_N_in in E. rewrite forallb_forall in Hsub. specialize (Hsub c E).
    apply mem_N_in in Hsub. specialize (G c Hsub). rewrite N.eqb_refl in G. discriminate. }
  constructor; try (apply G; cbn; tauto); apply S; vm_compute; reflexivity.
Qed.

(* ... and inside a class *)
Record class_plain (c : N) : Prop := {
  cp_top : top_plain c;
  cp_rbr : N.eqb c c_rbr = false;
  cp_caret : N.eqb c c_caret = false;
  cp_amp : N.eqb c c_amp = false;
  cp_hyphen : N.eqb c c_hyphen = false;
  cp_tilde : N.eqb c c_tilde = false
}.

Lemma not_bspecial_plain c : bspecial c = false -> class_plain c.
Proof.
  unfold bspecial. intros H. pose proof H as H0. apply orb_false_iff in H as [Hb Hs].
  assert (G : forall x, In x [c_rbr; c_caret; c_amp; c_hyphen; c_tilde] -> N.eqb c x = false).
  { intros x Hx. destruct (N.eqb c x) eqn:E; [|reflexivity]. apply N.eqb_eq in E. subst x.
    pose proof class_meta_bspecial as A. rewrite forallb_forall in A. specialize (A c Hx).
    congruence. }
  constructor; [apply not_special_plain; exact Hs| | | | |]; apply G; cbn; tauto.
Qed.

Lemma fmt_char_b_cases c :
  (bspecial c = true /\ fmt_char_b c = [c_bslash; c]) \/ (bspecial c = false /\ fmt_char_b c = [c]).
Proof. unfold fmt_char_b, bspecial. destruct (_ || _); [left|right]; split; reflexivity. Qed.

(* one escaped-or-plain character is read back as that character *)
Lemma class_prim_char c t : class_prim (fmt_char_b c ++ t) = RxOk (c, t).
Proof.
  destruct (fmt_char_b_cases c) as [[Hs ->]|[Hs ->]]; cbn [app class_prim].
  - rewrite N.eqb_refl. rewrite (bspecial_escapable c Hs). reflexivity.
  - rewrite (tp_bslash c (cp_top c (not_bspecial_plain c Hs))). reflexivity.
Qed.

(* the first character of an escaped-or-plain character is no class syntax *)
Definition head_ok (s : str) : Prop :=
  match s with
  | [] => False
  | h :: _ => N.eqb h c_hyphen = false /\ N.eqb h c_rbr = false /\ N.eqb h c_caret = false
  end.

Lemma fmt_char_b_head c t : head_ok (fmt_char_b c ++ t).
Proof.
  destruct (fmt_char_b_cases c) as [[Hs ->]|[Hs ->]]; cbn [app head_ok].
  - repeat split; reflexivity.
  - pose proof (not_bspecial_plain c Hs) as P.
    repeat split; [apply (cp_hyphen c P)|apply (cp_rbr c P)|apply (cp_caret c P)].
Qed.

(* at the head of an iteration of the class loop, such a character reaches
   the literal / range branch *)
Lemma class_loop_char_head f neg acc c t :
  class_loop (S f) neg acc (fmt_char_b c ++ t) =
  match t with
  | [] => RxErr
  | h :: s2 =>
      let is_range :=
        N.eqb h c_hyphen &&
        match s2 with
        | d :: _ => negb (N.eqb d c_rbr) && negb (N.eqb d c_hyphen)
        | [] => true
        end in
      if is_range then
        match class_prim s2 with
        | RxOk (hi, s3) => if N.leb c hi then class_loop f neg (CRange c hi :: acc) s3 else RxErr
        | RxErr => RxErr
        | RxUnsup => RxUnsup
        end
      else class_loop f neg (CLit c :: acc) t
  end.
Proof.
  pose proof (class_prim_char c t) as Hp.
  destruct (fmt_char_b_cases c) as [[Hs E]|[Hs E]]; rewrite E in *; cbn [app] in *.
  - cbn [class_loop].
    replace (N.eqb c_bslash c_lbr) with false by reflexivity.
    replace (N.eqb c_bslash c_rbr) with false by reflexivity.
    replace (N.eqb c_bslash c_amp || N.eqb c_bslash c_hyphen || N.eqb c_bslash c_tilde) with false
      by reflexivity.
    cbn [andb]. rewrite Hp. reflexivity.
  - pose proof (not_bspecial_plain c Hs) as P.
    cbn [class_loop].
    rewrite (tp_lbr c (cp_top c P)), (cp_rbr c P), (cp_amp c P), (cp_hyphen c P), (cp_tilde c P).
    cbn [orb andb]. rewrite Hp. reflexivity.
Qed.

(* ------------------------------------------------------------------ *)
(* the members of a bracket expression inside a regex class             *)

Definition tail_ok (t : str) : Prop :=
  match t with [] => False | h :: _ => N.eqb h c_hyphen = false end.

Lemma head_tail_ok s : head_ok s -> tail_ok s.
Proof. destruct s; [exact (fun x => x)|]. intros (H & _). exact H. Qed.

Lemma class_item_char f neg acc c t :
  tail_ok t ->
  class_loop (S f) neg acc (fmt_char_b c ++ t) = class_loop f neg (CLit c :: acc) t.
Proof.
  intros Ht. rewrite class_loop_char_head. destruct t as [|h s2]; [destruct Ht|].
  cbn [tail_ok] in Ht. rewrite Ht. reflexivity.
Qed.

Lemma class_item_range f neg acc l h t :
  class_loop (S f) neg acc (fmt_char_b l ++ c_hyphen :: fmt_char_b h ++ t) =
  if N.leb l h then class_loop f neg (CRange l h :: acc) t else RxErr.
Proof.
  rewrite class_loop_char_head. rewrite N.eqb_refl.
  pose proof (fmt_char_b_head h t) as Hh.
  destruct (fmt_char_b h ++ t) as [|d r] eqn:E; [destruct Hh|].
  destruct Hh as (H1 & H2 & _). rewrite H1, H2. cbn [negb andb].
  rewrite <- E. rewrite class_prim_char. reflexivity.
Qed.

Lemma take_until_colon_app name t :
  existsb (N.eqb c_colon) name = false ->
  take_until_colon (name ++ c_colon :: t) = Some (name, c_colon :: t).
Proof.
  induction name as [|c r IH]; intros H.
  - reflexivity.
  - cbn [existsb] in H. apply orb_false_iff in H as [H1 H2].
    cbn [app take_until_colon]. rewrite N.eqb_sym, H1. rewrite IH by exact H2. reflexivity.
Qed.

Lemma class_name_no_colon name k :
  class_of_name name = Some k -> existsb (N.eqb c_colon) name = false.
Proof.
  unfold class_of_name, class_names. cbn [assoc_str].
  repeat (destruct (str_eqb name _) eqn:E;
          [apply str_eqb_eq in E; subst; intros _; reflexivity|clear E]).
  discriminate.
Qed.

Lemma class_name_no_caret name k t :
  class_of_name name = Some k ->
  match name ++ t with d :: _ => N.eqb d c_caret | [] => false end = false.
Proof.
  unfold class_of_name, class_names. cbn [assoc_str].
  repeat (destruct (str_eqb name _) eqn:E;
          [apply str_eqb_eq in E; subst; intros _; reflexivity|clear E]).
  discriminate.
Qed.

Lemma class_item_ascii f neg acc name k t :
  class_of_name name = Some k ->
  class_loop (S f) neg acc (c_lbr :: c_colon :: name ++ c_colon :: c_rbr :: t) =
  class_loop f neg (CAscii k :: acc) t.
Proof.
  intros Hk. cbn [class_loop]. rewrite N.eqb_refl.
  unfold parse_ascii_class. rewrite N.eqb_refl.
  rewrite (class_name_no_caret name k _ Hk).
  rewrite take_until_colon_app by (eapply class_name_no_colon; exact Hk).
  rewrite !N.eqb_refl. cbn [andb fst snd]. rewrite Hk. reflexivity.
Qed.

Lemma nonmulti_coll (v : str) : Nat.ltb 1 (length v) = false -> v = [] \/ exists c, v = [c].
Proof.
  intros H. apply Nat.ltb_ge in H.
  destruct v as [|c1 [|c2 r]]; [left; reflexivity|right; eexists; reflexivity|cbn in H; lia].
Qed.

Lemma single_fmt a s :
  batom_fmt_single a = EOk s -> exists c, endpoint a = Some c /\ s = fmt_char_b c.
Proof.
  destruct a as [c|[|c v]|[|c v]|n]; cbn; intros H; try discriminate;
    inversion H; subst; eexists; split; reflexivity.
Qed.

(* the string of one non-multi member, read by the class loop *)
Lemma class_item it s :
  bitem_fmt it = EOk s -> bitem_multi it = false ->
  forall f1 f2 neg acc t,
    tail_ok t -> length (s ++ t) < f1 -> length t < f2 ->
    class_loop f1 neg acc (s ++ t) =
    match citem_of it with
    | Some ci => class_loop f2 neg (ci :: acc) t
    | None => RxErr
    end.
Proof.
  intros Hfmt Hm f1 f2 neg acc t Ht H1 H2.
  destruct f1 as [|f1]; [lia|].
  assert (Hchar : forall c, s = fmt_char_b c ->
            class_loop (S f1) neg acc (s ++ t) = class_loop f2 neg (CLit c :: acc) t).
  { intros c ->. rewrite class_item_char by exact Ht. apply class_loop_fuel; [|exact H2].
    rewrite app_length in H1. pose proof (fmt_char_b_cases c) as [[_ E]|[_ E]]; rewrite E in H1; cbn in H1; lia. }
  destruct it as [[c|v|v|name]|lo hi]; cbn [bitem_fmt batom_fmt] in Hfmt.
  - inversion Hfmt; subst. cbn [citem_of]. apply Hchar. reflexivity.
  - cbn [bitem_multi batom_multi] in Hm. destruct (nonmulti_coll v Hm) as [->|[c ->]].
    + discriminate.
    + cbn [is_nil flat_map] in Hfmt. inversion Hfmt; subst. cbn [citem_of].
      apply Hchar. apply app_nil_r.
  - cbn [bitem_multi batom_multi] in Hm. destruct (nonmulti_coll v Hm) as [->|[c ->]].
    + discriminate.
    + cbn [is_nil flat_map] in Hfmt. inversion Hfmt; subst. cbn [citem_of].
      apply Hchar. apply app_nil_r.
  - cbn [citem_of]. destruct (class_of_name name) as [k|] eqn:Hk; [|discriminate].
    assert (Es : s ++ t = c_lbr :: c_colon :: name ++ c_colon :: c_rbr :: t).
    { inversion Hfmt; subst. cbn [app]. rewrite <- app_assoc. reflexivity. }
    cbn [omap]. rewrite Es in *.
    rewrite (class_item_ascii f1 neg acc name k t Hk).
    apply class_loop_fuel; [|exact H2].
    cbn [length] in H1. rewrite app_length in H1. cbn [length] in H1. lia.
  - unfold ebind in Hfmt.
    destruct (batom_fmt_single lo) as [s1|e1] eqn:E1; [|discriminate].
    destruct (batom_fmt_single hi) as [s2|e2] eqn:E2; [|discriminate].
    inversion Hfmt; subst.
    destruct (single_fmt lo s1 E1) as (l & Hl & ->).
    destruct (single_fmt hi s2 E2) as (h & Hh & ->).
    cbn [citem_of]. rewrite Hl, Hh.
    rewrite <- !app_assoc. cbn [app].
    rewrite class_item_range.
    destruct (N.leb l h); [|reflexivity].
    apply class_loop_fuel; [|exact H2].
    repeat first [rewrite app_length in H1 | progress (cbn [length] in H1)]. lia.
Qed.

Lemma item_head it s :
  bitem_fmt it = EOk s -> bitem_multi it = false -> forall t, head_ok (s ++ t).
Proof.
  intros Hfmt Hm t.
  destruct it as [[c|v|v|name]|lo hi]; cbn [bitem_fmt batom_fmt] in Hfmt.
  - inversion Hfmt; subst. apply fmt_char_b_head.
  - cbn [bitem_multi batom_multi] in Hm. destruct (nonmulti_coll v Hm) as [->|[c ->]]; [discriminate|].
    cbn [is_nil flat_map] in Hfmt. inversion Hfmt; subst. rewrite app_nil_r. apply fmt_char_b_head.
  - cbn [bitem_multi batom_multi] in Hm. destruct (nonmulti_coll v Hm) as [->|[c ->]]; [discriminate|].
    cbn [is_nil flat_map] in Hfmt. inversion Hfmt; subst. rewrite app_nil_r. apply fmt_char_b_head.
  - destruct (class_of_name name); [|discriminate]. inversion Hfmt; subst.
    cbn [app head_ok]. repeat split; reflexivity.
  - unfold ebind in Hfmt.
    destruct (batom_fmt_single lo) as [s1|e1] eqn:E1; [|discriminate].
    destruct (batom_fmt_single hi) as [s2|e2] eqn:E2; [|discriminate].
    inversion Hfmt; subst. destruct (single_fmt lo s1 E1) as (l & _ & ->).
    rewrite <- app_assoc. apply fmt_char_b_head.
Qed.

Lemma fmt_all_cons {A} (f : A -> eres str) x r s :
  fmt_all f (x :: r) = EOk s ->
  exists s1 s2, f x = EOk s1 /\ fmt_all f r = EOk s2 /\ s = s1 ++ s2.
Proof.
  cbn [fmt_all]. unfold ebind. destruct (f x) as [s1|e]; [|discriminate].
  destruct (fmt_all f r) as [s2|e]; [|discriminate].
  intros H. inversion H; subst. eauto.
Qed.

(* all the members, then the closing bracket *)
Lemma class_items : forall items s,
  fmt_all bitem_fmt items = EOk s ->
  forallb (fun it => negb (bitem_multi it)) items = true ->
  forall f neg acc t,
    length (s ++ c_rbr :: t) < f ->
    class_loop f neg acc (s ++ c_rbr :: t) =
    match all_some (map citem_of items) with
    | Some cs => RxOk (SClass neg (rev acc ++ cs), t)
    | None => RxErr
    end.
Proof.
  induction items as [|it items IH]; intros s Hfmt Hnm f neg acc t Hf.
  - inversion Hfmt; subst. cbn [app map all_some]. destruct f as [|f]; [cbn in Hf; lia|].
    cbn [class_loop]. replace (N.eqb c_rbr c_lbr) with false by reflexivity.
    rewrite N.eqb_refl. rewrite app_nil_r. reflexivity.
  - destruct (fmt_all_cons _ _ _ _ Hfmt) as (s1 & s2 & H1 & H2 & ->).
    cbn [forallb] in Hnm. apply andb_true_iff in Hnm as [Hm Hnm]. apply negb_true_iff in Hm.
    rewrite <- app_assoc.
    assert (Htail : tail_ok (s2 ++ c_rbr :: t)).
    { destruct items as [|it2 items2].
      - inversion H2; subst. reflexivity.
      - destruct (fmt_all_cons _ _ _ _ H2) as (u1 & u2 & G1 & G2 & ->).
        cbn [forallb] in Hnm. apply andb_true_iff in Hnm as [Hm2 _]. apply negb_true_iff in Hm2.
        rewrite <- app_assoc. apply head_tail_ok. eapply item_head; eassumption. }
    rewrite (class_item it s1 H1 Hm f (S (length (s2 ++ c_rbr :: t))) neg acc _ Htail);
      [|rewrite <- app_assoc in Hf; exact Hf|lia].
    cbn [map all_some]. destruct (citem_of it) as [ci|]; [|reflexivity].
    rewrite (IH s2 H2 Hnm) by lia.
    destruct (all_some (map citem_of items)) as [cs|]; [|reflexivity].
    cbn [omap rev]. rewrite <- app_assoc. reflexivity.
Qed.

(* a whole class: optional ^, the members, the closing bracket *)
Lemma parse_class_items items s :
  items <> [] ->
  fmt_all bitem_fmt items = EOk s ->
  forallb (fun it => negb (bitem_multi it)) items = true ->
  forall (compl : bool) t,
    parse_class ((if compl then [c_caret] else []) ++ s ++ c_rbr :: t) =
    match all_some (map citem_of items) with
    | Some cs => RxOk (SClass compl cs, t)
    | None => RxErr
    end.
Proof.
  intros Hne Hfmt Hnm compl t.
  assert (Hhead : head_ok (s ++ c_rbr :: t)).
  { destruct items as [|it items']; [congruence|].
    destruct (fmt_all_cons _ _ _ _ Hfmt) as (s1 & s2 & H1 & H2 & ->).
    cbn [forallb] in Hnm. apply andb_true_iff in Hnm as [Hm _]. apply negb_true_iff in Hm.
    rewrite <- app_assoc. eapply item_head; eassumption. }
  pose proof (class_items items s Hfmt Hnm (S (length (s ++ c_rbr :: t))) compl [] t ltac:(lia)) as Hloop.
  destruct (s ++ c_rbr :: t) as [|h rest] eqn:E; [destruct Hhead|].
  destruct Hhead as (Hh1 & Hh2 & Hh3).
  cbn [rev app] in Hloop.
  destruct compl; cbn [app]; unfold parse_class, class_open.
  - rewrite N.eqb_refl. cbn [leading_hyphens]. rewrite Hh1. rewrite Hh2. cbn [is_nil andb rev].
    exact Hloop.
  - rewrite Hh3. cbn [leading_hyphens]. rewrite Hh1. rewrite Hh2. cbn [is_nil andb rev].
    exact Hloop.
Qed.

(* ------------------------------------------------------------------ *)
(* the alternation (?:a|b|...)                                         *)

Lemma group_chars : forall v f cur alts t,
  length (flat_map fmt_char_b v ++ t) < f ->
  group_loop f cur alts (flat_map fmt_char_b v ++ t) =
  group_loop (S (length t)) (rev (map SLit v) ++ cur) alts t.
Proof.
  induction v as [|c v IH]; intros f cur alts t Hf.
  - cbn [flat_map app map rev]. apply group_loop_fuel; [exact Hf|lia].
  - cbn [flat_map] in *. rewrite <- app_assoc in *.
    destruct f as [|f]; [lia|].
    assert (Hstep : group_loop (S f) cur alts (fmt_char_b c ++ flat_map fmt_char_b v ++ t) =
                    group_loop f (SLit c :: cur) alts (flat_map fmt_char_b v ++ t)).
    { destruct (fmt_char_b_cases c) as [[Hs E]|[Hs E]]; rewrite E; cbn [app group_loop].
      - replace (N.eqb c_bslash c_rpar) with false by reflexivity.
        replace (N.eqb c_bslash c_bar) with false by reflexivity.
        rewrite N.eqb_refl. rewrite (bspecial_escapable c Hs). reflexivity.
      - pose proof (cp_top c (not_bspecial_plain c Hs)) as P.
        rewrite (tp_rpar c P), (tp_bar c P), (tp_bslash c P), (tp_dot c P), (tp_lbr c P), (tp_grp c P).
        reflexivity. }
    rewrite Hstep. rewrite IH.
    + cbn [map rev]. rewrite <- app_assoc. reflexivity.
    + rewrite app_length in Hf.
      pose proof (fmt_char_b_cases c) as [[_ E]|[_ E]]; rewrite E in Hf; cbn [length] in Hf; lia.
Qed.

Lemma group_loop_lbr f cur alts r :
  group_loop (S f) cur alts (c_lbr :: r) =
  match parse_class r with
  | RxOk (n, r') => group_loop f (n :: cur) alts r'
  | RxErr => RxErr
  | RxUnsup => RxUnsup
  end.
Proof. reflexivity. Qed.

(* what one member contributes to the alternation *)
Definition alt_str (it : bitem) (s : str) : str :=
  if bitem_multi it then s else [c_lbr] ++ s ++ [c_rbr].

Lemma group_alt it s :
  bitem_fmt it = EOk s ->
  forall f cur alts t,
    length (alt_str it s ++ t) < f ->
    group_loop f cur alts (alt_str it s ++ t) =
    match alt_of it with
    | Some alt => group_loop (S (length t)) (rev alt ++ cur) alts t
    | None => RxErr
    end.
Proof.
  intros Hfmt f cur alts t Hf. unfold alt_str, alt_of in *.
  destruct (bitem_multi it) eqn:Hm.
  - destruct it as [[c|v|v|name]|lo hi]; try discriminate Hm;
      cbn [bitem_fmt batom_fmt] in Hfmt;
      (destruct (is_nil v); [discriminate|]); inversion Hfmt; subst;
      apply group_chars; exact Hf.
  - destruct f as [|f]; [lia|].
    cbn [app]. rewrite group_loop_lbr.
    assert (Hall : fmt_all bitem_fmt [it] = EOk s).
    { cbn [fmt_all]. rewrite Hfmt. cbn [ebind]. rewrite app_nil_r. reflexivity. }
    pose proof (parse_class_items [it] s ltac:(discriminate) Hall
                  ltac:(cbn [forallb]; rewrite Hm; reflexivity) false t) as Hpc.
    cbn [app] in Hpc. rewrite <- app_assoc. cbn [app]. rewrite Hpc.
    cbn [map all_some]. destruct (citem_of it) as [ci|]; [|reflexivity].
    cbn [omap rev app]. apply group_loop_fuel; [|lia].
    cbn [app length] in Hf. rewrite <- app_assoc in Hf. rewrite app_length in Hf. cbn [app length] in Hf. lia.
Qed.

Lemma fmt_alts_cons it r first s :
  fmt_alts (it :: r) first = EOk s ->
  exists s1 s2, bitem_fmt it = EOk s1 /\ fmt_alts r false = EOk s2 /\
                s = (if first then [] else [c_bar]) ++ alt_str it s1 ++ s2.
Proof.
  cbn [fmt_alts]. unfold ebind. destruct (bitem_fmt it) as [s1|e]; [|discriminate].
  destruct (fmt_alts r false) as [s2|e]; [|discriminate].
  intros H. inversion H; subst. exists s1, s2. repeat split; reflexivity.
Qed.

Lemma group_rest : forall items s,
  fmt_alts items false = EOk s ->
  forall f cur alts t,
    length (s ++ c_rpar :: t) < f ->
    group_loop f cur alts (s ++ c_rpar :: t) =
    match all_some (map alt_of items) with
    | Some l => RxOk (rev alts ++ [rev cur] ++ l, t)
    | None => RxErr
    end.
Proof.
  induction items as [|it items IH]; intros s Hfmt f cur alts t Hf.
  - inversion Hfmt; subst. cbn [app map all_some]. destruct f as [|f]; [cbn in Hf; lia|].
    cbn [group_loop]. rewrite N.eqb_refl. cbn [rev]. rewrite ?app_nil_r. reflexivity.
  - destruct (fmt_alts_cons _ _ _ _ Hfmt) as (s1 & s2 & H1 & H2 & ->).
    destruct f as [|f]; [lia|].
    cbn [app group_loop]. replace (N.eqb c_bar c_rpar) with false by reflexivity.
    rewrite N.eqb_refl. rewrite <- app_assoc.
    cbn [app length] in Hf. rewrite <- app_assoc in Hf.
    rewrite (group_alt it s1 H1) by lia.
    cbn [map all_some]. destruct (alt_of it) as [alt|]; [|reflexivity].
    rewrite app_nil_r. rewrite (IH s2 H2) by lia.
    destruct (all_some (map alt_of items)) as [l|]; [|reflexivity].
    cbn [omap rev app]. rewrite rev_involutive. rewrite <- !app_assoc. reflexivity.
Qed.

Lemma group_all items s :
  items <> [] ->
  fmt_alts items true = EOk s ->
  forall t,
    group_loop (S (length (s ++ c_rpar :: t))) [] [] (s ++ c_rpar :: t) =
    match all_some (map alt_of items) with
    | Some l => RxOk (l, t)
    | None => RxErr
    end.
Proof.
  intros Hne Hfmt t. destruct items as [|it items]; [congruence|].
  destruct (fmt_alts_cons _ _ _ _ Hfmt) as (s1 & s2 & H1 & H2 & ->).
  cbn [app]. rewrite <- app_assoc.
  rewrite (group_alt it s1 H1) by lia.
  cbn [map all_some]. destruct (alt_of it) as [alt|]; [|reflexivity].
  rewrite app_nil_r. rewrite (group_rest items s2 H2) by lia.
  destruct (all_some (map alt_of items)) as [l|]; [|reflexivity].
  cbn [omap rev app]. rewrite rev_involutive. reflexivity.
Qed.

(* ------------------------------------------------------------------ *)
(* the top level                                                        *)

Lemma rx_loop_bslash f acc d r :
  rx_loop (S f) acc (c_bslash :: d :: r) =
  if N.eqb d c_A then rx_loop f (RStartText :: acc) r
  else if N.eqb d c_z then rx_loop f (REndText :: acc) r
  else if escaped_literal d then rx_loop f (RS (SLit d) :: acc) r
  else RxUnsup.
Proof. reflexivity. Qed.

Lemma rx_loop_plain f acc c r :
  top_plain c -> rx_loop (S f) acc (c :: r) = rx_loop f (RS (SLit c) :: acc) r.
Proof.
  intros P. cbn [rx_loop].
  rewrite (tp_bslash c P), (tp_dot c P), (tp_star c P), (tp_lbr c P), (tp_lpar c P), (tp_rest c P).
  reflexivity.
Qed.

Lemma rx_loop_dot f acc r : rx_loop (S f) acc (c_dot :: r) = rx_loop f (RS SAny :: acc) r.
Proof. reflexivity. Qed.

Lemma rx_loop_star f acc n r : rx_loop (S f) (RS n :: acc) (c_star :: r) = rx_loop f (RStar n :: acc) r.
Proof. reflexivity. Qed.

Lemma rx_loop_lbr f acc r :
  rx_loop (S f) acc (c_lbr :: r) =
  match parse_class r with
  | RxOk (n, r') => rx_loop f (RS n :: acc) r'
  | RxErr => RxErr
  | RxUnsup => RxUnsup
  end.
Proof. reflexivity. Qed.

Lemma rx_loop_group f acc r :
  rx_loop (S f) acc (c_lpar :: c_quest :: c_colon :: r) =
  match group_loop (S (length r)) [] [] r with
  | RxOk (alts, r'') => rx_loop f (RAlt alts :: acc) r''
  | RxErr => RxErr
  | RxUnsup => RxUnsup
  end.
Proof. reflexivity. Qed.

Lemma bracket_fmt_shape b s :
  bracket_fmt b = EOk s ->
  b_items b <> [] /\
  ((existsb bitem_multi (b_items b) = false /\
    exists u, fmt_all bitem_fmt (b_items b) = EOk u /\
              s = [c_lbr] ++ (if b_complement b then [c_caret] else []) ++ u ++ [c_rbr]) \/
   (existsb bitem_multi (b_items b) = true /\ b_complement b = false /\
    exists u, fmt_alts (b_items b) true = EOk u /\ s = [c_lpar; c_quest; c_colon] ++ u ++ [c_rpar]) \/
   (existsb bitem_multi (b_items b) = true /\ b_complement b = true /\
    forallb bitem_multi (b_items b) = true /\ s = [c_dot]) \/
   (existsb bitem_multi (b_items b) = true /\ b_complement b = true /\
    forallb bitem_multi (b_items b) = false /\
    exists u, fmt_all bitem_fmt (filter (fun it => negb (bitem_multi it)) (b_items b)) = EOk u /\
              s = [c_lbr; c_caret] ++ u ++ [c_rbr])).
Proof.
  unfold bracket_fmt. destruct (b_items b) as [|it items] eqn:Ei; [discriminate|].
  cbn [is_nil]. intros H. split; [discriminate|].
  destruct (existsb bitem_multi (it :: items)) eqn:Em; cbn [negb] in H.
  - destruct (b_complement b) eqn:Ec; cbn [negb] in H.
    + destruct (forallb bitem_multi (it :: items)) eqn:Ea.
      * right. right. left. inversion H; subst. repeat split; reflexivity.
      * right. right. right. repeat split; try reflexivity. unfold ebind in H.
        destruct (fmt_all bitem_fmt _) as [u|e]; [|discriminate]. inversion H; subst. eauto.
    + right. left. repeat split; try reflexivity. unfold ebind in H.
      destruct (fmt_alts _ true) as [u|e]; [|discriminate]. inversion H; subst. eauto.
  - left. split; [reflexivity|]. unfold ebind in H.
    destruct (fmt_all bitem_fmt _) as [u|e]; [|discriminate]. inversion H; subst. eauto.
Qed.

Lemma existsb_false_forallb {A} (p : A -> bool) l :
  existsb p l = false -> forallb (fun x => negb (p x)) l = true.
Proof.
  induction l as [|x l IH]; [reflexivity|]. cbn. intros H. apply orb_false_iff in H as [H1 H2].
  rewrite H1, IH by exact H2. reflexivity.
Qed.

Lemma filter_nonmulti items :
  forallb (fun it => negb (bitem_multi it)) (filter (fun it => negb (bitem_multi it)) items) = true.
Proof.
  induction items as [|it items IH]; [reflexivity|]. cbn [filter].
  destruct (negb (bitem_multi it)) eqn:E; [cbn [forallb]; rewrite E, IH; reflexivity|exact IH].
Qed.

Lemma is_nil_false_r {A} (l : list A) : l <> [] -> is_nil l = false.
Proof. destruct l; [congruence|reflexivity]. Qed.

(* one element of the pattern, read by the top-level loop *)
Lemma filter_nonmulti_nonnil items :
  forallb bitem_multi items = false -> filter (fun it => negb (bitem_multi it)) items <> [].
Proof.
  induction items as [|it items IH]; [discriminate|]. cbn [forallb filter].
  destruct (bitem_multi it); cbn [negb andb]; [exact IH|discriminate].
Qed.

Lemma rx_atom a s :
  atom_fmt a = EOk s ->
  forall f1 f2 acc t,
    length (s ++ t) < f1 -> length t < f2 ->
    rx_loop f1 acc (s ++ t) =
    match node_of_atom a with
    | Some n => rx_loop f2 (n :: acc) t
    | None => RxErr
    end.
Proof.
  intros Hfmt f1 f2 acc t H1 H2.
  destruct f1 as [|f1]; [lia|].
  destruct a as [c| | |b]; cbn [atom_fmt] in Hfmt.
  - (* a literal character *)
    cbn [node_of_atom]. destruct (mem_N c special_chars) eqn:Hs; injection Hfmt as <-.
    + cbn [app]. rewrite rx_loop_bslash.
      destruct (special_not_Az c Hs) as [HA Hz]. rewrite HA, Hz, (special_escapable c Hs).
      apply rx_loop_fuel; [cbn [app length] in H1; lia|exact H2].
    + cbn [app]. rewrite (rx_loop_plain _ _ _ _ (not_special_plain c Hs)).
      apply rx_loop_fuel; [cbn [app length] in H1; lia|exact H2].
  - inversion Hfmt; subst. cbn [app node_of_atom]. rewrite rx_loop_dot.
    apply rx_loop_fuel; [cbn [app length] in H1; lia|exact H2].
  - inversion Hfmt; subst. cbn [app node_of_atom]. rewrite rx_loop_dot.
    destruct f1 as [|f1]; [cbn [app length] in H1; lia|]. rewrite rx_loop_star.
    apply rx_loop_fuel; [cbn [app length] in H1; lia|exact H2].
  - (* a bracket expression *)
    cbn [node_of_atom]. unfold node_of_bracket.
    destruct (bracket_fmt_shape b s Hfmt) as (Hne & Hshape).
    rewrite (is_nil_false_r _ Hne).
    destruct Hshape as [(Hm & u & Hu & ->) | [(Hm & Hc & u & Hu & ->) | [(Hm & Hc & Ha & ->) | (Hm & Hc & Ha & u & Hu & ->)]]];
      rewrite Hm; cbn [negb].
    + cbn [app]. rewrite rx_loop_lbr. rewrite <- !app_assoc. cbn [app].
      rewrite (parse_class_items (b_items b) u Hne Hu (existsb_false_forallb _ _ Hm) (b_complement b) t).
      destruct (all_some (map citem_of (b_items b))) as [cs|]; [|reflexivity].
      cbn [omap]. apply rx_loop_fuel; [|exact H2].
      cbn [app length] in H1. rewrite !app_length in H1. cbn [length] in H1. lia.
    + rewrite Hc. cbn [negb app]. rewrite rx_loop_group. rewrite <- app_assoc. cbn [app].
      rewrite (group_all (b_items b) u Hne Hu t).
      destruct (all_some (map alt_of (b_items b))) as [l|]; [|reflexivity].
      cbn [omap]. apply rx_loop_fuel; [|exact H2].
      cbn [app length] in H1. rewrite !app_length in H1. cbn [length] in H1. lia.
    + rewrite Hc, Ha. cbn [negb app]. rewrite rx_loop_dot.
      apply rx_loop_fuel; [cbn [app length] in H1; lia|exact H2].
    + rewrite Hc, Ha. cbn [negb app].
      pose proof (filter_nonmulti_nonnil _ Ha) as Hne'.
      rewrite rx_loop_lbr. rewrite <- app_assoc. cbn [app].
      pose proof (parse_class_items _ u Hne' Hu (filter_nonmulti (b_items b)) true t) as Hpc.
      cbn [app] in Hpc. rewrite Hpc.
      destruct (all_some (map citem_of _)) as [cs|]; [|reflexivity].
      cbn [omap]. apply rx_loop_fuel; [|exact H2].
      cbn [app length] in H1. rewrite !app_length in H1. cbn [length] in H1. lia.
Qed.

Lemma rx_atoms : forall atoms s,
  fmt_all atom_fmt atoms = EOk s ->
  forall f acc t,
    length (s ++ t) < f ->
    rx_loop f acc (s ++ t) =
    match all_some (map node_of_atom atoms) with
    | Some ns => rx_loop (S (length t)) (rev ns ++ acc) t
    | None => RxErr
    end.
Proof.
  induction atoms as [|a atoms IH]; intros s Hfmt f acc t Hf.
  - inversion Hfmt; subst. cbn [app map all_some rev]. apply rx_loop_fuel; [exact Hf|lia].
  - destruct (fmt_all_cons _ _ _ _ Hfmt) as (s1 & s2 & H1 & H2 & ->).
    rewrite <- app_assoc in *.
    rewrite (rx_atom a s1 H1 f (S (length (s2 ++ t))) acc (s2 ++ t) Hf ltac:(lia)).
    cbn [map all_some]. destruct (node_of_atom a) as [n|]; [|reflexivity].
    rewrite (IH s2 H2) by lia.
    destruct (all_some (map node_of_atom atoms)) as [ns|]; [|reflexivity].
    cbn [omap rev]. rewrite <- app_assoc. reflexivity.
Qed.

(* --- when the translation reports an error there is no intended regex --- *)

Lemma all_some_none {A B} (f : A -> option B) l x :
  In x l -> f x = None -> all_some (map f l) = None.
Proof.
  induction l as [|y l IH]; intros Hin Hx; [destruct Hin|].
  cbn [map all_some]. destruct Hin as [->|Hin].
  - rewrite Hx. reflexivity.
  - rewrite (IH Hin Hx). destruct (f y); reflexivity.
Qed.

Lemma fmt_all_err {A} (f : A -> eres str) l e :
  fmt_all f l = EErr e -> exists x e', In x l /\ f x = EErr e'.
Proof.
  revert e. induction l as [|x l IH]; intros e; [discriminate|].
  cbn [fmt_all]. unfold ebind. destruct (f x) as [s|e1] eqn:E.
  - destruct (fmt_all f l) as [s2|e2]; [discriminate|].
    intros _. destruct (IH e2 eq_refl) as (y & e' & Hy & Hf). exists y, e'. split; [right; exact Hy|exact Hf].
  - intros _. exists x, e1. split; [left; reflexivity|exact E].
Qed.

Lemma fmt_alts_err l first e :
  fmt_alts l first = EErr e -> exists x e', In x l /\ bitem_fmt x = EErr e'.
Proof.
  revert first e. induction l as [|x l IH]; intros first e; [discriminate|].
  cbn [fmt_alts]. unfold ebind. destruct (bitem_fmt x) as [s|e1] eqn:E.
  - destruct (fmt_alts l false) as [s2|e2] eqn:E2; [discriminate|].
    intros _. destruct (IH false e2 E2) as (y & e' & Hy & Hf). exists y, e'. split; [right; exact Hy|exact Hf].
  - intros _. exists x, e1. split; [left; reflexivity|exact E].
Qed.

Lemma single_fmt_err a e : batom_fmt_single a = EErr e -> endpoint a = None.
Proof. destruct a as [c|[|c v]|[|c v]|n]; cbn; intros H; try discriminate; reflexivity. Qed.

Lemma bitem_fmt_err it e :
  bitem_fmt it = EErr e -> bitem_multi it = false /\ citem_of it = None /\ alt_of it = None.
Proof.
  intros H.
  assert (G : bitem_multi it = false /\ citem_of it = None).
  { destruct it as [[c|v|v|name]|lo hi]; cbn [bitem_fmt batom_fmt] in H.
    - discriminate.
    - destruct v; [|discriminate]. split; reflexivity.
    - destruct v; [|discriminate]. split; reflexivity.
    - cbn [citem_of bitem_multi batom_multi]. destruct (class_of_name name); [discriminate|].
      split; reflexivity.
    - split; [reflexivity|]. cbn [citem_of]. unfold ebind in H.
      destruct (batom_fmt_single lo) as [s1|e1] eqn:E1.
      + destruct (batom_fmt_single hi) as [s2|e2] eqn:E2; [discriminate|].
        rewrite (single_fmt_err hi e2 E2). destruct (endpoint lo); reflexivity.
      + rewrite (single_fmt_err lo e1 E1). reflexivity. }
  destruct G as [G1 G2]. repeat split; try assumption.
  unfold alt_of. rewrite G1, G2. reflexivity.
Qed.

Lemma atom_fmt_err a e : atom_fmt a = EErr e -> node_of_atom a = None.
Proof.
  destruct a as [c| | |b]; cbn [atom_fmt]; try discriminate.
  cbn [node_of_atom]. unfold bracket_fmt, node_of_bracket.
  destruct (is_nil (b_items b)); [reflexivity|].
  destruct (negb (existsb bitem_multi (b_items b))).
  - unfold ebind. destruct (fmt_all bitem_fmt (b_items b)) as [s|e1] eqn:E; [discriminate|].
    intros _. destruct (fmt_all_err _ _ _ E) as (x & e' & Hin & Hx).
    destruct (bitem_fmt_err x e' Hx) as (_ & Hc & _).
    rewrite (all_some_none citem_of _ x Hin Hc). reflexivity.
  - destruct (negb (b_complement b)).
    + unfold ebind. destruct (fmt_alts (b_items b) true) as [s|e1] eqn:E; [discriminate|].
      intros _. destruct (fmt_alts_err _ _ _ E) as (x & e' & Hin & Hx).
      destruct (bitem_fmt_err x e' Hx) as (_ & _ & Ha).
      rewrite (all_some_none alt_of _ x Hin Ha). reflexivity.
    + destruct (forallb bitem_multi (b_items b)); [discriminate|].
      unfold ebind. destruct (fmt_all bitem_fmt _) as [s|e1] eqn:E; [discriminate|].
      intros _. destruct (fmt_all_err _ _ _ E) as (x & e' & Hin & Hx).
      destruct (bitem_fmt_err x e' Hx) as (_ & Hc & _).
      rewrite (all_some_none citem_of _ x Hin Hc). reflexivity.
Qed.

(* ------------------------------------------------------------------ *)
(* THEOREM: the emitted string parses back to the intended structure    *)

Theorem fmt_regex_parses_back cfg a :
  match ast_fmt cfg a with
  | EOk s => parse_rx s = match rx_of_ast cfg a with Some r => RxOk r | None => RxErr end
  | EErr _ => rx_of_ast cfg a = None
  end.
Proof.
  unfold ast_fmt, rx_of_ast, ebind.
  destruct (fmt_all atom_fmt a) as [s|e] eqn:Hfmt.
  - unfold parse_rx.
    set (post := if anchor_end cfg then [c_bslash; c_z] else []).
    assert (Hmid : forall f acc, length (s ++ post) < f ->
              rx_loop f acc (s ++ post) =
              match all_some (map node_of_atom a) with
              | Some ns => RxOk (rev acc ++ ns ++ (if anchor_end cfg then [REndText] else []))
              | None => RxErr
              end).
    { intros f acc Hf. rewrite (rx_atoms a s Hfmt f acc post Hf).
      destruct (all_some (map node_of_atom a)) as [ns|]; [|reflexivity].
      subst post. destruct (anchor_end cfg).
      - cbn [length]. rewrite rx_loop_bslash.
        replace (N.eqb c_z c_A) with false by reflexivity. rewrite N.eqb_refl.
        cbn [rx_loop rev]. rewrite rev_app_distr, rev_involutive, <- !app_assoc. reflexivity.
      - cbn [length rx_loop]. rewrite rev_app_distr, rev_involutive, app_nil_r. reflexivity. }
    destruct (anchor_begin cfg).
    + cbn [app length]. rewrite rx_loop_bslash. rewrite N.eqb_refl.
      rewrite Hmid by (cbn [app length]; lia).
      destruct (all_some (map node_of_atom a)); reflexivity.
    + cbn [app]. rewrite Hmid by lia.
      destruct (all_some (map node_of_atom a)); reflexivity.
  - destruct (fmt_all_err _ _ _ Hfmt) as (x & e' & Hin & Hx).
    rewrite (all_some_none node_of_atom a x Hin (atom_fmt_err x e' Hx)). reflexivity.
Qed.
