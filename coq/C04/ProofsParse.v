(* C04 — the implementation's pattern parser (push + make_range +
   after_hyphen, accumulate-and-test-suffix) reads exactly the POSIX bracket
   grammar as written down in Spec.v (look-ahead, first terminator), for every
   sequence of pattern characters; and its fuel never runs out. *)
From Yv Require Import Common.Base C04.Model C04.Spec.
From Coq Require Import List NArith Bool Arith Lia.
Import ListNotations.

(* ------------------------------------------------------------------ *)
(* small facts                                                         *)

Lemma pchar_eqb_eq a b : pchar_eqb a b = true <-> a = b.
Proof.
  destruct a, b; cbn; rewrite ?N.eqb_eq; split; intros H; try congruence; try discriminate.
Qed.

Lemma is_normal_true pc c : is_normal pc c = true <-> pc = Normal c.
Proof. apply pchar_eqb_eq. Qed.

Lemma is_normal_false pc c : is_normal pc c = false <-> pc <> Normal c.
Proof.
  split.
  - intros H E. apply is_normal_true in E. congruence.
  - intros H. destruct (is_normal pc c) eqn:E; [|reflexivity]. apply is_normal_true in E. contradiction.
Qed.

(* ------------------------------------------------------------------ *)
(* A1. parse_inner: accumulate and test the suffix = first terminator   *)

(* no terminator "d]" inside l *)
Definition NoTerm (d : N) (l : list pchar) : Prop := split_at_term d l = None.

Lemma split_at_term_cons d pc tl :
  split_at_term d (pc :: tl) =
  match pc, tl with
  | Normal x, Normal y :: r =>
      if N.eqb x d && N.eqb y c_rbr then Some ([], r)
      else omap (fun p => (pc :: fst p, snd p)) (split_at_term d tl)
  | _, _ => omap (fun p => (pc :: fst p, snd p)) (split_at_term d tl)
  end.
Proof. destruct pc, tl as [|[y|y] r]; reflexivity. Qed.

(* appending after a terminator-free prefix whose last character does not
   start a terminator with the first character of the rest *)
Lemma split_at_term_app d l i :
  NoTerm d (l ++ firstn 1 i) ->
  split_at_term d (l ++ i) = omap (fun p => (l ++ fst p, snd p)) (split_at_term d i).
Proof.
  unfold NoTerm. revert i. induction l as [|pc l IH]; intros i H.
  - cbn [app]. destruct (split_at_term d i) as [[v r]|]; reflexivity.
  - cbn [app] in *. rewrite split_at_term_cons in H. rewrite split_at_term_cons.
    assert (Hrec : split_at_term d (l ++ firstn 1 i) = None).
    { destruct pc as [x|x]; [destruct (l ++ firstn 1 i) as [|[y|y] r] eqn:E|].
      - reflexivity.
      - destruct (N.eqb x d && N.eqb y c_rbr); [discriminate|].
        destruct (split_at_term d (Normal y :: r)); [discriminate|reflexivity].
      - destruct (split_at_term d (Literal y :: r)); [discriminate|reflexivity].
      - destruct (split_at_term d (l ++ firstn 1 i)); [discriminate|reflexivity]. }
    specialize (IH i Hrec).
    assert (Hpair : forall x y r, pc = Normal x -> l ++ i = Normal y :: r ->
                                  N.eqb x d && N.eqb y c_rbr = false).
    { intros x y r -> E.
      destruct l as [|p0 l0].
      - cbn [app] in *. subst i. cbn [firstn] in H.
        destruct (N.eqb x d && N.eqb y c_rbr); [discriminate|reflexivity].
      - cbn [app] in *. inversion E; subst p0.
        destruct (N.eqb x d && N.eqb y c_rbr); [discriminate|reflexivity]. }
    rewrite IH.
    destruct pc as [x|x].
    + destruct (l ++ i) as [|[y|y] r] eqn:E.
      * destruct (split_at_term d i) as [[v r']|]; reflexivity.
      * rewrite (Hpair x y r eq_refl eq_refl).
        destruct (split_at_term d i) as [[v r']|]; reflexivity.
      * destruct (split_at_term d i) as [[v r']|]; reflexivity.
    + destruct (split_at_term d i) as [[v r']|]; reflexivity.
Qed.

Lemma NoTerm_snoc d l pc :
  NoTerm d l ->
  (forall x v, l = v ++ [Normal x] -> forall y, pc = Normal y -> N.eqb x d && N.eqb y c_rbr = false) ->
  NoTerm d (l ++ [pc]).
Proof.
  unfold NoTerm. induction l as [|p0 l IH]; intros H Hlast.
  - cbn. destruct pc; reflexivity.
  - cbn [app]. rewrite split_at_term_cons in H |- *.
    assert (Hl : split_at_term d l = None).
    { destruct p0 as [x|x]; [destruct l as [|[y|y] r]|].
      - reflexivity.
      - destruct (N.eqb x d && N.eqb y c_rbr); [discriminate|].
        destruct (split_at_term d (Normal y :: r)); [discriminate|reflexivity].
      - destruct (split_at_term d (Literal y :: r)); [discriminate|reflexivity].
      - destruct (split_at_term d l); [discriminate|reflexivity]. }
    assert (Hrec : split_at_term d (l ++ [pc]) = None).
    { apply IH; [exact Hl|]. intros x v E y Ey. apply (Hlast x (p0 :: v)); [cbn; congruence|exact Ey]. }
    rewrite Hrec. cbn [omap].
    destruct p0 as [x|x]; [|reflexivity].
    destruct (l ++ [pc]) as [|[y|y] r] eqn:E; try reflexivity.
    destruct l as [|p1 l1].
    + cbn in E. inversion E; subst. rewrite (Hlast x [] eq_refl y eq_refl). reflexivity.
    + cbn [app] in E. inversion E; subst p1.
      destruct (N.eqb x d && N.eqb y c_rbr); [discriminate|reflexivity].
Qed.

Lemma scan_inner_spec d : d <> c_rbr -> forall i acc,
  NoTerm d (rev acc) ->
  scan_inner d acc i =
  omap (fun p => (map char_value (fst p), snd p)) (split_at_term d (rev acc ++ i)).
Proof.
  intros Hd. induction i as [|pc i IH]; intros acc Hacc.
  - rewrite app_nil_r. unfold NoTerm in Hacc. rewrite Hacc. reflexivity.
  - cbn [scan_inner].
    assert (Hterm : forall x y v, pc = Normal y -> acc = Normal x :: v ->
                    N.eqb x d && N.eqb y c_rbr = true ->
                    split_at_term d (rev acc ++ pc :: i) = Some (rev v, i)).
    { intros x y v -> -> Hxy. cbn [rev]. rewrite <- app_assoc. cbn [app].
      rewrite split_at_term_app.
      - rewrite split_at_term_cons. rewrite Hxy. cbn. rewrite app_nil_r. reflexivity.
      - cbn [firstn]. exact Hacc. }
    assert (Hcont : (forall x y v, pc = Normal y -> acc = Normal x :: v ->
                                   N.eqb x d && N.eqb y c_rbr = false) ->
                    scan_inner d (pc :: acc) i =
                    omap (fun p => (map char_value (fst p), snd p))
                         (split_at_term d (rev acc ++ pc :: i))).
    { intros Hno. rewrite IH.
      - cbn [rev]. rewrite <- app_assoc. reflexivity.
      - cbn [rev]. apply NoTerm_snoc; [exact Hacc|].
        intros x v E y Ey. apply (Hno x y (rev v)); [exact Ey|].
        rewrite <- (rev_involutive acc), E, rev_app_distr. reflexivity. }
    destruct pc as [y|y]; [destruct acc as [|[x|x] v]|].
    + apply Hcont. intros; discriminate.
    + destruct (N.eqb x d && N.eqb y c_rbr) eqn:Hxy.
      * rewrite (Hterm x y v eq_refl eq_refl Hxy). reflexivity.
      * apply Hcont. intros x' y' v' E1 E2. inversion E1; inversion E2; subst. exact Hxy.
    + apply Hcont. intros; discriminate.
    + destruct acc as [|[x|x] v]; apply Hcont; intros; discriminate.
Qed.

(* what Bracket::parse does at an unquoted opening bracket = one element of
   the grammar *)
Lemma parse_inner_elem tl :
  match parse_inner tl with Some (a, j) => (a, j) | None => (BChar c_lbr, tl) end
  = spec_elem (Normal c_lbr) tl.
Proof.
  unfold spec_elem. rewrite N.eqb_refl.
  destruct tl as [|[c|c] tl2]; try reflexivity.
  unfold parse_inner.
  assert (H : forall d, d <> c_rbr ->
            scan_inner d [] tl2 = omap (fun p => (map char_value (fst p), snd p)) (split_at_term d tl2)).
  { intros d Hd. rewrite (scan_inner_spec d Hd tl2 []); [reflexivity|reflexivity]. }
  destruct (N.eqb c c_dot) eqn:E1; [apply N.eqb_eq in E1; subst c|].
  { rewrite H by discriminate. destruct (split_at_term c_dot tl2) as [[v r]|]; reflexivity. }
  destruct (N.eqb c c_eq) eqn:E2; [apply N.eqb_eq in E2; subst c|].
  { rewrite H by discriminate. destruct (split_at_term c_eq tl2) as [[v r]|]; reflexivity. }
  destruct (N.eqb c c_colon) eqn:E3; [apply N.eqb_eq in E3; subst c|].
  { rewrite H by discriminate. destruct (split_at_term c_colon tl2) as [[v r]|]; reflexivity. }
  reflexivity.
Qed.

(* ------------------------------------------------------------------ *)
(* lengths: every step consumes input                                  *)

Lemma split_at_term_length d i v r : split_at_term d i = Some (v, r) -> length r < length i.
Proof.
  revert v r. induction i as [|pc tl IH]; intros v r H; [discriminate|].
  rewrite split_at_term_cons in H.
  assert (Hlater : forall v r, omap (fun p => (pc :: fst p, snd p)) (split_at_term d tl) = Some (v, r) ->
                               length r < length (pc :: tl)).
  { intros v0 r0 E. destruct (split_at_term d tl) as [[v1 r1]|] eqn:E1; [|discriminate].
    cbn in E. inversion E; subst. specialize (IH _ _ eq_refl). cbn. lia. }
  destruct pc as [x|x]; [destruct tl as [|[y|y] r0]|]; try (eapply Hlater; exact H).
  destruct (N.eqb x d && N.eqb y c_rbr).
  - inversion H; subst. cbn. lia.
  - eapply Hlater; exact H.
Qed.

Lemma spec_elem_length pc tl : length (snd (spec_elem pc tl)) <= length tl.
Proof.
  unfold spec_elem. destruct pc as [c|c]; [|cbn; lia].
  destruct (N.eqb c c_lbr); [|cbn; lia].
  destruct tl as [|[d|d] tl2]; try (cbn; lia).
  assert (H : forall f, length (snd (match split_at_term d tl2 with
                                     | Some (v, r) => (f (map char_value v), r)
                                     | None => (BChar c, Normal d :: tl2)
                                     end)) <= length (Normal d :: tl2)).
  { intros f. destruct (split_at_term d tl2) as [[v r]|] eqn:E; [|cbn; lia].
    apply split_at_term_length in E. cbn. lia. }
  destruct (N.eqb d c_dot); [apply H|].
  destruct (N.eqb d c_eq); [apply H|].
  destruct (N.eqb d c_colon); [apply H|]. cbn; lia.
Qed.

(* ------------------------------------------------------------------ *)
(* A2. both readers as functions of the same element list               *)

(* an element of the bracket expression and whether it is an unquoted hyphen *)
Definition elem := (batom * bool)%type.

Definition elem_of (pc : pchar) (tl : list pchar) : elem * list pchar :=
  ((fst (spec_elem pc tl), is_normal pc c_hyphen), snd (spec_elem pc tl)).

(* the elements up to the closing bracket *)
Fixpoint tokens (fuel : nat) (first : bool) (i : list pchar) : pres (list elem * list pchar) :=
  match fuel with
  | O => PFuel
  | S f =>
      match i with
      | [] => PNone
      | pc :: tl =>
          if is_normal pc c_rbr && negb first then POk ([], tl)
          else
            match tokens f false (snd (elem_of pc tl)) with
            | POk (l, rest) => POk (fst (elem_of pc tl) :: l, rest)
            | PNone => PNone
            | PFuel => PFuel
            end
      end
  end.

Definition lift {A B} (f : A -> B) (r : pres (A * list pchar)) : pres (B * list pchar) :=
  match r with POk (a, rest) => POk (f a, rest) | PNone => PNone | PFuel => PFuel end.

Lemma elem_of_length pc tl : length (snd (elem_of pc tl)) <= length tl.
Proof. apply spec_elem_length. Qed.

Lemma tokens_fuel : forall f1 f2 first i,
  length i < f1 -> length i < f2 -> tokens f1 first i = tokens f2 first i.
Proof.
  induction f1 as [|f1 IH]; intros f2 first i H1 H2; [lia|].
  destruct f2 as [|f2]; [lia|].
  destruct i as [|pc tl]; [reflexivity|].
  cbn [tokens]. destruct (is_normal pc c_rbr && negb first); [reflexivity|].
  pose proof (elem_of_length pc tl) as Hl. cbn [length] in H1, H2.
  rewrite (IH f2 false (snd (elem_of pc tl))) by lia. reflexivity.
Qed.

Lemma tokens_nofuel : forall f first i, length i < f -> tokens f first i <> PFuel.
Proof.
  induction f as [|f IH]; intros first i H; [lia|].
  destruct i as [|pc tl]; [cbn; discriminate|].
  cbn [tokens]. destruct (is_normal pc c_rbr && negb first); [discriminate|].
  pose proof (elem_of_length pc tl) as Hl. cbn [length] in H.
  specialize (IH false (snd (elem_of pc tl)) ltac:(lia)).
  destruct (tokens f false (snd (elem_of pc tl))) as [[l rest]| |]; try discriminate. contradiction.
Qed.

Lemma tokens_rest_length : forall f first i l rest,
  tokens f first i = POk (l, rest) -> length rest < length i.
Proof.
  induction f as [|f IH]; intros first i l rest H; [discriminate|].
  destruct i as [|pc tl]; [discriminate|].
  cbn [tokens] in H. destruct (is_normal pc c_rbr && negb first).
  - inversion H; subst. cbn. lia.
  - pose proof (elem_of_length pc tl) as Hl.
    destruct (tokens f false (snd (elem_of pc tl))) as [[l' rest']| |] eqn:E; try discriminate.
    inversion H; subst. apply IH in E. cbn. lia.
Qed.

Definition elem_wf (e : elem) : Prop := snd e = true -> fst e = BChar c_hyphen.

Lemma elem_of_wf pc tl : elem_wf (fst (elem_of pc tl)).
Proof.
  unfold elem_wf, elem_of. cbn [fst snd]. intros H. apply is_normal_true in H. subst pc.
  reflexivity.
Qed.

Lemma tokens_wf : forall f first i l rest,
  tokens f first i = POk (l, rest) -> Forall elem_wf l.
Proof.
  induction f as [|f IH]; intros first i l rest H; [discriminate|].
  destruct i as [|pc tl]; [discriminate|].
  cbn [tokens] in H. destruct (is_normal pc c_rbr && negb first).
  - inversion H; subst. constructor.
  - destruct (tokens f false (snd (elem_of pc tl))) as [[l' rest']| |] eqn:E; try discriminate.
    inversion H; subst. constructor; [apply elem_of_wf|eapply IH; exact E].
Qed.

(* --- the implementation: push, then make_range if the previous character
       was an unquoted hyphen --- *)

Definition push_elem (st : list bitem * bool) (e : elem) : list bitem * bool :=
  ((if snd st then make_range (IAtom (fst e) :: fst st) else IAtom (fst e) :: fst st), snd e).

Lemma make_range_nonnil items : items <> [] -> make_range items <> [].
Proof.
  intros H. destruct items as [|[e|? ?] [|[[h| | |]|? ?] [|[s|? ?] rest]]]; cbn; try congruence.
  destruct (N.eqb h c_hyphen); congruence.
Qed.

Lemma push_elem_nonnil st e : fst (push_elem st e) <> [].
Proof.
  unfold push_elem. cbn [fst]. destruct (snd st); [apply make_range_nonnil|]; congruence.
Qed.

Definition Ready (compl : bool) (items : list bitem) (pc : pchar) : Prop :=
  compl = true \/ items <> [] \/ (pc <> Normal c_bang /\ pc <> Normal c_caret).

Lemma is_nil_false {A} (l : list A) : l <> [] -> is_nil l = false.
Proof. destruct l; [congruence|reflexivity]. Qed.

Lemma bracket_step_elem compl items ah pc tl :
  Ready compl items pc ->
  is_normal pc c_rbr && negb (is_nil items) = false ->
  bracket_step compl items ah (pc :: tl) =
  BCont compl (fst (push_elem (items, ah) (fst (elem_of pc tl)))) (snd (fst (elem_of pc tl)))
        (snd (elem_of pc tl)).
Proof.
  intros HR Hclose. unfold bracket_step, push_elem, elem_of. cbn [fst snd].
  destruct pc as [c|c].
  - assert (E1 : N.eqb c c_rbr && negb (is_nil items) = false) by exact Hclose.
    rewrite E1.
    assert (E2 : (N.eqb c c_bang || N.eqb c c_caret) && negb compl && is_nil items = false).
    { destruct HR as [-> | [Hi | [Hb Hc]]].
      - rewrite andb_false_r. reflexivity.
      - rewrite (is_nil_false _ Hi). apply andb_false_r.
      - assert (N.eqb c c_bang = false) by (apply N.eqb_neq; congruence).
        assert (N.eqb c c_caret = false) by (apply N.eqb_neq; congruence).
        rewrite H, H0. reflexivity. }
    rewrite E2.
    destruct (N.eqb c c_lbr) eqn:E3.
    + apply N.eqb_eq in E3. subst c.
      pose proof (parse_inner_elem tl) as Hp.
      destruct (parse_inner tl) as [[a j]|]; rewrite <- Hp; reflexivity.
    + unfold spec_elem. rewrite E3. reflexivity.
  - reflexivity.
Qed.

Lemma loop_tokens : forall fuel compl items ah i,
  (match i with [] => True | pc :: _ => Ready compl items pc end) ->
  bracket_loop fuel compl items ah i =
  lift (fun l => mkBracket compl (rev (fst (fold_left push_elem l (items, ah)))))
       (tokens fuel (is_nil items) i).
Proof.
  induction fuel as [|f IH]; intros compl items ah i HR; [reflexivity|].
  destruct i as [|pc tl]; [reflexivity|].
  cbn [bracket_loop tokens].
  destruct (is_normal pc c_rbr && negb (is_nil items)) eqn:Hclose.
  - apply andb_true_iff in Hclose as [H1 H2]. apply is_normal_true in H1. subst pc.
    unfold bracket_step. rewrite N.eqb_refl, H2. reflexivity.
  - rewrite (bracket_step_elem _ _ _ _ _ HR Hclose).
    pose proof (push_elem_nonnil (items, ah) (fst (elem_of pc tl))) as Hnn.
    rewrite IH.
    + rewrite (is_nil_false _ Hnn).
      destruct (tokens f false (snd (elem_of pc tl))) as [[l rest]| |]; reflexivity.
    + destruct (snd (elem_of pc tl)); [exact I|]. right. left. exact Hnn.
Qed.

(* --- the specification: group by looking ahead --- *)

Fixpoint spec_group (l : list elem) : list bitem :=
  match l with
  | [] => []
  | (a, _) :: r =>
      match r with
      | (_, true) :: (b, _) :: r' => IRange a b :: spec_group r'
      | _ => IAtom a :: spec_group r
      end
  end.

Lemma spec_items_tokens : forall fuel first i,
  length i < fuel ->
  spec_items fuel first i = lift spec_group (tokens fuel first i).
Proof.
  induction fuel as [|f IH]; intros first i Hf; [lia|].
  destruct i as [|pc tl]; [reflexivity|].
  cbn [spec_items tokens]. cbn [length] in Hf.
  destruct (is_normal pc c_rbr && negb first); [reflexivity|].
  unfold elem_of. cbn [fst snd].
  destruct (spec_elem pc tl) as [a r] eqn:Ea. cbn [fst snd].
  pose proof (spec_elem_length pc tl) as Hlen. rewrite Ea in Hlen. cbn [snd] in Hlen.
  (* the plain continuation, on both sides *)
  assert (Hplain :
    (forall l rest, tokens f false r = POk (l, rest) ->
       match l with (_, true) :: _ :: _ => False | _ => True end) ->
    match spec_items f false r with
    | POk (l, rest) => POk (IAtom a :: l, rest)
    | PNone => PNone
    | PFuel => PFuel
    end =
    lift spec_group
      match tokens f false r with
      | POk (l, rest) => POk ((a, is_normal pc c_hyphen) :: l, rest)
      | PNone => PNone
      | PFuel => PFuel
      end).
  { intros Hshape. rewrite IH by lia.
    destruct (tokens f false r) as [[l rest]| |] eqn:Et; try reflexivity.
    specialize (Hshape l rest eq_refl). cbn [lift].
    destruct l as [|[h [|]] [|e2 l2]]; try reflexivity. contradiction. }
  destruct r as [|h [|pc2 tl2]].
  - apply Hplain. intros l rest E. destruct f; discriminate.
  - apply Hplain. intros l rest E. destruct f as [|f']; [discriminate|].
    cbn [tokens] in E. destruct (is_normal h c_rbr && negb false).
    + inversion E; subst. exact I.
    + pose proof (elem_of_length h []) as Hl0.
      destruct (snd (elem_of h [])) as [|? ?] eqn:Es; [|cbn in Hl0; lia].
      destruct f'; discriminate.
  - destruct (is_normal h c_hyphen && negb (is_normal pc2 c_rbr)) eqn:Hr.
    + apply andb_true_iff in Hr as [Hh Hp2]. apply is_normal_true in Hh. subst h.
      apply negb_true_iff in Hp2.
      destruct (spec_elem pc2 tl2) as [b r2] eqn:Eb.
      pose proof (spec_elem_length pc2 tl2) as Hlen2. rewrite Eb in Hlen2. cbn [snd] in Hlen2.
      cbn [length] in Hlen.
      rewrite IH by lia.
      destruct f as [|f1]; [lia|]. destruct f1 as [|f2]; [lia|].
      rewrite (tokens_fuel (S (S f2)) f2 false r2) by lia.
      cbn [tokens]. unfold elem_of.
      replace (is_normal (Normal c_hyphen) c_rbr) with false by reflexivity.
      cbn [andb]. cbn [spec_elem fst snd].
      replace (N.eqb c_hyphen c_lbr) with false by reflexivity. cbn [fst snd].
      rewrite Hp2. cbn [andb]. rewrite Eb. cbn [fst snd].
      destruct (tokens f2 false r2) as [[l rest]| |]; reflexivity.
    + apply Hplain. intros l rest E. destruct f as [|f1]; [discriminate|].
      cbn [tokens] in E. destruct (is_normal h c_rbr && negb false) eqn:Hc.
      * inversion E; subst. exact I.
      * unfold elem_of in E. cbn [fst snd] in E.
        destruct (tokens f1 false (snd (spec_elem h (pc2 :: tl2)))) as [[l' rest']| |] eqn:E'; try discriminate.
        inversion E; subst.
        destruct (is_normal h c_hyphen) eqn:Hh; [|exact I].
        cbn [andb] in Hr. apply negb_false_iff in Hr. apply is_normal_true in Hr. subst pc2.
        apply is_normal_true in Hh. subst h. cbn [spec_elem] in E'.
        replace (N.eqb c_hyphen c_lbr) with false in E' by reflexivity. cbn [snd] in E'.
        destruct f1 as [|f2]; [discriminate|]. cbn [tokens] in E'.
        replace (is_normal (Normal c_rbr) c_rbr && negb false) with true in E' by reflexivity.
        inversion E'; subst. exact I.
Qed.

(* --- push-and-merge = look-ahead grouping --- *)

(* The elements on top of the item stack whose grouping is not final yet,
   and the part below them (still reversed). *)
Definition pend (st : list bitem * bool) : list elem * list bitem :=
  match st with
  | (items, false) =>
      match items with
      | IAtom a :: rest => ([(a, false)], rest)
      | _ => ([], items)
      end
  | (items, true) =>
      match items with
      | IAtom h :: IAtom s :: rest => ([(s, false); (h, true)], rest)
      | IAtom h :: rest => ([(h, true)], rest)
      | _ => ([], items)
      end
  end.

(* after an unquoted hyphen, an atom on top of the stack is that hyphen *)
Definition st_wf (st : list bitem * bool) : Prop :=
  snd st = true -> match fst st with IAtom h :: _ => h = BChar c_hyphen | _ => True end.

Lemma spec_group_flag a f f' r : spec_group ((a, f) :: r) = spec_group ((a, f') :: r).
Proof. reflexivity. Qed.

Lemma push_elem_wf st e : elem_wf e -> st_wf (push_elem st e).
Proof.
  intros He. unfold st_wf, push_elem. cbn [fst snd]. intros Hy. specialize (He Hy).
  destruct e as [a hy]. cbn [fst snd] in *. subst a.
  destruct (snd st); [|reflexivity].
  destruct (fst st) as [|[[h| | |]|? ?] [|[s|? ?] rest]]; cbn; try reflexivity.
  destruct (N.eqb h c_hyphen); reflexivity.
Qed.

Lemma fold_group : forall l st,
  Forall elem_wf l -> st_wf st ->
  rev (fst (fold_left push_elem l st)) = rev (snd (pend st)) ++ spec_group (fst (pend st) ++ l).
Proof.
  induction l as [|e l IH]; intros st Hl Hst.
  - cbn [fold_left]. destruct st as [items [|]]; cbn [pend].
    + destruct items as [|[h|? ?] [|[s|? ?] rest]]; cbn [fst snd app rev spec_group];
        rewrite ?app_nil_r, <- ?app_assoc; reflexivity.
    + destruct items as [|[a|? ?] rest]; cbn [fst snd app rev spec_group];
        rewrite ?app_nil_r; reflexivity.
  - cbn [fold_left]. inversion Hl as [|? ? He Hl']; subst.
    rewrite IH; [|exact Hl'|apply push_elem_wf; exact He].
    destruct st as [items ah]. destruct e as [a hy].
    unfold st_wf in Hst. cbn [fst snd] in Hst. unfold elem_wf in He. cbn [fst snd] in He.
    unfold push_elem. cbn [fst snd].
    assert (Hhy : N.eqb c_hyphen c_hyphen = true) by reflexivity.
    destruct ah.
    + (* the previous character was an unquoted hyphen *)
      specialize (Hst eq_refl).
      destruct items as [|[h|lo hi] rest].
      * destruct hy; reflexivity.
      * subst h. destruct rest as [|[s|lo2 hi2] rest]; cbn [make_range]; rewrite ?Hhy;
          (destruct hy; [rewrite (He eq_refl)|]);
          cbn [pend fst snd app rev spec_group]; rewrite <- ?app_assoc; reflexivity.
      * cbn [make_range]. destruct hy; reflexivity.
    + destruct hy.
      * rewrite (He eq_refl).
        destruct items as [|[s|lo hi] rest]; reflexivity.
      * destruct items as [|[a0|lo hi] rest]; cbn [pend fst snd app rev spec_group];
          rewrite <- ?app_assoc; reflexivity.
Qed.

(* ------------------------------------------------------------------ *)
(* A3. Bracket::parse = the grammar; Ast::new = the grammar             *)

Lemma bracket_loop_spec compl i :
  (match i with [] => True | pc :: _ => Ready compl [] pc end) ->
  bracket_loop (S (length i)) compl [] false i =
  match spec_items (S (length i)) true i with
  | POk (l, rest) => POk (mkBracket compl l, rest)
  | PNone => PNone
  | PFuel => PFuel
  end.
Proof.
  intros HR. rewrite loop_tokens by exact HR. rewrite spec_items_tokens by lia.
  cbn [is_nil].
  destruct (tokens (S (length i)) true i) as [[l rest]| |] eqn:Et; try reflexivity.
  cbn [lift]. rewrite fold_group.
  - reflexivity.
  - eapply tokens_wf; exact Et.
  - intros H; discriminate.
Qed.

Lemma bracket_loop_fuel : forall f1 f2 compl items ah i,
  (match i with [] => True | pc :: _ => Ready compl items pc end) ->
  length i < f1 -> length i < f2 ->
  bracket_loop f1 compl items ah i = bracket_loop f2 compl items ah i.
Proof.
  intros. rewrite !loop_tokens by assumption. rewrite (tokens_fuel f1 f2) by assumption. reflexivity.
Qed.

Theorem bracket_parse_spec i : bracket_parse i = spec_bracket i.
Proof.
  unfold bracket_parse, spec_bracket.
  destruct i as [|pc tl].
  - reflexivity.
  - destruct (is_normal pc c_bang || is_normal pc c_caret) eqn:Hm.
    + (* a complement marker: one iteration of the loop *)
      assert (Hstep : bracket_step false [] false (pc :: tl) = BCont true [] false tl).
      { apply orb_true_iff in Hm as [H|H]; apply is_normal_true in H; subst pc; reflexivity. }
      cbn [bracket_loop length]. rewrite Hstep.
      apply bracket_loop_spec. destruct tl; [exact I|]. left. reflexivity.
    + apply orb_false_iff in Hm as [H1 H2].
      apply is_normal_false in H1. apply is_normal_false in H2.
      apply (bracket_loop_spec false (pc :: tl)). right. right. split; assumption.
Qed.

Lemma parse_atoms_spec : forall f i, parse_atoms f i = spec_atoms f i.
Proof.
  induction f as [|f IH]; intros i; [reflexivity|].
  destruct i as [|[c|c] tl]; cbn [parse_atoms spec_atoms]; try reflexivity.
  - rewrite bracket_parse_spec.
    destruct (N.eqb c c_quest); [rewrite IH; reflexivity|].
    destruct (N.eqb c c_star); [rewrite IH; reflexivity|].
    destruct (N.eqb c c_lbr) eqn:E.
    + apply N.eqb_eq in E. subst c.
      destruct (spec_bracket tl) as [[b j]| |]; rewrite ?IH; reflexivity.
    + rewrite IH. reflexivity.
  - rewrite IH. reflexivity.
Qed.

(* The implementation's parser reads the grammar of the specification. *)
Theorem parse_pattern_spec i : parse_pattern i = spec_parse i.
Proof. apply parse_atoms_spec. Qed.

(* --- the fuel never runs out --- *)

Lemma spec_items_rest : forall fuel first i l rest,
  length i < fuel -> spec_items fuel first i = POk (l, rest) -> length rest < length i.
Proof.
  intros fuel first i l rest Hf H. rewrite spec_items_tokens in H by exact Hf.
  destruct (tokens fuel first i) as [[l' rest']| |] eqn:E; try discriminate.
  inversion H; subst. eapply tokens_rest_length; exact E.
Qed.

Lemma spec_bracket_total i :
  spec_bracket i <> PFuel /\
  forall b rest, spec_bracket i = POk (b, rest) -> length rest < length i.
Proof.
  unfold spec_bracket.
  set (cb := match i with
             | pc :: tl => if is_normal pc c_bang || is_normal pc c_caret then (true, tl) else (false, i)
             | [] => (false, i)
             end).
  assert (Hlen : length (snd cb) <= length i).
  { subst cb. destruct i as [|pc tl]; [cbn; lia|].
    destruct (is_normal pc c_bang || is_normal pc c_caret); cbn; lia. }
  destruct cb as [compl body]. cbn [snd] in Hlen.
  rewrite spec_items_tokens by lia.
  pose proof (tokens_nofuel (S (length body)) true body ltac:(lia)) as Hnf.
  destruct (tokens (S (length body)) true body) as [[l rest]| |] eqn:E; cbn [lift].
  - split; [discriminate|]. intros b rest' H. inversion H; subst.
    apply tokens_rest_length in E. lia.
  - split; [discriminate|]. intros; discriminate.
  - contradiction.
Qed.

Lemma spec_atoms_fuel : forall f i, length i < f -> spec_atoms f i <> None.
Proof.
  induction f as [|f IH]; intros i Hf; [lia|].
  destruct i as [|[c|c] tl]; cbn [spec_atoms]; [discriminate| |].
  - cbn [length] in Hf.
    assert (Hrec : forall a, omap (cons a) (spec_atoms f tl) <> None).
    { intros a. specialize (IH tl ltac:(lia)). destruct (spec_atoms f tl); [discriminate|contradiction]. }
    destruct (N.eqb c c_quest); [apply Hrec|].
    destruct (N.eqb c c_star); [apply Hrec|].
    destruct (N.eqb c c_lbr); [|apply Hrec].
    destruct (spec_bracket_total tl) as [Hnf Hrest].
    destruct (spec_bracket tl) as [[b j]| |]; [|apply Hrec|contradiction].
    specialize (Hrest b j eq_refl). specialize (IH j ltac:(lia)).
    destruct (spec_atoms f j); [discriminate|contradiction].
  - cbn [length] in Hf. specialize (IH tl ltac:(lia)).
    destruct (spec_atoms f tl); [discriminate|contradiction].
Qed.

Theorem parse_pattern_fuel i : parse_pattern i <> None.
Proof. rewrite parse_pattern_spec. apply spec_atoms_fuel. lia. Qed.
