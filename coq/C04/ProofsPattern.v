(* C04 — Pattern (compile, find, rfind), the four trim forms and `case`
   against the specification. *)
From Yv Require Import Common.Base C04.Model C04.Spec C04.ProofsParse C04.ProofsRegex
  C04.ProofsMatch C04.ProofsSem.
From Coq Require Import List NArith Bool Arith Lia.
Import ListNotations.

(* ------------------------------------------------------------------ *)
(* compile                                                              *)

Lemma compile_ast_cases cfg a :
  to_literal a = None ->
  match rx_of_ast cfg a with
  | Some r => compile_ast cfg a = COk (BodyRx r (starts_with_literal_dot a))
  | None => exists e, compile_ast cfg a = CErr e
  end.
Proof.
  intros Hlit. unfold compile_ast. rewrite Hlit.
  pose proof (fmt_regex_parses_back cfg a) as H.
  destruct (ast_fmt cfg a) as [s|e].
  - rewrite H. destruct (rx_of_ast cfg a); [reflexivity|eexists; reflexivity].
  - rewrite H. eexists; reflexivity.
Qed.

(* --- literal patterns --- *)

Lemma to_literal_chars a l : to_literal a = Some l -> a = map AChar l.
Proof.
  revert l. induction a as [|at_ a IH]; intros l H.
  - inversion H; subst. reflexivity.
  - destruct at_ as [c| | |b]; try discriminate. cbn [to_literal] in H.
    destruct (to_literal a) as [l'|]; [|discriminate]. inversion H; subst.
    cbn [map]. rewrite (IH l' eq_refl). reflexivity.
Qed.

Lemma Denote_chars l s : Denote (map AChar l) s <-> s = l.
Proof.
  revert s. induction l as [|c l IH]; intros s; cbn [map].
  - apply Denote_nil_iff.
  - split.
    + intros H. inversion H as [|? ? u v Hu Hv]; subst. cbn [atom_lang] in Hu. subst u.
      apply IH in Hv. subst v. reflexivity.
    + intros ->. change (c :: l) with ([c] ++ l). constructor; [reflexivity|apply IH; reflexivity].
Qed.

Lemma valid_chars l : valid_ast (map AChar l) = true.
Proof. induction l; [reflexivity|exact IHl]. Qed.

Lemma starts_with_iff s t : starts_with s t = true <-> firstn (length s) t = s /\ length s <= length t.
Proof.
  revert t. induction s as [|x s IH]; intros t.
  - cbn. split; [intros _; split; [reflexivity|lia]|reflexivity].
  - destruct t as [|y t]; cbn [starts_with firstn length].
    + split; [discriminate|intros [H _]; discriminate].
    + rewrite andb_true_iff, N.eqb_eq, IH. split.
      * intros (-> & -> & Hl). split; [reflexivity|lia].
      * intros [H Hl]. inversion H as [[Hx Hs]]. rewrite Hs. repeat split; [exact Hs|lia].
Qed.

Lemma ends_with_iff s t :
  ends_with s t = true <-> length s <= length t /\ skipn (length t - length s) t = s.
Proof.
  unfold ends_with. rewrite andb_true_iff, Nat.leb_le, str_eqb_eq. split; intros [H1 H2]; split; auto.
Qed.

(* ------------------------------------------------------------------ *)
(* find_at / the rfind loop                                             *)

Lemma find_scan_none lazy r at_ : forall s pos,
  find_scan lazy r at_ pos s = None ->
  forall d, d <= length s -> at_ <= pos + d -> bt lazy r (pos + d) (skipn d s) = None.
Proof.
  induction s as [|x s IH]; intros pos H d Hd Hat; cbn [find_scan] in H.
  - cbn [length] in Hd. assert (d = 0) by lia. subst d. rewrite Nat.add_0_r in *. cbn [skipn].
    destruct (Nat.leb at_ pos) eqn:E; [|apply Nat.leb_gt in E; lia].
    destruct (bt lazy r pos []); [discriminate|reflexivity].
  - destruct d as [|d].
    + rewrite Nat.add_0_r in *. cbn [skipn].
      destruct (Nat.leb at_ pos) eqn:E; [|apply Nat.leb_gt in E; lia].
      destruct (bt lazy r pos (x :: s)); [discriminate|reflexivity].
    + assert (Hrec : find_scan lazy r at_ (S pos) s = None).
      { destruct (if Nat.leb at_ pos then bt lazy r pos (x :: s) else None); [discriminate|exact H]. }
      cbn [skipn]. replace (pos + S d) with (S pos + d) by lia.
      apply IH; [exact Hrec|cbn [length] in Hd; lia|lia].
Qed.

Lemma find_scan_some lazy r at_ : forall s pos a b,
  find_scan lazy r at_ pos s = Some (a, b) ->
  exists d, a = pos + d /\ d <= length s /\ at_ <= a /\
            bt lazy r a (skipn d s) = Some (b - a) /\ a <= b /\
            forall d', d' < d -> at_ <= pos + d' -> bt lazy r (pos + d') (skipn d' s) = None.
Proof.
  induction s as [|x s IH]; intros pos a b H; cbn [find_scan] in H.
  - destruct (Nat.leb at_ pos) eqn:E; [|discriminate].
    destruct (bt lazy r pos []) as [k|] eqn:Eb; [|discriminate]. inversion H; subst.
    exists 0. rewrite Nat.add_0_r. apply Nat.leb_le in E. cbn [skipn].
    replace (a + k - a) with k by lia. repeat split; try lia; try assumption.
  - destruct (if Nat.leb at_ pos then bt lazy r pos (x :: s) else None) as [k|] eqn:Eh.
    + inversion H; subst. destruct (Nat.leb at_ a) eqn:E; [|discriminate]. apply Nat.leb_le in E.
      exists 0. rewrite Nat.add_0_r. cbn [skipn]. replace (a + k - a) with k by lia.
      repeat split; try lia; try assumption.
    + destruct (IH _ _ _ H) as (d & -> & Hd & Hat & Hb & Hab & Hmin).
      exists (S d). cbn [skipn length]. replace (pos + S d) with (S pos + d) by lia.
      repeat split; try lia; try assumption.
      intros d' Hd' Hat'. destruct d' as [|d'].
      * rewrite Nat.add_0_r in *. cbn [skipn].
        destruct (Nat.leb at_ pos) eqn:E; [exact Eh|apply Nat.leb_gt in E; lia].
      * cbn [skipn]. replace (pos + S d') with (S pos + d') by lia. apply Hmin; lia.
Qed.

(* a regex that begins with \A only matches at offset 0 *)
Lemma find_scan_start lazy r at_ : forall s pos,
  0 < pos -> find_scan lazy (RStartText :: r) at_ pos s = None.
Proof.
  induction s as [|x s IH]; intros pos Hp; cbn [find_scan bt].
  - destruct pos; [lia|]. cbn [Nat.eqb]. destruct (Nat.leb at_ (S pos)); reflexivity.
  - destruct pos; [lia|]. cbn [Nat.eqb]. destruct (Nat.leb at_ (S pos)); apply IH; lia.
Qed.

Lemma find_start lazy r text :
  rx_find_at lazy (RStartText :: r) text 0 = omap (fun k => (0, k)) (bt lazy r 0 text).
Proof.
  unfold rx_find_at. destruct text as [|x s]; cbn [find_scan Nat.leb bt Nat.eqb].
  - destruct (bt lazy r 0 []); reflexivity.
  - destruct (bt lazy r 0 (x :: s)); [reflexivity|]. apply find_scan_start. lia.
Qed.

(* the match found at a, and nothing to its right *)
Definition match_at (lazy : bool) (r : rx) (text : str) (rg : nat * nat) : Prop :=
  fst rg <= length text /\ fst rg <= snd rg /\
  bt lazy r (fst rg) (skipn (fst rg) text) = Some (snd rg - fst rg).

Lemma rfind_loop_spec lazy r text : forall fuel rg,
  length text - fst rg < fuel -> match_at lazy r text rg ->
  exists rg', rfind_loop fuel lazy r text rg = Some rg' /\ match_at lazy r text rg' /\
              fst rg <= fst rg' /\
              forall p, fst rg' < p -> p <= length text -> bt lazy r p (skipn p text) = None.
Proof.
  induction fuel as [|f IH]; intros rg Hf Hm; [lia|].
  cbn [rfind_loop]. destruct (Nat.leb (S (fst rg)) (length text)) eqn:E.
  - apply Nat.leb_le in E. unfold rx_find_at.
    destruct (find_scan lazy r (S (fst rg)) 0 text) as [[a b]|] eqn:Ef.
    + destruct (find_scan_some _ _ _ _ _ _ _ Ef) as (d & -> & Hd & Hat & Hb & Hab & Hmin).
      cbn [Nat.add] in *.
      assert (Hm2 : match_at lazy r text (d, b)) by (repeat split; assumption).
      destruct (IH (d, b) ltac:(cbn [fst]; lia) Hm2) as (rg' & Hr & Hm' & Hle & Hnone).
      exists rg'. cbn [fst] in *. split; [exact Hr|]. split; [exact Hm'|]. split; [lia|exact Hnone].
    + exists rg. split; [reflexivity|]. split; [exact Hm|]. split; [lia|].
      intros p Hp Hpl. pose proof (find_scan_none _ _ _ _ _ Ef p Hpl ltac:(lia)) as Hn.
      exact Hn.
  - apply Nat.leb_gt in E. exists rg. split; [reflexivity|]. split; [exact Hm|]. split; [lia|].
    intros p Hp Hpl. destruct Hm as (Hm1 & _). lia.
Qed.

(* ------------------------------------------------------------------ *)
(* what the translated regex of a single-width pattern matches           *)

Lemma sem_prefix a ns :
  single_width a = true -> all_some (map node_of_atom a) = Some ns ->
  forall pos v k, RM ns pos v k <-> DenoteK a v k.
Proof.
  intros Hsw Hns pos v k. rewrite <- (app_nil_r ns) at 1.
  rewrite (RM_denote_gen a ns (nodes_sem a ns Hsw Hns) [] pos v k). split.
  - intros (j & Hj & Hd & HR). inversion HR; subst. replace k with j by lia. exact Hd.
  - intros Hd. exists k. rewrite Nat.sub_diag. split; [lia|]. split; [exact Hd|constructor].
Qed.

Lemma sem_suffix_any a ns :
  all_some (map node_of_atom a) = Some ns ->
  forall pos v k, RM (ns ++ [REndText]) pos v k <-> Denote a v /\ k = length v.
Proof.
  intros Hns pos v k.
  rewrite (RM_denote_gen a ns (nodes_sem_any a ns Hns) [REndText] pos v k). split.
  - intros (j & Hj & [Hd1 Hd2] & HR).
    inversion HR as [| | | | | |? ? ? HR']; subst. inversion HR'; subst.
    assert (Hjl : j = length v).
    { pose proof (skipn_length j v) as E.
      match goal with Hs : [] = skipn j v |- _ => rewrite <- Hs in E end. cbn in E. lia. }
    subst j. rewrite firstn_all in Hd2. split; [exact Hd2|lia].
  - intros [Hd ->]. exists (length v). rewrite Nat.sub_diag, skipn_all.
    split; [lia|]. split; [split; [lia|rewrite firstn_all; exact Hd]|constructor; constructor].
Qed.

Lemma sem_suffix a ns :
  single_width a = true -> all_some (map node_of_atom a) = Some ns ->
  forall pos v k, RM (ns ++ [REndText]) pos v k <-> Denote a v /\ k = length v.
Proof. intros _. apply sem_suffix_any. Qed.

Lemma rx_of_ast_nodes cfg a :
  rx_of_ast cfg a =
  omap (fun ns => (if anchor_begin cfg then [RStartText] else []) ++ ns ++
                  (if anchor_end cfg then [REndText] else []))
       (all_some (map node_of_atom a)).
Proof. reflexivity. Qed.

Lemma compile_parse cfg p a : parse_pattern p = Some a -> compile cfg p = compile_ast cfg a.
Proof. intros H. unfold compile. rewrite H. reflexivity. Qed.

Lemma compile_literal cfg a l : to_literal a = Some l -> compile_ast cfg a = COk (BodyLit l).
Proof. intros H. unfold compile_ast. rewrite H. reflexivity. Qed.

(* ------------------------------------------------------------------ *)
(* THEOREM: `case` patterns (both ends anchored)                        *)

Theorem case_pattern_correct_any p a s :
  parse_pattern p = Some a ->
  match compile case_config p with
  | COk b => pat_is_match case_config b s = true <-> Matches a s
  | CErr _ => valid_ast a = false
  | CUnsup | CFuel => False
  end.
Proof.
  intros Hp. rewrite (compile_parse _ _ _ Hp).
  destruct (to_literal a) as [l|] eqn:Hlit.
  - rewrite (compile_literal _ _ _ Hlit). pose proof (to_literal_chars _ _ Hlit) as ->.
    unfold Matches. rewrite valid_chars, Denote_chars.
    cbn [pat_is_match lit_find case_config anchor_begin anchor_end].
    destruct (str_eqb s l) eqn:E.
    + apply str_eqb_eq in E. subst. cbn [is_some]. split; [intros _; split; reflexivity|reflexivity].
    + cbn [is_some]. split; [discriminate|]. intros [_ ->].
      assert (str_eqb l l = true) by (apply str_eqb_eq; reflexivity). congruence.
  - pose proof (compile_ast_cases case_config a Hlit) as Hc.
    rewrite rx_of_ast_nodes in Hc. cbn [case_config anchor_begin anchor_end] in Hc.
    rewrite (valid_nodes_any a) in *. unfold Matches. rewrite (valid_nodes_any a).
    destruct (all_some (map node_of_atom a)) as [ns|] eqn:Hns; cbn [omap] in Hc.
    + rewrite Hc. cbn [pat_is_match at_index case_config literal_period shortest_match andb app].
      rewrite find_start. cbn [is_some].
      destruct (bt false (ns ++ [REndText]) 0 s) as [k|] eqn:Eb; cbn [omap is_some].
      * apply bt_sound in Eb. apply (sem_suffix_any a ns Hns) in Eb as [Hd _].
        split; [intros _; split; [reflexivity|exact Hd]|reflexivity].
      * split; [discriminate|]. intros [_ Hd]. exfalso.
        eapply (bt_none _ _ _ _ Eb). apply (sem_suffix_any a ns Hns). split; [exact Hd|reflexivity].
    + destruct Hc as [e ->]. reflexivity.
Qed.

Theorem case_pattern_correct p a s :
  parse_pattern p = Some a -> single_width a = true ->
  match compile case_config p with
  | COk b => pat_is_match case_config b s = true <-> Matches a s
  | CErr _ => valid_ast a = false
  | CUnsup | CFuel => False
  end.
Proof. intros Hp _. apply case_pattern_correct_any. exact Hp. Qed.

(* ------------------------------------------------------------------ *)
(* prefix / suffix matches in terms of the translated regex             *)

Lemma prefix_match_iff a ns v n :
  single_width a = true -> all_some (map node_of_atom a) = Some ns ->
  (PrefixMatch a v n <-> RM ns 0 v n).
Proof.
  intros Hsw Hns. rewrite (sem_prefix a ns Hsw Hns). unfold PrefixMatch, Matches, DenoteK.
  rewrite (valid_nodes a Hsw), Hns. cbn [is_some]. tauto.
Qed.

Lemma suffix_match_iff a ns v n :
  single_width a = true -> all_some (map node_of_atom a) = Some ns ->
  (SuffixMatch a v n <->
   n <= length v /\
   RM (ns ++ [REndText]) (length v - n) (skipn (length v - n) v) n).
Proof.
  intros Hsw Hns. rewrite (sem_suffix a ns Hsw Hns). unfold SuffixMatch, Matches.
  rewrite (valid_nodes a Hsw), Hns. cbn [is_some]. rewrite skipn_length. split.
  - intros (H1 & _ & H2). repeat split; [exact H1|exact H2|lia].
  - intros (H1 & H2 & _). repeat split; assumption.
Qed.

Lemma invalid_no_match a : valid_ast a = false ->
  (forall v n, ~ PrefixMatch a v n) /\ (forall v n, ~ SuffixMatch a v n).
Proof.
  intros H. split; intros v n [_ [Hv _]]; congruence.
Qed.

Lemma drain_prefix k v : drain 0 k v = skipn k v.
Proof. reflexivity. Qed.

Lemma drain_suffix a v : drain a (length v) v = firstn a v.
Proof. unfold drain. rewrite skipn_all. apply app_nil_r. Qed.

(* --- the two prefix forms --- *)

Lemma trim_prefix_regex len a ns dot v :
  single_width a = true -> all_some (map node_of_atom a) = Some ns ->
  let cfg := trim_config Prefix len in
  let out := match pat_find cfg (BodyRx (RStartText :: ns) dot) v with
             | Some (x, y) => drain x y v
             | None => v
             end in
  TrimSpec Prefix len a v out.
Proof.
  intros Hsw Hns cfg out. subst out cfg.
  assert (Hfind : forall l, pat_find (trim_config Prefix l) (BodyRx (RStartText :: ns) dot) v =
                  omap (fun k => (0, k)) (bt (shortest_match (trim_config Prefix l)) ns 0 v)).
  { intros l. cbn [pat_find]. unfold at_index. cbn [trim_config literal_period andb].
    destruct l; apply find_start. }
  rewrite Hfind. pose proof (nodes_glob a ns Hsw Hns) as Hg.
  destruct len; cbn [trim_config shortest_match TrimSpec].
  - (* shortest *)
    destruct (bt true ns 0 v) as [k|] eqn:Eb; cbn [omap].
    + left. exists k. split; [|apply drain_prefix]. split.
      * apply (prefix_match_iff a ns v k Hsw Hns). apply bt_sound in Eb. exact Eb.
      * intros m Hm. apply (prefix_match_iff a ns v m Hsw Hns) in Hm.
        eapply bt_lazy_min; eassumption.
    + right. split; [|reflexivity]. intros n Hn.
      apply (prefix_match_iff a ns v n Hsw Hns) in Hn. eapply bt_none; eassumption.
  - (* longest *)
    destruct (bt false ns 0 v) as [k|] eqn:Eb; cbn [omap].
    + left. exists k. split; [|apply drain_prefix]. split.
      * apply (prefix_match_iff a ns v k Hsw Hns). apply bt_sound in Eb. exact Eb.
      * intros m Hm. apply (prefix_match_iff a ns v m Hsw Hns) in Hm.
        eapply bt_greedy_max; eassumption.
    + right. split; [|reflexivity]. intros n Hn.
      apply (prefix_match_iff a ns v n Hsw Hns) in Hn. eapply bt_none; eassumption.
Qed.

(* --- the two suffix forms --- *)

(* with \z at the end every match ends at the end of the text *)
Lemma suffix_match_at a ns lazy v p k :
  single_width a = true -> all_some (map node_of_atom a) = Some ns ->
  p <= length v ->
  bt lazy (ns ++ [REndText]) p (skipn p v) = Some k ->
  k = length v - p /\ SuffixMatch a v (length v - p).
Proof.
  intros Hsw Hns Hp Hb. apply bt_sound in Hb.
  pose proof (proj1 (sem_suffix a ns Hsw Hns _ _ _) Hb) as [Hd Hk].
  rewrite skipn_length in Hk. split; [exact Hk|].
  apply (suffix_match_iff a ns v (length v - p) Hsw Hns). split; [lia|].
  replace (length v - (length v - p)) with p by lia. rewrite <- Hk. exact Hb.
Qed.

Lemma suffix_match_bt a ns lazy v n :
  single_width a = true -> all_some (map node_of_atom a) = Some ns ->
  SuffixMatch a v n ->
  bt lazy (ns ++ [REndText]) (length v - n) (skipn (length v - n) v) <> None.
Proof.
  intros Hsw Hns Hm. apply (suffix_match_iff a ns v n Hsw Hns) in Hm as [_ Hm].
  destruct (bt_complete lazy _ _ _ _ Hm) as [k' E]. congruence.
Qed.

Lemma trim_suffix_longest a ns dot v :
  single_width a = true -> all_some (map node_of_atom a) = Some ns ->
  let cfg := trim_config Suffix Longest in
  let out := match pat_find cfg (BodyRx (ns ++ [REndText]) dot) v with
             | Some (x, y) => drain x y v
             | None => v
             end in
  TrimSpec Suffix Longest a v out.
Proof.
  intros Hsw Hns cfg out. subst out cfg.
  cbn [pat_find trim_config shortest_match]. unfold at_index. cbn [trim_config literal_period andb].
  unfold rx_find_at. cbn [TrimSpec].
  destruct (find_scan false (ns ++ [REndText]) 0 0 v) as [[x y]|] eqn:Ef.
  - destruct (find_scan_some _ _ _ _ _ _ _ Ef) as (d & -> & Hd & _ & Hb & Hxy & Hmin).
    cbn [Nat.add] in *.
    destruct (suffix_match_at a ns false v d _ Hsw Hns Hd Hb) as [Hk Hm].
    assert (y = length v) by lia. subst y.
    left. exists (length v - d). split; [split; [exact Hm|]|].
    + intros m Hmm. pose proof (suffix_match_bt a ns false v m Hsw Hns Hmm) as Hnn.
      destruct Hmm as [Hml _].
      destruct (le_lt_dec d (length v - m)) as [Hle|Hlt]; [lia|].
      exfalso. apply Hnn. apply Hmin; lia.
    + rewrite drain_suffix. replace (length v - (length v - d)) with d by lia. reflexivity.
  - right. split; [|reflexivity]. intros n Hn.
    pose proof (suffix_match_bt a ns false v n Hsw Hns Hn) as Hnn. destruct Hn as [Hnl _].
    apply Hnn. pose proof (find_scan_none _ _ _ _ _ Ef (length v - n) ltac:(lia) ltac:(lia)) as E.
    exact E.
Qed.

Lemma trim_suffix_shortest a ns dot v :
  single_width a = true -> all_some (map node_of_atom a) = Some ns ->
  let cfg := trim_config Suffix Shortest in
  exists out,
    match pat_rfind cfg (BodyRx (ns ++ [REndText]) dot) v with
    | FSome x y => Some (drain x y v)
    | FNone => Some v
    | FFuel => None
    end = Some out /\
    TrimSpec Suffix Shortest a v out.
Proof.
  intros Hsw Hns cfg. subst cfg.
  cbn [pat_rfind pat_find trim_config shortest_match]. unfold at_index. cbn [trim_config literal_period andb].
  unfold rx_find_at. cbn [TrimSpec].
  destruct (find_scan true (ns ++ [REndText]) 0 0 v) as [[x y]|] eqn:Ef.
  - destruct (find_scan_some _ _ _ _ _ _ _ Ef) as (d & -> & Hd & _ & Hb & Hxy & _).
    cbn [Nat.add] in *.
    assert (Hm0 : match_at true (ns ++ [REndText]) v (d, y)) by (repeat split; assumption).
    destruct (rfind_loop_spec true (ns ++ [REndText]) v (S (length v)) (d, y)
                ltac:(cbn [fst]; lia) Hm0) as ([x' y'] & Hr & (Hx'l & Hx'y' & Hb') & _ & Hnone).
    rewrite Hr. cbn [fst snd] in *.
    destruct (suffix_match_at a ns true v x' _ Hsw Hns Hx'l Hb') as [Hk Hm].
    assert (y' = length v) by lia. subst y'.
    exists (drain x' (length v) v). split; [reflexivity|].
    left. exists (length v - x'). split; [split; [exact Hm|]|].
    + intros m Hmm. pose proof (suffix_match_bt a ns true v m Hsw Hns Hmm) as Hnn.
      destruct Hmm as [Hml _].
      destruct (le_lt_dec (length v - m) x') as [Hle|Hlt]; [lia|].
      exfalso. apply Hnn. apply Hnone; lia.
    + rewrite drain_suffix. replace (length v - (length v - x')) with x' by lia. reflexivity.
  - exists v. split; [reflexivity|]. right. split; [|reflexivity]. intros n Hn.
    pose proof (suffix_match_bt a ns true v n Hsw Hns Hn) as Hnn. destruct Hn as [Hnl _].
    apply Hnn. pose proof (find_scan_none _ _ _ _ _ Ef (length v - n) ltac:(lia) ltac:(lia)) as E.
    exact E.
Qed.

(* --- literal patterns --- *)

Lemma prefix_match_chars l v n : PrefixMatch (map AChar l) v n <-> n <= length v /\ firstn n v = l.
Proof. unfold PrefixMatch, Matches. rewrite valid_chars, Denote_chars. tauto. Qed.

Lemma suffix_match_chars l v n :
  SuffixMatch (map AChar l) v n <-> n <= length v /\ skipn (length v - n) v = l.
Proof. unfold SuffixMatch, Matches. rewrite valid_chars, Denote_chars. tauto. Qed.

Lemma trim_literal side len l v :
  let cfg := trim_config side len in
  let a := map AChar l in
  (TrimSpec side len a v
     match lit_find cfg l v false with Some (x, y) => drain x y v | None => v end) /\
  lit_find cfg l v true = lit_find cfg l v false.
Proof.
  intros cfg a. subst cfg a. split; [|destruct side, len; reflexivity].
  destruct side.
  - (* prefix *)
    assert (Hf : forall ln, lit_find (trim_config Prefix ln) l v false =
                            if starts_with l v then Some (0, length l) else None)
      by (intros ln; destruct ln; reflexivity).
    rewrite Hf.
    destruct (starts_with l v) eqn:E.
    + apply starts_with_iff in E as [E1 E2].
      assert (Hk : PrefixMatch (map AChar l) v (length l)) by (apply prefix_match_chars; auto).
      assert (Hu : forall m, PrefixMatch (map AChar l) v m -> m = length l).
      { intros m Hm. apply prefix_match_chars in Hm as [Hm1 Hm2].
        rewrite <- Hm2. rewrite firstn_length_le; auto. }
      destruct len; cbn [TrimSpec]; left; exists (length l);
        (split; [split; [exact Hk|intros m Hm; rewrite (Hu m Hm); lia]|apply drain_prefix]).
    + assert (Hno : forall n, ~ PrefixMatch (map AChar l) v n).
      { intros n Hn. apply prefix_match_chars in Hn as [Hn1 Hn2].
        assert (starts_with l v = true); [|congruence].
        apply starts_with_iff.
        assert (Hl : length l = n) by (rewrite <- Hn2; apply firstn_length_le; exact Hn1).
        rewrite Hl. split; assumption. }
      destruct len; cbn [TrimSpec]; right; (split; [exact Hno|reflexivity]).
  - (* suffix *)
    assert (Hf : forall ln, lit_find (trim_config Suffix ln) l v false =
                            if ends_with l v then Some (length v - length l, length v) else None)
      by (intros ln; destruct ln; reflexivity).
    rewrite Hf.
    destruct (ends_with l v) eqn:E.
    + apply ends_with_iff in E as [E1 E2].
      assert (Hk : SuffixMatch (map AChar l) v (length l)) by (apply suffix_match_chars; auto).
      assert (Hu : forall m, SuffixMatch (map AChar l) v m -> m = length l).
      { intros m Hm. apply suffix_match_chars in Hm as [Hm1 Hm2].
        rewrite <- Hm2. rewrite skipn_length. lia. }
      destruct len; cbn [TrimSpec]; left; exists (length l);
        (split; [split; [exact Hk|intros m Hm; rewrite (Hu m Hm); lia]|apply drain_suffix]).
    + assert (Hno : forall n, ~ SuffixMatch (map AChar l) v n).
      { intros n Hn. apply suffix_match_chars in Hn as [Hn1 Hn2].
        assert (ends_with l v = true); [|congruence].
        apply ends_with_iff. assert (length l = n) by (rewrite <- Hn2, skipn_length; lia).
        subst n. split; [exact Hn1|exact Hn2]. }
      destruct len; cbn [TrimSpec]; right; (split; [exact Hno|reflexivity]).
Qed.

(* ------------------------------------------------------------------ *)
(* THEOREM: the four trim forms                                         *)

Theorem trim_correct side len p a v :
  parse_pattern p = Some a -> single_width a = true ->
  exists out, trim_model side len p v = Some out /\ TrimSpec side len a v out.
Proof.
  intros Hp Hsw. unfold trim_model. rewrite (compile_parse _ _ _ Hp).
  destruct (to_literal a) as [l|] eqn:Hlit.
  - rewrite (compile_literal _ _ _ Hlit). pose proof (to_literal_chars _ _ Hlit) as ->.
    destruct (trim_literal side len l v) as [Hspec Hlast].
    destruct (anchor_end (trim_config side len) && shortest_match (trim_config side len)).
    + cbn [pat_rfind]. rewrite Hlast.
      destruct (lit_find (trim_config side len) l v false) as [[x y]|]; eexists; split;
        try reflexivity; exact Hspec.
    + cbn [pat_find].
      destruct (lit_find (trim_config side len) l v false) as [[x y]|]; eexists; split;
        try reflexivity; exact Hspec.
  - pose proof (compile_ast_cases (trim_config side len) a Hlit) as Hc.
    rewrite rx_of_ast_nodes in Hc.
    destruct (all_some (map node_of_atom a)) as [ns|] eqn:Hns; cbn [omap] in Hc.
    + rewrite Hc. destruct side.
      * (* prefix *)
        replace (anchor_end (trim_config Prefix len) && shortest_match (trim_config Prefix len))
          with false by (destruct len; reflexivity).
        replace ((if anchor_begin (trim_config Prefix len) then [RStartText] else []) ++ ns ++
                 (if anchor_end (trim_config Prefix len) then [REndText] else []))
          with (RStartText :: ns) by (destruct len; cbn; rewrite app_nil_r; reflexivity).
        pose proof (trim_prefix_regex len a ns (starts_with_literal_dot a) v Hsw Hns) as Hspec.
        cbn zeta in Hspec.
        destruct (pat_find (trim_config Prefix len) (BodyRx (RStartText :: ns) (starts_with_literal_dot a)) v)
          as [[x y]|]; eexists; split; try reflexivity; exact Hspec.
      * destruct len.
        -- (* shortest suffix: rfind *)
           exact (trim_suffix_shortest a ns (starts_with_literal_dot a) v Hsw Hns).
        -- pose proof (trim_suffix_longest a ns (starts_with_literal_dot a) v Hsw Hns) as Hspec.
           cbn zeta in Hspec.
           change (anchor_end (trim_config Suffix Longest) && shortest_match (trim_config Suffix Longest))
             with false.
           change ((if anchor_begin (trim_config Suffix Longest) then [RStartText] else []) ++ ns ++
                   (if anchor_end (trim_config Suffix Longest) then [REndText] else []))
             with (ns ++ [REndText]).
           destruct (pat_find (trim_config Suffix Longest)
                       (BodyRx (ns ++ [REndText]) (starts_with_literal_dot a)) v)
             as [[x y]|]; eexists; split; try reflexivity; exact Hspec.
    + destruct Hc as [e ->]. exists v. split; [reflexivity|].
      assert (Hinv : valid_ast a = false) by (rewrite (valid_nodes a Hsw), Hns; reflexivity).
      destruct (invalid_no_match a Hinv) as [Hnp Hnsf].
      destruct side, len; cbn [TrimSpec]; right; (split; [|reflexivity]); auto.
Qed.

(* ------------------------------------------------------------------ *)
(* quoted characters, unclosed brackets                                 *)

Theorem literal_head c p :
  parse_pattern (Literal c :: p) = omap (cons (AChar c)) (parse_pattern p).
Proof. reflexivity. Qed.

Lemma parse_atoms_literals : forall s f, length s < f ->
  parse_atoms f (map Literal s) = Some (map AChar s).
Proof.
  induction s as [|c s IH]; intros f Hf; (destruct f as [|f]; [lia|]).
  - reflexivity.
  - cbn [map parse_atoms]. rewrite IH by (cbn [length] in Hf; lia). reflexivity.
Qed.

Theorem quoted_is_literal s :
  parse_pattern (map Literal s) = Some (map AChar s) /\
  forall t, Matches (map AChar s) t <-> t = s.
Proof.
  split.
  - unfold parse_pattern. apply parse_atoms_literals. rewrite map_length. lia.
  - intros t. unfold Matches. rewrite valid_chars, Denote_chars. tauto.
Qed.

(* what the shell hands over for quoted characters *)
Lemma apply_escapes_quoted : forall l,
  Forall (fun a => a_quoted a = true) l -> apply_escapes_from false l = l.
Proof.
  induction l as [|a r IH]; intros H; [reflexivity|].
  inversion H as [|? ? Ha Hr]; subst. cbn [apply_escapes_from].
  destruct r as [|b r']; [reflexivity|].
  rewrite Ha. cbn [negb andb]. rewrite andb_false_r. rewrite IH by exact Hr. reflexivity.
Qed.

Theorem quoted_chars_are_literal l :
  Forall (fun a => a_quoted a = true /\ a_quoting a = false) l ->
  to_pattern_chars (apply_escapes l) = map (fun a => Literal (a_value a)) l.
Proof.
  intros H. unfold apply_escapes. rewrite apply_escapes_quoted.
  - induction H as [|a r [Hq Hg] Hr IH]; [reflexivity|].
    cbn [to_pattern_chars map]. rewrite Hg, Hq, IH. reflexivity.
  - eapply Forall_impl; [|exact H]. intros a [Hq _]. exact Hq.
Qed.

Lemma tokens_needs_close : forall f first i l rest,
  tokens f first i = POk (l, rest) -> In (Normal c_rbr) i.
Proof.
  induction f as [|f IH]; intros first i l rest H; [discriminate|].
  destruct i as [|pc tl]; [discriminate|]. cbn [tokens] in H.
  destruct (is_normal pc c_rbr && negb first) eqn:E.
  - apply andb_true_iff in E as [E _]. apply is_normal_true in E. subst. left. reflexivity.
  - destruct (tokens f false (snd (elem_of pc tl))) as [[l' rest']| |] eqn:Et; try discriminate.
    apply IH in Et. right.
    (* the rest of an element is a suffix of tl *)
    assert (Hsuf : forall x, In x (snd (elem_of pc tl)) -> In x tl).
    { unfold elem_of. cbn [snd]. unfold spec_elem. destruct pc as [c|c]; [|auto].
      destruct (N.eqb c c_lbr); [|auto]. destruct tl as [|[d|d] tl2]; auto.
      assert (G : forall (fm : str -> batom) x,
                In x (snd (match split_at_term d tl2 with
                           | Some (v, r) => (fm (map char_value v), r)
                           | None => (BChar c, Normal d :: tl2)
                           end)) -> In x (Normal d :: tl2)).
      { intros fm x. destruct (split_at_term d tl2) as [[v r]|] eqn:Es; [|auto].
        cbn [snd]. intros Hx. right. clear -Es Hx. revert v r Es Hx.
        induction tl2 as [|q tl3 IH3]; intros v r Es Hx; [discriminate|].
        rewrite split_at_term_cons in Es.
        assert (Hl : forall v r, omap (fun p => (q :: fst p, snd p)) (split_at_term d tl3) = Some (v, r) ->
                                 In x r -> In x (q :: tl3)).
        { intros v0 r0 E0 Hx0. destruct (split_at_term d tl3) as [[v1 r1]|] eqn:E1; [|discriminate].
          inversion E0; subst. right. eapply IH3; [reflexivity|exact Hx0]. }
        destruct q as [y|y]; [destruct tl3 as [|[z|z] r3]|]; try (eapply Hl; eassumption).
        destruct (N.eqb y d && N.eqb z c_rbr).
        - inversion Es; subst. right. right. exact Hx.
        - eapply Hl; eassumption. }
      destruct (N.eqb d c_dot); [apply G|].
      destruct (N.eqb d c_eq); [apply G|].
      destruct (N.eqb d c_colon); [apply G|]. auto. }
    apply Hsuf. exact Et.
Qed.

Theorem unclosed_bracket_is_literal p :
  ~ In (Normal c_rbr) p ->
  parse_pattern (Normal c_lbr :: p) = omap (cons (AChar c_lbr)) (parse_pattern p).
Proof.
  intros Hno. unfold parse_pattern at 1. cbn [length parse_atoms].
  replace (N.eqb c_lbr c_quest) with false by reflexivity.
  replace (N.eqb c_lbr c_star) with false by reflexivity.
  rewrite N.eqb_refl.
  assert (Hb : bracket_parse p = PNone).
  { rewrite bracket_parse_spec.
    destruct (spec_bracket_total p) as [Hnf _].
    destruct (spec_bracket p) as [[b rest]| |] eqn:E; [|reflexivity|contradiction].
    exfalso. apply Hno. unfold spec_bracket in E.
    set (cb := match p with
               | pc :: tl => if is_normal pc c_bang || is_normal pc c_caret then (true, tl) else (false, p)
               | [] => (false, p)
               end) in E.
    assert (Hsub : forall x, In x (snd cb) -> In x p).
    { subst cb. destruct p as [|pc tl]; [auto|].
      destruct (is_normal pc c_bang || is_normal pc c_caret); cbn [snd]; auto. intros x Hx. right. exact Hx. }
    destruct cb as [compl body]. cbn [snd] in Hsub.
    rewrite spec_items_tokens in E by lia.
    destruct (tokens (S (length body)) true body) as [[l r]| |] eqn:Et; try discriminate.
    apply Hsub. eapply tokens_needs_close. exact Et. }
  rewrite Hb. reflexivity.
Qed.
