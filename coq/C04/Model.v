(* C04 — MODEL: an executable re-statement of what yash-rs does with a
   pattern, layer by layer and in the order of the Rust code:

     1. yash-fnmatch/src/char_iter.rs      with_escape / without_escape
        yash-semantics/.../attr_fnmatch.rs apply_escapes / to_pattern_chars
     2. yash-fnmatch/src/ast/parse.rs      pattern characters -> AST
        (parse_inner, make_range, Bracket::parse with after_hyphen, Atom::parse)
     3. yash-fnmatch/src/ast/regex.rs      AST -> regular expression *string*
        (SPECIAL_CHARS, BRACKET_SPECIAL_CHARS, the three bracket shapes)
     4. the regex crate, as far as the emitted syntax needs it:
        parse_rx (regex-syntax 0.8 parser: escapes, classes, groups, dot-star)
        and bt = leftmost-first (backtracking priority) matching with greedy or
        lazy stars (swap_greed), \A and \z
     5. yash-fnmatch/src/lib.rs            Pattern: literal fast path,
        is_match / find / rfind, literal_period
     6. yash-semantics .../param/trim.rs   trim_value (find or rfind) and
        .../compound_command/case.rs       first matching item, ;& and ;;&

   Characters are code points (N), strings are lists of code points, offsets
   are counted in characters (the harness converts byte offsets). *)
From Yv Require Import Common.Base Gen.Gen_C04.
From Coq Require Import List NArith Bool Arith.
Import ListNotations.

(* ------------------------------------------------------------------ *)
(* characters that have a meaning somewhere                            *)

Definition c_tab := 9%N.
Definition c_space := 32%N.
Definition c_bang := 33%N.       (* ! *)
Definition c_dollar := 36%N.
Definition c_amp := 38%N.
Definition c_lpar := 40%N.
Definition c_rpar := 41%N.
Definition c_star := 42%N.
Definition c_plus := 43%N.
Definition c_hyphen := 45%N.
Definition c_dot := 46%N.
Definition c_colon := 58%N.
Definition c_eq := 61%N.
Definition c_quest := 63%N.
Definition c_A := 65%N.
Definition c_lbr := 91%N.        (* [ *)
Definition c_bslash := 92%N.
Definition c_rbr := 93%N.        (* ] *)
Definition c_caret := 94%N.
Definition c_z := 122%N.
Definition c_lbrace := 123%N.
Definition c_bar := 124%N.
Definition c_rbrace := 125%N.
Definition c_tilde := 126%N.

Definition mem_N (c : N) (l : list N) : bool := existsb (N.eqb c) l.

Definition omap {A B} (f : A -> B) (o : option A) : option B :=
  match o with Some a => Some (f a) | None => None end.

Fixpoint all_some {A} (l : list (option A)) : option (list A) :=
  match l with
  | [] => Some []
  | Some a :: r => omap (cons a) (all_some r)
  | None :: _ => None
  end.

(* ------------------------------------------------------------------ *)
(* 1. pattern characters                                               *)

Inductive pchar := Normal (c : N) | Literal (c : N).

Definition char_value (p : pchar) : N :=
  match p with Normal c => c | Literal c => c end.

Definition pchar_eqb (a b : pchar) : bool :=
  match a, b with
  | Normal x, Normal y => N.eqb x y
  | Literal x, Literal y => N.eqb x y
  | _, _ => false
  end.

Definition is_normal (p : pchar) (c : N) : bool := pchar_eqb p (Normal c).

(* char_iter.rs WithEscape::next: a backslash makes the next character
   literal; a trailing backslash ends the iteration (it is dropped). *)
Fixpoint with_escape (s : str) : list pchar :=
  match s with
  | [] => []
  | c :: r =>
      if N.eqb c c_bslash then
        match r with
        | [] => []
        | d :: r' => Literal d :: with_escape r'
        end
      else Normal c :: with_escape r
  end.

Definition without_escape (s : str) : list pchar := map Normal s.

(* attr_fnmatch.rs: the part of AttrChar the pattern code looks at *)
Record achar := mkAchar { a_value : N; a_quoted : bool; a_quoting : bool }.

(* apply_escapes: for j in 1..len, i = j-1: an unquoted, non-quoting backslash
   at i becomes quoting and the character at j becomes quoted.  [prev] says
   whether the previous character just quoted this one. *)
Fixpoint apply_escapes_from (quoted_by_prev : bool) (l : list achar) : list achar :=
  match l with
  | [] => []
  | a :: r =>
      let a' := if quoted_by_prev then mkAchar (a_value a) true (a_quoting a) else a in
      match r with
      | [] => [a']
      | _ :: _ =>
          if N.eqb (a_value a') c_bslash && negb (a_quoting a') && negb (a_quoted a')
          then mkAchar (a_value a') (a_quoted a') true :: apply_escapes_from true r
          else a' :: apply_escapes_from false r
      end
  end.

Definition apply_escapes (l : list achar) : list achar := apply_escapes_from false l.

Fixpoint to_pattern_chars (l : list achar) : list pchar :=
  match l with
  | [] => []
  | a :: r =>
      if a_quoting a then to_pattern_chars r
      else if a_quoted a then Literal (a_value a) :: to_pattern_chars r
      else Normal (a_value a) :: to_pattern_chars r
  end.

(* ------------------------------------------------------------------ *)
(* 2. the AST (ast.rs) and its parser (ast/parse.rs)                   *)

Inductive batom :=
| BChar (c : N)
| BColl (v : str)          (* [.v.] *)
| BEquiv (v : str)         (* [=v=] *)
| BClass (name : str).     (* [:name:] *)

Inductive bitem := IAtom (a : batom) | IRange (lo hi : batom).

Record bracket := mkBracket { b_complement : bool; b_items : list bitem }.

Inductive atom := AChar (c : N) | AAnyChar | AAnyString | ABracket (b : bracket).

Definition ast := list atom.

(* result of a parser that may fail (Rust None) or run out of fuel *)
Inductive pres (A : Type) := POk (a : A) | PNone | PFuel.
Arguments POk {A} a.
Arguments PNone {A}.
Arguments PFuel {A}.

(* BracketAtom::parse_inner, the loop after the opening delimiter [d]:
   characters are pushed on [acc] (kept reversed here) until the pushed
   sequence ends with Normal d, Normal ']'. *)
Fixpoint scan_inner (d : N) (acc : list pchar) (i : list pchar) : option (str * list pchar) :=
  match i with
  | [] => None
  | pc :: i' =>
      match pc, acc with
      | Normal y, Normal x :: v =>
          if N.eqb x d && N.eqb y c_rbr
          then Some (map char_value (rev v), i')
          else scan_inner d (pc :: acc) i'
      | _, _ => scan_inner d (pc :: acc) i'
      end
  end.

Definition parse_inner (i : list pchar) : option (batom * list pchar) :=
  match i with
  | Normal c :: i' =>
      if N.eqb c c_dot then omap (fun p => (BColl (fst p), snd p)) (scan_inner c_dot [] i')
      else if N.eqb c c_eq then omap (fun p => (BEquiv (fst p), snd p)) (scan_inner c_eq [] i')
      else if N.eqb c c_colon then omap (fun p => (BClass (fst p), snd p)) (scan_inner c_colon [] i')
      else None
  | _ => None
  end.

(* make_range: the item vector is kept reversed (head = last pushed) *)
Definition make_range (items : list bitem) : list bitem :=
  match items with
  | IAtom e :: IAtom (BChar h) :: IAtom s :: rest =>
      if N.eqb h c_hyphen then IRange s e :: rest else items
  | _ => items
  end.

Definition is_nil {A} (l : list A) : bool := match l with [] => true | _ => false end.

(* one iteration of the loop of Bracket::parse *)
Inductive bstep :=
| BDone (b : bracket) (rest : list pchar)
| BCont (compl : bool) (items : list bitem) (ah : bool) (rest : list pchar)
| BEnd.

Definition bracket_step (compl : bool) (items : list bitem) (ah : bool) (i : list pchar) : bstep :=
  match i with
  | [] => BEnd
  | pc :: i' =>
      let next compl items rest :=
        BCont compl (if ah then make_range items else items) (is_normal pc c_hyphen) rest in
      match pc with
      | Normal c =>
          if N.eqb c c_rbr && negb (is_nil items) then BDone (mkBracket compl (rev items)) i'
          else if (N.eqb c c_bang || N.eqb c c_caret) && negb compl && is_nil items
          then next true items i'
          else if N.eqb c c_lbr then
            match parse_inner i' with
            | Some (a, j) => next compl (IAtom a :: items) j
            | None => next compl (IAtom (BChar c_lbr) :: items) i'
            end
          else next compl (IAtom (BChar c) :: items) i'
      | Literal c => next compl (IAtom (BChar c) :: items) i'
      end
  end.

Fixpoint bracket_loop (fuel : nat) (compl : bool) (items : list bitem) (ah : bool)
    (i : list pchar) : pres (bracket * list pchar) :=
  match fuel with
  | O => PFuel
  | S f =>
      match bracket_step compl items ah i with
      | BDone b rest => POk (b, rest)
      | BCont compl' items' ah' rest => bracket_loop f compl' items' ah' rest
      | BEnd => PNone
      end
  end.

(* Bracket::parse (the characters after the opening bracket) *)
Definition bracket_parse (i : list pchar) : pres (bracket * list pchar) :=
  bracket_loop (S (length i)) false [] false i.

(* Atom::parse and the loop of Ast::new *)
Fixpoint parse_atoms (fuel : nat) (i : list pchar) : option ast :=
  match fuel with
  | O => None
  | S f =>
      match i with
      | [] => Some []
      | pc :: i' =>
          match pc with
          | Normal c =>
              if N.eqb c c_quest then omap (cons AAnyChar) (parse_atoms f i')
              else if N.eqb c c_star then omap (cons AAnyString) (parse_atoms f i')
              else if N.eqb c c_lbr then
                match bracket_parse i' with
                | POk (b, j) => omap (cons (ABracket b)) (parse_atoms f j)
                | PNone => omap (cons (AChar c_lbr)) (parse_atoms f i')
                | PFuel => None
                end
              else omap (cons (AChar c)) (parse_atoms f i')
          | Literal c => omap (cons (AChar c)) (parse_atoms f i')
          end
      end
  end.

(* Ast::new; None = out of fuel (never: see Proofs.parse_pattern_fuel) *)
Definition parse_pattern (i : list pchar) : option ast := parse_atoms (S (length i)) i.

(* Ast::to_literal *)
Fixpoint to_literal (a : ast) : option str :=
  match a with
  | [] => Some []
  | AChar c :: r => omap (cons c) (to_literal r)
  | _ :: _ => None
  end.

Definition starts_with_literal_dot (a : ast) : bool :=
  match a with AChar c :: _ => N.eqb c c_dot | _ => false end.

(* ------------------------------------------------------------------ *)
(* 3. AST -> regular expression string (ast/regex.rs)                  *)

Record config := mkConfig {
  anchor_begin : bool;
  anchor_end : bool;
  literal_period : bool;
  shortest_match : bool
}.

Inductive perr := EEmptyBracket | EEmptyColl | EUndefClass | EClassInRange | ERegex.

Inductive eres (A : Type) := EOk (a : A) | EErr (e : perr).
Arguments EOk {A} a.
Arguments EErr {A} e.

Definition ebind {A B} (x : eres A) (f : A -> eres B) : eres B :=
  match x with EOk a => f a | EErr e => EErr e end.

(* const SPECIAL_CHARS: &str = r"\.+*?()|[]{}^$";  const BRACKET_SPECIAL_CHARS: &str = "-&~";
   read from the source on every run by translator/c04_consts.py (Gen/Gen_C04.v) *)
Definition special_chars : list N := gen_special_chars.
Definition bracket_special_chars : list N := gen_bracket_special_chars.

(* regex_syntax::ast::ClassAsciiKind::from_name *)
Inductive ascii_kind :=
| Alnum | Alpha | Ascii | Blank | Cntrl | Digit | Graph | Lower | Print | Punct
| Space | Upper | Word | Xdigit.

Definition class_names : list (str * ascii_kind) :=
  [ ([97;108;110;117;109]%N, Alnum);        (* alnum *)
    ([97;108;112;104;97]%N, Alpha);         (* alpha *)
    ([97;115;99;105;105]%N, Ascii);         (* ascii *)
    ([98;108;97;110;107]%N, Blank);         (* blank *)
    ([99;110;116;114;108]%N, Cntrl);        (* cntrl *)
    ([100;105;103;105;116]%N, Digit);       (* digit *)
    ([103;114;97;112;104]%N, Graph);        (* graph *)
    ([108;111;119;101;114]%N, Lower);       (* lower *)
    ([112;114;105;110;116]%N, Print);       (* print *)
    ([112;117;110;99;116]%N, Punct);        (* punct *)
    ([115;112;97;99;101]%N, Space);         (* space *)
    ([117;112;112;101;114]%N, Upper);       (* upper *)
    ([119;111;114;100]%N, Word);            (* word *)
    ([120;100;105;103;105;116]%N, Xdigit)   (* xdigit *) ].

Fixpoint assoc_str {A} (k : str) (l : list (str * A)) : option A :=
  match l with
  | [] => None
  | (k', v) :: r => if str_eqb k k' then Some v else assoc_str k r
  end.

Definition class_of_name (name : str) : option ascii_kind := assoc_str name class_names.

(* BracketAtom::fmt_regex_char *)
Definition fmt_char_b (c : N) : str :=
  if mem_N c bracket_special_chars || mem_N c special_chars then [c_bslash; c] else [c].

(* matches_multi_character: value.chars().nth(1).is_some() *)
Definition batom_multi (a : batom) : bool :=
  match a with
  | BColl v | BEquiv v => Nat.ltb 1 (length v)
  | _ => false
  end.

Definition batom_fmt (a : batom) : eres str :=
  match a with
  | BChar c => EOk (fmt_char_b c)
  | BColl v | BEquiv v =>
      if is_nil v then EErr EEmptyColl else EOk (flat_map fmt_char_b v)
  | BClass name =>
      match class_of_name name with
      | Some _ => EOk ([c_lbr; c_colon] ++ name ++ [c_colon; c_rbr])
      | None => EErr EUndefClass
      end
  end.

Definition batom_fmt_single (a : batom) : eres str :=
  match a with
  | BChar c => EOk (fmt_char_b c)
  | BColl v | BEquiv v =>
      match v with
      | c :: _ => EOk (fmt_char_b c)
      | [] => EErr EEmptyColl
      end
  | BClass _ => EErr EClassInRange
  end.

Definition bitem_multi (it : bitem) : bool :=
  match it with IAtom a => batom_multi a | IRange _ _ => false end.

Definition bitem_fmt (it : bitem) : eres str :=
  match it with
  | IAtom a => batom_fmt a
  | IRange lo hi =>
      ebind (batom_fmt_single lo) (fun s1 =>
      ebind (batom_fmt_single hi) (fun s2 => EOk (s1 ++ [c_hyphen] ++ s2)))
  end.

(* for item in items { f(item)? } appended in order; first error wins *)
Fixpoint fmt_all {A} (f : A -> eres str) (l : list A) : eres str :=
  match l with
  | [] => EOk []
  | x :: r => ebind (f x) (fun s => ebind (fmt_all f r) (fun t => EOk (s ++ t)))
  end.

(* the alternation of the second shape: items separated by | *)
Fixpoint fmt_alts (l : list bitem) (first : bool) : eres str :=
  match l with
  | [] => EOk []
  | it :: r =>
      let sep := if first then [] else [c_bar] in
      ebind (bitem_fmt it) (fun s =>
      let one := if bitem_multi it then s else [c_lbr] ++ s ++ [c_rbr] in
      ebind (fmt_alts r false) (fun t => EOk (sep ++ one ++ t)))
  end.

Definition bracket_fmt (b : bracket) : eres str :=
  if is_nil (b_items b) then EErr EEmptyBracket
  else if negb (existsb bitem_multi (b_items b)) then
    ebind (fmt_all bitem_fmt (b_items b)) (fun s =>
    EOk ([c_lbr] ++ (if b_complement b then [c_caret] else []) ++ s ++ [c_rbr]))
  else if negb (b_complement b) then
    ebind (fmt_alts (b_items b) true) (fun s => EOk ([c_lpar; c_quest; c_colon] ++ s ++ [c_rpar]))
  else if forallb bitem_multi (b_items b) then EOk [c_dot]     (* no single character is excluded *)
  else
    ebind (fmt_all bitem_fmt (filter (fun it => negb (bitem_multi it)) (b_items b))) (fun s =>
    EOk ([c_lbr; c_caret] ++ s ++ [c_rbr])).

Definition atom_fmt (a : atom) : eres str :=
  match a with
  | AChar c => EOk (if mem_N c special_chars then [c_bslash; c] else [c])
  | AAnyChar => EOk [c_dot]
  | AAnyString => EOk [c_dot; c_star]
  | ABracket b => bracket_fmt b
  end.

(* Ast::fmt_regex / to_regex *)
Definition ast_fmt (cfg : config) (a : ast) : eres str :=
  ebind (fmt_all atom_fmt a) (fun s =>
  EOk ((if anchor_begin cfg then [c_bslash; c_A] else []) ++ s ++
       (if anchor_end cfg then [c_bslash; c_z] else []))).

(* ------------------------------------------------------------------ *)
(* 4. the regex crate on the emitted syntax                            *)

Inductive citem :=
| CLit (c : N)
| CRange (lo hi : N)
| CAscii (k : ascii_kind)
| CNest (neg : bool) (items : list citem).     (* a nested class, [:^name:] *)

(* nodes that consume exactly one character *)
Inductive snode := SLit (c : N) | SAny | SClass (neg : bool) (items : list citem).

Inductive rnode :=
| RS (n : snode)
| RStar (n : snode)                     (* n* : greedy, lazy under swap_greed *)
| RAlt (alts : list (list snode))       (* (?:a|b|..) *)
| RStartText                            (* \A *)
| REndText.                             (* \z *)

Definition rx := list rnode.

(* RxErr: the regex crate rejects the string (regex::Error);
   RxUnsup: syntax outside the subset modelled here (never emitted by
   ast_fmt on the domain of the theorems: Proofs.parse_rx_fmt) *)
Inductive rxres (A : Type) := RxOk (a : A) | RxErr | RxUnsup.
Arguments RxOk {A} a.
Arguments RxErr {A}.
Arguments RxUnsup {A}.

(* regex_syntax::is_meta_character *)
Definition is_meta_character (c : N) : bool :=
  mem_N c [c_bslash; c_dot; c_plus; c_star; c_quest; c_lpar; c_rpar; c_bar; c_lbr; c_rbr;
           c_lbrace; c_rbrace; c_caret; c_dollar; 35%N; c_amp; c_hyphen; c_tilde].

(* regex_syntax::is_escapeable_character: meta, or ASCII that is neither a
   letter, a digit, '<' nor '>' *)
Definition is_escapeable_character (c : N) : bool :=
  is_meta_character c ||
  (N.ltb c 128 &&
   negb ((N.leb 48 c && N.leb c 57) || (N.leb 65 c && N.leb c 90) || (N.leb 97 c && N.leb c 122)
         || N.eqb c 60 || N.eqb c 62)).

(* an escape sequence \c that denotes the literal c; everything else after a
   backslash (classes, assertions, hex, errors) is outside the subset, except
   \A and \z which the top level handles *)
Definition escaped_literal (c : N) : bool := is_escapeable_character c.

(* "[:name:]" with the parser positioned after the opening "[" of the item:
   s starts with ":" *)
Fixpoint take_until_colon (s : str) : option (str * str) :=
  match s with
  | [] => None
  | c :: r => if N.eqb c c_colon then Some ([], s)
              else omap (fun p => (c :: fst p, snd p)) (take_until_colon r)
  end.

Definition parse_ascii_class (s : str) : option (bool * ascii_kind * str) :=
  match s with
  | c :: r =>
      if N.eqb c c_colon then
        let neg := match r with d :: _ => N.eqb d c_caret | [] => false end in
        let r1 := if neg then tl r else r in
        match take_until_colon r1 with
        | Some (name, c1 :: c2 :: rest) =>
            if N.eqb c1 c_colon && N.eqb c2 c_rbr then
              match class_of_name name with
              | Some k => Some (neg, k, rest)
              | None => None
              end
            else None
        | _ => None
        end
      else None
  | [] => None
  end.

(* parse_set_class_item: one literal, written verbatim or escaped *)
Definition class_prim (s : str) : rxres (N * str) :=
  match s with
  | [] => RxErr
  | c :: r =>
      if N.eqb c c_bslash then
        match r with
        | [] => RxErr
        | d :: r' =>
            if escaped_literal d then RxOk (d, r')
            else if mem_N d [c_A; c_z; 98%N; 66%N; 60%N; 62%N] then RxErr   (* an assertion is no class member *)
            else RxUnsup
        end
      else RxOk (c, r)
  end.

(* parse_set_class_open: ^, then any number of literal -, then a literal ]
   if nothing has been pushed yet; [s] is what follows the opening bracket.
   Result: negated?, the members pushed so far (reversed), the rest. *)
Fixpoint leading_hyphens (s : str) : list citem * str :=
  match s with
  | c :: r => if N.eqb c c_hyphen then let (l, t) := leading_hyphens r in (CLit c_hyphen :: l, t)
              else ([], s)
  | [] => ([], [])
  end.

Definition class_open (s : str) : rxres (bool * list citem * str) :=
  match s with
  | [] => RxErr
  | c :: r =>
      let neg := N.eqb c c_caret in
      let s1 := if neg then r else s in
      match s1 with
      | [] => RxErr
      | _ :: _ =>
          let (hy, s2) := leading_hyphens s1 in
          match s2 with
          | [] => RxErr
          | d :: s3 =>
              if is_nil hy && N.eqb d c_rbr then
                match s3 with
                | [] => RxErr
                | _ :: _ => RxOk (neg, [CLit c_rbr], s3)
                end
              else RxOk (neg, rev hy, s2)
          end
      end
  end.

(* the loop of parse_set_class after parse_set_class_open *)
Fixpoint class_loop (fuel : nat) (neg : bool) (acc : list citem) (s : str) : rxres (snode * str) :=
  match fuel with
  | O => RxUnsup
  | S f =>
      match s with
      | [] => RxErr                                   (* unclosed class *)
      | c :: r =>
          if N.eqb c c_lbr then
            match parse_ascii_class r with
            | Some (nk, rest) =>
                class_loop f neg ((if fst nk then CNest true [CAscii (snd nk)] else CAscii (snd nk)) :: acc) rest
            | None =>
                (* a nested class: its members up to its own closing bracket *)
                match class_open r with
                | RxOk (neg', acc', r') =>
                    match class_loop f neg' acc' r' with
                    | RxOk (SClass n items, r'') => class_loop f neg (CNest n items :: acc) r''
                    | RxOk (_, _) => RxUnsup
                    | RxErr => RxErr
                    | RxUnsup => RxUnsup
                    end
                | RxErr => RxErr
                | RxUnsup => RxUnsup
                end
            end
          else if N.eqb c c_rbr then RxOk (SClass neg (rev acc), r)
          else if (N.eqb c c_amp || N.eqb c c_hyphen || N.eqb c c_tilde) &&
                  match r with d :: _ => N.eqb d c | [] => false end
          then RxUnsup                                (* && -- ~~ *)
          else
            match class_prim s with
            | RxOk (lo, s1) =>
                match s1 with
                | [] => RxErr
                | h :: s2 =>
                    let is_range :=
                      N.eqb h c_hyphen &&
                      match s2 with
                      | d :: _ => negb (N.eqb d c_rbr) && negb (N.eqb d c_hyphen)
                      | [] => true
                      end in
                    if is_range then
                      match class_prim s2 with
                      | RxOk (hi, s3) =>
                          if N.leb lo hi then class_loop f neg (CRange lo hi :: acc) s3 else RxErr
                      | RxErr => RxErr
                      | RxUnsup => RxUnsup
                      end
                    else class_loop f neg (CLit lo :: acc) s1
                end
            | RxErr => RxErr
            | RxUnsup => RxUnsup
            end
      end
  end.

(* a whole class; [s] is what follows the opening bracket *)
Definition parse_class (s : str) : rxres (snode * str) :=
  match class_open s with
  | RxOk (neg, acc, s') => class_loop (S (length s')) neg acc s'
  | RxErr => RxErr
  | RxUnsup => RxUnsup
  end.

(* the inside of (?: ... ): alternatives of one-character nodes *)
Fixpoint group_loop (fuel : nat) (cur : list snode) (alts : list (list snode)) (s : str)
    : rxres (list (list snode) * str) :=
  match fuel with
  | O => RxUnsup
  | S f =>
      match s with
      | [] => RxErr                                   (* unclosed group *)
      | c :: r =>
          if N.eqb c c_rpar then RxOk (rev (rev cur :: alts), r)
          else if N.eqb c c_bar then group_loop f [] (rev cur :: alts) r
          else if N.eqb c c_bslash then
            match r with
            | [] => RxErr
            | d :: r' => if escaped_literal d then group_loop f (SLit d :: cur) alts r' else RxUnsup
            end
          else if N.eqb c c_dot then group_loop f (SAny :: cur) alts r
          else if N.eqb c c_lbr then
            match parse_class r with
            | RxOk (n, r') => group_loop f (n :: cur) alts r'
            | RxErr => RxErr
            | RxUnsup => RxUnsup
            end
          else if mem_N c [c_plus; c_star; c_quest; c_lpar; c_lbrace; c_rbrace; c_caret; c_dollar; c_rbr]
          then RxUnsup
          else group_loop f (SLit c :: cur) alts r
      end
  end.

Fixpoint rx_loop (fuel : nat) (acc : list rnode) (s : str) : rxres rx :=
  match fuel with
  | O => RxUnsup
  | S f =>
      match s with
      | [] => RxOk (rev acc)
      | c :: r =>
          if N.eqb c c_bslash then
            match r with
            | [] => RxErr
            | d :: r' =>
                if N.eqb d c_A then rx_loop f (RStartText :: acc) r'
                else if N.eqb d c_z then rx_loop f (REndText :: acc) r'
                else if escaped_literal d then rx_loop f (RS (SLit d) :: acc) r'
                else RxUnsup
            end
          else if N.eqb c c_dot then rx_loop f (RS SAny :: acc) r
          else if N.eqb c c_star then
            match acc with
            | RS n :: acc' => rx_loop f (RStar n :: acc') r
            | [] => RxErr                             (* repetition operator missing expression *)
            | _ :: _ => RxUnsup
            end
          else if N.eqb c c_lbr then
            match parse_class r with
            | RxOk (n, r') => rx_loop f (RS n :: acc) r'
            | RxErr => RxErr
            | RxUnsup => RxUnsup
            end
          else if N.eqb c c_lpar then
            match r with
            | q :: k :: r' =>
                if N.eqb q c_quest && N.eqb k c_colon then
                  match group_loop (S (length r')) [] [] r' with
                  | RxOk (alts, r'') => rx_loop f (RAlt alts :: acc) r''
                  | RxErr => RxErr
                  | RxUnsup => RxUnsup
                  end
                else RxUnsup
            | _ => RxUnsup
            end
          else if mem_N c [c_plus; c_quest; c_rpar; c_bar; c_lbrace; c_rbrace; c_caret; c_dollar; c_rbr]
          then RxUnsup
          else rx_loop f (RS (SLit c) :: acc) r
      end
  end.

Definition parse_rx (s : str) : rxres rx := rx_loop (S (length s)) [] s.

(* hir::translate ascii_class *)
Definition ascii_ranges (k : ascii_kind) : list (N * N) :=
  match k with
  | Alnum => [(48, 57); (65, 90); (97, 122)]
  | Alpha => [(65, 90); (97, 122)]
  | Ascii => [(0, 127)]
  | Blank => [(9, 9); (32, 32)]
  | Cntrl => [(0, 31); (127, 127)]
  | Digit => [(48, 57)]
  | Graph => [(33, 126)]
  | Lower => [(97, 122)]
  | Print => [(32, 126)]
  | Punct => [(33, 47); (58, 64); (91, 96); (123, 126)]
  | Space => [(9, 9); (10, 10); (11, 11); (12, 12); (13, 13); (32, 32)]
  | Upper => [(65, 90)]
  | Word => [(48, 57); (65, 90); (95, 95); (97, 122)]
  | Xdigit => [(48, 57); (65, 70); (97, 102)]
  end%N.

Definition in_range (x : N) (p : N * N) : bool := N.leb (fst p) x && N.leb x (snd p).

Fixpoint citem_match (x : N) (it : citem) : bool :=
  match it with
  | CLit c => N.eqb x c
  | CRange lo hi => N.leb lo x && N.leb x hi
  | CAscii k => existsb (in_range x) (ascii_ranges k)
  | CNest neg items =>
      xorb neg ((fix any (l : list citem) : bool :=
                   match l with
                   | [] => false
                   | i :: l' => citem_match x i || any l'
                   end) items)
  end.

Definition smatch (n : snode) (x : N) : bool :=
  match n with
  | SLit c => N.eqb x c
  | SAny => true                              (* dot_matches_new_line(true) *)
  | SClass neg items => xorb neg (existsb (citem_match x) items)
  end.

(* an alternative of a group: a fixed-length sequence *)
Fixpoint seq_match (alt : list snode) (s : str) : option (nat * str) :=
  match alt with
  | [] => Some (O, s)
  | n :: alt' =>
      match s with
      | x :: s' => if smatch n x then omap (fun p => (S (fst p), snd p)) (seq_match alt' s') else None
      | [] => None
      end
  end.

(* Leftmost-first matching at one start position: the match a backtracking
   engine finds first.  [pos] is the absolute offset of [s] in the haystack
   (for \A); the result is the number of characters consumed. *)
Fixpoint bt (lazy : bool) (r : rx) : nat -> str -> option nat :=
  match r with
  | [] => fun _ _ => Some O
  | RS n :: r' => fun pos s =>
      match s with
      | x :: s' => if smatch n x then omap S (bt lazy r' (S pos) s') else None
      | [] => None
      end
  | RStar n :: r' =>
      fix star (pos : nat) (s : str) {struct s} : option nat :=
        if lazy then
          match bt lazy r' pos s with
          | Some k => Some k
          | None =>
              match s with
              | x :: s' => if smatch n x then omap S (star (S pos) s') else None
              | [] => None
              end
          end
        else
          match (match s with
                 | x :: s' => if smatch n x then omap S (star (S pos) s') else None
                 | [] => None
                 end) with
          | Some k => Some k
          | None => bt lazy r' pos s
          end
  | RAlt alts :: r' => fun pos s =>
      (fix try (l : list (list snode)) : option nat :=
         match l with
         | [] => None
         | alt :: l' =>
             match seq_match alt s with
             | Some (k, s') =>
                 match bt lazy r' (k + pos) s' with
                 | Some m => Some (k + m)
                 | None => try l'
                 end
             | None => try l'
             end
         end) alts
  | RStartText :: r' => fun pos s => if Nat.eqb pos 0 then bt lazy r' pos s else None
  | REndText :: r' => fun pos s => match s with [] => bt lazy r' pos s | _ :: _ => None end
  end.

(* Regex::find_at(text, at): leftmost start >= at *)
Fixpoint find_scan (lazy : bool) (r : rx) (at_ : nat) (pos : nat) (s : str) : option (nat * nat) :=
  let here := if Nat.leb at_ pos then bt lazy r pos s else None in
  match here with
  | Some k => Some (pos, pos + k)
  | None =>
      match s with
      | [] => None
      | _ :: s' => find_scan lazy r at_ (S pos) s'
      end
  end.

Definition rx_find_at (lazy : bool) (r : rx) (text : str) (at_ : nat) : option (nat * nat) :=
  find_scan lazy r at_ 0 text.

(* ------------------------------------------------------------------ *)
(* 5. Pattern (lib.rs)                                                 *)

Inductive body := BodyLit (s : str) | BodyRx (r : rx) (dot : bool).

Inductive cres := COk (b : body) | CErr (e : perr) | CUnsup | CFuel.

(* Pattern::from_ast_and_config *)
Definition compile_ast (cfg : config) (a : ast) : cres :=
  match to_literal a with
  | Some l => COk (BodyLit l)
  | None =>
      match ast_fmt cfg a with
      | EErr e => CErr e
      | EOk s =>
          match parse_rx s with
          | RxOk r => COk (BodyRx r (starts_with_literal_dot a))
          | RxErr => CErr ERegex
          | RxUnsup => CUnsup
          end
      end
  end.

(* Pattern::parse_with_config *)
Definition compile (cfg : config) (p : list pchar) : cres :=
  match parse_pattern p with
  | None => CFuel
  | Some a => compile_ast cfg a
  end.

Fixpoint starts_with (s t : str) : bool :=   (* t starts with s *)
  match s, t with
  | [], _ => true
  | x :: s', y :: t' => N.eqb x y && starts_with s' t'
  | _ :: _, [] => false
  end.

(* str::find / str::rfind of a substring, in characters *)
Fixpoint find_sub (s : str) (pos : nat) (t : str) : option nat :=
  if starts_with s t then Some pos
  else match t with [] => None | _ :: t' => find_sub s (S pos) t' end.

Fixpoint rfind_sub (s : str) (pos : nat) (t : str) : option nat :=
  match t with
  | [] => if starts_with s t then Some pos else None
  | _ :: t' =>
      match rfind_sub s (S pos) t' with
      | Some p => Some p
      | None => if starts_with s t then Some pos else None
      end
  end.

Definition ends_with (s t : str) : bool :=
  Nat.leb (length s) (length t) && str_eqb s (skipn (length t - length s) t).

Definition lit_find (cfg : config) (s text : str) (last : bool) : option (nat * nat) :=
  match anchor_begin cfg, anchor_end cfg with
  | false, false =>
      omap (fun p => (p, p + length s)) (if last then rfind_sub s 0 text else find_sub s 0 text)
  | true, false => if starts_with s text then Some (0, length s) else None
  | false, true => if ends_with s text then Some (length text - length s, length text) else None
  | true, true => if str_eqb text s then Some (0, length s) else None
  end.

Definition is_some {A} (o : option A) : bool := match o with Some _ => true | None => false end.

Definition at_index (cfg : config) (dot : bool) (text : str) : nat :=
  if literal_period cfg && negb dot && starts_with [c_dot] text then 1 else 0.

Definition pat_find (cfg : config) (b : body) (text : str) : option (nat * nat) :=
  match b with
  | BodyLit s => lit_find cfg s text false
  | BodyRx r dot => rx_find_at (shortest_match cfg) r text (at_index cfg dot text)
  end.

Definition pat_is_match (cfg : config) (b : body) (text : str) : bool :=
  match b with
  | BodyLit s => is_some (lit_find cfg s text false)
  | BodyRx r dot => is_some (rx_find_at (shortest_match cfg) r text (at_index cfg dot text))
  end.

(* the loop of Pattern::rfind: while find_at(text, range.start + 1) finds
   something, take it.  None = out of fuel. *)
Fixpoint rfind_loop (fuel : nat) (lazy : bool) (r : rx) (text : str) (rg : nat * nat)
    : option (nat * nat) :=
  match fuel with
  | O => None
  | S f =>
      if Nat.leb (S (fst rg)) (length text) then
        match rx_find_at lazy r text (S (fst rg)) with
        | Some rg' => rfind_loop f lazy r text rg'
        | None => Some rg
        end
      else Some rg
  end.

Inductive fres := FSome (a b : nat) | FNone | FFuel.

Definition pat_rfind (cfg : config) (b : body) (text : str) : fres :=
  match b with
  | BodyLit s =>
      match lit_find cfg s text true with Some (a, b) => FSome a b | None => FNone end
  | BodyRx r dot =>
      match pat_find cfg b text with
      | None => FNone
      | Some rg =>
          match rfind_loop (S (length text)) (shortest_match cfg) r text rg with
          | Some (a, b) => FSome a b
          | None => FFuel
          end
      end
  end.

(* ------------------------------------------------------------------ *)
(* 6. the two users in yash-semantics                                  *)

Inductive trim_side := Prefix | Suffix.
Inductive trim_length := Shortest | Longest.

Definition trim_config (side : trim_side) (len : trim_length) : config :=
  mkConfig (match side with Prefix => true | Suffix => false end)
           (match side with Prefix => false | Suffix => true end)
           false
           (match len with Shortest => true | Longest => false end).

Definition drain (a b : nat) (s : str) : str := firstn a s ++ skipn b s.

(* trim.rs apply on a scalar: a pattern that does not compile leaves the
   value alone.  None = outside the model (fuel / unsupported syntax). *)
Definition trim_model (side : trim_side) (len : trim_length) (p : list pchar) (value : str)
    : option str :=
  let cfg := trim_config side len in
  match compile cfg p with
  | COk b =>
      if anchor_end cfg && shortest_match cfg then
        match pat_rfind cfg b value with
        | FSome x y => Some (drain x y value)
        | FNone => Some value
        | FFuel => None
        end
      else
        match pat_find cfg b value with
        | Some (x, y) => Some (drain x y value)
        | None => Some value
        end
  | CErr _ => Some value
  | CUnsup | CFuel => None
  end.

Definition case_config : config := mkConfig true true false false.

(* case.rs matches(): any pattern of the item matches; broken patterns are
   skipped.  None = outside the model. *)
Fixpoint case_item_matches (subject : str) (pats : list (list pchar)) : option bool :=
  match pats with
  | [] => Some false
  | p :: r =>
      match compile case_config p with
      | COk b => if pat_is_match case_config b subject then Some true else case_item_matches subject r
      | CErr _ => case_item_matches subject r
      | CUnsup | CFuel => None
      end
  end.

Inductive continuation := CBreak | CFallThrough | CContinue.   (* ;;  ;&  ;;& *)

(* case.rs execute(): the indices of the items whose bodies run *)
Fixpoint case_run (subject : str) (items : list (list (list pchar) * continuation))
    (idx : nat) (falling : bool) : option (list nat) :=
  match items with
  | [] => Some []
  | (pats, cont) :: r =>
      let run :=
        match cont with
        | CBreak => Some [idx]
        | CFallThrough => omap (cons idx) (case_run subject r (S idx) true)
        | CContinue => omap (cons idx) (case_run subject r (S idx) false)
        end in
      if falling then run
      else
        match case_item_matches subject pats with
        | Some true => run
        | Some false => case_run subject r (S idx) false
        | None => None
        end
  end.

Definition case_model (subject : str) (items : list (list (list pchar) * continuation))
    : option (list nat) := case_run subject items 0 false.
