(* C04 — SPEC: POSIX pattern matching notation (XCU 2.13, XBD 9.3.5), written
   without any of the implementation's machinery:

     * spec_parse : a forward recursive-descent reading of the notation
       (look-ahead for ranges; "first closing delimiter" for [. .] [= =] [: :];
       no item stack, no after_hyphen flag);
     * Denote     : the language of a parsed pattern, as concatenation of the
       languages of its elements (Prop), and dmatch, its decision procedure;
     * shortest / longest matching prefix and suffix as min / max over the
       matching splits;
     * the boolean ORACLE clauses, evaluated on what the implementation
       returned (Pattern::is_match / find / rfind, `case`, ${v#p} ...).

   Conventions where POSIX leaves the behaviour open (stated, not proved):
   a pattern with an undefined class name, a class or an empty collating
   symbol as range endpoint, an empty collating symbol, or a range whose
   start is greater than its end is *invalid* and matches nothing; a
   collating symbol / equivalence class stands for its literal characters
   (and for its first character as a range endpoint); classes are the ASCII
   ones of the POSIX locale plus [:word:] and [:ascii:]. *)
From Yv Require Import Common.Base C04.Model.
From Coq Require Import List NArith Bool Arith.
Import ListNotations.

(* ------------------------------------------------------------------ *)
(* character classes of the POSIX locale, by predicate                 *)

Definition between (lo hi c : N) : bool := N.leb lo c && N.leb c hi.
Definition p_upper (c : N) := between 65 90 c.
Definition p_lower (c : N) := between 97 122 c.
Definition p_digit (c : N) := between 48 57 c.
Definition p_alpha (c : N) := p_upper c || p_lower c.
Definition p_alnum (c : N) := p_alpha c || p_digit c.
Definition p_xdigit (c : N) := p_digit c || between 65 70 c || between 97 102 c.
Definition p_blank (c : N) := N.eqb c 32 || N.eqb c 9.
Definition p_space (c : N) := N.eqb c 32 || between 9 13 c.
Definition p_cntrl (c : N) := N.ltb c 32 || N.eqb c 127.
Definition p_graph (c : N) := between 33 126 c.
Definition p_print (c : N) := between 32 126 c.
Definition p_punct (c : N) := p_graph c && negb (p_alnum c).
Definition p_word (c : N) := p_alnum c || N.eqb c 95.
Definition p_ascii (c : N) := N.ltb c 128.

Definition spec_classes : list (str * (N -> bool)) :=
  [ ([97;108;110;117;109]%N, p_alnum);
    ([97;108;112;104;97]%N, p_alpha);
    ([97;115;99;105;105]%N, p_ascii);
    ([98;108;97;110;107]%N, p_blank);
    ([99;110;116;114;108]%N, p_cntrl);
    ([100;105;103;105;116]%N, p_digit);
    ([103;114;97;112;104]%N, p_graph);
    ([108;111;119;101;114]%N, p_lower);
    ([112;114;105;110;116]%N, p_print);
    ([112;117;110;99;116]%N, p_punct);
    ([115;112;97;99;101]%N, p_space);
    ([117;112;112;101;114]%N, p_upper);
    ([119;111;114;100]%N, p_word);
    ([120;100;105;103;105;116]%N, p_xdigit) ].

Definition class_pred (name : str) : option (N -> bool) := assoc_str name spec_classes.

(* a backslash at the very end of a pattern string quotes nothing *)
Fixpoint dangling_bslash (s : str) : bool :=
  match s with
  | [] => false
  | c :: r =>
      if N.eqb c c_bslash then
        match r with
        | [] => true
        | _ :: r' => dangling_bslash r'
        end
      else dangling_bslash r
  end.

(* ------------------------------------------------------------------ *)
(* reading the notation                                                *)

(* the text up to the first unquoted "d]" and what follows it *)
Fixpoint split_at_term (d : N) (i : list pchar) : option (list pchar * list pchar) :=
  match i with
  | [] => None
  | pc :: tl =>
      let later := omap (fun p => (pc :: fst p, snd p)) (split_at_term d tl) in
      match pc, tl with
      | Normal x, Normal y :: r => if N.eqb x d && N.eqb y c_rbr then Some ([], r) else later
      | _, _ => later
      end
  end.

(* one element of a bracket expression: [.x.] [=x=] [:x:] or a character *)
Definition spec_elem (pc : pchar) (tl : list pchar) : batom * list pchar :=
  match pc with
  | Literal c => (BChar c, tl)
  | Normal c =>
      if N.eqb c c_lbr then
        match tl with
        | Normal d :: tl2 =>
            let mk (f : str -> batom) :=
              match split_at_term d tl2 with
              | Some (v, r) => (f (map char_value v), r)
              | None => (BChar c, tl)
              end in
            if N.eqb d c_dot then mk BColl
            else if N.eqb d c_eq then mk BEquiv
            else if N.eqb d c_colon then mk BClass
            else (BChar c, tl)
        | _ => (BChar c, tl)
        end
      else (BChar c, tl)
  end.

(* the members up to the closing bracket.  [first]: no member read yet (a
   bracket there is a member).  An unquoted hyphen between two elements
   makes a range unless what follows it is the closing bracket. *)
Fixpoint spec_items (fuel : nat) (first : bool) (i : list pchar) : pres (list bitem * list pchar) :=
  match fuel with
  | O => PFuel
  | S f =>
      match i with
      | [] => PNone
      | pc :: tl =>
          if is_normal pc c_rbr && negb first then POk ([], tl)
          else
            let (a, r) := spec_elem pc tl in
            let plain :=
              match spec_items f false r with
              | POk (l, rest) => POk (IAtom a :: l, rest)
              | PNone => PNone
              | PFuel => PFuel
              end in
            match r with
            | h :: pc2 :: tl2 =>
                if is_normal h c_hyphen && negb (is_normal pc2 c_rbr) then
                  let (b, r2) := spec_elem pc2 tl2 in
                  match spec_items f false r2 with
                  | POk (l, rest) => POk (IRange a b :: l, rest)
                  | PNone => PNone
                  | PFuel => PFuel
                  end
                else plain
            | _ => plain
            end
      end
  end.

(* what follows an opening bracket *)
Definition spec_bracket (i : list pchar) : pres (bracket * list pchar) :=
  let (compl, body) :=
    match i with
    | pc :: tl => if is_normal pc c_bang || is_normal pc c_caret then (true, tl) else (false, i)
    | [] => (false, i)
    end in
  match spec_items (S (length body)) true body with
  | POk (l, rest) => POk (mkBracket compl l, rest)
  | PNone => PNone
  | PFuel => PFuel
  end.

Fixpoint spec_atoms (fuel : nat) (i : list pchar) : option ast :=
  match fuel with
  | O => None
  | S f =>
      match i with
      | [] => Some []
      | Literal c :: tl => omap (cons (AChar c)) (spec_atoms f tl)
      | Normal c :: tl =>
          if N.eqb c c_quest then omap (cons AAnyChar) (spec_atoms f tl)
          else if N.eqb c c_star then omap (cons AAnyString) (spec_atoms f tl)
          else if N.eqb c c_lbr then
            match spec_bracket tl with
            | POk (b, rest) => omap (cons (ABracket b)) (spec_atoms f rest)
            | PNone => omap (cons (AChar c)) (spec_atoms f tl)     (* an unclosed bracket is literal *)
            | PFuel => None
            end
          else omap (cons (AChar c)) (spec_atoms f tl)
      end
  end.

Definition spec_parse (i : list pchar) : option ast := spec_atoms (S (length i)) i.

(* ------------------------------------------------------------------ *)
(* what a parsed pattern denotes                                       *)

Definition endpoint (a : batom) : option N :=
  match a with
  | BChar c => Some c
  | BColl (c :: _) | BEquiv (c :: _) => Some c
  | _ => None
  end.

Definition item_ok (it : bitem) : bool :=
  match it with
  | IAtom (BChar _) => true
  | IAtom (BColl v) | IAtom (BEquiv v) => negb (is_nil v)
  | IAtom (BClass n) => is_some (class_pred n)
  | IRange lo hi =>
      match endpoint lo, endpoint hi with
      | Some l, Some h => N.leb l h
      | _, _ => false
      end
  end.

Definition atom_ok (a : atom) : bool :=
  match a with
  | ABracket b => negb (is_nil (b_items b)) && forallb item_ok (b_items b)
  | _ => true
  end.

Definition valid_ast (p : ast) : bool := forallb atom_ok p.

(* the single characters a member stands for *)
Definition item_has1 (it : bitem) (c : N) : bool :=
  match it with
  | IAtom (BChar d) => N.eqb c d
  | IAtom (BColl v) | IAtom (BEquiv v) => str_eqb v [c]
  | IAtom (BClass n) => match class_pred n with Some p => p c | None => false end
  | IRange lo hi =>
      match endpoint lo, endpoint hi with
      | Some l, Some h => between l h c
      | _, _ => false
      end
  end.

(* a multi-character collating element stands for that character sequence *)
Definition item_seq (it : bitem) : option str :=
  match it with
  | IAtom (BColl v) | IAtom (BEquiv v) => if Nat.ltb 1 (length v) then Some v else None
  | _ => None
  end.

Definition set_has1 (items : list bitem) (c : N) : bool := existsb (fun it => item_has1 it c) items.

Definition bracket_lang (b : bracket) (u : str) : Prop :=
  if b_complement b
  then exists c, u = [c] /\ set_has1 (b_items b) c = false
  else (exists c, u = [c] /\ set_has1 (b_items b) c = true) \/
       (exists it, In it (b_items b) /\ item_seq it = Some u).

Definition atom_lang (a : atom) (u : str) : Prop :=
  match a with
  | AChar c => u = [c]
  | AAnyChar => exists c, u = [c]
  | AAnyString => True
  | ABracket b => bracket_lang b u
  end.

Inductive Denote : ast -> str -> Prop :=
| DNil : Denote [] []
| DCons a p u v : atom_lang a u -> Denote p v -> Denote (a :: p) (u ++ v).

(* the whole string matches the pattern *)
Definition Matches (p : ast) (s : str) : Prop := valid_ast p = true /\ Denote p s.

(* decision procedure *)
Definition bracket_has1 (b : bracket) (c : N) : bool :=
  xorb (b_complement b) (set_has1 (b_items b) c).

Fixpoint dmatch (p : ast) (s : str) : bool :=
  match p with
  | [] => is_nil s
  | AChar c :: p' => match s with x :: s' => N.eqb x c && dmatch p' s' | [] => false end
  | AAnyChar :: p' => match s with _ :: s' => dmatch p' s' | [] => false end
  | AAnyString :: p' =>
      (fix any (s : str) : bool :=
         dmatch p' s || match s with [] => false | _ :: s' => any s' end) s
  | ABracket b :: p' =>
      match s with x :: s' => bracket_has1 b x && dmatch p' s' | [] => false end
      || (negb (b_complement b) &&
          existsb (fun it => match item_seq it with
                             | Some v => starts_with v s && dmatch p' (skipn (length v) s)
                             | None => false
                             end) (b_items b))
  end.

Definition matches_b (p : ast) (s : str) : bool := valid_ast p && dmatch p s.

(* ------------------------------------------------------------------ *)
(* prefix / suffix removal, `case`                                     *)

Definition sub (a b : nat) (s : str) : str := firstn (b - a) (skipn a s).

(* n is the length of a matching prefix / suffix of s *)
Definition PrefixMatch (p : ast) (s : str) (n : nat) : Prop := n <= length s /\ Matches p (firstn n s).
Definition SuffixMatch (p : ast) (s : str) (n : nat) : Prop :=
  n <= length s /\ Matches p (skipn (length s - n) s).

Definition Least (P : nat -> Prop) (n : nat) : Prop := P n /\ forall m, P m -> n <= m.
Definition Greatest (P : nat -> Prop) (n : nat) : Prop := P n /\ forall m, P m -> m <= n.

(* ${v#p} ${v##p} ${v%p} ${v%%p}: the value with the selected part removed *)
Definition TrimSpec (side : trim_side) (len : trim_length) (p : ast) (v out : str) : Prop :=
  match side, len with
  | Prefix, Shortest =>
      (exists n, Least (PrefixMatch p v) n /\ out = skipn n v) \/
      ((forall n, ~ PrefixMatch p v n) /\ out = v)
  | Prefix, Longest =>
      (exists n, Greatest (PrefixMatch p v) n /\ out = skipn n v) \/
      ((forall n, ~ PrefixMatch p v n) /\ out = v)
  | Suffix, Shortest =>
      (exists n, Least (SuffixMatch p v) n /\ out = firstn (length v - n) v) \/
      ((forall n, ~ SuffixMatch p v n) /\ out = v)
  | Suffix, Longest =>
      (exists n, Greatest (SuffixMatch p v) n /\ out = firstn (length v - n) v) \/
      ((forall n, ~ SuffixMatch p v n) /\ out = v)
  end.

(* executable: candidate lengths in increasing order *)
Definition prefix_lens (p : ast) (s : str) : list nat :=
  filter (fun n => matches_b p (firstn n s)) (seq 0 (S (length s))).
Definition suffix_lens (p : ast) (s : str) : list nat :=
  filter (fun n => matches_b p (skipn (length s - n) s)) (seq 0 (S (length s))).

Definition first_of (l : list nat) : option nat := hd_error l.
Definition last_of (l : list nat) : option nat := hd_error (rev l).

Definition spec_trim (side : trim_side) (len : trim_length) (p : ast) (v : str) : str :=
  match side with
  | Prefix =>
      match (match len with Shortest => first_of | Longest => last_of end) (prefix_lens p v) with
      | Some n => skipn n v
      | None => v
      end
  | Suffix =>
      match (match len with Shortest => first_of | Longest => last_of end) (suffix_lens p v) with
      | Some n => firstn (length v - n) v
      | None => v
      end
  end.

(* `case`: the first item one of whose patterns matches the subject *)
Definition item_matches_b (subject : str) (pats : list ast) : bool :=
  existsb (fun p => matches_b p subject) pats.

Fixpoint first_matching (subject : str) (items : list (list ast)) (idx : nat) : option nat :=
  match items with
  | [] => None
  | pats :: r => if item_matches_b subject pats then Some idx else first_matching subject r (S idx)
  end.

(* all the bodies that run: after ;; nothing more, after ;& the next body
   unconditionally, after ;;& matching resumes with the next item *)
Fixpoint spec_case_run (subject : str) (items : list (list ast * continuation)) (idx : nat)
    (falling : bool) : list nat :=
  match items with
  | [] => []
  | (pats, cont) :: r =>
      if falling || item_matches_b subject pats then
        idx :: match cont with
               | CBreak => []
               | CFallThrough => spec_case_run subject r (S idx) true
               | CContinue => spec_case_run subject r (S idx) false
               end
      else spec_case_run subject r (S idx) false
  end.

(* ------------------------------------------------------------------ *)
(* ORACLE: clauses about Pattern::is_match / find / rfind               *)

(* the configuration of pathname expansion: both ends anchored, a leading
   period must be matched explicitly *)
Definition period_config : config := mkConfig true true true false.

(* a range (a, b) of text is a match admissible under the anchors *)
Definition range_ok (cfg : config) (p : ast) (text : str) (a b : nat) : bool :=
  Nat.leb a b && Nat.leb b (length text) &&
  (negb (anchor_begin cfg) || Nat.eqb a 0) &&
  (negb (anchor_end cfg) || Nat.eqb b (length text)) &&
  dmatch p (sub a b text).

Definition ends_from (cfg : config) (p : ast) (text : str) (a : nat) : list nat :=
  filter (fun b => range_ok cfg p text a b) (seq 0 (S (length text))).

(* every admissible match of a valid pattern, by start: (a, the ends b in
   increasing order); an invalid pattern matches nothing *)
Definition match_table (cfg : config) (p : ast) (text : str) : list (nat * list nat) :=
  if valid_ast p then
    filter (fun e => negb (is_nil (snd e)))
           (map (fun a => (a, ends_from cfg p text a)) (seq 0 (S (length text))))
  else [].

(* the period rule of literal_period is outside the property; the oracle
   only judges it in the fully anchored configuration (pathname matching) *)
Definition period_blocks (cfg : config) (p : ast) (text : str) : bool :=
  literal_period cfg && negb (starts_with_literal_dot p) && starts_with [c_dot] text.

Definition judged (cfg : config) (p : ast) (text : str) : bool :=
  negb (period_blocks cfg p text) || (anchor_begin cfg && anchor_end cfg).

Definition table_of (cfg : config) (p : ast) (text : str) : list (nat * list nat) :=
  if period_blocks cfg p text then [] else match_table cfg p text.

Definition spec_is_match (cfg : config) (p : ast) (text : str) : bool :=
  negb (is_nil (table_of cfg p text)).

(* the end the trim forms need when only the start is anchored *)
Definition wanted_end (cfg : config) (ends : list nat) : option nat :=
  if anchor_begin cfg && negb (anchor_end cfg)
  then (if shortest_match cfg then first_of ends else last_of ends)
  else None.

Definition entry_ok (cfg : config) (e : option (nat * list nat)) (a b : nat) : bool :=
  match e with
  | None => false
  | Some (a0, ends) =>
      Nat.eqb a a0 && existsb (Nat.eqb b) ends &&
      match wanted_end cfg ends with Some b0 => Nat.eqb b b0 | None => true end
  end.

(* clause 0: is_match *)
Definition oracle_is_match (tbl : list (nat * list nat)) (got : bool) : bool :=
  Bool.eqb got (negb (is_nil tbl)).

(* clause 1: find = the leftmost admissible match; with only the start
   anchored its end is the shortest / longest one *)
Definition oracle_find (cfg : config) (tbl : list (nat * list nat)) (got : option (nat * nat)) : bool :=
  match got with
  | None => is_nil tbl
  | Some (a, b) => entry_ok cfg (hd_error tbl) a b
  end.

(* clause 2: rfind = the match with the rightmost start *)
Definition oracle_rfind (cfg : config) (tbl : list (nat * list nat)) (got : option (nat * nat)) : bool :=
  match got with
  | None => is_nil tbl
  | Some (a, b) => entry_ok cfg (hd_error (rev tbl)) a b
  end.

(* ------------------------------------------------------------------ *)
(* the regular expression a parsed pattern is meant to become           *)

(* What ast/regex.rs intends to say to the regex crate, as a structure and
   not as a string: Proofs shows that the emitted string, read by the regex
   syntax, is this structure (escaping is complete), and that this structure
   matches what the pattern denotes. *)
Definition citem_of (it : bitem) : option citem :=
  match it with
  | IAtom (BChar c) => Some (CLit c)
  | IAtom (BColl v) | IAtom (BEquiv v) => match v with [c] => Some (CLit c) | _ => None end
  | IAtom (BClass n) => omap CAscii (class_of_name n)
  | IRange lo hi =>
      match endpoint lo, endpoint hi with
      | Some l, Some h => if N.leb l h then Some (CRange l h) else None
      | _, _ => None
      end
  end.

Definition alt_of (it : bitem) : option (list snode) :=
  if bitem_multi it then
    match it with
    | IAtom (BColl v) | IAtom (BEquiv v) => Some (map SLit v)
    | _ => None
    end
  else omap (fun ci => [SClass false [ci]]) (citem_of it).

Definition node_of_bracket (b : bracket) : option rnode :=
  let items := b_items b in
  if is_nil items then None
  else if negb (existsb bitem_multi items)
  then omap (fun cs => RS (SClass (b_complement b) cs)) (all_some (map citem_of items))
  else if negb (b_complement b) then omap RAlt (all_some (map alt_of items))
  else if forallb bitem_multi items then Some (RS SAny)
  else omap (fun cs => RS (SClass true cs))
            (all_some (map citem_of (filter (fun it => negb (bitem_multi it)) items))).

Definition node_of_atom (a : atom) : option rnode :=
  match a with
  | AChar c => Some (RS (SLit c))
  | AAnyChar => Some (RS SAny)
  | AAnyString => Some (RStar SAny)
  | ABracket b => node_of_bracket b
  end.

Definition rx_of_ast (cfg : config) (a : ast) : option rx :=
  omap (fun ns => (if anchor_begin cfg then [RStartText] else []) ++ ns ++
                  (if anchor_end cfg then [REndText] else []))
       (all_some (map node_of_atom a)).

(* no collating element of two or more characters anywhere: every element of
   the pattern then consumes exactly one character (outside this domain the
   prefix forms are refuted: F31) *)
Definition single_width_atom (a : atom) : bool :=
  match a with
  | ABracket b => negb (existsb bitem_multi (b_items b))
  | _ => true
  end.

Definition single_width (p : ast) : bool := forallb single_width_atom p.

(* ------------------------------------------------------------------ *)
(* what a structured regex matches: r matches exactly the first k
   characters of s, s starting at absolute offset pos                   *)

Inductive RM : rx -> nat -> str -> nat -> Prop :=
| RM_nil pos s : RM [] pos s 0
| RM_one n r pos x s k :
    smatch n x = true -> RM r (S pos) s k -> RM (RS n :: r) pos (x :: s) (S k)
| RM_star_stop n r pos s k :
    RM r pos s k -> RM (RStar n :: r) pos s k
| RM_star_more n r pos x s k :
    smatch n x = true -> RM (RStar n :: r) (S pos) s k -> RM (RStar n :: r) pos (x :: s) (S k)
| RM_alt alts r pos s alt j s' k :
    In alt alts -> seq_match alt s = Some (j, s') -> RM r (j + pos) s' k ->
    RM (RAlt alts :: r) pos s (j + k)
| RM_start r s k : RM r 0 s k -> RM (RStartText :: r) 0 s k
| RM_end r pos k : RM r pos [] k -> RM (REndText :: r) pos [] k.


(* the regexes single-width patterns are translated to: one-character nodes,
   .* and \z *)
Definition glob_node (n : rnode) : bool :=
  match n with
  | RS _ => true
  | RStar SAny => true
  | REndText => true
  | _ => false
  end.

Definition glob_rx (r : rx) : bool := forallb glob_node r.


(* the patterns of an item, with their parsed forms *)
Definition item_parsed (pats : list (list pchar)) (asts : list ast) : Prop :=
  Forall2 (fun p a => parse_pattern p = Some a) pats asts.

