(* C04 — leftmost-first matching (bt) against a declarative reading of the
   structured regex (RM): soundness, completeness, and — for the regexes a
   single-width pattern is translated to — the priority order of greedy /
   lazy stars coincides with the length order. *)
From Yv Require Import Common.Base C04.Model C04.Spec.
From Coq Require Import List NArith Bool Arith Lia.
Import ListNotations.

(* --- unfolding the nested fixpoints of bt --- *)

Lemma bt_star_unfold lazy n r pos s :
  bt lazy (RStar n :: r) pos s =
  if lazy then
    match bt lazy r pos s with
    | Some k => Some k
    | None =>
        match s with
        | x :: s' => if smatch n x then omap S (bt lazy (RStar n :: r) (S pos) s') else None
        | [] => None
        end
    end
  else
    match (match s with
           | x :: s' => if smatch n x then omap S (bt lazy (RStar n :: r) (S pos) s') else None
           | [] => None
           end) with
    | Some k => Some k
    | None => bt lazy r pos s
    end.
Proof. destruct s; reflexivity. Qed.

Fixpoint alt_try (cont : nat -> str -> option nat) (pos : nat) (s : str) (l : list (list snode))
    : option nat :=
  match l with
  | [] => None
  | alt :: l' =>
      match seq_match alt s with
      | Some (k, s') =>
          match cont (k + pos) s' with
          | Some m => Some (k + m)
          | None => alt_try cont pos s l'
          end
      | None => alt_try cont pos s l'
      end
  end.

Lemma bt_alt_unfold lazy alts r pos s :
  bt lazy (RAlt alts :: r) pos s = alt_try (bt lazy r) pos s alts.
Proof.
  cbn [bt]. induction alts as [|alt alts IH]; [reflexivity|].
  cbn [alt_try]. destruct (seq_match alt s) as [[k s']|]; [|exact IH].
  destruct (bt lazy r (k + pos) s'); [reflexivity|exact IH].
Qed.

Lemma seq_match_length alt : forall s j s', seq_match alt s = Some (j, s') -> s' = skipn j s /\ j <= length s.
Proof.
  induction alt as [|n alt IH]; intros s j s' H.
  - inversion H; subst. split; [reflexivity|lia].
  - destruct s as [|x s0]; [discriminate|]. cbn [seq_match] in H.
    destruct (smatch n x); [|discriminate].
    destruct (seq_match alt s0) as [[j0 s0']|] eqn:E; [|discriminate].
    inversion H; subst. destruct (IH _ _ _ E) as [-> Hl]. split; [reflexivity|cbn; lia].
Qed.

(* --- soundness: what bt returns is a match --- *)

Lemma bt_sound lazy : forall r pos s k, bt lazy r pos s = Some k -> RM r pos s k.
Proof.
  induction r as [|nd r IH]; intros pos s k H.
  - inversion H; subst. constructor.
  - destruct nd as [n|n|alts| |].
    + destruct s as [|x s']; [discriminate|]. cbn [bt] in H.
      destruct (smatch n x) eqn:Hx; [|discriminate].
      destruct (bt lazy r (S pos) s') as [k0|] eqn:E; [|discriminate].
      inversion H; subst. constructor; [exact Hx|apply IH; exact E].
    + revert pos k H. induction s as [|x s' IHs]; intros pos k H; rewrite bt_star_unfold in H.
      * destruct lazy.
        -- destruct (bt true r pos []) eqn:E; [|discriminate]. inversion H; subst.
           apply RM_star_stop. apply IH. exact E.
        -- apply RM_star_stop. apply IH. exact H.
      * assert (Hmore : forall k, (if smatch n x then omap S (bt lazy (RStar n :: r) (S pos) s') else None) = Some k ->
                                  RM (RStar n :: r) pos (x :: s') k).
        { intros k0 Hm. destruct (smatch n x) eqn:Hx; [|discriminate].
          destruct (bt lazy (RStar n :: r) (S pos) s') as [k1|] eqn:E; [|discriminate].
          inversion Hm; subst. apply RM_star_more; [exact Hx|]. apply IHs. exact E. }
        destruct lazy.
        -- destruct (bt true r pos (x :: s')) as [k0|] eqn:E.
           ++ inversion H; subst. apply RM_star_stop. apply IH. exact E.
           ++ apply Hmore. exact H.
        -- destruct (if smatch n x then omap S (bt false (RStar n :: r) (S pos) s') else None) as [k0|] eqn:E.
           ++ inversion H; subst. apply Hmore. reflexivity.
           ++ apply RM_star_stop. apply IH. exact H.
    + rewrite bt_alt_unfold in H.
      assert (G : forall l, (forall a, In a l -> In a alts) ->
                  alt_try (bt lazy r) pos s l = Some k -> RM (RAlt alts :: r) pos s k).
      { induction l as [|alt l IHl]; intros Hsub Hl; [discriminate|].
        cbn [alt_try] in Hl.
        destruct (seq_match alt s) as [[j s']|] eqn:Es.
        - destruct (bt lazy r (j + pos) s') as [m|] eqn:Eb.
          + inversion Hl; subst. eapply RM_alt; [apply Hsub; left; reflexivity|exact Es|apply IH; exact Eb].
          + apply IHl; [intros a Ha; apply Hsub; right; exact Ha|exact Hl].
        - apply IHl; [intros a Ha; apply Hsub; right; exact Ha|exact Hl]. }
      apply (G alts); [auto|exact H].
    + cbn [bt] in H. destruct (Nat.eqb pos 0) eqn:Ep; [|discriminate].
      apply Nat.eqb_eq in Ep. subst pos. constructor. apply IH. exact H.
    + cbn [bt] in H. destruct s; [|discriminate]. constructor. apply IH. exact H.
Qed.

(* --- completeness: if there is a match, bt finds one --- *)

Lemma bt_complete lazy : forall r pos s k, RM r pos s k -> exists k', bt lazy r pos s = Some k'.
Proof.
  intros r pos s k H. induction H as
    [pos s
    |n r pos x s k Hx H IH
    |n r pos s k H IH
    |n r pos x s k Hx H IH
    |alts r pos s alt j s' k Hin Hs H IH
    |r s k H IH
    |r pos k H IH].
  - exists 0. reflexivity.
  - destruct IH as [k' E]. exists (S k'). cbn [bt]. rewrite Hx, E. reflexivity.
  - destruct IH as [k' E]. rewrite bt_star_unfold. destruct lazy.
    + rewrite E. eauto.
    + destruct (match s with
                | [] => None
                | x :: s' => if smatch n x then omap S (bt false (RStar n :: r) (S pos) s') else None
                end); eauto.
  - destruct IH as [k' E]. rewrite bt_star_unfold. rewrite Hx, E. cbn [omap]. destruct lazy.
    + destruct (bt true r pos (x :: s)); eauto.
    + eauto.
  - destruct IH as [k' E]. rewrite bt_alt_unfold.
    induction alts as [|a alts IHa]; [destruct Hin|].
    cbn [alt_try]. destruct Hin as [->|Hin].
    + rewrite Hs, E. eauto.
    + destruct (seq_match a s) as [[j0 s0]|]; [|apply IHa; exact Hin].
      destruct (bt lazy r (j0 + pos) s0); [eauto|apply IHa; exact Hin].
  - destruct IH as [k' E]. exists k'. cbn [bt]. exact E.
  - destruct IH as [k' E]. exists k'. cbn [bt]. exact E.
Qed.

Lemma bt_none lazy r pos s : bt lazy r pos s = None -> forall k, ~ RM r pos s k.
Proof.
  intros H k Hk. destruct (bt_complete lazy _ _ _ _ Hk) as [k' E]. congruence.
Qed.

Lemma RM_le : forall r pos s k, RM r pos s k -> k <= length s.
Proof.
  intros r pos s k H. induction H; cbn [length] in *; try lia.
  apply seq_match_length in H0 as [-> Hl]. rewrite skipn_length in IHRM. lia.
Qed.

(* ------------------------------------------------------------------ *)
(* the regexes of single-width patterns: one-character nodes, .* and \z  *)

Lemma glob_cons n r : glob_rx (n :: r) = true -> glob_node n = true /\ glob_rx r = true.
Proof. unfold glob_rx. cbn [forallb]. intros H. apply andb_true_iff in H. exact H. Qed.

(* the absolute offset only matters for \A *)
Lemma RM_pos : forall r p s k, RM r p s k -> glob_rx r = true -> forall p', RM r p' s k.
Proof.
  intros r p s k H. induction H; intros Hg p'.
  - constructor.
  - apply glob_cons in Hg as [_ Hg]. constructor; [assumption|]. apply IHRM. exact Hg.
  - pose proof Hg as Hg0. apply glob_cons in Hg as [_ Hg]. apply RM_star_stop. apply IHRM. exact Hg.
  - apply RM_star_more; [assumption|]. apply IHRM. exact Hg.
  - apply glob_cons in Hg as [Hn _]. discriminate.
  - apply glob_cons in Hg as [Hn _]. discriminate.
  - apply glob_cons in Hg as [_ Hg]. constructor. apply IHRM. exact Hg.
Qed.

Lemma RM_star_inv : forall r0 p s k, RM r0 p s k -> forall r, r0 = RStar SAny :: r ->
  exists j, j <= k /\ j <= length s /\ RM r (j + p) (skipn j s) (k - j).
Proof.
  intros r0 p s k H. induction H; intros r1 E; try discriminate.
  - inversion E; subst. exists 0. cbn [skipn Nat.add]. rewrite Nat.sub_0_r.
    repeat split; [lia|lia|assumption].
  - inversion E; subst. destruct (IHRM r1 eq_refl) as (j & Hj1 & Hj2 & Hj3).
    exists (S j). cbn [skipn length Nat.sub]. repeat split; [lia|lia|].
    replace (S j + pos) with (j + S pos) by lia. exact Hj3.
Qed.

Lemma RM_star_compose r : forall j p s m,
  j <= length s -> RM r (j + p) (skipn j s) m -> RM (RStar SAny :: r) p s (j + m).
Proof.
  induction j as [|j IH]; intros p s m Hj H.
  - apply RM_star_stop. exact H.
  - destruct s as [|x s']; [cbn in Hj; lia|]. cbn [Nat.add].
    apply RM_star_more; [reflexivity|]. apply IH; [cbn in Hj; lia|].
    replace (j + S p) with (S j + p) by lia. exact H.
Qed.

Lemma skipn_cons_tail {A} : forall d (x y : A) s t, skipn d (x :: s) = y :: t -> t = skipn d s /\ d <= length s.
Proof.
  induction d as [|d IH]; intros x y s t H.
  - cbn in H. inversion H; subst. split; [reflexivity|lia].
  - cbn [skipn] in H. destruct s as [|x' s']; [destruct d; discriminate|].
    destruct (IH _ _ _ _ H) as [-> Hl]. split; [reflexivity|cbn; lia].
Qed.

Lemma skipn_skipn {A} : forall a b (l : list A), skipn a (skipn b l) = skipn (a + b) l.
Proof.
  intros a b. revert a. induction b as [|b IH]; intros a l.
  - rewrite Nat.add_0_r. reflexivity.
  - destruct l as [|x l]; [rewrite !skipn_nil; reflexivity|].
    replace (a + S b) with (S (a + b)) by lia. cbn [skipn]. apply IH.
Qed.

(* If r matches from an earlier start up to E and also from a later start,
   then from the later start it has a match that ends at E or beyond. *)
Lemma mono_max : forall r, glob_rx r = true -> forall s d k1 k2 p1 p2,
  RM r p1 s k1 -> RM r p2 (skipn d s) k2 ->
  exists k3, RM r p2 (skipn d s) k3 /\ k1 <= d + k3.
Proof.
  induction r as [|nd r IH]; intros Hg s d k1 k2 p1 p2 H1 H2.
  - inversion H1; subst. exists k2. split; [exact H2|lia].
  - apply glob_cons in Hg as [Hn Hg]. destruct nd as [n|n|alts| |]; try discriminate.
    + inversion H1 as [|? ? ? x s' k1' Hx H1'| | | | |]; subst.
      inversion H2 as [|? ? ? y t k2' Hy H2' Heq| | | | |]; subst.
      match goal with E : y :: t = skipn d (x :: s') |- _ => symmetry in E;
        destruct (skipn_cons_tail _ _ _ _ _ E) as [-> Hl] end.
      destruct (IH Hg s' d k1' k2' _ _ H1' H2') as (k3 & Hk3 & Hle).
      exists (S k3). split; [constructor; assumption|lia].
    + destruct n; try discriminate.
      destruct (RM_star_inv _ _ _ _ H1 r eq_refl) as (j1 & Hj1 & Hl1 & Hm1).
      destruct (RM_star_inv _ _ _ _ H2 r eq_refl) as (j2 & Hj2 & Hl2 & Hm2).
      rewrite skipn_length in Hl2.
      destruct (le_lt_dec d j1) as [Hd|Hd].
      * exists ((j1 - d) + (k1 - j1)). split; [|lia].
        apply RM_star_compose; [rewrite skipn_length; lia|].
        rewrite skipn_skipn. replace (j1 - d + d) with j1 by lia.
        eapply RM_pos; [exact Hm1|exact Hg].
      * rewrite skipn_skipn in Hm2.
        assert (Hm2' : RM r (j2 + p2) (skipn (d + j2 - j1) (skipn j1 s)) (k2 - j2)).
        { rewrite skipn_skipn. replace (d + j2 - j1 + j1) with (j2 + d) by lia. exact Hm2. }
        destruct (IH Hg (skipn j1 s) (d + j2 - j1) (k1 - j1) (k2 - j2) _ _ Hm1 Hm2') as (m3 & Hm3 & Hle).
        exists (j2 + m3). split; [|lia].
        apply RM_star_compose; [rewrite skipn_length; lia|].
        rewrite skipn_skipn in Hm3 |- *. replace (d + j2 - j1 + j1) with (j2 + d) in Hm3 by lia. exact Hm3.
    + inversion H1; subst. rewrite skipn_nil in *. inversion H2; subst.
      match goal with A : RM r p1 [] k1, B : RM r p2 [] k2 |- _ =>
        destruct (IH Hg [] 0 k1 k2 _ _ A B) as (k3 & Hk3 & Hle) end.
      cbn [skipn] in Hk3. exists k3. split; [constructor; exact Hk3|lia].
Qed.

(* If r matches from a later start up to E and also from an earlier start,
   then from the earlier start it has a match that ends at E or before. *)
Lemma mono_min : forall r, glob_rx r = true -> forall s d k1 k2 p1 p2,
  d <= length s -> RM r p1 s k1 -> RM r p2 (skipn d s) k2 ->
  exists k3, RM r p1 s k3 /\ k3 <= d + k2.
Proof.
  induction r as [|nd r IH]; intros Hg s d k1 k2 p1 p2 Hd H1 H2.
  - inversion H1; subst. exists 0. split; [constructor|lia].
  - apply glob_cons in Hg as [Hn Hg]. destruct nd as [n|n|alts| |]; try discriminate.
    + inversion H1 as [|? ? ? x s' k1' Hx H1'| | | | |]; subst.
      inversion H2 as [|? ? ? y t k2' Hy H2' Heq| | | | |]; subst.
      match goal with E : y :: t = skipn d (x :: s') |- _ => symmetry in E;
        destruct (skipn_cons_tail _ _ _ _ _ E) as [-> Hl] end.
      destruct (IH Hg s' d k1' k2' _ _ Hl H1' H2') as (k3 & Hk3 & Hle).
      exists (S k3). split; [constructor; assumption|lia].
    + destruct n; try discriminate.
      destruct (RM_star_inv _ _ _ _ H2 r eq_refl) as (j2 & Hj2 & Hl2 & Hm2).
      rewrite skipn_length in Hl2. rewrite skipn_skipn in Hm2.
      exists ((j2 + d) + (k2 - j2)). split; [|lia].
      apply RM_star_compose; [lia|]. eapply RM_pos; [exact Hm2|exact Hg].
    + inversion H1; subst. cbn [length] in Hd. assert (d = 0) by lia. subst d.
      cbn [skipn] in H2. inversion H2; subst.
      match goal with A : RM r p1 [] k1, B : RM r p2 [] k2 |- _ =>
        destruct (IH Hg [] 0 k1 k2 _ _ ltac:(cbn; lia) A B) as (k3 & Hk3 & Hle) end.
      exists k3. split; [constructor; exact Hk3|lia].
Qed.

(* ------------------------------------------------------------------ *)
(* priority order = length order                                        *)

Lemma glob_star_any n r : glob_rx (RStar n :: r) = true -> n = SAny.
Proof. intros H. apply glob_cons in H as [H _]. destruct n; try discriminate. reflexivity. Qed.

(* greedy stars: the first match in priority order is the longest *)
Theorem bt_greedy_max : forall r, glob_rx r = true -> forall pos s k,
  bt false r pos s = Some k -> forall p' k', RM r p' s k' -> k' <= k.
Proof.
  induction r as [|nd r IH]; intros Hg pos s k H p' k' HR.
  - inversion HR; subst. lia.
  - pose proof Hg as Hg0. apply glob_cons in Hg as [Hn Hg].
    destruct nd as [n|n|alts| |]; try discriminate.
    + destruct s as [|x s']; [discriminate|]. cbn [bt] in H.
      destruct (smatch n x); [|discriminate].
      destruct (bt false r (S pos) s') as [k0|] eqn:E; [|discriminate]. inversion H; subst.
      inversion HR; subst.
      match goal with A : RM r _ s' _ |- _ => pose proof (IH Hg _ _ _ E _ _ A) end. lia.
    + pose proof (glob_star_any _ _ Hg0) as ->.
      revert pos k H p' k' HR.
      induction s as [|x s' IHs]; intros pos k H p' k' HR; rewrite bt_star_unfold in H.
      * inversion HR; subst. eapply IH; eassumption.
      * cbn [smatch] in H.
        destruct (bt false (RStar SAny :: r) (S pos) s') as [k0|] eqn:E; cbn [omap] in H.
        -- inversion H; subst.
           inversion HR as [| |? ? ? ? ? Hstop|? ? ? ? ? ? Hx Hmore| | |]; subst.
           ++ (* the competing match stops the star here *)
              pose proof (bt_sound _ _ _ _ _ E) as Hs.
              destruct (RM_star_inv _ _ _ _ Hs r eq_refl) as (j & Hj1 & Hj2 & Hj3).
              assert (Hj3' : RM r (j + S pos) (skipn (S j) (x :: s')) (k0 - j)) by exact Hj3.
              destruct (mono_max r Hg (x :: s') (S j) k' (k0 - j) _ _ Hstop Hj3') as (k3 & Hk3 & Hle).
              cbn [skipn] in Hk3.
              pose proof (RM_star_compose r j (S pos) s' k3 Hj2 Hk3) as Hc.
              pose proof (IHs _ _ E _ _ Hc). lia.
           ++ pose proof (IHs _ _ E _ _ Hmore). lia.
        -- inversion HR as [| |? ? ? ? ? Hstop|? ? ? ? ? ? Hx Hmore| | |]; subst.
           ++ eapply IH; eassumption.
           ++ exfalso. eapply (bt_none _ _ _ _ E). eapply RM_pos; [exact Hmore|exact Hg0].
    + destruct s; [|discriminate]. cbn [bt] in H. inversion HR; subst. eapply IH; eassumption.
Qed.

(* lazy stars: the first match in priority order is the shortest *)
Theorem bt_lazy_min : forall r, glob_rx r = true -> forall pos s k,
  bt true r pos s = Some k -> forall p' k', RM r p' s k' -> k <= k'.
Proof.
  induction r as [|nd r IH]; intros Hg pos s k H p' k' HR.
  - inversion H; subst. lia.
  - pose proof Hg as Hg0. apply glob_cons in Hg as [Hn Hg].
    destruct nd as [n|n|alts| |]; try discriminate.
    + destruct s as [|x s']; [discriminate|]. cbn [bt] in H.
      destruct (smatch n x); [|discriminate].
      destruct (bt true r (S pos) s') as [k0|] eqn:E; [|discriminate]. inversion H; subst.
      inversion HR; subst.
      match goal with A : RM r _ s' _ |- _ => pose proof (IH Hg _ _ _ E _ _ A) end. lia.
    + pose proof (glob_star_any _ _ Hg0) as ->.
      revert pos k H p' k' HR.
      induction s as [|x s' IHs]; intros pos k H p' k' HR; rewrite bt_star_unfold in H.
      * destruct (bt true r pos []) as [k0|] eqn:E; [|discriminate]. inversion H; subst.
        inversion HR; subst. eapply IH; eassumption.
      * destruct (bt true r pos (x :: s')) as [k0|] eqn:E.
        -- inversion H; subst.
           inversion HR as [| |? ? ? ? ? Hstop|? ? ? ? ? ? Hx Hmore| | |]; subst.
           ++ eapply IH; eassumption.
           ++ (* the competing match lets the star run on *)
              match goal with |- k <= S ?k0 => rename k0 into m end.
              destruct (RM_star_inv _ _ _ _ Hmore r eq_refl) as (j & Hj1 & Hj2 & Hj3).
              assert (Hj3' : RM r (j + S p') (skipn (S j) (x :: s')) (m - j)) by exact Hj3.
              pose proof (bt_sound _ _ _ _ _ E) as Hs.
              destruct (mono_min r Hg (x :: s') (S j) k (m - j) _ _ ltac:(cbn; lia) Hs Hj3')
                as (k3 & Hk3 & Hle).
              pose proof (IH Hg _ _ _ E _ _ Hk3). lia.
        -- cbn [smatch] in H.
           destruct (bt true (RStar SAny :: r) (S pos) s') as [k0|] eqn:E2; [|discriminate].
           inversion H; subst.
           inversion HR as [| |? ? ? ? ? Hstop|? ? ? ? ? ? Hx Hmore| | |]; subst.
           ++ exfalso. eapply (bt_none _ _ _ _ E). eapply RM_pos; [exact Hstop|exact Hg].
           ++ pose proof (IHs _ _ E2 _ _ Hmore). lia.
    + destruct s; [|discriminate]. cbn [bt] in H. inversion HR; subst. eapply IH; eassumption.
Qed.
