(* C04 — the lemmas, gathered; witnesses of the two refuted statements;
   non-vacuity examples for the implication-shaped theorems. *)
From Yv Require Import Common.Base C04.Model C04.Spec.
From Yv Require Export C04.ProofsParse C04.ProofsRegex C04.ProofsMatch C04.ProofsSem
  C04.ProofsPattern C04.ProofsOracle C04.ProofsTable C04.ProofsPeriod.
From Coq Require Import List NArith Bool Arith Lia.
Import ListNotations.

Lemma with_escape_no_bslash :
  forall s, existsb (N.eqb c_bslash) s = false -> with_escape s = without_escape s.
Proof.
  induction s as [|c r IH]; cbn [with_escape without_escape map existsb]; intros H; [reflexivity|].
  apply orb_false_iff in H as [H1 H2].
  rewrite N.eqb_sym, H1. unfold without_escape in IH. rewrite IH by exact H2. reflexivity.
Qed.

Lemma with_escape_all_escaped :
  forall s, with_escape (flat_map (fun c => [c_bslash; c]) s) = map Literal s.
Proof.
  induction s as [|c r IH]; [reflexivity|].
  cbn [flat_map app with_escape map]. rewrite N.eqb_refl, IH. reflexivity.
Qed.

(* The shell (apply_escapes + to_pattern_chars) reads the unquoted result of an
   expansion like with_escape does, except that it keeps a backslash at the
   very end as an ordinary character where with_escape drops it. *)
Definition unq (c : N) : achar := mkAchar c false false.

Lemma expansion_chars_like_with_escape_len : forall n s, length s <= n ->
  to_pattern_chars (apply_escapes_from false (map unq s)) =
  with_escape s ++ (if dangling_bslash s then [Normal c_bslash] else []).
Proof.
  induction n as [|n IH]; intros s Hn.
  - destruct s; [reflexivity|cbn in Hn; lia].
  - destruct s as [|c r]; [reflexivity|]. cbn [length] in Hn.
    cbn [map apply_escapes_from unq with_escape dangling_bslash a_value a_quoted a_quoting].
    destruct r as [|d r'].
    + cbn [map]. destruct (N.eqb c c_bslash) eqn:E.
      * apply N.eqb_eq in E. subst c. reflexivity.
      * reflexivity.
    + cbn [map]. destruct (N.eqb c c_bslash) eqn:E; cbn [negb andb].
      * cbn [to_pattern_chars a_quoting].
        cbn [apply_escapes_from unq a_value a_quoted a_quoting].
        assert (Hrec : to_pattern_chars (apply_escapes_from false (map unq r')) =
                       with_escape r' ++ (if dangling_bslash r' then [Normal c_bslash] else []))
          by (apply IH; cbn [length] in Hn; lia).
        destruct r' as [|e r''].
        -- reflexivity.
        -- cbn [map]. cbn [negb andb]. rewrite andb_false_r.
           cbn [to_pattern_chars a_quoting a_quoted a_value]. cbn [map] in Hrec. rewrite Hrec. reflexivity.
      * cbn [to_pattern_chars a_quoting a_quoted a_value].
        assert (Hrec : to_pattern_chars (apply_escapes_from false (map unq (d :: r'))) =
                       with_escape (d :: r') ++ (if dangling_bslash (d :: r') then [Normal c_bslash] else []))
          by (apply IH; lia).
        cbn [map] in Hrec. rewrite Hrec. reflexivity.
Qed.

Lemma expansion_chars_like_with_escape s :
  to_pattern_chars (apply_escapes (map unq s)) =
  with_escape s ++ (if dangling_bslash s then [Normal c_bslash] else []).
Proof. apply (expansion_chars_like_with_escape_len (length s)). lia. Qed.

(* compilation has a definite outcome whenever the emitted regex is in the
   modelled syntax (never "unsupported", never out of fuel) *)
Lemma compile_total cfg p a :
  parse_pattern p = Some a ->
  (exists b, compile cfg p = COk b) \/ (exists e, compile cfg p = CErr e).
Proof.
  intros Hp. rewrite (compile_parse _ _ _ Hp).
  destruct (to_literal a) as [l|] eqn:Hlit.
  - left. eexists. apply compile_literal. exact Hlit.
  - pose proof (compile_ast_cases cfg a Hlit) as Hc.
    destruct (rx_of_ast cfg a); [left; eexists; exact Hc|right; exact Hc].
Qed.

(* ------------------------------------------------------------------ *)
(* patterns used below                                                  *)

(* [a-c]*x *)
Definition ex_pat : list pchar := without_escape [91; 97; 45; 99; 93; 42; 120]%N.
Definition ex_ast : ast :=
  [ABracket (mkBracket false [IRange (BChar 97) (BChar 99)]); AAnyString; AChar 120]%N.

(* [[.ch.]c]h : a two-character collating symbol *)
Definition f31_pat : list pchar := without_escape [91; 91; 46; 99; 104; 46; 93; 99; 93; 104]%N.
Definition f31_ast : ast :=
  [ABracket (mkBracket false [IAtom (BColl [99; 104]); IAtom (BChar 99)]); AChar 104]%N.

(* [[.a.][.ab.]] *)
Definition f31b_pat : list pchar :=
  without_escape [91; 91; 46; 97; 46; 93; 91; 46; 97; 98; 46; 93; 93]%N.
Definition f31b_ast : ast :=
  [ABracket (mkBracket false [IAtom (BColl [97]); IAtom (BColl [97; 98])])]%N.

(* [![.é.]a] and [![.é.]] : a non-ASCII collating symbol in a complement
   (wrong before the repair of matches_multi_character; ordinary now) *)
Definition f9_pat : list pchar := without_escape [91; 33; 91; 46; 233; 46; 93; 97; 93]%N.
Definition f9_ast : ast :=
  [ABracket (mkBracket true [IAtom (BColl [233]); IAtom (BChar 97)])]%N.
Definition f9b_pat : list pchar := without_escape [91; 33; 91; 46; 233; 46; 93; 93]%N.
Definition f9b_ast : ast := [ABracket (mkBracket true [IAtom (BColl [233])])]%N.

(* ------------------------------------------------------------------ *)
(* non-vacuity: the hypotheses of the theorems are met by real patterns  *)

Example ex_parse : parse_pattern ex_pat = Some ex_ast /\ single_width ex_ast = true /\
                   valid_ast ex_ast = true.
Proof. vm_compute. repeat split; reflexivity. Qed.

Example ex_case :
  exists b, compile case_config ex_pat = COk b /\
            pat_is_match case_config b [98; 45; 120]%N = true /\
            pat_is_match case_config b [100; 120]%N = false.
Proof. eexists. vm_compute. repeat split; reflexivity. Qed.

Example ex_trim :
  map (fun f => trim_model (fst f) (snd f) ex_pat [98; 120; 99; 120; 121]%N)
      [(Prefix, Shortest); (Prefix, Longest)] =
  [Some [99; 120; 121]; Some [121]]%N /\
  map (fun f => trim_model (fst f) (snd f) ex_pat [121; 98; 120; 99; 120]%N)
      [(Suffix, Shortest); (Suffix, Longest)] =
  [Some [121; 98; 120]; Some [121]]%N.
Proof. vm_compute. split; reflexivity. Qed.

Example ex_glob : exists ns, all_some (map node_of_atom ex_ast) = Some ns /\ glob_rx ns = true /\
                             bt false ns 0 [98; 120; 99; 120; 121]%N = Some 4 /\
                             bt true ns 0 [98; 120; 99; 120; 121]%N = Some 2.
Proof. eexists. vm_compute. repeat split; reflexivity. Qed.

Example ex_case_items :
  case_model [98; 120]%N
    [([without_escape [122]%N], CBreak); ([ex_pat; without_escape [42]%N], CBreak);
     ([without_escape [42]%N], CBreak)] = Some [1].
Proof. vm_compute. reflexivity. Qed.

Example ex_item_parsed :
  Forall2 (fun it sit => item_parsed (fst it) (fst sit) /\ snd it = snd sit)
          [([ex_pat; without_escape [42]%N], CFallThrough); ([f31_pat], CBreak)]
          [([ex_ast; [AAnyString]], CFallThrough); ([f31_ast], CBreak)].
Proof.
  repeat constructor; vm_compute; reflexivity.
Qed.

(* a single non-ASCII collating symbol inside a complemented bracket is an
   ordinary member (the inputs of the repaired defect) *)
Example ex_nonascii_complement :
  parse_pattern f9_pat = Some f9_ast /\ single_width f9_ast = true /\
  (exists b, compile case_config f9_pat = COk b /\
             pat_is_match case_config b [233]%N = false /\ pat_is_match case_config b [120]%N = true) /\
  (exists b, compile case_config f9b_pat = COk b /\ pat_is_match case_config b [120]%N = true).
Proof.
  split; [vm_compute; reflexivity|]. split; [reflexivity|].
  split; eexists; vm_compute; repeat split; reflexivity.
Qed.

(* a complemented bracket expression whose members are all multi-character
   collating symbols denotes, and now matches, any one character ([![.ch.]]) *)
Example ex_complement_of_multichar :
  exists b, compile case_config (without_escape [91; 33; 91; 46; 99; 104; 46; 93; 93]%N) = COk b /\
            pat_is_match case_config b [120]%N = true /\ pat_is_match case_config b [99; 104]%N = false.
Proof. eexists. vm_compute. repeat split; reflexivity. Qed.

Example ex_unclosed : ~ In (Normal c_rbr) (without_escape [97; 45; 98]%N).
Proof. cbn. intros [H|[H|[H|[]]]]; discriminate. Qed.

Example ex_quoted :
  Forall (fun a => a_quoted a = true /\ a_quoting a = false)
         [mkAchar 42 true false; mkAchar 91 true false]%N.
Proof. repeat constructor. Qed.

(* ------------------------------------------------------------------ *)
(* F31 (open finding): with a collating symbol of two or more characters the
   prefix forms need not remove the shortest / longest matching prefix      *)

Lemma f31_prefix_shortest_refuted :
  exists p a v out,
    parse_pattern p = Some a /\ trim_model Prefix Shortest p v = Some out /\
    ~ TrimSpec Prefix Shortest a v out.
Proof.
  exists f31_pat, f31_ast, [99; 104; 104]%N, (@nil N).
  split; [vm_compute; reflexivity|]. split; [vm_compute; reflexivity|].
  assert (H2 : PrefixMatch f31_ast [99; 104; 104]%N 2).
  { split; [cbn; lia|]. apply matches_b_iff. vm_compute. reflexivity. }
  cbn [TrimSpec]. intros [(n & [Hn Hmin] & Hout)|[Hno _]].
  - specialize (Hmin 2 H2). destruct n as [|[|[|n]]]; try lia; discriminate.
  - exact (Hno 2 H2).
Qed.

Lemma f31_prefix_longest_refuted :
  exists p a v out,
    parse_pattern p = Some a /\ trim_model Prefix Longest p v = Some out /\
    ~ TrimSpec Prefix Longest a v out.
Proof.
  exists f31b_pat, f31b_ast, [97; 98]%N, [98]%N.
  split; [vm_compute; reflexivity|]. split; [vm_compute; reflexivity|].
  assert (H2 : PrefixMatch f31b_ast [97; 98]%N 2).
  { split; [cbn; lia|]. apply matches_b_iff. vm_compute. reflexivity. }
  cbn [TrimSpec]. intros [(n & [[Hn1 _] Hmax] & Hout)|[Hno _]].
  - specialize (Hmax 2 H2). cbn [length] in Hn1. assert (n = 2) by lia. subst n. discriminate.
  - exact (Hno 2 H2).
Qed.


(* the period rule: *x against .x and against ax, .x against .x *)
Example ex_period :
  (exists b, compile period_config (without_escape [42; 120]%N) = COk b /\
             pat_is_match period_config b [46; 120]%N = false /\
             pat_is_match period_config b [97; 120]%N = true) /\
  (exists b, compile period_config (without_escape [46; 42]%N) = COk b /\
             pat_is_match period_config b [46; 120]%N = true).
Proof. split; eexists; vm_compute; repeat split; reflexivity. Qed.
