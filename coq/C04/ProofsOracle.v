(* C04 — dmatch decides Denote (so the oracle judges by the specification);
   `case` takes the first matching item; the oracle accepts the model. *)
From Yv Require Import Common.Base C04.Model C04.Spec C04.ProofsParse C04.ProofsRegex
  C04.ProofsMatch C04.ProofsSem C04.ProofsPattern.
From Coq Require Import List NArith Bool Arith Lia.
Import ListNotations.

(* ------------------------------------------------------------------ *)
(* dmatch = Denote                                                      *)

Lemma Denote_single a p (h : N -> bool) s :
  (forall u, atom_lang a u <-> exists x, u = [x] /\ h x = true) ->
  (Denote (a :: p) s <-> exists x s', s = x :: s' /\ h x = true /\ Denote p s').
Proof.
  intros Hl. split.
  - intros H. inversion H as [|? ? u v Hu Hv]; subst. apply Hl in Hu as (x & -> & Hx).
    exists x, v. repeat split; assumption.
  - intros (x & s' & -> & Hx & Hp). change (x :: s') with ([x] ++ s'). constructor; [|exact Hp].
    apply Hl. exists x. split; [reflexivity|exact Hx].
Qed.

Lemma Denote_star p s : Denote (AAnyString :: p) s <-> exists j, j <= length s /\ Denote p (skipn j s).
Proof.
  rewrite Denote_cons_iff. split.
  - intros (j & Hj & _ & H). eauto.
  - intros (j & Hj & H). exists j. repeat split; assumption.
Qed.

Lemma starts_with_skip v s : starts_with v s = true -> s = v ++ skipn (length v) s.
Proof.
  intros H. apply starts_with_iff in H as [H _].
  pose proof (firstn_skipn (length v) s) as E. rewrite H in E. symmetry. exact E.
Qed.

Lemma starts_with_app v t : starts_with v (v ++ t) = true.
Proof. induction v as [|x v IH]; [reflexivity|]. cbn. rewrite N.eqb_refl, IH. reflexivity. Qed.

Lemma dmatch_iff : forall p s, dmatch p s = true <-> Denote p s.
Proof.
  induction p as [|a p IH]; intros s.
  - cbn [dmatch]. rewrite Denote_nil_iff. destruct s; cbn; split; congruence.
  - destruct a as [c| | |b].
    + rewrite (Denote_single (AChar c) p (fun x => N.eqb x c) s).
      * cbn [dmatch]. destruct s as [|x s'].
        -- split; [discriminate|]. intros (x & s' & E & _). discriminate.
        -- rewrite andb_true_iff, IH. split.
           ++ intros [Hx Hp]. exists x, s'. auto.
           ++ intros (x0 & s0 & E & Hx & Hp). inversion E; subst. auto.
      * intros u. cbn [atom_lang]. split.
        -- intros ->. exists c. split; [reflexivity|apply N.eqb_refl].
        -- intros (x & -> & Hx). apply N.eqb_eq in Hx. subst. reflexivity.
    + rewrite (Denote_single AAnyChar p (fun _ => true) s).
      * cbn [dmatch]. destruct s as [|x s'].
        -- split; [discriminate|]. intros (x & s' & E & _). discriminate.
        -- rewrite IH. split.
           ++ intros Hp. exists x, s'. auto.
           ++ intros (x0 & s0 & E & _ & Hp). inversion E; subst. auto.
      * intros u. cbn [atom_lang]. split; intros (x & Hx); exists x; [split; [exact Hx|reflexivity]|apply Hx].
    + rewrite Denote_star. cbn [dmatch].
      induction s as [|x s' IHs].
      * rewrite orb_false_r, IH. split.
        -- intros H. exists 0. split; [lia|exact H].
        -- intros (j & Hj & H). cbn [length] in Hj. assert (j = 0) by lia. subst. exact H.
      * rewrite orb_true_iff, IH, IHs. split.
        -- intros [H|(j & Hj & H)].
           ++ exists 0. split; [lia|exact H].
           ++ exists (S j). split; [cbn; lia|exact H].
        -- intros (j & Hj & H). destruct j as [|j].
           ++ left. exact H.
           ++ right. exists j. split; [cbn in Hj; lia|exact H].
    + cbn [dmatch]. rewrite orb_true_iff, andb_true_iff, negb_true_iff. split.
      * intros [H|[Hc H]].
        -- destruct s as [|x s']; [discriminate|]. apply andb_true_iff in H as [Hx Hp].
           apply IH in Hp. change (x :: s') with ([x] ++ s'). constructor; [|exact Hp].
           cbn [atom_lang]. unfold bracket_lang, bracket_has1 in *.
           destruct (b_complement b).
           ++ exists x. split; [reflexivity|]. destruct (set_has1 (b_items b) x); [discriminate|reflexivity].
           ++ left. exists x. split; [reflexivity|]. destruct (set_has1 (b_items b) x); [reflexivity|discriminate].
        -- apply existsb_exists in H as (it & Hin & Hit).
           destruct (item_seq it) as [v|] eqn:Ev; [|discriminate].
           apply andb_true_iff in Hit as [Hsw Hp]. apply IH in Hp.
           rewrite (starts_with_skip v s Hsw). constructor; [|exact Hp].
           cbn [atom_lang]. unfold bracket_lang. rewrite Hc. right. exists it. auto.
      * intros H. inversion H as [|? ? u v Hu Hv]; subst. apply IH in Hv.
        cbn [atom_lang] in Hu. unfold bracket_lang, bracket_has1 in *.
        destruct (b_complement b) eqn:Ec.
        -- destruct Hu as (c & -> & Hc). left. cbn [app]. rewrite Hc, Hv. reflexivity.
        -- destruct Hu as [(c & -> & Hc)|(it & Hin & Hs)].
           ++ left. cbn [app]. rewrite Hc, Hv. reflexivity.
           ++ right. split; [reflexivity|]. apply existsb_exists. exists it. split; [exact Hin|].
              rewrite Hs. rewrite starts_with_app. rewrite skipn_app_len. exact Hv.
Qed.

Lemma matches_b_iff p s : matches_b p s = true <-> Matches p s.
Proof. unfold matches_b, Matches. rewrite andb_true_iff, dmatch_iff. tauto. Qed.

(* ------------------------------------------------------------------ *)
(* THEOREM: `case` runs the first item with a matching pattern          *)

Lemma case_item_matches_spec subject pats asts :
  item_parsed pats asts ->
  case_item_matches subject pats = Some (item_matches_b subject asts).
Proof.
  intros H. induction H as [|p a pats asts Hp Hrest IH]; [reflexivity|].
  cbn [case_item_matches item_matches_b existsb].
  pose proof (case_pattern_correct_any p a subject Hp) as Hc.
  destruct (compile case_config p) as [b|e| |]; try contradiction.
  - destruct (pat_is_match case_config b subject) eqn:Em.
    + assert (matches_b a subject = true) by (apply matches_b_iff, Hc; reflexivity).
      rewrite H. reflexivity.
    + assert (matches_b a subject = false).
      { destruct (matches_b a subject) eqn:E; [|reflexivity].
        apply matches_b_iff, Hc in E. congruence. }
      rewrite H. cbn [orb]. exact IH.
  - assert (matches_b a subject = false) by (unfold matches_b; rewrite Hc; reflexivity).
    rewrite H. cbn [orb]. exact IH.
Qed.

Lemma case_run_total subject : forall items sitems idx falling,
  Forall2 (fun it sit => item_parsed (fst it) sit) items sitems ->
  exists l, case_run subject items idx falling = Some l.
Proof.
  induction items as [|[pats cont] items IH]; intros sitems idx falling H.
  - exists []. reflexivity.
  - inversion H as [|? sit ? sitems' Hit Hrest]; subst. cbn [fst] in Hit.
    cbn [case_run].
    assert (Hrun : exists l,
              match cont with
              | CBreak => Some [idx]
              | CFallThrough => omap (cons idx) (case_run subject items (S idx) true)
              | CContinue => omap (cons idx) (case_run subject items (S idx) false)
              end = Some l).
    { destruct cont.
      - eexists; reflexivity.
      - destruct (IH sitems' (S idx) true Hrest) as [l' ->]. eexists; reflexivity.
      - destruct (IH sitems' (S idx) false Hrest) as [l' ->]. eexists; reflexivity. }
    destruct falling; [exact Hrun|].
    rewrite (case_item_matches_spec subject pats sit Hit).
    destruct (item_matches_b subject sit); [exact Hrun|].
    exact (IH sitems' (S idx) false Hrest).
Qed.

Theorem case_first_match subject : forall items sitems idx,
  Forall2 (fun it sit => item_parsed (fst it) sit) items sitems ->
  exists l, case_run subject items idx false = Some l /\
            hd_error l = first_matching subject sitems idx.
Proof.
  induction items as [|[pats cont] items IH]; intros sitems idx H.
  - inversion H; subst. exists []. split; reflexivity.
  - inversion H as [|? sit ? sitems' Hit Hrest]; subst. cbn [fst] in Hit.
    cbn [case_run first_matching].
    rewrite (case_item_matches_spec subject pats sit Hit).
    destruct (item_matches_b subject sit).
    + destruct cont.
      * exists [idx]. split; reflexivity.
      * destruct (case_run_total subject items sitems' (S idx) true Hrest) as [l' ->].
        exists (idx :: l'). split; reflexivity.
      * destruct (case_run_total subject items sitems' (S idx) false Hrest) as [l' ->].
        exists (idx :: l'). split; reflexivity.
    + exact (IH sitems' (S idx) Hrest).
Qed.

(* with ;; only, exactly that one body runs *)
Theorem case_break_only subject : forall items sitems idx,
  Forall2 (fun it sit => item_parsed (fst it) sit) items sitems ->
  Forall (fun it => snd it = CBreak) items ->
  case_run subject items idx false =
  Some (match first_matching subject sitems idx with Some i => [i] | None => [] end).
Proof.
  induction items as [|[pats cont] items IH]; intros sitems idx H Hb.
  - inversion H; subst. reflexivity.
  - inversion H as [|? sit ? sitems' Hit Hrest]; subst. cbn [fst] in Hit.
    inversion Hb as [|? ? Hc Hb']; subst. cbn [snd] in Hc. subst cont.
    cbn [case_run first_matching].
    rewrite (case_item_matches_spec subject pats sit Hit).
    destruct (item_matches_b subject sit); [reflexivity|].
    exact (IH sitems' (S idx) Hrest Hb').
Qed.

(* the whole list of bodies, for every mix of ;; ;& ;;& *)
Theorem case_run_spec subject : forall items sitems idx falling,
  Forall2 (fun it sit => item_parsed (fst it) (fst sit) /\ snd it = snd sit) items sitems ->
  case_run subject items idx falling = Some (spec_case_run subject sitems idx falling).
Proof.
  induction items as [|[pats cont] items IH]; intros sitems idx falling H.
  - inversion H; subst. reflexivity.
  - inversion H as [|? [sit cont'] ? sitems' [Hit Hc] Hrest]; subst. cbn [fst snd] in Hit, Hc. subst cont'.
    cbn [case_run spec_case_run].
    assert (Hrun : match cont with
                   | CBreak => Some [idx]
                   | CFallThrough => omap (cons idx) (case_run subject items (S idx) true)
                   | CContinue => omap (cons idx) (case_run subject items (S idx) false)
                   end =
                   Some (idx :: match cont with
                                | CBreak => []
                                | CFallThrough => spec_case_run subject sitems' (S idx) true
                                | CContinue => spec_case_run subject sitems' (S idx) false
                                end)).
    { destruct cont; [reflexivity| |]; rewrite (IH sitems' (S idx) _ Hrest); reflexivity. }
    destruct falling; [exact Hrun|]. cbn [orb].
    rewrite (case_item_matches_spec subject pats sit Hit).
    destruct (item_matches_b subject sit); [exact Hrun|].
    exact (IH sitems' (S idx) false Hrest).
Qed.

(* ------------------------------------------------------------------ *)
(* the executable form of the trim specification; the oracle accepts the
   model                                                                *)

Lemma first_of_filter (f : nat -> bool) : forall len s n,
  s <= n < s + len -> f n = true -> (forall m, s <= m < n -> f m = false) ->
  hd_error (filter f (seq s len)) = Some n.
Proof.
  induction len as [|len IH]; intros s n Hn Hf Hmin; [lia|].
  cbn [seq filter]. destruct (Nat.eq_dec n s) as [->|Hne].
  - rewrite Hf. reflexivity.
  - rewrite (Hmin s ltac:(lia)). apply IH; [lia|exact Hf|]. intros m Hm. apply Hmin. lia.
Qed.

Lemma filter_none (f : nat -> bool) : forall len s,
  (forall m, s <= m < s + len -> f m = false) -> filter f (seq s len) = [].
Proof.
  induction len as [|len IH]; intros s H; [reflexivity|].
  cbn [seq filter]. rewrite (H s ltac:(lia)). apply IH. intros m Hm. apply H. lia.
Qed.

Lemma last_of_filter (f : nat -> bool) : forall len s n,
  s <= n < s + len -> f n = true -> (forall m, n < m < s + len -> f m = false) ->
  hd_error (rev (filter f (seq s len))) = Some n.
Proof.
  induction len as [|len IH]; intros s n Hn Hf Hmax; [lia|].
  rewrite seq_S, filter_app. cbn [filter]. destruct (Nat.eq_dec n (s + len)) as [->|Hne].
  - rewrite Hf. rewrite rev_app_distr. reflexivity.
  - rewrite (Hmax (s + len) ltac:(lia)). rewrite app_nil_r.
    apply IH; [lia|exact Hf|]. intros m Hm. apply Hmax. lia.
Qed.

Lemma prefix_match_b a v n : PrefixMatch a v n <-> n <= length v /\ matches_b a (firstn n v) = true.
Proof. unfold PrefixMatch. rewrite matches_b_iff. tauto. Qed.

Lemma suffix_match_b a v n :
  SuffixMatch a v n <-> n <= length v /\ matches_b a (skipn (length v - n) v) = true.
Proof. unfold SuffixMatch. rewrite matches_b_iff. tauto. Qed.

Lemma least_first (P : nat -> Prop) (f : nat -> bool) len n :
  (forall m, P m <-> m <= len /\ f m = true) ->
  Least P n -> first_of (filter f (seq 0 (S len))) = Some n.
Proof.
  intros HP [Hn Hmin]. apply HP in Hn as [Hn1 Hn2]. unfold first_of.
  apply first_of_filter; [lia|exact Hn2|].
  intros m Hm. destruct (f m) eqn:E; [|reflexivity].
  assert (P m) by (apply HP; split; [lia|exact E]). specialize (Hmin m H). lia.
Qed.

Lemma greatest_last (P : nat -> Prop) (f : nat -> bool) len n :
  (forall m, P m <-> m <= len /\ f m = true) ->
  Greatest P n -> last_of (filter f (seq 0 (S len))) = Some n.
Proof.
  intros HP [Hn Hmax]. apply HP in Hn as [Hn1 Hn2]. unfold last_of.
  apply last_of_filter; [lia|exact Hn2|].
  intros m Hm. destruct (f m) eqn:E; [|reflexivity].
  assert (P m) by (apply HP; split; [lia|exact E]). specialize (Hmax m H). lia.
Qed.

Lemma none_empty (P : nat -> Prop) (f : nat -> bool) len :
  (forall m, P m <-> m <= len /\ f m = true) ->
  (forall n, ~ P n) -> filter f (seq 0 (S len)) = [].
Proof.
  intros HP Hno. apply filter_none. intros m Hm. destruct (f m) eqn:E; [|reflexivity].
  exfalso. apply (Hno m). apply HP. split; [lia|exact E].
Qed.

Theorem spec_trim_sound side len a v out :
  TrimSpec side len a v out -> spec_trim side len a v = out.
Proof.
  unfold spec_trim, prefix_lens, suffix_lens.
  destruct side, len; cbn [TrimSpec]; intros [(n & Hn & ->)|[Hno ->]].
  - rewrite (least_first _ _ _ _ (prefix_match_b a v) Hn). reflexivity.
  - rewrite (none_empty _ _ _ (prefix_match_b a v) Hno). reflexivity.
  - rewrite (greatest_last _ _ _ _ (prefix_match_b a v) Hn). reflexivity.
  - rewrite (none_empty _ _ _ (prefix_match_b a v) Hno). reflexivity.
  - rewrite (least_first _ _ _ _ (suffix_match_b a v) Hn). reflexivity.
  - rewrite (none_empty _ _ _ (suffix_match_b a v) Hno). reflexivity.
  - rewrite (greatest_last _ _ _ _ (suffix_match_b a v) Hn). reflexivity.
  - rewrite (none_empty _ _ _ (suffix_match_b a v) Hno). reflexivity.
Qed.

(* the oracle of the trim stream never rejects the model *)
Theorem trim_oracle_accepts_model side len p a v :
  parse_pattern p = Some a -> single_width a = true ->
  exists out, trim_model side len p v = Some out /\ str_eqb out (spec_trim side len a v) = true.
Proof.
  intros Hp Hsw. destruct (trim_correct side len p a v Hp Hsw) as (out & Hm & Hs).
  exists out. split; [exact Hm|]. apply str_eqb_eq. symmetry. apply spec_trim_sound. exact Hs.
Qed.
