(* C04 — the leading-period rule (Config::literal_period, used by pathname
   expansion): in the fully anchored configuration a string that starts with
   a period is accepted only if the pattern starts with a literal period;
   nothing else about the string (no slash) is special. *)
From Yv Require Import Common.Base C04.Model C04.Spec C04.ProofsParse C04.ProofsRegex
  C04.ProofsMatch C04.ProofsSem C04.ProofsPattern.
From Coq Require Import List NArith Bool Arith Lia.
Import ListNotations.

Lemma find_start_from_one lazy r text :
  rx_find_at lazy (RStartText :: r) text 1 = None.
Proof.
  unfold rx_find_at. destruct text as [|x s]; cbn [find_scan Nat.leb]; [reflexivity|].
  apply find_scan_start. lia.
Qed.

Lemma starts_with_refl_l l : starts_with l l = true.
Proof. induction l as [|x l IH]; [reflexivity|]. cbn. rewrite N.eqb_refl, IH. reflexivity. Qed.

Lemma literal_dot_chars l s :
  starts_with [c_dot] s = true -> s = l -> starts_with_literal_dot (map AChar l) = true.
Proof.
  intros H ->. destruct l as [|c l]; [discriminate|]. cbn [starts_with] in H.
  rewrite andb_true_r in H. cbn [map starts_with_literal_dot]. rewrite N.eqb_sym. exact H.
Qed.

Theorem period_pattern_correct p a s :
  parse_pattern p = Some a ->
  match compile period_config p with
  | COk b =>
      pat_is_match period_config b s = true <->
      Matches a s /\ (starts_with [c_dot] s = true -> starts_with_literal_dot a = true)
  | CErr _ => valid_ast a = false
  | CUnsup | CFuel => False
  end.
Proof.
  intros Hp. rewrite (compile_parse _ _ _ Hp).
  destruct (to_literal a) as [l|] eqn:Hlit.
  - rewrite (compile_literal _ _ _ Hlit). pose proof (to_literal_chars _ _ Hlit) as ->.
    unfold Matches. rewrite valid_chars, Denote_chars.
    cbn [pat_is_match lit_find period_config anchor_begin anchor_end].
    destruct (str_eqb s l) eqn:E.
    + apply str_eqb_eq in E. cbn [is_some]. split; [|reflexivity]. intros _.
      split; [split; [reflexivity|exact E]|]. intros Hd. eapply literal_dot_chars; eassumption.
    + cbn [is_some]. split; [discriminate|]. intros [[_ ->] _].
      assert (str_eqb l l = true) by (apply str_eqb_eq; reflexivity). congruence.
  - pose proof (compile_ast_cases period_config a Hlit) as Hc.
    rewrite rx_of_ast_nodes in Hc. cbn [period_config anchor_begin anchor_end] in Hc.
    unfold Matches. rewrite (valid_nodes_any a) in *.
    destruct (all_some (map node_of_atom a)) as [ns|] eqn:Hns; cbn [omap] in Hc.
    + rewrite Hc. cbn [pat_is_match period_config shortest_match app]. unfold at_index.
      cbn [literal_period period_config andb].
      destruct (negb (starts_with_literal_dot a) && starts_with [c_dot] s) eqn:Eblk.
      * (* the period rule applies: the search starts after the period, \A cannot match *)
        rewrite find_start_from_one. cbn [is_some]. split; [discriminate|].
        intros [_ Himp]. apply andb_true_iff in Eblk as [Hnd Hs]. apply negb_true_iff in Hnd.
        rewrite (Himp Hs) in Hnd. discriminate.
      * assert (Hside : starts_with [c_dot] s = true -> starts_with_literal_dot a = true).
        { intros Hs. rewrite Hs, andb_true_r in Eblk. apply negb_false_iff in Eblk. exact Eblk. }
        rewrite find_start. cbn [is_some].
        destruct (bt false (ns ++ [REndText]) 0 s) as [k|] eqn:Eb; cbn [omap is_some].
        -- apply bt_sound in Eb. apply (sem_suffix_any a ns Hns) in Eb as [Hd _].
           split; [intros _; split; [split; [reflexivity|exact Hd]|exact Hside]|reflexivity].
        -- split; [discriminate|]. intros [[_ Hd] _]. exfalso.
           eapply (bt_none _ _ _ _ Eb). apply (sem_suffix_any a ns Hns). split; [exact Hd|reflexivity].
    + destruct Hc as [e ->]. reflexivity.
Qed.

(* whenever the start is anchored, a string with a leading period is never
   matched by a non-empty pattern that does not start with a literal period
   (the empty pattern is a literal and matches the empty prefix) *)
Theorem period_blocks_anchored cfg p a b s :
  literal_period cfg = true -> anchor_begin cfg = true ->
  parse_pattern p = Some a -> a <> [] ->
  compile cfg p = COk b ->
  starts_with [c_dot] s = true -> starts_with_literal_dot a = false ->
  pat_is_match cfg b s = false /\ pat_find cfg b s = None.
Proof.
  intros Hlp Hab Hp Hne Hc Hs Hnd. rewrite (compile_parse _ _ _ Hp) in Hc.
  destruct (to_literal a) as [l|] eqn:Hlit.
  - rewrite (compile_literal _ _ _ Hlit) in Hc. inversion Hc; subst b.
    pose proof (to_literal_chars _ _ Hlit) as ->.
    assert (Hno : starts_with l s = false).
    { destruct l as [|c l]; [|destruct s as [|x s']; [discriminate|]].
      - exfalso. apply Hne. reflexivity.
      - cbn [starts_with] in Hs. rewrite andb_true_r in Hs. apply N.eqb_eq in Hs. subst x.
        cbn [map starts_with_literal_dot] in Hnd. cbn [starts_with]. rewrite Hnd. reflexivity. }
    cbn [pat_is_match pat_find]. unfold lit_find. rewrite Hab.
    destruct (anchor_end cfg).
    + assert (str_eqb s l = false).
      { destruct (str_eqb s l) eqn:E; [|reflexivity]. apply str_eqb_eq in E. subst s.
        rewrite starts_with_refl_l in Hno. discriminate. }
      rewrite H. split; reflexivity.
    + rewrite Hno. split; reflexivity.
  - pose proof (compile_ast_cases cfg a Hlit) as Hcc. rewrite rx_of_ast_nodes in Hcc.
    destruct (all_some (map node_of_atom a)) as [ns|]; cbn [omap] in Hcc.
    + rewrite Hcc in Hc. inversion Hc; subst b. rewrite Hab. cbn [app pat_is_match pat_find].
      unfold at_index. rewrite Hlp, Hnd, Hs. cbn [negb andb].
      rewrite find_start_from_one. split; reflexivity.
    + destruct Hcc as [e Hcc]. rewrite Hcc in Hc. discriminate.
Qed.
