(* C04 — oracle soundness for the Pattern stream: for every configuration
   without the period rule, the three oracle clauses accept what the model
   computes for is_match / find / rfind (single-width patterns). *)
From Yv Require Import Common.Base C04.Model C04.Spec C04.ProofsParse C04.ProofsRegex
  C04.ProofsMatch C04.ProofsSem C04.ProofsPattern C04.ProofsOracle.
From Coq Require Import List NArith Bool Arith Lia.
Import ListNotations.

(* ------------------------------------------------------------------ *)
(* first / last element of a filtered, mapped range                     *)

Lemma hd_filter_map {B} (h : nat -> B) (p : B -> bool) : forall len s n,
  s <= n < s + len -> p (h n) = true -> (forall m, s <= m < n -> p (h m) = false) ->
  hd_error (filter p (map h (seq s len))) = Some (h n).
Proof.
  induction len as [|len IH]; intros s n Hn Hp Hmin; [lia|].
  cbn [seq map filter]. destruct (Nat.eq_dec n s) as [->|Hne].
  - rewrite Hp. reflexivity.
  - rewrite (Hmin s ltac:(lia)). apply IH; [lia|exact Hp|]. intros m Hm. apply Hmin. lia.
Qed.

Lemma last_filter_map {B} (h : nat -> B) (p : B -> bool) : forall len s n,
  s <= n < s + len -> p (h n) = true -> (forall m, n < m < s + len -> p (h m) = false) ->
  hd_error (rev (filter p (map h (seq s len)))) = Some (h n).
Proof.
  induction len as [|len IH]; intros s n Hn Hp Hmax; [lia|].
  rewrite seq_S, map_app, filter_app. cbn [map filter].
  destruct (Nat.eq_dec n (s + len)) as [->|Hne].
  - rewrite Hp. rewrite rev_app_distr. reflexivity.
  - rewrite (Hmax (s + len) ltac:(lia)). rewrite app_nil_r.
    apply IH; [lia|exact Hp|]. intros m Hm. apply Hmax. lia.
Qed.

Lemma filter_map_nil {B} (h : nat -> B) (p : B -> bool) : forall len s,
  (forall m, s <= m < s + len -> p (h m) = false) -> filter p (map h (seq s len)) = [].
Proof.
  induction len as [|len IH]; intros s H; [reflexivity|].
  cbn [seq map filter]. rewrite (H s ltac:(lia)). apply IH. intros m Hm. apply H. lia.
Qed.

(* ------------------------------------------------------------------ *)
(* admissible ranges = matches of the configured regex                  *)

Definition rx_cfg (cfg : config) (ns : rx) : rx :=
  (if anchor_begin cfg then [RStartText] else []) ++ ns ++
  (if anchor_end cfg then [REndText] else []).

Lemma DenoteK_all a s : DenoteK a s (length s) <-> Denote a s.
Proof. unfold DenoteK. rewrite firstn_all. split; [intros [_ H]; exact H|intros H; split; [lia|exact H]]. Qed.

Lemma RM_cfg cfg a ns :
  single_width a = true -> all_some (map node_of_atom a) = Some ns ->
  forall x s k,
    RM (rx_cfg cfg ns) x s k <->
    (anchor_begin cfg = true -> x = 0) /\ DenoteK a s k /\ (anchor_end cfg = true -> k = length s).
Proof.
  intros Hsw Hns x s k.
  assert (Hrest : forall pos,
            RM (ns ++ (if anchor_end cfg then [REndText] else [])) pos s k <->
            DenoteK a s k /\ (anchor_end cfg = true -> k = length s)).
  { intros pos. destruct (anchor_end cfg).
    - rewrite (sem_suffix a ns Hsw Hns). split.
      + intros [Hd ->]. split; [apply DenoteK_all; exact Hd|reflexivity].
      + intros [Hd Hk]. rewrite (Hk eq_refl) in *. split; [apply DenoteK_all; exact Hd|reflexivity].
    - rewrite app_nil_r. rewrite (sem_prefix a ns Hsw Hns). split.
      + intros Hd. split; [exact Hd|discriminate].
      + intros [Hd _]. exact Hd. }
  unfold rx_cfg. destruct (anchor_begin cfg); cbn [app].
  - split.
    + intros HR. inversion HR; subst. split; [reflexivity|]. apply (Hrest 0). assumption.
    + intros (Hx & Hr). rewrite (Hx eq_refl). constructor. apply (Hrest 0). exact Hr.
  - rewrite Hrest. split; [intros Hr; split; [discriminate|exact Hr]|intros [_ Hr]; exact Hr].
Qed.

Lemma range_ok_iff cfg a ns text x y :
  single_width a = true -> all_some (map node_of_atom a) = Some ns ->
  (range_ok cfg a text x y = true <->
   x <= y /\ y <= length text /\ RM (rx_cfg cfg ns) x (skipn x text) (y - x)).
Proof.
  intros Hsw Hns. rewrite (RM_cfg cfg a ns Hsw Hns). unfold range_ok, DenoteK, sub.
  rewrite !andb_true_iff, !orb_true_iff, !negb_true_iff, !Nat.leb_le, !Nat.eqb_eq, dmatch_iff.
  rewrite skipn_length. split.
  - intros ((((H1 & H2) & H3) & H4) & H5).
    split; [exact H1|]. split; [exact H2|]. split.
    { intros E. destruct H3 as [H3|H3]; [congruence|exact H3]. }
    split; [split; [lia|exact H5]|].
    intros E. destruct H4 as [H4|H4]; [congruence|lia].
  - intros (H1 & H2 & H3 & (H4 & H5) & H6).
    split; [|exact H5]. split; [split; [split; [exact H1|exact H2]|]|].
    + destruct (anchor_begin cfg); [right; apply H3; reflexivity|left; reflexivity].
    + destruct (anchor_end cfg); [right; specialize (H6 eq_refl); lia|left; reflexivity].
Qed.

(* ------------------------------------------------------------------ *)
(* the table of the oracle                                              *)

Section Table.
Variables (cfg : config) (a : ast) (ns : rx) (text : str) (lazy : bool).
Hypothesis Hsw : single_width a = true.
Hypothesis Hns : all_some (map node_of_atom a) = Some ns.

Let r := rx_cfg cfg ns.
Let B (x : nat) : option nat := bt lazy r x (skipn x text).
Let entry (x : nat) : nat * list nat := (x, ends_from cfg a text x).
Let keep (e : nat * list nat) : bool := negb (is_nil (snd e)).

Lemma valid_here : valid_ast a = true.
Proof. rewrite (valid_nodes a Hsw), Hns. reflexivity. Qed.

Lemma table_is : match_table cfg a text = filter keep (map entry (seq 0 (S (length text)))).
Proof. unfold match_table. rewrite valid_here. reflexivity. Qed.

Lemma in_ends x y : In y (ends_from cfg a text x) <-> range_ok cfg a text x y = true.
Proof.
  unfold ends_from. rewrite filter_In, in_seq. split; [intros [_ H]; exact H|].
  intros H. split; [|exact H].
  apply (range_ok_iff cfg a ns text x y Hsw Hns) in H as (_ & H & _). lia.
Qed.

(* a match found by bt is admissible *)
Lemma B_range x k : x <= length text -> B x = Some k -> range_ok cfg a text x (x + k) = true.
Proof.
  intros Hx Hb. apply bt_sound in Hb. pose proof (RM_le _ _ _ _ Hb) as Hle.
  rewrite skipn_length in Hle.
  apply (range_ok_iff cfg a ns text x (x + k) Hsw Hns).
  replace (x + k - x) with k by lia. repeat split; try lia. exact Hb.
Qed.

(* an admissible range means bt succeeds at its start *)
Lemma range_B x y : range_ok cfg a text x y = true -> B x <> None.
Proof.
  intros H. apply (range_ok_iff cfg a ns text x y Hsw Hns) in H as (_ & _ & H).
  destruct (bt_complete lazy _ _ _ _ H) as [k E]. unfold B, r. congruence.
Qed.

Lemma keep_iff x : keep (entry x) = true <-> exists y, range_ok cfg a text x y = true.
Proof.
  unfold keep, entry. cbn [snd]. split.
  - intros H. destruct (ends_from cfg a text x) as [|y l] eqn:E; [discriminate|].
    exists y. apply in_ends. rewrite E. left. reflexivity.
  - intros [y Hy]. apply in_ends in Hy. destruct (ends_from cfg a text x); [destruct Hy|reflexivity].
Qed.

Lemma keep_B x : x <= length text -> (keep (entry x) = true <-> B x <> None).
Proof.
  intros Hx. rewrite keep_iff. split.
  - intros [y Hy]. eapply range_B; exact Hy.
  - intros H. destruct (B x) as [k|] eqn:E; [|congruence]. exists (x + k). apply B_range; assumption.
Qed.

Lemma keep_false_B x : x <= length text -> B x = None -> keep (entry x) = false.
Proof.
  intros Hx Hb. destruct (keep (entry x)) eqn:E; [|reflexivity].
  apply keep_B in E; [congruence|exact Hx].
Qed.

(* clause 0 *)
Lemma table_nil_iff :
  is_nil (match_table cfg a text) = true <-> forall x, x <= length text -> B x = None.
Proof.
  rewrite table_is. split.
  - intros H x Hx. destruct (B x) as [k|] eqn:E; [|reflexivity]. exfalso.
    assert (Hk : keep (entry x) = true) by (apply keep_B; [exact Hx|congruence]).
    assert (Hin : In (entry x) (filter keep (map entry (seq 0 (S (length text)))))).
    { apply filter_In. split; [|exact Hk]. apply in_map. apply in_seq. lia. }
    destruct (filter keep (map entry (seq 0 (S (length text))))); [destruct Hin|discriminate].
  - intros H. rewrite filter_map_nil; [reflexivity|].
    intros m Hm. apply keep_false_B; [lia|apply H; lia].
Qed.

(* the first / last entry of the table *)
Lemma table_first x :
  x <= length text -> B x <> None -> (forall m, m < x -> B m = None) ->
  hd_error (match_table cfg a text) = Some (entry x).
Proof.
  intros Hx Hb Hmin. rewrite table_is. apply hd_filter_map; [lia|apply keep_B; assumption|].
  intros m Hm. apply keep_false_B; [lia|apply Hmin; lia].
Qed.

Lemma table_last x :
  x <= length text -> B x <> None -> (forall m, x < m -> m <= length text -> B m = None) ->
  hd_error (rev (match_table cfg a text)) = Some (entry x).
Proof.
  intros Hx Hb Hmax. rewrite table_is. apply last_filter_map; [lia|apply keep_B; assumption|].
  intros m Hm. apply keep_false_B; [lia|apply Hmax; lia].
Qed.

End Table.

(* ------------------------------------------------------------------ *)
(* regex bodies                                                         *)

Lemma bt_start_only lazy r pos s : 0 < pos -> bt lazy (RStartText :: r) pos s = None.
Proof. intros H. cbn [bt]. destruct pos; [lia|reflexivity]. Qed.

(* with only the start anchored, bt's match is the shortest / longest one *)
Lemma prefix_extremal cfg a ns text x k y :
  single_width a = true -> all_some (map node_of_atom a) = Some ns ->
  anchor_begin cfg = true -> anchor_end cfg = false ->
  bt (shortest_match cfg) (rx_cfg cfg ns) x (skipn x text) = Some k ->
  range_ok cfg a text x y = true ->
  if shortest_match cfg then x + k <= y else y <= x + k.
Proof.
  intros Hsw Hns Hab Hae Hb Hr.
  apply (range_ok_iff cfg a ns text x y Hsw Hns) in Hr as (Hxy & Hy & HR).
  unfold rx_cfg in *. rewrite Hab, Hae in *. cbn [app] in *. rewrite app_nil_r in *.
  inversion HR as [| | | | |? ? ? HR'|]; subst. cbn [bt Nat.eqb skipn] in Hb.
  pose proof (nodes_glob a ns Hsw Hns) as Hg. cbn [skipn] in HR'. rewrite Nat.sub_0_r in HR'.
  destruct (shortest_match cfg).
  - pose proof (bt_lazy_min ns Hg _ _ _ Hb _ _ HR'). lia.
  - pose proof (bt_greedy_max ns Hg _ _ _ Hb _ _ HR'). lia.
Qed.

Section Regex.
Variables (cfg : config) (a : ast) (ns : rx) (text : str) (dot : bool).
Hypothesis Hsw : single_width a = true.
Hypothesis Hns : all_some (map node_of_atom a) = Some ns.
Hypothesis Hlp : literal_period cfg = false.

Let lazy := shortest_match cfg.
Let r := rx_cfg cfg ns.
Let b := BodyRx r dot.
Let tbl := table_of cfg a text.

Lemma tbl_is : tbl = match_table cfg a text.
Proof. unfold tbl, table_of, period_blocks. rewrite Hlp. reflexivity. Qed.

Lemma at_zero : at_index cfg dot text = 0.
Proof. unfold at_index. rewrite Hlp. reflexivity. Qed.

Lemma find_is : pat_find cfg b text = find_scan lazy r 0 0 text.
Proof. cbn [pat_find b]. rewrite at_zero. reflexivity. Qed.

(* the entry of a start where bt succeeds satisfies the entry clause *)
Lemma entry_accepts x k :
  x <= length text -> bt lazy r x (skipn x text) = Some k ->
  entry_ok cfg (Some (x, ends_from cfg a text x)) x (x + k) = true.
Proof.
  intros Hx Hb. unfold entry_ok. rewrite Nat.eqb_refl. cbn [andb].
  pose proof (B_range cfg a ns text lazy Hsw Hns x k Hx Hb) as Hr.
  assert (Hin : existsb (Nat.eqb (x + k)) (ends_from cfg a text x) = true).
  { apply existsb_exists. exists (x + k). split; [|apply Nat.eqb_refl].
    apply (in_ends cfg a ns text Hsw Hns). exact Hr. }
  rewrite Hin. cbn [andb]. unfold wanted_end.
  destruct (anchor_begin cfg && negb (anchor_end cfg)) eqn:Ea; [|reflexivity].
  apply andb_true_iff in Ea as [Hab Hae]. apply negb_true_iff in Hae.
  assert (Hle : x + k <= length text).
  { apply (range_ok_iff cfg a ns text x (x + k) Hsw Hns) in Hr. lia. }
  assert (Hext : forall y, range_ok cfg a text x y = true ->
                           if shortest_match cfg then x + k <= y else y <= x + k).
  { intros y Hy. eapply prefix_extremal; eassumption. }
  unfold ends_from. destruct (shortest_match cfg) eqn:Es.
  - unfold first_of. rewrite (first_of_filter _ (S (length text)) 0 (x + k)); [apply Nat.eqb_refl|lia|exact Hr|].
    intros m Hm. destruct (range_ok cfg a text x m) eqn:E; [|reflexivity].
    specialize (Hext m E). cbn beta iota in Hext. lia.
  - unfold last_of. rewrite (last_of_filter _ (S (length text)) 0 (x + k)); [apply Nat.eqb_refl|lia|exact Hr|].
    intros m Hm. destruct (range_ok cfg a text x m) eqn:E; [|reflexivity].
    specialize (Hext m E). cbn beta iota in Hext. lia.
Qed.

Theorem regex_oracle_find :
  oracle_is_match tbl (pat_is_match cfg b text) = true /\
  oracle_find cfg tbl (pat_find cfg b text) = true.
Proof.
  assert (His : pat_is_match cfg b text = is_some (pat_find cfg b text)) by reflexivity.
  rewrite His, find_is, tbl_is. unfold oracle_is_match, oracle_find.
  destruct (find_scan lazy r 0 0 text) as [[x y]|] eqn:Ef.
  - destruct (find_scan_some _ _ _ _ _ _ _ Ef) as (d & -> & Hd & _ & Hb & Hxy & Hmin).
    cbn [Nat.add] in *. cbn [is_some].
    assert (Hne : bt lazy r d (skipn d text) <> None) by congruence.
    assert (Hminb : forall m, m < d -> bt lazy r m (skipn m text) = None)
      by (intros m Hm; apply Hmin; lia).
    pose proof (table_first cfg a ns text lazy Hsw Hns d Hd Hne Hminb) as Hhd.
    split.
    + destruct (match_table cfg a text); [discriminate|reflexivity].
    + rewrite Hhd. replace y with (d + (y - d)) by lia. apply entry_accepts; assumption.
  - cbn [is_some].
    assert (Hnil : is_nil (match_table cfg a text) = true).
    { apply (table_nil_iff cfg a ns text lazy Hsw Hns). intros x Hx.
      exact (find_scan_none _ _ _ _ _ Ef x Hx ltac:(lia)). }
    rewrite Hnil. split; reflexivity.
Qed.

Theorem regex_oracle_rfind :
  match pat_rfind cfg b text with
  | FSome x y => oracle_rfind cfg tbl (Some (x, y)) = true
  | FNone => oracle_rfind cfg tbl None = true
  | FFuel => False
  end.
Proof.
  cbn [pat_rfind b]. fold b. rewrite find_is, tbl_is. unfold oracle_rfind.
  destruct (find_scan lazy r 0 0 text) as [[x y]|] eqn:Ef.
  - destruct (find_scan_some _ _ _ _ _ _ _ Ef) as (d & -> & Hd & _ & Hb & Hxy & _).
    cbn [Nat.add] in *.
    assert (Hm0 : match_at lazy r text (d, y)) by (repeat split; assumption).
    destruct (rfind_loop_spec lazy r text (S (length text)) (d, y) ltac:(cbn [fst]; lia) Hm0)
      as ([x' y'] & Hr & (Hx'l & Hx'y' & Hb') & _ & Hnone).
    fold lazy. rewrite Hr. cbn [fst snd] in *.
    assert (Hne : bt lazy r x' (skipn x' text) <> None) by congruence.
    pose proof (table_last cfg a ns text lazy Hsw Hns x' Hx'l Hne Hnone) as Hlast.
    rewrite Hlast. replace y' with (x' + (y' - x')) by lia. apply entry_accepts; assumption.
  - apply (table_nil_iff cfg a ns text lazy Hsw Hns). intros x Hx.
    exact (find_scan_none _ _ _ _ _ Ef x Hx ltac:(lia)).
Qed.

End Regex.

(* ------------------------------------------------------------------ *)
(* literal bodies: the fast path answers like the regex of the literal   *)

Definition lit_nodes (l : str) : rx := map (fun c => RS (SLit c)) l.

Lemma lit_nodes_of l : all_some (map node_of_atom (map AChar l)) = Some (lit_nodes l).
Proof. induction l as [|c l IH]; [reflexivity|]. cbn [map all_some node_of_atom]. cbn [map] in IH. rewrite IH. reflexivity. Qed.

Lemma lit_single_width l : single_width (map AChar l) = true.
Proof. induction l; [reflexivity|exact IHl]. Qed.

(* where the literal matches under the anchors *)
Definition lit_at (cfg : config) (l text : str) (x : nat) : bool :=
  (negb (anchor_begin cfg) || Nat.eqb x 0) && starts_with l (skipn x text) &&
  (negb (anchor_end cfg) || Nat.eqb (x + length l) (length text)).

Lemma lit_B cfg l text lazy x :
  x <= length text ->
  bt lazy (rx_cfg cfg (lit_nodes l)) x (skipn x text) =
  if lit_at cfg l text x then Some (length l) else None.
Proof.
  intros Hx.
  pose proof (RM_cfg cfg (map AChar l) (lit_nodes l) (lit_single_width l) (lit_nodes_of l)) as HRM.
  assert (Hiff : forall k, RM (rx_cfg cfg (lit_nodes l)) x (skipn x text) k <->
                           k = length l /\ lit_at cfg l text x = true).
  { intros k. rewrite HRM. unfold DenoteK. rewrite Denote_chars, skipn_length. unfold lit_at.
    rewrite !andb_true_iff, !orb_true_iff, !negb_true_iff, !Nat.eqb_eq, starts_with_iff, skipn_length.
    split.
    - intros (H1 & (H2 & H3) & H4).
      assert (Hk : k = length l) by (rewrite <- H3; rewrite firstn_length_le; [reflexivity|rewrite skipn_length; lia]).
      subst k. split; [reflexivity|]. split; [split|].
      + destruct (anchor_begin cfg); [right; apply H1; reflexivity|left; reflexivity].
      + split; [exact H3|lia].
      + destruct (anchor_end cfg); [right; specialize (H4 eq_refl); lia|left; reflexivity].
    - intros (-> & (H1 & (H2 & H3)) & H4). split; [|split; [split; [lia|exact H2]|]].
      + intros E. destruct H1 as [H1|H1]; [congruence|exact H1].
      + intros E. destruct H4 as [H4|H4]; [congruence|lia]. }
  destruct (bt lazy (rx_cfg cfg (lit_nodes l)) x (skipn x text)) as [k|] eqn:Eb.
  - apply bt_sound in Eb. apply Hiff in Eb as [-> ->]. reflexivity.
  - destruct (lit_at cfg l text x) eqn:El; [|reflexivity]. exfalso.
    eapply (bt_none _ _ _ _ Eb). apply Hiff. split; reflexivity.
Qed.

(* find-like and rfind-like answers are accepted *)
Section Generic.
Variables (cfg : config) (a : ast) (ns : rx) (text : str) (lazy : bool).
Hypothesis Hsw : single_width a = true.
Hypothesis Hns : all_some (map node_of_atom a) = Some ns.
Hypothesis Hlp : literal_period cfg = false.
Let B (x : nat) := bt lazy (rx_cfg cfg ns) x (skipn x text).
Hypothesis Hext : forall x k y,
  anchor_begin cfg = true -> anchor_end cfg = false ->
  B x = Some k -> range_ok cfg a text x y = true ->
  if shortest_match cfg then x + k <= y else y <= x + k.

Lemma entry_accepts_gen x k :
  x <= length text -> B x = Some k ->
  entry_ok cfg (Some (x, ends_from cfg a text x)) x (x + k) = true.
Proof.
  intros Hx Hb. unfold entry_ok. rewrite Nat.eqb_refl. cbn [andb].
  pose proof (B_range cfg a ns text lazy Hsw Hns x k Hx Hb) as Hr.
  assert (Hin : existsb (Nat.eqb (x + k)) (ends_from cfg a text x) = true).
  { apply existsb_exists. exists (x + k). split; [|apply Nat.eqb_refl].
    apply (in_ends cfg a ns text Hsw Hns). exact Hr. }
  rewrite Hin. cbn [andb]. unfold wanted_end.
  destruct (anchor_begin cfg && negb (anchor_end cfg)) eqn:Ea; [|reflexivity].
  apply andb_true_iff in Ea as [Hab Hae]. apply negb_true_iff in Hae.
  assert (Hle : x + k <= length text).
  { apply (range_ok_iff cfg a ns text x (x + k) Hsw Hns) in Hr. lia. }
  pose proof (Hext x k) as Hext'. unfold ends_from. destruct (shortest_match cfg) eqn:Es.
  - unfold first_of. rewrite (first_of_filter _ (S (length text)) 0 (x + k)); [apply Nat.eqb_refl|lia|exact Hr|].
    intros m Hm. destruct (range_ok cfg a text x m) eqn:E; [|reflexivity].
    specialize (Hext' m Hab Hae Hb E). cbn beta iota in Hext'. lia.
  - unfold last_of. rewrite (last_of_filter _ (S (length text)) 0 (x + k)); [apply Nat.eqb_refl|lia|exact Hr|].
    intros m Hm. destruct (range_ok cfg a text x m) eqn:E; [|reflexivity].
    specialize (Hext' m Hab Hae Hb E). cbn beta iota in Hext'. lia.
Qed.

Definition find_like (res : option (nat * nat)) : Prop :=
  match res with
  | None => forall x, x <= length text -> B x = None
  | Some (x, y) => x <= length text /\ x <= y /\ B x = Some (y - x) /\ forall m, m < x -> B m = None
  end.

Definition rfind_like (res : option (nat * nat)) : Prop :=
  match res with
  | None => forall x, x <= length text -> B x = None
  | Some (x, y) => x <= length text /\ x <= y /\ B x = Some (y - x) /\
                   forall m, x < m -> m <= length text -> B m = None
  end.

Lemma find_like_accepted res :
  find_like res ->
  oracle_is_match (table_of cfg a text) (is_some res) = true /\
  oracle_find cfg (table_of cfg a text) res = true.
Proof.
  unfold table_of, period_blocks. rewrite Hlp. cbn [andb]. unfold oracle_is_match, oracle_find.
  destruct res as [[x y]|]; cbn [find_like is_some].
  - intros (Hx & Hxy & Hb & Hmin).
    assert (Hne : B x <> None) by congruence.
    pose proof (table_first cfg a ns text lazy Hsw Hns x Hx Hne Hmin) as Hhd. split.
    + destruct (match_table cfg a text); [discriminate|reflexivity].
    + rewrite Hhd. replace y with (x + (y - x)) by lia. apply entry_accepts_gen; assumption.
  - intros Hnone.
    assert (Hnil : is_nil (match_table cfg a text) = true)
      by (apply (table_nil_iff cfg a ns text lazy Hsw Hns); exact Hnone).
    rewrite Hnil. split; reflexivity.
Qed.

Lemma rfind_like_accepted res :
  rfind_like res -> oracle_rfind cfg (table_of cfg a text) res = true.
Proof.
  unfold table_of, period_blocks. rewrite Hlp. cbn [andb]. unfold oracle_rfind.
  destruct res as [[x y]|]; cbn [rfind_like].
  - intros (Hx & Hxy & Hb & Hmax).
    assert (Hne : B x <> None) by congruence.
    rewrite (table_last cfg a ns text lazy Hsw Hns x Hx Hne Hmax).
    replace y with (x + (y - x)) by lia. apply entry_accepts_gen; assumption.
  - intros Hnone. apply (table_nil_iff cfg a ns text lazy Hsw Hns). exact Hnone.
Qed.

End Generic.

(* --- str::find / str::rfind --- *)

Lemma find_sub_spec l : forall t pos,
  match find_sub l pos t with
  | Some p => exists d, p = pos + d /\ d <= length t /\ starts_with l (skipn d t) = true /\
                        forall d', d' < d -> starts_with l (skipn d' t) = false
  | None => forall d, d <= length t -> starts_with l (skipn d t) = false
  end.
Proof.
  induction t as [|x t IH]; intros pos; cbn [find_sub].
  - destruct (starts_with l []) eqn:E.
    + exists 0. rewrite Nat.add_0_r. repeat split; [lia|exact E|intros d' Hd'; lia].
    + intros d Hd. cbn [length] in Hd. assert (d = 0) by lia. subst. exact E.
  - destruct (starts_with l (x :: t)) eqn:E.
    + exists 0. rewrite Nat.add_0_r. repeat split; [lia|exact E|intros d' Hd'; lia].
    + specialize (IH (S pos)). destruct (find_sub l (S pos) t) as [p|].
      * destruct IH as (d & -> & Hd & Hs & Hmin). exists (S d). repeat split; [lia|cbn; lia|exact Hs|].
        intros d' Hd'. destruct d' as [|d']; [exact E|]. cbn [skipn]. apply Hmin. lia.
      * intros d Hd. destruct d as [|d]; [exact E|]. cbn [skipn]. apply IH. cbn in Hd. lia.
Qed.

Lemma rfind_sub_spec l : forall t pos,
  match rfind_sub l pos t with
  | Some p => exists d, p = pos + d /\ d <= length t /\ starts_with l (skipn d t) = true /\
                        forall d', d < d' -> d' <= length t -> starts_with l (skipn d' t) = false
  | None => forall d, d <= length t -> starts_with l (skipn d t) = false
  end.
Proof.
  induction t as [|x t IH]; intros pos; cbn [rfind_sub].
  - destruct (starts_with l []) eqn:E.
    + exists 0. rewrite Nat.add_0_r. repeat split; [lia|exact E|]. intros d' H1 H2. cbn in H2. lia.
    + intros d Hd. cbn [length] in Hd. assert (d = 0) by lia. subst. exact E.
  - specialize (IH (S pos)). destruct (rfind_sub l (S pos) t) as [p|].
    + destruct IH as (d & -> & Hd & Hs & Hmax). exists (S d). repeat split; [lia|cbn; lia|exact Hs|].
      intros d' H1 H2. destruct d' as [|d']; [lia|]. cbn [skipn]. apply Hmax; [lia|cbn in H2; lia].
    + destruct (starts_with l (x :: t)) eqn:E.
      * exists 0. rewrite Nat.add_0_r. repeat split; [lia|exact E|].
        intros d' H1 H2. destruct d' as [|d']; [lia|]. cbn [skipn]. apply IH. cbn in H2. lia.
      * intros d Hd. destruct d as [|d]; [exact E|]. cbn [skipn]. apply IH. cbn in Hd. lia.
Qed.

Lemma starts_with_refl l : starts_with l l = true.
Proof. pose proof (starts_with_app l []) as H. rewrite app_nil_r in H. exact H. Qed.

Lemma starts_with_same_length l s : starts_with l s = true -> length l = length s -> s = l.
Proof.
  intros H Hl. apply starts_with_iff in H as [H _]. rewrite Hl, firstn_all in H. exact H.
Qed.

Section Literal.
Variables (cfg : config) (l text : str) (lazy : bool).
Let B (x : nat) := bt lazy (rx_cfg cfg (lit_nodes l)) x (skipn x text).

Lemma B_is x : x <= length text -> B x = if lit_at cfg l text x then Some (length l) else None.
Proof. apply lit_B. Qed.

Lemma B_some x : x <= length text -> lit_at cfg l text x = true -> B x = Some (x + length l - x).
Proof. intros Hx H. rewrite B_is, H by exact Hx. f_equal. lia. Qed.

Lemma B_none x : x <= length text -> lit_at cfg l text x = false -> B x = None.
Proof. intros Hx H. rewrite B_is, H by exact Hx. reflexivity. Qed.

Theorem literal_find_like :
  find_like cfg (lit_nodes l) text lazy (lit_find cfg l text false) /\
  rfind_like cfg (lit_nodes l) text lazy (lit_find cfg l text true).
Proof.
  unfold find_like, rfind_like, lit_find. fold B.
  destruct (anchor_begin cfg) eqn:Hab, (anchor_end cfg) eqn:Hae.
  - (* both ends: equality *)
    assert (Hat : forall x, x <= length text -> lit_at cfg l text x = true -> x = 0 /\ text = l).
    { intros x Hx H. unfold lit_at in H. rewrite Hab, Hae in H. cbn [negb orb] in H.
      apply andb_true_iff in H as [H H3]. apply andb_true_iff in H as [H1 H2].
      apply Nat.eqb_eq in H1, H3. subst x. cbn [skipn] in H2. split; [reflexivity|].
      apply starts_with_same_length; [exact H2|lia]. }
    destruct (str_eqb text l) eqn:E.
    + apply str_eqb_eq in E.
      assert (H0 : lit_at cfg l text 0 = true).
      { unfold lit_at. rewrite Hab, Hae. cbn [negb orb skipn Nat.eqb Nat.add].
        rewrite E at 1 2. rewrite starts_with_refl, Nat.eqb_refl. reflexivity. }
      split; (split; [lia|]; split; [lia|]; split; [apply (B_some 0); [lia|exact H0]|]).
      * intros m Hm. lia.
      * intros m Hm Hml. apply B_none; [exact Hml|].
        destruct (lit_at cfg l text m) eqn:El; [|reflexivity]. apply Hat in El as [-> _]; [lia|exact Hml].
    + assert (Hn : forall x, x <= length text -> B x = None).
      { intros x Hx. apply B_none; [exact Hx|]. destruct (lit_at cfg l text x) eqn:El; [|reflexivity].
        apply Hat in El as [_ ->]; [|exact Hx].
        assert (str_eqb l l = true) by (apply str_eqb_eq; reflexivity). congruence. }
      split; exact Hn.
  - (* start only *)
    assert (Hat : forall x, lit_at cfg l text x = Nat.eqb x 0 && starts_with l (skipn x text)).
    { intros x. unfold lit_at. rewrite Hab, Hae. cbn [negb orb]. rewrite andb_true_r. reflexivity. }
    destruct (starts_with l text) eqn:E.
    + assert (H0 : lit_at cfg l text 0 = true) by (rewrite Hat; cbn [Nat.eqb skipn andb]; exact E).
      split; (split; [lia|]; split; [lia|]; split; [apply (B_some 0); [lia|exact H0]|]).
      * intros m Hm. lia.
      * intros m Hm Hml. apply B_none; [exact Hml|]. rewrite Hat. destruct m; [lia|reflexivity].
    + assert (Hn : forall x, x <= length text -> B x = None).
      { intros x Hx. apply B_none; [exact Hx|]. rewrite Hat. destruct x; [cbn [Nat.eqb skipn andb]; exact E|reflexivity]. }
      split; exact Hn.
  - (* end only *)
    assert (Hat : forall x, lit_at cfg l text x =
                            starts_with l (skipn x text) && Nat.eqb (x + length l) (length text)).
    { intros x. unfold lit_at. rewrite Hab, Hae. reflexivity. }
    destruct (ends_with l text) eqn:E.
    + apply ends_with_iff in E as [E1 E2].
      assert (H0 : lit_at cfg l text (length text - length l) = true).
      { rewrite Hat, E2, starts_with_refl. cbn [andb]. apply Nat.eqb_eq. lia. }
      assert (Hother : forall m, m <= length text -> m <> length text - length l -> B m = None).
      { intros m Hml Hne. apply B_none; [exact Hml|]. rewrite Hat.
        destruct (Nat.eqb (m + length l) (length text)) eqn:En; [|apply andb_false_r].
        apply Nat.eqb_eq in En. lia. }
      split; (split; [lia|]; split; [lia|]; split).
      * replace (length text - (length text - length l)) with (length text - length l + length l - (length text - length l)) by lia.
        apply B_some; [lia|exact H0].
      * intros m Hm. apply Hother; lia.
      * replace (length text - (length text - length l)) with (length text - length l + length l - (length text - length l)) by lia.
        apply B_some; [lia|exact H0].
      * intros m Hm Hml. apply Hother; lia.
    + assert (Hn : forall x, x <= length text -> B x = None).
      { intros x Hx. apply B_none; [exact Hx|]. destruct (lit_at cfg l text x) eqn:El; [|reflexivity].
        rewrite Hat in El. apply andb_true_iff in El as [H1 H2]. apply Nat.eqb_eq in H2.
        assert (ends_with l text = true); [|congruence].
        apply ends_with_iff. split; [lia|]. replace (length text - length l) with x by lia.
        apply starts_with_same_length; [exact H1|rewrite skipn_length; lia]. }
      split; exact Hn.
  - (* no anchor *)
    assert (Hat : forall x, lit_at cfg l text x = starts_with l (skipn x text)).
    { intros x. unfold lit_at. rewrite Hab, Hae. cbn [negb orb]. rewrite andb_true_r. reflexivity. }
    split.
    + pose proof (find_sub_spec l text 0) as Hs. destruct (find_sub l 0 text) as [p|]; cbn [omap].
      * destruct Hs as (d & -> & Hd & Hsw & Hmin). cbn [Nat.add].
        split; [exact Hd|]. split; [lia|]. split; [apply B_some; [exact Hd|rewrite Hat; exact Hsw]|].
        intros m Hm. apply B_none; [lia|]. rewrite Hat. apply Hmin. exact Hm.
      * intros x Hx. apply B_none; [exact Hx|]. rewrite Hat. apply Hs. exact Hx.
    + pose proof (rfind_sub_spec l text 0) as Hs. destruct (rfind_sub l 0 text) as [p|]; cbn [omap].
      * destruct Hs as (d & -> & Hd & Hsw & Hmax). cbn [Nat.add].
        split; [exact Hd|]. split; [lia|]. split; [apply B_some; [exact Hd|rewrite Hat; exact Hsw]|].
        intros m Hm Hml. apply B_none; [exact Hml|]. rewrite Hat. apply Hmax; assumption.
      * intros x Hx. apply B_none; [exact Hx|]. rewrite Hat. apply Hs. exact Hx.
Qed.

End Literal.

(* ------------------------------------------------------------------ *)
(* THEOREM: the oracle of the Pattern stream accepts the model          *)

Theorem pattern_oracle_accepts_model cfg p a text :
  literal_period cfg = false ->
  parse_pattern p = Some a -> single_width a = true ->
  let tbl := table_of cfg a text in
  match compile cfg p with
  | COk b =>
      oracle_is_match tbl (pat_is_match cfg b text) = true /\
      oracle_find cfg tbl (pat_find cfg b text) = true /\
      match pat_rfind cfg b text with
      | FSome x y => oracle_rfind cfg tbl (Some (x, y)) = true
      | FNone => oracle_rfind cfg tbl None = true
      | FFuel => False
      end
  | CErr _ => tbl = []
  | CUnsup | CFuel => False
  end.
Proof.
  intros Hlp Hp Hsw tbl. subst tbl. rewrite (compile_parse _ _ _ Hp).
  destruct (to_literal a) as [l|] eqn:Hlit.
  - rewrite (compile_literal _ _ _ Hlit). pose proof (to_literal_chars _ _ Hlit) as ->.
    destruct (literal_find_like cfg l text (shortest_match cfg)) as [Hf Hr].
    assert (Hext : forall x k y,
              anchor_begin cfg = true -> anchor_end cfg = false ->
              bt (shortest_match cfg) (rx_cfg cfg (lit_nodes l)) x (skipn x text) = Some k ->
              range_ok cfg (map AChar l) text x y = true ->
              if shortest_match cfg then x + k <= y else y <= x + k).
    { intros x k y Hab Hae Hb Hro.
      exact (prefix_extremal cfg (map AChar l) (lit_nodes l) text x k y (lit_single_width l)
               (lit_nodes_of l) Hab Hae Hb Hro). }
    destruct (find_like_accepted cfg (map AChar l) (lit_nodes l) text (shortest_match cfg)
                (lit_single_width l) (lit_nodes_of l) Hlp Hext _ Hf) as [H1 H2].
    pose proof (rfind_like_accepted cfg (map AChar l) (lit_nodes l) text (shortest_match cfg)
                  (lit_single_width l) (lit_nodes_of l) Hlp Hext _ Hr) as H3.
    cbn [pat_is_match pat_find pat_rfind]. split; [exact H1|]. split; [exact H2|].
    destruct (lit_find cfg l text true) as [[x y]|]; exact H3.
  - pose proof (compile_ast_cases cfg a Hlit) as Hc.
    rewrite rx_of_ast_nodes in Hc.
    destruct (all_some (map node_of_atom a)) as [ns|] eqn:Hns; cbn [omap] in Hc.
    + rewrite Hc.
      destruct (regex_oracle_find cfg a ns text (starts_with_literal_dot a) Hsw Hns Hlp) as [H1 H2].
      pose proof (regex_oracle_rfind cfg a ns text (starts_with_literal_dot a) Hsw Hns Hlp) as H3.
      split; [exact H1|]. split; [exact H2|exact H3].
    + destruct Hc as [e ->]. unfold table_of, period_blocks, match_table.
      rewrite Hlp. cbn [andb]. rewrite (valid_nodes a Hsw), Hns. reflexivity.
Qed.
