(* C04 — the intended regex of a pattern matches what the pattern denotes
   (Denote, Spec.v), and dmatch decides Denote. *)
From Yv Require Import Common.Base C04.Model C04.Spec C04.ProofsMatch.
From Coq Require Import List NArith Bool Arith Lia ZifyBool.
Import ListNotations.

(* ------------------------------------------------------------------ *)
(* the two class tables agree                                           *)

Lemma class_tables name :
  match class_of_name name, class_pred name with
  | Some k, Some p => forall x, p x = existsb (in_range x) (ascii_ranges k)
  | None, None => True
  | _, _ => False
  end.
Proof.
  unfold class_of_name, class_pred, class_names, spec_classes. cbn [assoc_str].
  repeat (destruct (str_eqb name _);
          [intros x;
           unfold p_alnum, p_alpha, p_ascii, p_blank, p_cntrl, p_digit, p_graph, p_lower, p_print,
             p_punct, p_space, p_upper, p_word, p_xdigit, p_graph, p_alnum, p_alpha, p_upper,
             p_lower, p_digit, Spec.between, in_range, ascii_ranges;
           cbn [existsb fst snd]; lia|]).
  exact I.
Qed.

Lemma class_defined_iff name : is_some (class_pred name) = is_some (class_of_name name).
Proof.
  pose proof (class_tables name) as H.
  destruct (class_of_name name), (class_pred name); try reflexivity; destruct H.
Qed.

(* ------------------------------------------------------------------ *)
(* members                                                              *)

Lemma citem_item it ci : citem_of it = Some ci -> forall x, citem_match x ci = item_has1 it x.
Proof.
  destruct it as [[c|v|v|name]|lo hi]; cbn [citem_of]; intros H x.
  - inversion H; subst. reflexivity.
  - destruct v as [|c [|? ?]]; try discriminate. inversion H; subst.
    cbn [citem_match item_has1 str_eqb list_eqb]. rewrite andb_true_r. apply N.eqb_sym.
  - destruct v as [|c [|? ?]]; try discriminate. inversion H; subst.
    cbn [citem_match item_has1 str_eqb list_eqb]. rewrite andb_true_r. apply N.eqb_sym.
  - pose proof (class_tables name) as T. cbn [item_has1].
    destruct (class_of_name name) as [k|]; [|discriminate]. inversion H; subst.
    destruct (class_pred name) as [p|]; [|destruct T]. cbn [citem_match]. symmetry. apply T.
  - cbn [item_has1]. destruct (endpoint lo) as [l|]; [|discriminate].
    destruct (endpoint hi) as [h|]; [|discriminate].
    destruct (N.leb l h); [|discriminate]. inversion H; subst. reflexivity.
Qed.

(* a non-multi member denotes no sequence, a multi member denotes one *)
Lemma nonmulti_no_seq it : bitem_multi it = false -> item_seq it = None.
Proof.
  destruct it as [[c|v|v|name]|lo hi]; cbn [bitem_multi batom_multi item_seq]; try reflexivity;
    intros H; rewrite H; reflexivity.
Qed.

Lemma nonmulti_ok_iff it :
  bitem_multi it = false -> item_ok it = is_some (citem_of it).
Proof.
  destruct it as [[c|v|v|name]|lo hi]; cbn [bitem_multi batom_multi item_ok citem_of]; intros H.
  - reflexivity.
  - apply Nat.ltb_ge in H. destruct v as [|c [|c2 r]]; try reflexivity. cbn in H. lia.
  - apply Nat.ltb_ge in H. destruct v as [|c [|c2 r]]; try reflexivity. cbn in H. lia.
  - rewrite class_defined_iff. destruct (class_of_name name); reflexivity.
  - destruct (endpoint lo), (endpoint hi); try reflexivity. destruct (N.leb n n0); reflexivity.
Qed.

Lemma multi_ok it : bitem_multi it = true ->
  item_ok it = true /\
  exists v, alt_of it = Some (map SLit v) /\ item_seq it = Some v /\ forall x, item_has1 it x = false.
Proof.
  intros Hm. unfold alt_of. rewrite Hm.
  destruct it as [[c|v|v|name]|lo hi]; cbn [bitem_multi batom_multi] in Hm; try discriminate;
    cbn [item_seq]; rewrite Hm; apply Nat.ltb_lt in Hm;
    (destruct v as [|c [|c2 r]]; [cbn in Hm; lia|cbn in Hm; lia|]);
    (split; [reflexivity|]); eexists; (split; [reflexivity|]); (split; [reflexivity|]);
    intros x; cbn [item_has1 str_eqb list_eqb]; destruct (N.eqb c x); reflexivity.
Qed.

(* ------------------------------------------------------------------ *)
(* Denote on prefixes                                                   *)

Lemma firstn_app_len {A} (u v : list A) : firstn (length u) (u ++ v) = u.
Proof. induction u as [|x u IH]; [destruct v; reflexivity|]. cbn. rewrite IH. reflexivity. Qed.

Lemma skipn_app_len {A} (u v : list A) : skipn (length u) (u ++ v) = v.
Proof. induction u as [|x u IH]; [reflexivity|]. cbn. exact IH. Qed.

Lemma Denote_nil_iff s : Denote [] s <-> s = [].
Proof. split; [intros H; inversion H; reflexivity|intros ->; constructor]. Qed.

Lemma Denote_cons_iff a p s :
  Denote (a :: p) s <->
  exists j, j <= length s /\ atom_lang a (firstn j s) /\ Denote p (skipn j s).
Proof.
  split.
  - intros H. inversion H as [|? ? u v Hu Hv]; subst. exists (length u).
    rewrite firstn_app_len, skipn_app_len, app_length. repeat split; [lia|assumption|assumption].
  - intros (j & Hj & Hu & Hv). rewrite <- (firstn_skipn j s). constructor; assumption.
Qed.

(* p matches exactly the first k characters of s *)
Definition DenoteK (p : ast) (s : str) (k : nat) : Prop := k <= length s /\ Denote p (firstn k s).

Lemma DK_nil s k : DenoteK [] s k <-> k = 0.
Proof.
  unfold DenoteK. rewrite Denote_nil_iff. split.
  - intros [Hk H]. destruct k; [reflexivity|]. destruct s; [cbn in Hk; lia|discriminate].
  - intros ->. split; [lia|reflexivity].
Qed.

Lemma DK_cons a p s k :
  DenoteK (a :: p) s k <->
  exists j, j <= k /\ k <= length s /\ atom_lang a (firstn j s) /\ DenoteK p (skipn j s) (k - j).
Proof.
  unfold DenoteK. rewrite Denote_cons_iff. split.
  - intros (Hk & j & Hj & Hu & Hv). rewrite firstn_length_le in Hj by exact Hk.
    exists j. rewrite firstn_firstn, Nat.min_l in Hu by exact Hj.
    rewrite skipn_firstn_comm in Hv. rewrite skipn_length.
    repeat split; try assumption; lia.
  - intros (j & Hj & Hk & Hu & Hl & Hv). split; [exact Hk|].
    exists j. rewrite firstn_length_le by exact Hk.
    rewrite firstn_firstn, Nat.min_l by exact Hj. rewrite skipn_firstn_comm.
    repeat split; assumption.
Qed.

(* ------------------------------------------------------------------ *)
(* a node means what its element of the pattern means                   *)

Definition atom_sem (a : atom) (n : rnode) : Prop :=
  forall r pos s k,
    RM (n :: r) pos s k <->
    exists j, j <= k /\ j <= length s /\ atom_lang a (firstn j s) /\
              RM r (j + pos) (skipn j s) (k - j).

Lemma RM_denote_gen : forall a ns, Forall2 atom_sem a ns ->
  forall tail pos s k,
    RM (ns ++ tail) pos s k <->
    exists j, j <= k /\ DenoteK a s j /\ RM tail (j + pos) (skipn j s) (k - j).
Proof.
  intros a ns H. induction H as [|at_ n a ns Hat Hrest IH]; intros tail pos s k.
  - cbn [app]. split.
    + intros HR. exists 0. rewrite DK_nil, Nat.sub_0_r. cbn [skipn Nat.add].
      repeat split; [lia|exact HR].
    + intros (j & Hj & Hd & HR). apply DK_nil in Hd. subst j.
      rewrite Nat.sub_0_r in HR. exact HR.
  - cbn [app]. rewrite (Hat (ns ++ tail) pos s k). split.
    + intros (j0 & Hj0 & Hl0 & Hu & HR). apply IH in HR. destruct HR as (j1 & Hj1 & Hd & HR).
      destruct Hd as [Hd1 Hd2]. rewrite skipn_length in Hd1.
      exists (j0 + j1). split; [lia|]. split.
      * apply DK_cons. exists j0. repeat split; try lia; try assumption.
        -- rewrite skipn_length. lia.
        -- replace (j0 + j1 - j0) with j1 by lia. exact Hd2.
      * rewrite skipn_skipn in HR. replace (j0 + j1 + pos) with (j1 + (j0 + pos)) by lia.
        replace (j0 + j1) with (j1 + j0) by lia. replace (k - (j1 + j0)) with (k - j0 - j1) by lia.
        exact HR.
    + intros (j & Hj & Hd & HR). apply DK_cons in Hd. destruct Hd as (j0 & Hj0 & Hl & Hu & Hd).
      exists j0. repeat split; try lia; try assumption.
      apply IH. exists (j - j0). split; [lia|]. split; [exact Hd|].
      rewrite skipn_skipn. replace (j - j0 + j0) with j by lia.
      replace (j - j0 + (j0 + pos)) with (j + pos) by lia.
      replace (k - j0 - (j - j0)) with (k - j) by lia. exact HR.
Qed.

(* --- one-character elements --- *)

Lemma atom_sem_single a sn (h : N -> bool) :
  (forall u, atom_lang a u <-> exists x, u = [x] /\ h x = true) ->
  (forall x, smatch sn x = h x) ->
  atom_sem a (RS sn).
Proof.
  intros Hlang Hm r pos s k. split.
  - intros HR. inversion HR as [|? ? ? x s' k' Hx HR'| | | | |]; subst.
    exists 1. cbn [firstn skipn length Nat.add Nat.sub]. rewrite Nat.sub_0_r.
    repeat split; try lia; [|exact HR'].
    apply Hlang. exists x. split; [reflexivity|]. rewrite <- Hm. exact Hx.
  - intros (j & Hj & Hl & Hu & HR). apply Hlang in Hu. destruct Hu as (x & Hu & Hx).
    assert (j = 1).
    { pose proof (firstn_length_le s Hl) as E. rewrite Hu in E. cbn in E. lia. }
    subst j. destruct s as [|y s']; [discriminate|]. cbn [firstn] in Hu. inversion Hu; subst y.
    cbn [skipn] in HR. destruct k as [|k']; [lia|]. cbn [Nat.sub Nat.add] in HR.
    rewrite Nat.sub_0_r in HR. constructor; [rewrite Hm; exact Hx|exact HR].
Qed.

Lemma atom_sem_star : atom_sem AAnyString (RStar SAny).
Proof.
  intros r pos s k. split.
  - intros HR. destruct (RM_star_inv _ _ _ _ HR r eq_refl) as (j & Hj1 & Hj2 & Hj3).
    exists j. repeat split; try assumption.
  - intros (j & Hj & Hl & _ & HR).
    replace k with (j + (k - j)) by lia. apply RM_star_compose; assumption.
Qed.

(* the set a bracket expression without sequences denotes *)
Lemma bracket_lang_single b :
  (forall it, In it (b_items b) -> item_seq it = None) \/ b_complement b = true ->
  forall u, bracket_lang b u <-> exists x, u = [x] /\ bracket_has1 b x = true.
Proof.
  intros Hns u. unfold bracket_lang, bracket_has1. destruct (b_complement b) eqn:Ec.
  - split; intros (c & -> & H); exists c; (split; [reflexivity|]).
    + rewrite H. reflexivity.
    + destruct (set_has1 (b_items b) c); [discriminate|reflexivity].
  - destruct Hns as [Hns|Hns]; [|discriminate]. split.
    + intros [(c & -> & H)|(it & Hin & Hs)].
      * exists c. split; [reflexivity|]. rewrite H. reflexivity.
      * rewrite (Hns it Hin) in Hs. discriminate.
    + intros (c & -> & H). left. exists c. split; [reflexivity|].
      destruct (set_has1 (b_items b) c); [reflexivity|discriminate].
Qed.

Lemma class_matches items cs :
  all_some (map citem_of items) = Some cs ->
  forall x, existsb (citem_match x) cs = set_has1 items x.
Proof.
  revert cs. induction items as [|it items IH]; intros cs H x.
  - inversion H; subst. reflexivity.
  - cbn [map all_some] in H. destruct (citem_of it) as [ci|] eqn:Ei; [|discriminate].
    destruct (all_some (map citem_of items)) as [cs'|]; [|discriminate].
    inversion H; subst. unfold set_has1. cbn [existsb].
    rewrite (citem_item it ci Ei x). f_equal. apply IH. reflexivity.
Qed.

(* --- a bracket expression with multi-character members: the alternation --- *)

Lemma all_some_map_in {A B} (f : A -> option B) : forall l ys x,
  all_some (map f l) = Some ys -> In x l -> exists y, f x = Some y /\ In y ys.
Proof.
  induction l as [|a l IH]; intros ys x H Hin; [destruct Hin|].
  cbn [map all_some] in H. destruct (f a) as [y0|] eqn:Ea; [|discriminate].
  destruct (all_some (map f l)) as [ys'|] eqn:El; [|discriminate]. inversion H; subst.
  destruct Hin as [->|Hin].
  - exists y0. split; [exact Ea|left; reflexivity].
  - destruct (IH ys' x eq_refl Hin) as (y & Hy & Hiny). exists y. split; [exact Hy|right; exact Hiny].
Qed.

Lemma all_some_in_map {A B} (f : A -> option B) : forall l ys y,
  all_some (map f l) = Some ys -> In y ys -> exists x, In x l /\ f x = Some y.
Proof.
  induction l as [|a l IH]; intros ys y H Hin.
  - inversion H; subst. destruct Hin.
  - cbn [map all_some] in H. destruct (f a) as [y0|] eqn:Ea; [|discriminate].
    destruct (all_some (map f l)) as [ys'|] eqn:El; [|discriminate]. inversion H; subst.
    destruct Hin as [->|Hin].
    + exists a. split; [left; reflexivity|exact Ea].
    + destruct (IH ys' y eq_refl Hin) as (x & Hx & Hfx). exists x. split; [right; exact Hx|exact Hfx].
Qed.

Lemma seq_match_lits : forall v s j s',
  seq_match (map SLit v) s = Some (j, s') <-> j = length v /\ firstn (length v) s = v /\ s' = skipn (length v) s /\ length v <= length s.
Proof.
  induction v as [|c v IH]; intros s j s'; cbn [map seq_match length firstn skipn].
  - split.
    + intros H. inversion H; subst. repeat split; lia.
    + intros (-> & _ & -> & _). reflexivity.
  - destruct s as [|x s0].
    + split; [discriminate|]. intros (_ & H & _). discriminate.
    + cbn [smatch length]. destruct (N.eqb x c) eqn:E.
      * apply N.eqb_eq in E. subst x.
        destruct (seq_match (map SLit v) s0) as [[j0 s0']|] eqn:Es; cbn [omap].
        -- apply IH in Es as (-> & Hf & -> & Hl). split.
           ++ intros H. inversion H; subst. cbn [fst snd]. rewrite Hf. repeat split; lia.
           ++ intros (-> & _ & -> & _). reflexivity.
        -- split; [discriminate|]. intros (-> & Hf & -> & Hl). inversion Hf as [Hf'].
           assert (seq_match (map SLit v) s0 = Some (length v, skipn (length v) s0)).
           { apply IH. repeat split; try assumption; lia. }
           congruence.
      * split; [discriminate|]. intros (_ & Hf & _). inversion Hf. subst. rewrite N.eqb_refl in E. discriminate.
Qed.

Lemma atom_sem_alt b alts :
  b_complement b = false ->
  all_some (map alt_of (b_items b)) = Some alts ->
  atom_sem (ABracket b) (RAlt alts).
Proof.
  intros Hc Halts r pos s k. cbn [atom_lang]. unfold bracket_lang. rewrite Hc. split.
  - intros HR. inversion HR as [| | | |? ? ? ? alt j s' k0 Hin Hs HR'| |]; subst.
    destruct (seq_match_length _ _ _ _ Hs) as [-> Hjl].
    exists j. replace (j + k0 - j) with k0 by lia. repeat split; try lia; try assumption.
    destruct (all_some_in_map _ _ _ _ Halts Hin) as (it & Hit & Halt).
    destruct (bitem_multi it) eqn:Hm.
    + destruct (multi_ok it Hm) as (_ & v & Hv & Hseq & _). rewrite Hv in Halt. inversion Halt; subst alt.
      apply seq_match_lits in Hs as (-> & Hf & _ & _).
      right. exists it. rewrite Hf. auto.
    + unfold alt_of in Halt. rewrite Hm in Halt.
      destruct (citem_of it) as [ci|] eqn:Eci; [|discriminate]. inversion Halt; subst alt.
      destruct s as [|x s0]; [discriminate|]. cbn [seq_match] in Hs.
      destruct (smatch (SClass false [ci]) x) eqn:Ex; [|discriminate]. inversion Hs; subst.
      left. exists x. split; [reflexivity|].
      assert (Ex' : citem_match x ci = true).
      { cbn [smatch existsb] in Ex. rewrite orb_false_r in Ex. destruct (citem_match x ci); [reflexivity|discriminate]. }
      unfold set_has1. apply existsb_exists. exists it. split; [exact Hit|].
      rewrite <- (citem_item it ci Eci x). exact Ex'.
  - intros (j & Hj & Hl & Hu & HR).
    assert (G : exists alt, In alt alts /\ seq_match alt s = Some (j, skipn j s)).
    { destruct Hu as [(c & Hu & Hset)|(it & Hit & Hseq)].
      - unfold set_has1 in Hset. apply existsb_exists in Hset as (it & Hit & Hh).
        assert (Hj1 : j = 1).
        { pose proof (firstn_length_le s Hl) as E. rewrite Hu in E. cbn in E. lia. }
        subst j. destruct s as [|x s0]; [discriminate|]. cbn [firstn] in Hu. inversion Hu; subst x.
        destruct (all_some_map_in _ _ _ it Halts Hit) as (alt & Halt & Hin).
        exists alt. split; [exact Hin|].
        destruct (bitem_multi it) eqn:Hm.
        + destruct (multi_ok it Hm) as (_ & v & Hv & _ & Hno). rewrite Hno in Hh. discriminate.
        + unfold alt_of in Halt. rewrite Hm in Halt.
          destruct (citem_of it) as [ci|] eqn:Eci; [|discriminate]. inversion Halt; subst alt.
          cbn [seq_match smatch existsb]. rewrite orb_false_r.
          rewrite (citem_item it ci Eci c), Hh. reflexivity.
      - destruct (all_some_map_in _ _ _ it Halts Hit) as (alt & Halt & Hin).
        exists alt. split; [exact Hin|].
        destruct (bitem_multi it) eqn:Hm; [|rewrite (nonmulti_no_seq it Hm) in Hseq; discriminate].
        destruct (multi_ok it Hm) as (_ & v & Hv & Hseq' & _). rewrite Hv in Halt. inversion Halt; subst alt.
        rewrite Hseq' in Hseq. inversion Hseq; subst v.
        assert (Hjl : j = length (firstn j s)) by (rewrite firstn_length_le; auto).
        apply seq_match_lits. rewrite <- Hjl.
        repeat split; try reflexivity; try assumption; try lia. }
    destruct G as (alt & Hin & Hs). replace k with (j + (k - j)) by lia.
    eapply RM_alt; eassumption.
Qed.

(* every element of a single-width pattern *)
Lemma atom_sem_of a n :
  single_width_atom a = true -> node_of_atom a = Some n -> atom_sem a n.
Proof.
  intros Hsw Hn. destruct a as [c| | |b]; cbn [node_of_atom] in Hn.
  - inversion Hn; subst. apply (atom_sem_single _ _ (fun x => N.eqb x c)).
    + intros u. cbn [atom_lang]. split.
      * intros ->. exists c. split; [reflexivity|apply N.eqb_refl].
      * intros (x & -> & Hx). apply N.eqb_eq in Hx. subst. reflexivity.
    + reflexivity.
  - inversion Hn; subst. apply (atom_sem_single _ _ (fun _ => true)).
    + intros u. cbn [atom_lang]. split; intros (x & Hx); exists x; [split; [exact Hx|reflexivity]|apply Hx].
    + reflexivity.
  - inversion Hn; subst. apply atom_sem_star.
  - cbn [single_width_atom] in Hsw. apply negb_true_iff in Hsw.
    unfold node_of_bracket in Hn. rewrite Hsw in Hn. cbn [negb] in Hn.
    destruct (is_nil (b_items b)); [discriminate|].
    destruct (all_some (map citem_of (b_items b))) as [cs|] eqn:Ecs; [|discriminate].
    inversion Hn; subst.
    apply (atom_sem_single _ _ (bracket_has1 b)).
    + apply bracket_lang_single. left. intros it Hin. apply nonmulti_no_seq.
      destruct (bitem_multi it) eqn:E; [|reflexivity].
      assert (existsb bitem_multi (b_items b) = true) by (apply existsb_exists; exists it; auto).
      congruence.
    + intros x. cbn [smatch]. unfold bracket_has1. rewrite (class_matches _ _ Ecs). reflexivity.
Qed.

(* ------------------------------------------------------------------ *)
(* whole patterns                                                       *)

Lemma all_some_cons {A B} (f : A -> option B) x l ys :
  all_some (map f (x :: l)) = Some ys ->
  exists y ys', f x = Some y /\ all_some (map f l) = Some ys' /\ ys = y :: ys'.
Proof.
  cbn [map all_some]. destruct (f x) as [y|]; [|discriminate].
  destruct (all_some (map f l)) as [ys'|]; [|discriminate].
  intros H. inversion H; subst. eauto.
Qed.

Lemma all_some_is_some {A B} (f : A -> option B) l :
  is_some (all_some (map f l)) = forallb (fun x => is_some (f x)) l.
Proof.
  induction l as [|x l IH]; [reflexivity|]. cbn [map all_some forallb].
  destruct (f x); [|reflexivity]. cbn [is_some andb]. rewrite <- IH.
  destruct (all_some (map f l)); reflexivity.
Qed.

Lemma nodes_sem : forall a ns,
  single_width a = true -> all_some (map node_of_atom a) = Some ns -> Forall2 atom_sem a ns.
Proof.
  induction a as [|at_ a IH]; intros ns Hsw H.
  - inversion H; subst. constructor.
  - destruct (all_some_cons _ _ _ _ H) as (n & ns' & Hn & Hns & ->).
    unfold single_width in Hsw. cbn [forallb] in Hsw. apply andb_true_iff in Hsw as [H1 H2].
    constructor; [apply atom_sem_of; assumption|apply IH; assumption].
Qed.

Lemma nodes_glob : forall a ns,
  single_width a = true -> all_some (map node_of_atom a) = Some ns -> glob_rx ns = true.
Proof.
  induction a as [|at_ a IH]; intros ns Hsw H.
  - inversion H; subst. reflexivity.
  - destruct (all_some_cons _ _ _ _ H) as (n & ns' & Hn & Hns & ->).
    unfold single_width in Hsw. cbn [forallb] in Hsw. apply andb_true_iff in Hsw as [H1 H2].
    unfold glob_rx. cbn [forallb]. apply andb_true_iff. split; [|apply (IH ns' H2 Hns)].
    destruct at_ as [c| | |b]; cbn [node_of_atom] in Hn; try (inversion Hn; subst; reflexivity).
    cbn [single_width_atom] in H1. apply negb_true_iff in H1.
    unfold node_of_bracket in Hn. rewrite H1 in Hn. cbn [negb] in Hn.
    destruct (is_nil (b_items b)); [discriminate|].
    destruct (all_some (map citem_of (b_items b))); [|discriminate]. inversion Hn; subst. reflexivity.
Qed.

Lemma forallb_ext_in {A} (f g : A -> bool) l :
  (forall x, In x l -> f x = g x) -> forallb f l = forallb g l.
Proof.
  induction l as [|x l IH]; intros H; [reflexivity|]. cbn [forallb].
  rewrite (H x (or_introl eq_refl)), IH; [reflexivity|]. intros y Hy. apply H. right. exact Hy.
Qed.

(* a single-width pattern is valid iff its translation exists *)
Lemma atom_ok_node a : single_width_atom a = true -> atom_ok a = is_some (node_of_atom a).
Proof.
  destruct a as [c| | |b]; try reflexivity. cbn [single_width_atom atom_ok node_of_atom].
  intros Hsw. apply negb_true_iff in Hsw. unfold node_of_bracket. rewrite Hsw. cbn [negb].
  destruct (is_nil (b_items b)); [reflexivity|]. cbn [negb andb].
  transitivity (is_some (all_some (map citem_of (b_items b)))).
  - rewrite all_some_is_some. apply forallb_ext_in.
    intros it Hin. apply nonmulti_ok_iff.
    destruct (bitem_multi it) eqn:E; [|reflexivity].
    assert (existsb bitem_multi (b_items b) = true) by (apply existsb_exists; exists it; auto).
    congruence.
  - destruct (all_some (map citem_of (b_items b))); reflexivity.
Qed.

Lemma valid_nodes a :
  single_width a = true -> valid_ast a = is_some (all_some (map node_of_atom a)).
Proof.
  intros Hsw. rewrite all_some_is_some. unfold valid_ast. apply forallb_ext_in.
  intros at_ Hin. apply atom_ok_node. unfold single_width in Hsw.
  rewrite forallb_forall in Hsw. apply Hsw. exact Hin.
Qed.

(* ------------------------------------------------------------------ *)
(* the same for every pattern (multi-character collating elements allowed:
   in a complemented bracket expression they are dropped by the translation
   and cannot match one character anyway; if nothing else is left the
   translation is "any character")                                       *)

Lemma set_has1_filter items x :
  set_has1 (filter (fun it => negb (bitem_multi it)) items) x = set_has1 items x.
Proof.
  unfold set_has1. induction items as [|it items IH]; [reflexivity|]. cbn [filter existsb].
  destruct (bitem_multi it) eqn:Hm; cbn [negb].
  - destruct (multi_ok it Hm) as (_ & v & _ & _ & Hno). rewrite Hno. exact IH.
  - cbn [existsb]. rewrite IH. reflexivity.
Qed.

(* a complemented bracket expression some of whose members are multi-character *)
Lemma atom_sem_compl_multi b cs :
  b_complement b = true ->
  all_some (map citem_of (filter (fun it => negb (bitem_multi it)) (b_items b))) = Some cs ->
  atom_sem (ABracket b) (RS (SClass true cs)).
Proof.
  intros Hc Hcs. apply (atom_sem_single _ _ (bracket_has1 b)).
  - apply bracket_lang_single. right. exact Hc.
  - intros x. cbn [smatch]. unfold bracket_has1. rewrite Hc.
    rewrite (class_matches _ _ Hcs), set_has1_filter. reflexivity.
Qed.

Lemma set_has1_all_multi items x : forallb bitem_multi items = true -> set_has1 items x = false.
Proof.
  unfold set_has1. induction items as [|it items IH]; [reflexivity|]. cbn [forallb existsb].
  intros H. apply andb_true_iff in H as [Hm H].
  destruct (multi_ok it Hm) as (_ & v & _ & _ & Hno). rewrite Hno, IH by exact H. reflexivity.
Qed.

(* a complemented bracket expression all of whose members are multi-character *)
Lemma atom_sem_compl_all_multi b :
  b_complement b = true -> forallb bitem_multi (b_items b) = true ->
  atom_sem (ABracket b) (RS SAny).
Proof.
  intros Hc Ha. apply (atom_sem_single _ _ (bracket_has1 b)).
  - apply bracket_lang_single. right. exact Hc.
  - intros x. cbn [smatch]. unfold bracket_has1. rewrite Hc, (set_has1_all_multi _ x Ha). reflexivity.
Qed.

Lemma atom_sem_of_any a n : node_of_atom a = Some n -> atom_sem a n.
Proof.
  intros Hn.
  destruct (single_width_atom a) eqn:Hsw; [apply atom_sem_of; assumption|].
  destruct a as [c| | |b]; try discriminate.
  cbn [single_width_atom] in *. apply negb_false_iff in Hsw.
  cbn [node_of_atom] in Hn. unfold node_of_bracket in Hn. rewrite Hsw in Hn. cbn [negb] in Hn.
  destruct (is_nil (b_items b)); [discriminate|].
  destruct (b_complement b) eqn:Hc; cbn [negb] in Hn.
  - destruct (forallb bitem_multi (b_items b)) eqn:Ha.
    + inversion Hn; subst. apply atom_sem_compl_all_multi; assumption.
    + destruct (all_some (map citem_of _)) as [cs|] eqn:Ea; [|discriminate].
      inversion Hn; subst. apply atom_sem_compl_multi; assumption.
  - destruct (all_some (map alt_of (b_items b))) as [alts|] eqn:Ea; [|discriminate].
    inversion Hn; subst. apply atom_sem_alt; assumption.
Qed.

Lemma nodes_sem_any : forall a ns,
  all_some (map node_of_atom a) = Some ns -> Forall2 atom_sem a ns.
Proof.
  induction a as [|at_ a IH]; intros ns H.
  - inversion H; subst. constructor.
  - destruct (all_some_cons _ _ _ _ H) as (n & ns' & Hn & Hns & ->).
    constructor; [apply atom_sem_of_any; assumption|apply IH; assumption].
Qed.

Lemma alt_ok_iff it : item_ok it = is_some (alt_of it).
Proof.
  destruct (bitem_multi it) eqn:Hm.
  - destruct (multi_ok it Hm) as (Hok & v & Hv & _). rewrite Hok, Hv. reflexivity.
  - rewrite (nonmulti_ok_iff it Hm). unfold alt_of. rewrite Hm. destruct (citem_of it); reflexivity.
Qed.

Lemma forallb_ok_filter items :
  forallb item_ok items =
  forallb (fun it => is_some (citem_of it)) (filter (fun it => negb (bitem_multi it)) items).
Proof.
  induction items as [|it items IH]; [reflexivity|]. cbn [forallb filter].
  destruct (bitem_multi it) eqn:Hm; cbn [negb].
  - destruct (multi_ok it Hm) as (Hok & _). rewrite Hok. exact IH.
  - cbn [forallb]. rewrite (nonmulti_ok_iff it Hm), IH. reflexivity.
Qed.

Lemma forallb_ok_all_multi items : forallb bitem_multi items = true -> forallb item_ok items = true.
Proof.
  induction items as [|it items IH]; [reflexivity|]. cbn [forallb]. intros H.
  apply andb_true_iff in H as [Hm H]. destruct (multi_ok it Hm) as (Hok & _).
  rewrite Hok, IH by exact H. reflexivity.
Qed.

Lemma atom_ok_node_any a : atom_ok a = is_some (node_of_atom a).
Proof.
  destruct (single_width_atom a) eqn:Hsw; [apply atom_ok_node; exact Hsw|].
  destruct a as [c| | |b]; try discriminate.
  cbn [single_width_atom] in *. apply negb_false_iff in Hsw.
  cbn [atom_ok node_of_atom]. unfold node_of_bracket. rewrite Hsw. cbn [negb].
  destruct (is_nil (b_items b)); [reflexivity|]. cbn [negb andb].
  destruct (b_complement b) eqn:Hc; cbn [negb].
  - destruct (forallb bitem_multi (b_items b)) eqn:Ha.
    + rewrite (forallb_ok_all_multi _ Ha). reflexivity.
    + rewrite forallb_ok_filter, <- all_some_is_some.
      destruct (all_some (map citem_of _)); reflexivity.
  - transitivity (is_some (all_some (map alt_of (b_items b)))).
    + rewrite all_some_is_some. apply forallb_ext_in. intros it _. apply alt_ok_iff.
    + destruct (all_some (map alt_of (b_items b))); reflexivity.
Qed.

Lemma valid_nodes_any a : valid_ast a = is_some (all_some (map node_of_atom a)).
Proof.
  rewrite all_some_is_some. unfold valid_ast. apply forallb_ext_in.
  intros at_ Hin. apply atom_ok_node_any.
Qed.
