(* C04 — what the correspondence check evaluates on every case. *)
From Yv Require Export Common.Base C04.Model C04.Spec.
From Coq Require Import List NArith Bool Arith.
Import ListNotations.

(* the texts a pattern is run on: all strings over [alpha] up to a length
   (enumerated here, in the same order as in the harness), or a list *)
Inductive tset := TEnum (alpha : list N) (maxlen : nat) | TList (l : list str).

Fixpoint strings_of_len (alpha : list N) (n : nat) : list str :=
  match n with
  | O => [[]]
  | S k => flat_map (fun c => map (cons c) (strings_of_len alpha k)) alpha
  end.

Definition texts_of (t : tset) : list str :=
  match t with
  | TEnum alpha maxlen => flat_map (strings_of_len alpha) (seq 0 (S maxlen))
  | TList l => l
  end.

(* One configuration of one pattern: Pattern::parse_with_config's outcome
   (0 = Ok, else the error kind, 9 = panic) and the results on every text,
   sparsely, by text index in increasing order: r_find lists (i, a, b) where
   find(text i) = Some(a..b) (None elsewhere); r_rfind lists the texts where
   rfind differs from find, with its value; r_match lists the texts where
   is_match differs from find(..).is_some(). *)
Record prun := mkRun {
  r_cfg : config;
  r_err : N;
  r_find : list (N * N * N);
  r_rfind : list (N * option (N * N));
  r_match : list N
}.

Inductive case :=
| CPat (src : str) (esc : bool)           (* the pattern string; with_escape or without_escape *)
       (pat : list pchar)                 (* the pattern characters that iterator yielded *)
       (impl_ast : ast)                   (* Ast::new *)
       (impl_rx : eres str)               (* Ast::to_regex, default config *)
       (texts : tset)
       (runs : list prun)
| CRx (src : str)                         (* a raw regex string, given to the regex crate itself *)
      (lazy : bool)                       (* RegexBuilder::swap_greed; dot_matches_new_line(true) always *)
      (compiled : bool)                   (* RegexBuilder::build() = Ok *)
      (texts : tset)
      (found0 : list (N * N * N))         (* (i, a, b): find_at(text i, 0) = Some(a..b); None elsewhere *)
      (found1 : list (N * N * N))         (* find_at(text i, after its first character), for non-empty texts *)
| CCase (subject : str)                   (* case SUBJECT in ITEMS esac, in the shell *)
        (items : list (list (list achar) * continuation))
        (executed : list nat)             (* indices of the bodies that ran *)
| CTrim (value : str)                     (* ${v#p} ${v##p} ${v%p} ${v%%p}, in the shell *)
        (pattern : list achar)
        (outs : list str).

Definition err_code (e : perr) : N :=
  match e with
  | EEmptyBracket => 1 | EEmptyColl => 2 | EUndefClass => 3 | EClassInRange => 4 | ERegex => 5
  end%N.

Definition to_range (o : option (N * N)) : option (nat * nat) :=
  match o with Some (a, b) => Some (N.to_nat a, N.to_nat b) | None => None end.

Definition range_eqb (x y : option (nat * nat)) : bool :=
  option_eqb (pair_eqb Nat.eqb Nat.eqb) x y.

Definition fres_to_opt (f : fres) : option (option (nat * nat)) :=
  match f with FSome a b => Some (Some (a, b)) | FNone => Some None | FFuel => None end.

Definition batom_eqb (a b : batom) : bool :=
  match a, b with
  | BChar x, BChar y => N.eqb x y
  | BColl x, BColl y => str_eqb x y
  | BEquiv x, BEquiv y => str_eqb x y
  | BClass x, BClass y => str_eqb x y
  | _, _ => false
  end.

Definition bitem_eqb (a b : bitem) : bool :=
  match a, b with
  | IAtom x, IAtom y => batom_eqb x y
  | IRange x1 x2, IRange y1 y2 => batom_eqb x1 y1 && batom_eqb x2 y2
  | _, _ => false
  end.

Definition atom_eqb (a b : atom) : bool :=
  match a, b with
  | AChar x, AChar y => N.eqb x y
  | AAnyChar, AAnyChar => true
  | AAnyString, AAnyString => true
  | ABracket x, ABracket y =>
      Bool.eqb (b_complement x) (b_complement y) && list_eqb bitem_eqb (b_items x) (b_items y)
  | _, _ => false
  end.

Definition ast_eqb : ast -> ast -> bool := list_eqb atom_eqb.

Definition perr_eqb (a b : perr) : bool := N.eqb (err_code a) (err_code b).

Definition eres_str_eqb (a b : eres str) : bool :=
  match a, b with
  | EOk x, EOk y => str_eqb x y
  | EErr x, EErr y => perr_eqb x y
  | _, _ => false
  end.

(* verdicts are combined by: a real oracle rejection (>= 2, < 99) wins, then
   99, then 1 *)
Definition worse (v w : verdict) : verdict :=
  let rank (x : N) : N :=
    (if N.eqb x 0 then 0 else if N.eqb x 1 then 1 else if N.eqb x 99 then 2 else 3)%N in
  if N.ltb (rank v) (rank w) then w else v.

Definition default_config : config := mkConfig false false false false.

(* one text under one configuration: oracle on the implementation's three
   answers, then the model's answers against them *)
Definition judge_text (cfg : config) (sp : ast) (mb : option body) (text : str)
    (gm : bool) (gf gr : option (nat * nat)) : verdict :=
  let o :=
    (if judged cfg sp text then
      let tbl := table_of cfg sp text in
      if negb (oracle_is_match tbl gm) then 2
      else if negb (oracle_find cfg tbl gf) then 3
      else if negb (oracle_rfind cfg tbl gr) then 4
      else 0
    else 0)%N in
  if negb (N.eqb o 0) then o
  else
    match mb with
    | None => 0%N                    (* the implementation returned Err: nothing to compare *)
    | Some b =>
        match fres_to_opt (pat_rfind cfg b text) with
        | None => 99%N
        | Some mr =>
            if Bool.eqb (pat_is_match cfg b text) gm && range_eqb (pat_find cfg b text) gf
               && range_eqb mr gr
            then 0%N else 1%N
        end
    end.

Fixpoint judge_texts (cfg : config) (sp : ast) (mb : option body) (idx : N)
    (texts : list str) (f : list (N * N * N)) (r : list (N * option (N * N))) (m : list N)
    (acc : verdict) : verdict :=
  match texts with
  | [] => if is_nil f && is_nil r && is_nil m then acc else worse acc 99%N
  | t :: ts =>
      let '(gf, f') :=
        match f with
        | (i, a, b) :: f' => if N.eqb i idx then (Some (a, b), f') else (None, f)
        | [] => (None, f)
        end in
      let '(gr, r') :=
        match r with
        | (i, o) :: r' => if N.eqb i idx then (o, r') else (gf, r)
        | [] => (gf, r)
        end in
      let '(gm, m') :=
        match m with
        | i :: m' => if N.eqb i idx then (negb (is_some gf), m') else (is_some gf, m)
        | [] => (is_some gf, m)
        end in
      let v := judge_text cfg sp mb t gm (to_range gf) (to_range gr) in
      judge_texts cfg sp mb (N.succ idx) ts f' r' m' (worse acc v)
  end.

Definition judge_run (pat : list pchar) (sp : ast) (texts : list str) (r : prun) : verdict :=
  let cfg := r_cfg r in
  let go mb := judge_texts cfg sp mb 0%N texts (r_find r) (r_rfind r) (r_match r) 0%N in
  if N.eqb (r_err r) 9%N then 10%N        (* the implementation panicked *)
  else
  match compile cfg pat with
  | CFuel | CUnsup => worse 99%N (go None)       (* outside the model: the oracle alone *)
  | CErr e => worse (go None) (if N.eqb (r_err r) (err_code e) then 0%N else 1%N)
  | COk b => if N.eqb (r_err r) 0%N then go (Some b) else worse 1%N (go None)
  end.

Definition run_pat (src : str) (esc : bool) (pat : list pchar) (impl_ast : ast)
    (impl_rx : eres str) (ts : tset) (runs : list prun) : verdict :=
  match spec_parse pat with
  | None => 99%N
  | Some sp =>
      let texts := texts_of ts in
      let v := fold_left (fun acc r => worse acc (judge_run pat sp texts r)) runs 0%N in
      let front :=
        match parse_pattern pat with
        | None => 99%N
        | Some a =>
            if list_eqb pchar_eqb (if esc then with_escape src else without_escape src) pat
               && ast_eqb a impl_ast && eres_str_eqb (ast_fmt default_config a) impl_rx
            then 0%N else 1%N
        end in
      worse v front
  end.

Definition pats_of (l : list (list achar)) : list (list pchar) :=
  map (fun p => to_pattern_chars (apply_escapes p)) l.

Definition nat_list_eqb : list nat -> list nat -> bool := list_eqb Nat.eqb.

(* `case`: code 5: the first body that runs does not belong to the first item
   with a matching pattern (or one runs though none matches); code 11: the
   later bodies are not the ones ;; ;& ;;& prescribe *)
Definition run_case_cmd (subject : str) (items : list (list (list achar) * continuation))
    (executed : list nat) : verdict :=
  let pitems := map (fun it => (pats_of (fst it), snd it)) items in
  match all_some (map (fun it => omap (fun l => (l, snd it)) (all_some (map spec_parse (fst it)))) pitems) with
  | None => 99%N
  | Some sitems =>
      if negb (option_eqb Nat.eqb (hd_error executed) (first_matching subject (map fst sitems) 0)) then 5%N
      else if negb (nat_list_eqb executed (spec_case_run subject sitems 0 false)) then 11%N
      else
        match case_model subject pitems with
        | None => 99%N
        | Some l => if nat_list_eqb l executed then 0%N else 1%N
        end
  end.

Definition trim_forms : list (trim_side * trim_length) :=
  [(Prefix, Shortest); (Prefix, Longest); (Suffix, Shortest); (Suffix, Longest)].

(* clause 4 (code 6 + k): the k-th trim form removed something else than the
   shortest / longest matching prefix / suffix *)
Fixpoint run_trims (value : str) (p : list pchar) (sp : ast)
    (forms : list (trim_side * trim_length)) (outs : list str) (k : N) (acc : verdict) : verdict :=
  match forms, outs with
  | (side, len) :: fs, out :: os =>
      let v :=
        if negb (str_eqb out (spec_trim side len sp value)) then (6 + k)%N
        else
          match trim_model side len p value with
          | None => 99%N
          | Some m => if str_eqb m out then 0%N else 1%N
          end in
      run_trims value p sp fs os (k + 1)%N (worse acc v)
  | [], [] => acc
  | _, _ => 99%N
  end.

Definition run_trim_cmd (value : str) (pattern : list achar) (outs : list str) : verdict :=
  let p := to_pattern_chars (apply_escapes pattern) in
  match spec_parse p with
  | None => 99%N
  | Some sp => run_trims value p sp trim_forms outs 0%N 0%N
  end.

(* the regex crate against its model: no oracle, a difference is a broken
   assumption about the external component (verdict 1) *)
Fixpoint rx_texts (lazy : bool) (r : rx) (idx : N) (texts : list str)
    (f0 f1 : list (N * N * N)) (acc : verdict) : verdict :=
  match texts with
  | [] => if is_nil f0 && is_nil f1 then acc else worse acc 99%N
  | t :: ts =>
      let take (f : list (N * N * N)) :=
        match f with
        | (i, a, b) :: f' => if N.eqb i idx then (Some (a, b), f') else (None, f)
        | [] => (None, f)
        end in
      let '(g0, f0') := take f0 in
      let '(g1, f1') := take f1 in
      let ok0 := range_eqb (rx_find_at lazy r t 0) (to_range g0) in
      let ok1 := match t with
                 | [] => is_nil (match g1 with Some _ => [tt] | None => [] end)
                 | _ :: _ => range_eqb (rx_find_at lazy r t 1) (to_range g1)
                 end in
      rx_texts lazy r (N.succ idx) ts f0' f1' (if ok0 && ok1 then acc else worse acc 1%N)
  end.

Definition run_rx (src : str) (lazy compiled : bool) (ts : tset) (f0 f1 : list (N * N * N)) : verdict :=
  match parse_rx src with
  | RxUnsup => 99%N
  | RxErr => if compiled then 1%N else 0%N
  | RxOk r => if compiled then rx_texts lazy r 0%N (texts_of ts) f0 f1 0%N else 1%N
  end.

Definition run_case (c : case) : verdict :=
  match c with
  | CPat src esc pat impl_ast impl_rx ts runs => run_pat src esc pat impl_ast impl_rx ts runs
  | CRx src lazy compiled ts f0 f1 => run_rx src lazy compiled ts f0 f1
  | CCase subject items executed => run_case_cmd subject items executed
  | CTrim value pattern outs => run_trim_cmd value pattern outs
  end.

Definition run_cases := run_cases_with run_case.
