(* C13 — proofs about Fds.v *)
From Yv Require Import Common.Base C13.Fds.
From Coq Require Import Lia.

(* ------------------------------------------------------------------------ *)
(* 1. fork at any point of the parent's life *)

(* invariant of every process on a line of descent under the real clone_for_fork *)
Definition sig_inv (s : sigst) : Prop :=
  sg_catch s = true -> sg_blocked s = true /\ sg_selmask s = Some false.

Lemma sig_inv0 : sig_inv sig0.
Proof. unfold sig_inv, sig0; cbn; discriminate. Qed.

Lemma sig_inv_step : forall s e, sig_inv s -> sig_inv (sig_step cf_real s e).
Proof.
  intros [b c m] [] H; unfold sig_inv, sig_step, sig_ensure, sig_fork, cf_real, sig_block in *; cbn in *.
  - destruct c; cbn; auto.
  - exact H.
Qed.

Lemma sig_inv_fold : forall es s, sig_inv s -> sig_inv (fold_left (sig_step cf_real) es s).
Proof. induction es as [|e es IH]; intros s H; cbn; auto using sig_inv_step. Qed.

Lemma sig_inv_run : forall es, sig_inv (sig_run cf_real es).
Proof. intros; apply sig_inv_fold, sig_inv0. Qed.

Lemma ensure_catches : forall s, sg_catch (sig_ensure s) = true.
Proof. intros [b [] m]; reflexivity. Qed.

(* whatever the history of forks and earlier waits, a process that prepares
   to wait (wait_for_subshell: ensure, then select) is woken by SIGCHLD *)
Lemma wait_wakes_lemma : forall es, sig_wakes (sig_ensure (sig_run cf_real es)) = true.
Proof.
  intros es.
  assert (H : sig_inv (sig_ensure (sig_run cf_real es))).
  { change (sig_inv (sig_step cf_real (sig_run cf_real es) EEnsure)); apply sig_inv_step, sig_inv_run. }
  pose proof (ensure_catches (sig_run cf_real es)) as C.
  destruct (H C) as [_ M]. unfold sig_wakes. rewrite C, M. reflexivity.
Qed.

(* and the statement depends on clone_for_fork: a child whose copy of the
   state has lost the select mask is never woken after an earlier wait *)
Lemma reset_refuted_lemma :
  exists es, sig_wakes (sig_ensure (sig_run cf_reset es)) = false.
Proof. exists [EEnsure; EFork]; reflexivity. Qed.

(* but a child forked before the first wait is not affected *)
Lemma reset_forks_only : forall n s, sg_catch s = false -> sg_blocked s = false ->
  sg_catch (fold_left (sig_step cf_reset) (repeat EFork n) s) = false /\
  sg_blocked (fold_left (sig_step cf_reset) (repeat EFork n) s) = false.
Proof.
  induction n; intros s C B; cbn [repeat fold_left].
  - auto.
  - apply IHn; cbn; auto.
Qed.

Lemma reset_first_fork_lemma : forall n,
  sig_wakes (sig_ensure (sig_run cf_reset (repeat EFork n))) = true.
Proof.
  intros n. destruct (reset_forks_only n sig0 eq_refl eq_refl) as [C B].
  unfold sig_run. destruct (fold_left _ _ sig0) as [b c m]; cbn in *; subst; reflexivity.
Qed.

(* ------------------------------------------------------------------------ *)
(* 2. the pipeline's descriptor moves, for every initial table over the
   descriptors 0..5 and 1..6 members (by evaluation) *)

Definition all_wired (fixed : bool) : bool :=
  forallb (fun l => forallb (fun k => wired_ok fixed (tbl_of l) k) (seq 1 6)) (layouts 6).

Lemma all_wired_true : all_wired true = true.
Proof. vm_compute; reflexivity. Qed.

Lemma wiring_lemma : forall l k, In l (layouts 6) -> In k (seq 1 6) ->
  wired_ok true (tbl_of l) k = true.
Proof.
  intros l k Hl Hk. pose proof all_wired_true as H. unfold all_wired in H.
  rewrite forallb_forall in H. specialize (H l Hl). rewrite forallb_forall in H. exact (H k Hk).
Qed.

(* without the step that moves the previous reader away from descriptor 1
   the middle member of a three-command pipeline started with descriptor 1
   closed is wired wrongly *)
Lemma unfixed_refuted_lemma :
  wired_ok false (tbl_of [true; false; true]) 3 = false.
Proof. vm_compute; reflexivity. Qed.

(* ... and this only shows with three or more members *)
Lemma unfixed_two_lemma : forall l, In l (layouts 6) -> wired_ok false (tbl_of l) 2 = true.
Proof.
  assert (H : forallb (fun l => wired_ok false (tbl_of l) 2) (layouts 6) = true) by (vm_compute; reflexivity).
  intros l Hl. rewrite forallb_forall in H. exact (H l Hl).
Qed.

(* ------------------------------------------------------------------------ *)
(* 3. the stream-P oracle asks for no more than the wiring theorem gives *)
From Yv Require Import C13.Model C13.Spec C13.Run.
From Coq Require Import ZArith.

Lemma layouts6_len : forall l, In l (layouts 6) -> length l = 6.
Proof.
  assert (H : forallb (fun l => length l =? 6) (layouts 6) = true) by (vm_compute; reflexivity).
  intros l Hl. rewrite forallb_forall in H. apply Nat.eqb_eq. exact (H l Hl).
Qed.

Lemma pipefd_oracle_sound : forall lay k st fds,
  In lay (layouts 6) -> In k (seq 2 5) -> length fds = k ->
  fds_agree (fst (pipeline_tables true (tbl_of lay) k)) fds = true ->
  run_pipefd lay k st [expected_data k] fds [Z.of_N st] false false 0 = 0%N.
Proof.
  intros lay k st fds Hl Hk Hf Ha.
  assert (Hk1 : In k (seq 1 6)).
  { apply in_seq in Hk. apply in_seq. lia. }
  pose proof (wiring_lemma lay k Hl Hk1) as W.
  pose proof (layouts6_len lay Hl) as L.
  apply in_seq in Hk.
  unfold run_pipefd. cbn [orb].
  assert (E1 : list_eqb Z.eqb [Z.of_N st] [Z.of_N st] = true) by (cbn; rewrite Z.eqb_refl; reflexivity).
  assert (E2 : list_eqb str_eqb [expected_data k] [expected_data k] = true).
  { assert (S : str_eqb (expected_data k) (expected_data k) = true) by (apply str_eqb_eq; reflexivity).
    cbn [list_eqb]. rewrite S. reflexivity. }
  rewrite E1, E2. cbn [negb Nat.eqb].
  rewrite L, Hf.
  replace (2 <=? k) with true by (symmetry; apply Nat.leb_le; lia).
  replace (k <=? 6) with true by (symmetry; apply Nat.leb_le; lia).
  rewrite Nat.eqb_refl. cbn [andb Nat.leb].
  destruct (pipeline_tables true (tbl_of lay) k) as [ms tf] eqn:E. cbn [fst] in Ha.
  rewrite W, Ha. reflexivity.
Qed.
