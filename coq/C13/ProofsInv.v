(* C13 — the invariant of the protocol and its preservation. *)
From Yv Require Import Common.Base C13.Model C13.ProofsKern.
From Coq Require Import Arith.

Definition unreaped_at (k : kern) (i : nat) : Prop :=
  exists c, nth_error (kids k) i = Some c /\ cs c <> Reaped.

(* the members of the pipeline the parent is starting or waiting for *)
Definition members (a : pc) : list nat :=
  match a with
  | PFork _ pids _ => pids
  | PWait _ (TPid p) (KPipe more _ _ _) => p :: more
  | _ => []
  end.

Definition pc_shape_ok (a : pc) : Prop :=
  match a with
  | PWait _ TAny (KPipe _ _ _ _) => False
  | PWait _ (TPid _) (KBuiltin _) => False
  | _ => True
  end.

(* SIGCHLD is blocked and caught from the first poll on, and unblocked only
   inside select *)
Definition sig_ok (k : kern) (a : pc) : Prop :=
  match a with
  | PWait SBlocked _ _ => blocked k = false /\ catching k = true /\ pending k = false
  | PWait SPoll _ _ | PWait SEnter _ _ => blocked k = true /\ catching k = true /\ caught k = 0
  | _ => caught k = 0 /\ (catching k = true -> blocked k = true)
         /\ (pending k = true -> blocked k = true)
  end.

(* no lost SIGCHLD: once wait has said "none yet", either it would still say
   so, or a SIGCHLD is pending / has been caught *)
Definition news_ok (k : kern) (a : pc) : Prop :=
  match a with
  | PWait SEnter t _ => pending k = true \/ fst (kwait k t) = WNone
  | PWait SBlocked t _ => 0 < caught k \/ fst (kwait k t) = WNone
  | _ => True
  end.

Definition job_ok (k : kern) (j : nat * option N) : Prop :=
  exists c, nth_error (kids k) (fst j) = Some c /\
            match snd j with
            | Some st => cs c = Reaped /\ st = code c
            | None => cs c <> Reaped
            end.

Definition reaps_ok (c : child) : Prop :=
  reaps c = match cs c with Reaped => 1 | _ => 0 end.

Record Inv (s : state) : Prop := mkInv {
  i_reaps : Forall reaps_ok (kids (kn s));
  i_shape : pc_shape_ok (at_ s);
  i_sig : sig_ok (kn s) (at_ s);
  i_news : news_ok (kn s) (at_ s);
  i_mem_nodup : NoDup (members (at_ s));
  i_mem : forall i, In i (members (at_ s)) ->
                    unreaped_at (kn s) i /\ ~ In i (map fst (jobs s));
  i_jobs_nodup : NoDup (map fst (jobs s));
  i_jobs : Forall (job_ok (kn s)) (jobs s);
  i_builtin : match at_ s with
              | PWait _ _ (KBuiltin _) => exists i, In (i, None) (jobs s)
              | _ => True
              end;
  i_rest : forall i, unreaped_at (kn s) i ->
                     In i (map fst (jobs s)) \/ In i (members (at_ s)) }.

Lemma inv_init p : Inv (init p).
Proof.
  constructor; unfold init; cbn [kn at_ jobs kern0 kids members map];
    [ constructor | exact I | cbn; auto | exact I | constructor | intros j []
    | constructor | constructor | exact I | ].
  intros j [c [Hn _]]. destruct j; discriminate.
Qed.

(* ------------------------------------------------------------------------ *)
(* updates of one child *)

Lemma Forall_upd {A} (P : A -> Prop) (l : list A) : forall i x,
  Forall P l -> P x -> Forall P (upd l i x).
Proof.
  induction l as [|y t IH]; intros [|i] x Hl Hx; cbn; auto; inversion Hl; subst; constructor; auto.
Qed.

Lemma nth_error_upd {A} (l : list A) i j x c :
  nth_error l i = Some c ->
  nth_error (upd l i x) j = if i =? j then Some x else nth_error l j.
Proof.
  intros H. destruct (Nat.eqb_spec i j) as [->|Hne].
  - eapply nth_error_upd_same; eauto.
  - apply nth_error_upd_other; assumption.
Qed.

Lemma in_upd {A} (l : list A) : forall i x d, In d (upd l i x) -> d = x \/ In d l.
Proof.
  induction l as [|y t IH]; intros [|i] x d H; cbn in H; auto.
  - destruct H as [->|H]; auto. right; right; assumption.
  - destruct H as [->|H]; [right; left; reflexivity|].
    destruct (IH _ _ _ H); auto. right; right; assumption.
Qed.

Lemma existsb_upd_alive (l : list child) : forall i c x,
  nth_error l i = Some c -> is_alive x = true ->
  existsb is_alive l = true -> existsb is_alive (upd l i x) = true.
Proof.
  induction l as [|y t IH]; intros [|i] c x Hn Hx He; cbn in *; try discriminate.
  - rewrite Hx. reflexivity.
  - destruct (is_alive y); [reflexivity|]. cbn in *. eapply IH; eauto.
Qed.

Lemma kwait_none_intro k t :
  match t with
  | TPid j => exists c, nth_error (kids k) j = Some c /\ is_alive c = true /\ has_news_c c = false
  | TAny => (forall c, In c (kids k) -> has_news_c c = false) /\ existsb is_alive (kids k) = true
  end -> kwait k t = (WNone, k).
Proof.
  unfold kwait. destruct t as [j|].
  - intros [c [Hn [Ha Hc]]]. rewrite Hn, Hc, Ha. reflexivity.
  - intros [Hz Hr]. rewrite (find_from_none_inv _ _ 0 Hz), Hr. reflexivity.
Qed.

(* replacing a live child by a live one with the same "unreported change"
   flag does not change a "none yet" answer of wait *)
Lemma kwait_none_replace k t i c c' :
  nth_error (kids k) i = Some c -> is_alive c = true -> is_alive c' = true ->
  has_news_c c' = has_news_c c ->
  fst (kwait k t) = WNone ->
  fst (kwait (set_kids k (upd (kids k) i c')) t) = WNone.
Proof.
  intros Hn Ha Ha' Hnews Hw.
  destruct (kwait k t) as [r k'] eqn:E. cbn [fst] in Hw. subst r.
  apply kwait_none in E. destruct E as [_ E].
  rewrite kwait_none_intro; [reflexivity|].
  unfold set_kids; cbn [kids].
  destruct t as [j|].
  - destruct E as [d [Hd [Hda Hdn]]].
    rewrite (nth_error_upd _ i j _ c Hn).
    destruct (Nat.eqb_spec i j) as [->|Hne]; [|eauto].
    rewrite Hn in Hd. apply Some_inj in Hd. subst d.
    exists c'. split; [reflexivity|]. split; [assumption|]. congruence.
  - destruct E as [Hz Hr]. split.
    + intros d Hd. apply in_upd in Hd. destruct Hd as [->|Hd]; [|auto].
      rewrite Hnews. apply Hz. eapply nth_error_In; eauto.
    + eapply existsb_upd_alive; eauto.
Qed.

(* ------------------------------------------------------------------------ *)
(* facts that depend on the list of children only *)

Lemma unreaped_at_kids k1 k2 j : kids k1 = kids k2 -> unreaped_at k1 j -> unreaped_at k2 j.
Proof. unfold unreaped_at. intros ->. auto. Qed.

Lemma job_ok_kids k1 k2 j : kids k1 = kids k2 -> job_ok k1 j -> job_ok k2 j.
Proof. unfold job_ok. intros ->. auto. Qed.

Lemma unreaped_at_upd l k i c c' j :
  kids k = l -> nth_error l i = Some c -> cs c <> Reaped -> cs c' <> Reaped ->
  forall k', kids k' = upd l i c' -> (unreaped_at k' j <-> unreaped_at k j).
Proof.
  intros Hk Hn Hc Hc' k' Hk'. unfold unreaped_at. rewrite Hk, Hk'.
  rewrite (nth_error_upd l i j c' c Hn).
  destruct (Nat.eqb_spec i j) as [->|Hne]; [|tauto].
  split; intros _; eauto.
Qed.

Lemma job_ok_upd l k i c c' j :
  kids k = l -> nth_error l i = Some c -> cs c <> Reaped -> cs c' <> Reaped -> code c' = code c ->
  forall k', kids k' = upd l i c' -> job_ok k j -> job_ok k' j.
Proof.
  intros Hk Hn Hc Hc' Hcode k' Hk' [d [Hd Hj]]. unfold job_ok. rewrite Hk in Hd. rewrite Hk'.
  rewrite (nth_error_upd l i (fst j) c' c Hn).
  destruct (Nat.eqb_spec i (fst j)) as [He|Hne]; [|eauto].
  exists c'. split; [reflexivity|].
  rewrite <- He in Hd. rewrite Hn in Hd. apply Some_inj in Hd. subst d.
  destruct (snd j); [destruct Hj; contradiction | assumption].
Qed.

Lemma kwait_sig_irrelevant k1 k2 t :
  kids k1 = kids k2 -> fst (kwait k1 t) = fst (kwait k2 t).
Proof.
  intros H. unfold kwait, report. rewrite H. destruct t as [j|].
  - destruct (nth_error (kids k2) j) as [c|]; [|reflexivity].
    destruct (has_news_c c); [destruct (cs c); reflexivity|]. destruct (is_alive c); reflexivity.
  - destruct (find_from has_news_c (kids k2) 0) as [[j c]|]; [destruct (cs c); reflexivity|].
    destruct (existsb is_alive (kids k2)); reflexivity.
Qed.

Lemma raise_sig_ok k l a : sig_ok k a -> sig_ok (raise_chld (set_kids k l)) a.
Proof.
  unfold raise_chld, deliver, set_kids; cbn [blocked catching pending caught kids].
  destruct a as [| | m t c0| | | |]; try destruct m; cbn [sig_ok];
    intros [H1 [H2 H3]];
    destruct (blocked k) eqn:Eb; cbn [blocked catching pending caught];
    try destruct (catching k) eqn:Ec; cbn [blocked catching pending caught];
    repeat split; auto; try congruence; try discriminate;
    try (specialize (H2 eq_refl); discriminate).
Qed.

Definition builtin_ok (a : pc) (jb : list (nat * option N)) : Prop :=
  match a with
  | PWait _ _ (KBuiltin _) => exists i, In (i, None) jb
  | _ => True
  end.

(* one child that is not reaped is replaced by another one that is not reaped
   (same exit status, same report count); the job list stays *)
Lemma inv_replace k k' pr pr' a a' st st' lb lb' jb tr tr' i c c' :
  Inv (mkState k pr a st lb jb tr) ->
  nth_error (kids k) i = Some c -> cs c <> Reaped -> cs c' <> Reaped ->
  code c' = code c -> reaps c' = reaps c -> kids k' = upd (kids k) i c' ->
  pc_shape_ok a' -> sig_ok k' a' -> news_ok k' a' -> members a' = members a -> builtin_ok a' jb ->
  Inv (mkState k' pr' a' st' lb' jb tr').
Proof.
  intros [Hre Hsh Hsig Hnews Hnd Hmem Hjnd Hjobs Hb Hrest] Hn Hc Hc' Hcode Hreaps Hk Hsh' Hsig' Hnews' Hm Hb'.
  cbn [kn at_ jobs] in *.
  assert (Hun : forall j, unreaped_at k' j <-> unreaped_at k j)
    by (intros j; eapply (unreaped_at_upd (kids k) k i c c'); eauto).
  constructor; cbn [kn at_ jobs]; auto.
  - rewrite Hk. apply Forall_upd; [assumption|].
    pose proof (proj1 (Forall_forall _ _) Hre c (nth_error_In _ _ Hn)) as Hrc.
    unfold reaps_ok in *. rewrite Hreaps, Hrc.
    destruct (cs c); try contradiction; destruct (cs c'); try contradiction; reflexivity.
  - rewrite Hm. assumption.
  - rewrite Hm. intros j Hj. destruct (Hmem j Hj) as [H1 H2]. split; [apply Hun; assumption | assumption].
  - eapply Forall_impl; [|exact Hjobs]. intros j Hj. eapply (job_ok_upd (kids k) k i c c'); eauto.
  - rewrite Hm. intros j Hj. apply Hrest. apply Hun. assumption.
Qed.

Lemma sig_ok_kids k l a : sig_ok (set_kids k l) a <-> sig_ok k a.
Proof. destruct a as [| | m t c0| | | |]; try destruct m; cbn; tauto. Qed.

Lemma state_eta (s : state) :
  s = mkState (kn s) (prog s) (at_ s) (status s) (lastbg s) (jobs s) (trace s).
Proof. destruct s; reflexivity. Qed.

(* the effect of a signal keeps the invariant *)
Lemma signal_inv s sg t :
  Inv s -> Inv (set_at s (k_signal (kn s) sg t) (at_ s)).
Proof.
  intros HI. unfold k_signal.
  assert (Hsame : Inv (set_at s (kn s) (at_ s))) by (rewrite (state_eta s) in HI |- *; exact HI).
  destruct (nth_error (kids (kn s)) t) as [c|] eqn:Hn; [|exact Hsame].
  assert (Hgo : forall c', cs c <> Reaped -> cs c' <> Reaped -> is_alive c = true -> is_alive c' = true ->
            code c' = code c -> reaps c' = reaps c ->
            Inv (set_at s (raise_chld (set_kids (kn s) (upd (kids (kn s)) t c'))) (at_ s))).
  { intros c' Hc Hc' Ha Ha' Hcode Hreaps. rewrite (state_eta s) in HI. unfold set_at.
    pose proof HI as [_ Hsh Hsig Hnews _ _ _ _ Hb _]. cbn [kn at_ jobs] in *.
    refine (inv_replace _ _ _ _ _ _ _ _ _ _ _ _ _ t c c' HI Hn Hc Hc' Hcode Hreaps _ _ _ _ _ _).
    - rewrite kids_raise. reflexivity.
    - assumption.
    - apply raise_sig_ok. assumption.
    - (* a SIGCHLD is raised: pending or caught *)
      destruct (at_ s) as [| | m tt c0| | | |]; try exact I.
      destruct m; try exact I; cbn [news_ok sig_ok] in *; left;
        destruct Hsig as [H1 [H2 H3]];
        unfold raise_chld, deliver, set_kids; cbn [blocked catching]; rewrite H1, ?H2; cbn [pending caught]; auto; lia.
    - reflexivity.
    - assumption. }
  destruct sg; destruct (cs c) eqn:Hc; try exact Hsame.
  - apply Hgo; cbn; auto; try congruence; try discriminate. unfold is_alive; rewrite Hc; reflexivity.
  - apply Hgo; cbn; auto; try congruence; try discriminate. unfold is_alive; rewrite Hc; reflexivity.
Qed.

Lemma child_step_inv s i k' :
  Inv s -> child_step (kn s) i = Some k' -> Inv (set_at s k' (at_ s)).
Proof.
  intros HI Hst. unfold child_step in Hst.
  destruct (nth_error (kids (kn s)) i) as [c|] eqn:Hn; [|discriminate].
  pose proof HI as HI0. rewrite (state_eta s) in HI0.
  pose proof HI as [_ Hsh Hsig Hnews _ _ _ _ Hb _].
  assert (Hadv : forall r,
            cs c = Running (AWork :: r) \/ (exists sg t, cs c = Running (AKill sg t :: r)) ->
            Inv (set_at s (set_kids (kn s) (upd (kids (kn s)) i (mkChild (Running r) (code c) (reaps c) (chg c))))
                        (at_ s))).
  { intros r Hc. unfold set_at.
    assert (Hcs : cs c <> Reaped /\ is_alive c = true)
      by (unfold is_alive; destruct Hc as [Hc|[sg [t Hc]]]; rewrite Hc; split; [discriminate|reflexivity| discriminate | reflexivity]).
    destruct Hcs as [Hc1 Hc2].
    refine (inv_replace _ _ _ _ _ _ _ _ _ _ _ _ _ i c (mkChild (Running r) (code c) (reaps c) (chg c))
              HI0 Hn Hc1 _ _ _ _ _ _ _ _ _); cbn [cs code reaps kids set_kids];
      [> discriminate | reflexivity | reflexivity | reflexivity | assumption
       | apply sig_ok_kids; assumption | | reflexivity | assumption ].
    destruct (at_ s) as [| | m tt c0| | | |]; try exact I.
      destruct m; try exact I; cbn [news_ok] in *; (destruct Hnews as [Hp|Hw]; [left; exact Hp|]); right;
        apply (kwait_none_replace (kn s) tt i c); auto;
        unfold has_news_c; cbn [cs chg]; destruct Hc as [Hc|[sg [t Hc]]]; rewrite Hc; reflexivity. }
  destruct (cs c) as [[|[|sg t] r]| | |] eqn:Hc; try discriminate; apply Some_inj in Hst; subst k'.
  - (* exit *)
    unfold set_at.
    refine (inv_replace _ _ _ _ _ _ _ _ _ _ _ _ _ i c (mkChild Zombie (code c) (reaps c) false)
              HI0 Hn _ _ _ _ _ _ _ _ _ _); cbn [cs code reaps];
      [> rewrite Hc; discriminate | discriminate | reflexivity | reflexivity
       | rewrite kids_raise; reflexivity | assumption | apply raise_sig_ok; assumption | | reflexivity | assumption ].
    destruct (at_ s) as [| | m tt c0| | | |]; try exact I.
      destruct m; try exact I; cbn [news_ok sig_ok] in *; left;
        destruct Hsig as [H1 [H2 H3]];
        unfold raise_chld, deliver, set_kids; cbn [blocked catching]; rewrite H1, ?H2; cbn [pending caught]; auto; lia.
  - apply Hadv. left. reflexivity.
  - specialize (Hadv r (or_intror (ex_intro _ sg (ex_intro _ t eq_refl)))).
    exact (signal_inv _ sg t Hadv).
Qed.

(* ------------------------------------------------------------------------ *)
(* fork *)

Lemma fork_kids k w st :
  kids (fst (k_fork k w st)) = kids k ++ [mkChild (Running w) st 0 false] /\
  snd (k_fork k w st) = length (kids k) /\
  catching (fst (k_fork k w st)) = catching k /\ blocked (fst (k_fork k w st)) = blocked k /\
  pending (fst (k_fork k w st)) = pending k /\ caught (fst (k_fork k w st)) = caught k.
Proof. unfold k_fork, set_kids; cbn [fst snd kids catching blocked pending caught]. repeat split; reflexivity. Qed.

Lemma nth_error_Some_lt' {A} (l : list A) i c : nth_error l i = Some c -> i < length l.
Proof. intros H. apply nth_error_Some. congruence. Qed.

Lemma unreaped_at_fork k w st j :
  unreaped_at (fst (k_fork k w st)) j <-> unreaped_at k j \/ j = length (kids k).
Proof.
  unfold unreaped_at. destruct (fork_kids k w st) as [-> _].
  destruct (Nat.lt_ge_cases j (length (kids k))) as [Hlt|Hge].
  - rewrite nth_error_app1 by assumption. split; [auto | intros [H|H]; [auto|lia]].
  - rewrite nth_error_app2 by assumption. split.
    + intros [c [Hn _]]. right.
      destruct (j - length (kids k)) as [|n] eqn:E; [lia|]. destruct n; discriminate.
    + intros [[c [Hn _]]|Hj].
      * apply nth_error_Some_lt' in Hn. lia.
      * subst j. rewrite Nat.sub_diag. eexists; split; [reflexivity|discriminate].
Qed.

Lemma job_ok_fork k w st j : job_ok k j -> job_ok (fst (k_fork k w st)) j.
Proof.
  intros [c [Hn Hj]]. exists c. split; [|assumption].
  destruct (fork_kids k w st) as [-> _].
  rewrite nth_error_app1; [assumption|]. eapply nth_error_Some_lt'; eauto.
Qed.

Lemma unreaped_at_lt k j : unreaped_at k j -> j < length (kids k).
Proof. intros [c [Hn _]]. eapply nth_error_Some_lt'; eauto. Qed.

(* ------------------------------------------------------------------------ *)
(* reaping *)

Lemma unreaped_at_reap k i c j :
  nth_error (kids k) i = Some c ->
  (unreaped_at (set_kids k (upd (kids k) i (reap c))) j <-> unreaped_at k j /\ j <> i \/ (False)).
Proof.
  intros Hn. unfold unreaped_at, set_kids; cbn [kids].
  rewrite (nth_error_upd _ i j _ c Hn).
  destruct (Nat.eqb_spec i j) as [->|Hne].
  - split; [intros [d [Hd Hc]]; apply Some_inj in Hd; subst d; cbn in Hc; congruence|].
    intros [[_ H]|[]]. congruence.
  - split; [intros H; left; split; [assumption|congruence] | intros [[H _]|[]]; assumption].
Qed.

Lemma job_update_fst j i st : map fst (job_update j i st) = map fst j.
Proof.
  induction j as [|[x r] t IH]; cbn; [reflexivity|].
  destruct (x =? i); cbn; [reflexivity | rewrite IH; reflexivity].
Qed.

Lemma job_update_in j i st x r :
  NoDup (map fst j) ->
  In (x, r) (job_update j i st) -> (x <> i /\ In (x, r) j) \/ (x = i /\ r = Some st).
Proof.
  induction j as [|[y q] t IH]; cbn [job_update map fst]; intros Hnd; [intros []|].
  inversion Hnd as [|? ? Hni Hnd']; subst.
  destruct (Nat.eqb_spec y i) as [->|Hne]; cbn [In].
  - intros [H|H]; [inversion H; subst; right; auto|].
    left. split; [|right; assumption].
    intros ->. apply Hni. apply in_map_iff. exists (i, r). auto.
  - intros [H|H]; [inversion H; subst; left; split; [assumption | left; reflexivity]|].
    destruct (IH Hnd' H) as [[H1 H2]|H']; [left; split; [assumption | right; assumption] | right; assumption].
Qed.

Lemma job_update_none_in j i st x :
  In (x, None) j -> x <> i -> In (x, None) (job_update j i st).
Proof.
  induction j as [|[y q] t IH]; cbn; [tauto|].
  intros [H|H] Hne.
  - inversion H; subst. destruct (Nat.eqb_spec x i); [contradiction|]. left; reflexivity.
  - destruct (y =? i); [right; assumption | right; apply IH; assumption].
Qed.

Lemma job_ok_reap k i c st jl :
  nth_error (kids k) i = Some c -> cs c = Zombie -> st = code c ->
  NoDup (map fst jl) ->
  Forall (job_ok k) jl ->
  Forall (job_ok (set_kids k (upd (kids k) i (reap c)))) (job_update jl i st).
Proof.
  intros Hn Hz Hst Hnd Hf. apply Forall_forall. intros [x r] Hin.
  destruct (job_update_in _ _ _ _ _ Hnd Hin) as [[Hne Hin']|[-> ->]].
  - pose proof (proj1 (Forall_forall _ _) Hf _ Hin') as [d [Hd Hq]]. cbn [fst snd] in *.
    exists d. split; [|assumption]. unfold set_kids; cbn [kids fst].
    rewrite nth_error_upd_other; [assumption | congruence].
  - exists (reap c). unfold set_kids; cbn [kids fst snd].
    split; [eapply nth_error_upd_same; eauto|]. cbn. auto.
Qed.

Lemma reaps_ok_reap k i c :
  nth_error (kids k) i = Some c -> cs c = Zombie ->
  Forall reaps_ok (kids k) -> Forall reaps_ok (upd (kids k) i (reap c)).
Proof.
  intros Hn Hz Hf. apply Forall_upd; [assumption|].
  pose proof (proj1 (Forall_forall _ _) Hf c (nth_error_In _ _ Hn)) as Hc.
  unfold reaps_ok in *. rewrite Hz in Hc. cbn. rewrite Hc. reflexivity.
Qed.

(* ------------------------------------------------------------------------ *)
(* the job list *)

Lemma job_find_in j i r : job_find j i = Some r -> In (i, r) j.
Proof.
  induction j as [|[x q] t IH]; cbn; [discriminate|].
  destruct (Nat.eqb_spec x i) as [->|Hne]; [intros H; inversion H; auto | auto].
Qed.

Lemma job_find_none j i : job_find j i = None -> ~ In i (map fst j).
Proof.
  induction j as [|[x q] t IH]; cbn; [tauto|].
  destruct (Nat.eqb_spec x i) as [->|Hne]; [discriminate|].
  intros H [H'|H']; [congruence | exact (IH H H')].
Qed.

Lemma job_remove_in j i x r : In (x, r) (job_remove j i) -> In (x, r) j.
Proof.
  induction j as [|[y q] t IH]; cbn; [tauto|].
  destruct (y =? i); cbn; [auto|]. intros [H|H]; auto.
Qed.

Lemma job_remove_fst_in j i x : In x (map fst (job_remove j i)) -> In x (map fst j).
Proof.
  intros H. apply in_map_iff in H. destruct H as [[y r] [<- H]].
  apply job_remove_in in H. apply in_map_iff. exists (y, r). auto.
Qed.

Lemma job_remove_nodup j i : NoDup (map fst j) -> NoDup (map fst (job_remove j i)).
Proof.
  induction j as [|[y q] t IH]; cbn; [auto|]. intros H. inversion H; subst.
  destruct (y =? i); [assumption|]. cbn. constructor; [|auto].
  intros Hin. apply job_remove_fst_in in Hin. contradiction.
Qed.

Lemma job_remove_keeps j i x :
  In x (map fst j) -> x <> i -> In x (map fst (job_remove j i)).
Proof.
  induction j as [|[y q] t IH]; cbn; [tauto|].
  intros [H|H] Hne.
  - subst y. destruct (Nat.eqb_spec x i); [contradiction|]. left; reflexivity.
  - destruct (y =? i); [assumption | right; apply IH; assumption].
Qed.

Lemma job_remove_gone j i : NoDup (map fst j) -> ~ In i (map fst (job_remove j i)).
Proof.
  induction j as [|[y q] t IH]; cbn; [tauto|]. intros H. inversion H; subst.
  destruct (Nat.eqb_spec y i) as [->|Hne]; [assumption|].
  cbn. intros [H'|H']; [contradiction | exact (IH H3 H')].
Qed.

Lemma job_unfinished_in j x r : In (x, r) (job_unfinished j) -> In (x, r) j.
Proof.
  induction j as [|[y [q|]] t IH]; cbn; auto.
Qed.

Lemma job_unfinished_nodup j : NoDup (map fst j) -> NoDup (map fst (job_unfinished j)).
Proof.
  induction j as [|[y [q|]] t IH]; cbn; auto. intros H; inversion H; auto.
Qed.

Lemma job_unfinished_keeps j x :
  In x (map fst j) -> In x (map fst (job_unfinished j)) \/ exists st, In (x, Some st) j.
Proof.
  induction j as [|[y [q|]] t IH]; cbn [job_unfinished map fst In]; auto.
  - intros [H|H]; [subst; right; eauto|].
    destruct (IH H) as [H'|[st H']]; [left; assumption | right; eauto].
Qed.

Lemma job_unfinished_nil j : job_unfinished j = [] -> forall x r, In (x, r) j -> exists st, r = Some st.
Proof.
  induction j as [|[y [q|]] t IH]; cbn; [tauto| |discriminate].
  intros H x r [Hx|Hx]; [inversion Hx; eauto | eapply IH; eauto].
Qed.

Lemma job_unfinished_head j y q t : job_unfinished j = (y, q) :: t -> q = None.
Proof.
  induction j as [|[z [r|]] u IH]; cbn; [discriminate|auto|].
  intros H; inversion H; reflexivity.
Qed.

(* ------------------------------------------------------------------------ *)
(* parent steps *)

(* a step that changes neither the children nor the job list *)
Lemma inv_same_kids k k' pr pr' a a' st st' lb lb' jb tr tr' :
  Inv (mkState k pr a st lb jb tr) ->
  kids k' = kids k -> pc_shape_ok a' -> sig_ok k' a' -> news_ok k' a' ->
  members a' = members a -> builtin_ok a' jb ->
  Inv (mkState k' pr' a' st' lb' jb tr').
Proof.
  intros [Hre Hsh Hsig Hnews Hnd Hmem Hjnd Hjobs Hb Hrest] Hk Hsh' Hsig' Hnews' Hm Hb'.
  cbn [kn at_ jobs] in *.
  constructor; cbn [kn at_ jobs]; auto.
  - rewrite Hk. assumption.
  - rewrite Hm. assumption.
  - rewrite Hm. intros j Hj. destruct (Hmem j Hj) as [H1 H2]. split; [|assumption].
    eapply unreaped_at_kids; [symmetry; exact Hk | assumption].
  - eapply Forall_impl; [|exact Hjobs]. intros j Hj. eapply job_ok_kids; [symmetry; exact Hk|assumption].
  - rewrite Hm. intros j Hj. apply Hrest. eapply unreaped_at_kids; [exact Hk | assumption].
Qed.

Lemma jobs_lt k jb j : Forall (job_ok k) jb -> In j (map fst jb) -> j < length (kids k).
Proof.
  intros Hf Hin. apply in_map_iff in Hin. destruct Hin as [[x r] [<- Hin]].
  pose proof (proj1 (Forall_forall _ _) Hf _ Hin) as [c [Hn _]]. cbn in *.
  eapply nth_error_Some_lt'; eauto.
Qed.

Lemma NoDup_snoc {A} (l : list A) x : NoDup l -> ~ In x l -> NoDup (l ++ [x]).
Proof.
  intros Hn Hx. induction l as [|y t IH]; cbn; [constructor; [tauto|constructor]|].
  inversion Hn; subst. constructor.
  - rewrite in_app_iff. cbn. intros [H|[H|[]]]; [contradiction|]. subst. apply Hx. left; reflexivity.
  - apply IH; [assumption|]. intros H. apply Hx. right; assumption.
Qed.

(* the state of the signal fields does not matter for the default shape *)
Lemma sig_ok_fork k w x a :
  sig_ok k a -> sig_ok (fst (k_fork k w x)) a.
Proof.
  destruct (fork_kids k w x) as [_ [_ [H1 [H2 [H3 H4]]]]].
  destruct a as [| | m t c| | | |]; try destruct m; cbn [sig_ok]; rewrite ?H1, ?H2, ?H3, ?H4; auto.
Qed.

Lemma parent_idle_inv k pr st lb jb tr s' :
  Inv (mkState k pr PIdle st lb jb tr) ->
  parent_step (mkState k pr PIdle st lb jb tr) = Some s' -> Inv s'.
Proof.
  intros HI Hs. unfold parent_step in Hs; cbn [kn prog at_ status lastbg jobs trace] in Hs.
  pose proof HI as [Hre Hsh Hsig Hnews Hnd Hmem Hjnd Hjobs Hb Hrest]. cbn [kn at_ jobs] in *.
  destruct pr as [|[w x|l pf|t|] r]; apply Some_inj in Hs; subst s'; unfold set_at;
    cbn [kn prog at_ status lastbg jobs trace].
  - eapply inv_same_kids; eauto; cbn; auto.
  - (* CAsync *)
    destruct (fork_kids k w x) as [Hk [Hi _]].
    cbn [k_fork]. change (set_kids k (kids k ++ [mkChild (Running w) x 0 false])) with (fst (k_fork k w x)).
    constructor; cbn [kn at_ jobs members].
    + rewrite Hk. apply Forall_app. split; [assumption|]. constructor; [reflexivity|constructor].
    + exact I.
    + apply sig_ok_fork. exact Hsig.
    + exact I.
    + constructor.
    + intros j [].
    + rewrite map_app. cbn [map fst]. apply NoDup_snoc; [assumption|].
      intros Hin. pose proof (jobs_lt _ _ _ Hjobs Hin). lia.
    + apply Forall_app. split.
      * eapply Forall_impl; [|exact Hjobs]. intros j Hj. apply job_ok_fork. assumption.
      * constructor; [|constructor]. exists (mkChild (Running w) x 0 false). cbn [fst snd].
        rewrite Hk. rewrite nth_error_app2 by lia. rewrite Nat.sub_diag. split; [reflexivity|discriminate].
    + exact I.
    + intros j Hj. apply unreaped_at_fork in Hj. left. rewrite map_app, in_app_iff. cbn [map fst In].
      destruct Hj as [Hj| ->]; [left | right; left; reflexivity].
      destruct (Hrest j Hj) as [H|[]]; assumption.
  - eapply inv_same_kids; eauto; cbn; auto.
  - eapply inv_same_kids; eauto; cbn; auto.
  - eapply inv_same_kids; eauto; cbn; auto.
Qed.

Lemma parent_fork_inv k pr todo pids pf st lb jb tr s' :
  Inv (mkState k pr (PFork todo pids pf) st lb jb tr) ->
  parent_step (mkState k pr (PFork todo pids pf) st lb jb tr) = Some s' -> Inv s'.
Proof.
  intros HI Hs. unfold parent_step in Hs; cbn [kn prog at_ status lastbg jobs trace] in Hs.
  pose proof HI as [Hre Hsh Hsig Hnews Hnd Hmem Hjnd Hjobs Hb Hrest]. cbn [kn at_ jobs members] in *.
  destruct todo as [|[w x] todo].
  - destruct pids as [|p more]; apply Some_inj in Hs; subst s'; unfold set_at, finish;
      cbn [kn prog at_ status lastbg jobs trace].
    + eapply inv_same_kids; eauto; cbn; auto.
    + eapply inv_same_kids; eauto; cbn; auto.
  - apply Some_inj in Hs; subst s'. unfold set_at; cbn [kn prog at_ status lastbg jobs trace].
    destruct (fork_kids k w x) as [Hk [Hi _]].
    cbn [k_fork]. change (set_kids k (kids k ++ [mkChild (Running w) x 0 false])) with (fst (k_fork k w x)).
    constructor; cbn [kn at_ jobs members].
    + rewrite Hk. apply Forall_app. split; [assumption|]. constructor; [reflexivity|constructor].
    + exact I.
    + apply sig_ok_fork. exact Hsig.
    + exact I.
    + apply NoDup_snoc; [assumption|]. intros Hin. destruct (Hmem _ Hin) as [Hu _].
      apply unreaped_at_lt in Hu. lia.
    + intros j Hj. apply in_app_iff in Hj. destruct Hj as [Hj|[<-|[]]].
      * destruct (Hmem j Hj) as [H1 H2]. split; [|assumption]. apply unreaped_at_fork. left; assumption.
      * split; [apply unreaped_at_fork; right; reflexivity|].
        intros Hin. pose proof (jobs_lt _ _ _ Hjobs Hin). lia.
    + assumption.
    + eapply Forall_impl; [|exact Hjobs]. intros j Hj. apply job_ok_fork. assumption.
    + exact I.
    + intros j Hj. apply unreaped_at_fork in Hj. rewrite in_app_iff. cbn [In].
      destruct Hj as [Hj| ->]; [|right; right; left; reflexivity].
      destruct (Hrest j Hj) as [H|H]; [left; assumption | right; left; assumption].
Qed.

Lemma parent_inst_inv k pr t c st lb jb tr s' :
  Inv (mkState k pr (PWait SInst t c) st lb jb tr) ->
  parent_step (mkState k pr (PWait SInst t c) st lb jb tr) = Some s' -> Inv s'.
Proof.
  intros HI Hs. unfold parent_step in Hs; cbn [kn prog at_ status lastbg jobs trace] in Hs.
  pose proof HI as [Hre Hsh Hsig Hnews Hnd Hmem Hjnd Hjobs Hb Hrest]. cbn [kn at_ jobs sig_ok] in *.
  destruct Hsig as [H1 [H2 H3]].
  destruct (blocked k) eqn:Eb; cbn [negb] in Hs; [destruct (catching k) eqn:Ec; cbn [negb] in Hs|];
    apply Some_inj in Hs; subst s'; unfold set_at; cbn [kn prog at_ status lastbg jobs trace];
    eapply inv_same_kids; eauto; cbn [sig_ok news_ok k_block k_catch blocked catching pending caught];
    auto.
Qed.

Lemma sig_ok_reap k i c a :
  sig_ok k a -> sig_ok (set_kids k (upd (kids k) i c)) a.
Proof. destruct a as [| | m t c0| | | |]; try destruct m; auto. Qed.

(* the state after wait has reported child i *)
Lemma inv_after_reap k pr pr' a a' st st' lb jb tr i c x :
  Inv (mkState k pr a st lb jb tr) ->
  nth_error (kids k) i = Some c -> cs c = Zombie -> x = code c ->
  pc_shape_ok a' -> sig_ok k a' -> news_ok (set_kids k (upd (kids k) i (reap c))) a' ->
  NoDup (members a') ->
  (forall j, In j (members a') -> In j (members a) /\ j <> i) ->
  (forall j, In j (members a) -> j <> i -> In j (members a')) ->
  builtin_ok a' (job_update jb i x) ->
  Inv (mkState (set_kids k (upd (kids k) i (reap c))) pr' a' st' lb (job_update jb i x) tr).
Proof.
  intros [Hre Hsh Hsig Hnews Hnd Hmem Hjnd Hjobs Hb Hrest] Hn Hz Hx Hsh' Hsig' Hnews' Hnd' Hm1 Hm2 Hb'.
  cbn [kn at_ jobs] in *.
  constructor; cbn [kn at_ jobs]; auto.
  - unfold set_kids; cbn [kids]. apply reaps_ok_reap; assumption.
  - intros j Hj. destruct (Hm1 j Hj) as [Hj1 Hj2]. destruct (Hmem j Hj1) as [H1 H2].
    rewrite job_update_fst. split; [|assumption].
    apply (unreaped_at_reap k i c j Hn). left. auto.
  - rewrite job_update_fst. assumption.
  - apply job_ok_reap; assumption.
  - intros j Hj. apply (unreaped_at_reap k i c j Hn) in Hj. destruct Hj as [[Hj Hne]|[]].
    rewrite job_update_fst. destruct (Hrest j Hj) as [H|H]; [left; assumption | right; auto].
Qed.

Lemma parent_poll_inv k pr t c st lb jb tr s' :
  Inv (mkState k pr (PWait SPoll t c) st lb jb tr) ->
  parent_step (mkState k pr (PWait SPoll t c) st lb jb tr) = Some s' -> Inv s'.
Proof.
  intros HI Hs. unfold parent_step in Hs; cbn [kn prog at_ status lastbg jobs trace] in Hs.
  pose proof HI as [Hre Hsh Hsig Hnews Hnd Hmem Hjnd Hjobs Hb Hrest]. cbn [kn at_ jobs sig_ok] in *.
  destruct Hsig as [Hbl [Hca Hcg]].
  assert (Hseen : forall i r, (r = WStop i \/ r = WCont i) -> forall k', kwait k t = (r, k') ->
            forall a', members a' = members (PWait SPoll t c) -> pc_shape_ok a' -> builtin_ok a' jb ->
              sig_ok k' a' -> news_ok k' a' ->
              Inv (mkState k' pr a' st lb jb tr)).
  { intros i r Hr k' Ew a' Hm Hsh' Hb' Hsig' Hnews'.
    destruct (kwait_seen _ _ _ _ i Ew Hr) as [ch [Hn [Ha [Hg [Hk _]]]]].
    assert (Hnr : cs ch <> Reaped) by (unfold is_alive in Ha; destruct (cs ch); discriminate).
    refine (inv_replace _ _ _ _ _ _ _ _ _ _ _ _ _ i ch (seen ch) HI Hn Hnr _ _ _ _ Hsh' Hsig' Hnews' Hm Hb');
      cbn [seen cs code reaps]; auto. rewrite Hk. reflexivity. }
  destruct (kwait k t) as [[i x|i|i| |] k'] eqn:Ew.
  2: { assert (Hr : WStop i = WStop i \/ WStop i = WCont i) by (left; reflexivity).
       destruct (kwait_seen _ _ _ _ i Ew Hr) as [ch [_ [_ [_ [Hk _]]]]].
       destruct c as [more fin pf ra|t0]; destruct t as [tp|]; try contradiction;
         apply Some_inj in Hs; subst s'; unfold set_at;
         cbn [kn prog at_ status lastbg jobs trace];
         apply (Hseen i _ Hr k' eq_refl); try reflexivity; try exact I; try assumption;
         try (rewrite Hk; cbn [sig_ok set_kids blocked catching pending caught]; rewrite Hbl, Hcg; auto). }
  2: { assert (Hr : WCont i = WStop i \/ WCont i = WCont i) by (right; reflexivity).
       destruct (kwait_seen _ _ _ _ i Ew Hr) as [ch [_ [_ [_ [Hk _]]]]].
       destruct c as [more fin pf ra|t0]; destruct t as [tp|]; try contradiction;
         apply Some_inj in Hs; subst s'; unfold set_at;
         cbn [kn prog at_ status lastbg jobs trace];
         apply (Hseen i _ Hr k' eq_refl); try reflexivity; try exact I; try assumption;
         try (rewrite Hk; cbn [sig_ok set_kids blocked catching pending caught]; rewrite Hbl, Hcg; auto). }
  - (* wait reported child i *)
    destruct (kwait_some _ _ _ _ _ Ew) as [ch [Hn [Hz [Hx [Hk Ht]]]]]. subst k' x.
    destruct c as [more fin pf ra|t0].
    + destruct t as [p|]; [|contradiction]. subst i. cbn [members] in *.
      inversion Hnd as [|? ? Hpni Hnd']; subst.
      destruct more as [|p' more']; apply Some_inj in Hs; subst s'.
      * refine (inv_after_reap _ _ _ _ _ _ _ _ _ _ _ _ _ HI Hn Hz eq_refl _ _ _ _ _ _ _).
        -- destruct ra; exact I.
        -- destruct ra; cbn [sig_ok]; rewrite Hbl, Hcg; auto.
        -- destruct ra; exact I.
        -- destruct ra; constructor.
        -- destruct ra; intros j [].
        -- destruct ra; cbn [members]; intros j [<-|[]] Hne; congruence.
        -- destruct ra; exact I.
      * refine (inv_after_reap _ _ _ _ _ _ _ _ _ _ _ _ _ HI Hn Hz eq_refl _ _ _ _ _ _ _).
        -- exact I.
        -- cbn [sig_ok]. rewrite Hbl, Hcg. auto.
        -- exact I.
        -- exact Hnd'.
        -- cbn [members]. intros j Hj. split; [right; assumption|]. intros ->. contradiction.
        -- cbn [members]. intros j [<-|Hj] Hne; [congruence | assumption].
        -- exact I.
    + destruct t as [p|]; [contradiction|]. apply Some_inj in Hs; subst s'.
      refine (inv_after_reap _ _ _ _ _ _ _ _ _ _ _ _ _ HI Hn Hz eq_refl _ _ _ _ _ _ _).
      * exact I.
      * cbn [sig_ok]. rewrite Hbl, Hcg. auto.
      * exact I.
      * constructor.
      * intros j [].
      * cbn [members]. intros j [].
      * exact I.
  - (* none yet *)
    apply Some_inj in Hs; subst s'. unfold set_at; cbn [kn prog at_ status lastbg jobs trace].
    eapply inv_same_kids; eauto; cbn [sig_ok news_ok]; auto.
    right. rewrite Ew. reflexivity.
  - (* ECHILD: impossible *)
    exfalso. apply kwait_echild in Ew. destruct Ew as [_ Ew].
    destruct c as [more fin pf ra|t0].
    + destruct t as [p|]; [|contradiction].
      destruct (Hmem p (or_introl eq_refl)) as [[d [Hd Hc]] _].
      destruct Ew as [Ew|[d' [Hd' Hc']]]; [congruence|]. rewrite Hd in Hd'. apply Some_inj in Hd'. subst d'. contradiction.
    + destruct t as [p|]; [contradiction|].
      destruct Hb as [i Hi].
      pose proof (proj1 (Forall_forall _ _) Hjobs _ Hi) as [d [Hd Hc]]. cbn [fst snd] in *.
      apply Hc. apply Ew. eapply nth_error_In; eauto.
Qed.

Lemma parent_enter_inv k pr t c st lb jb tr s' :
  Inv (mkState k pr (PWait SEnter t c) st lb jb tr) ->
  parent_step (mkState k pr (PWait SEnter t c) st lb jb tr) = Some s' -> Inv s'.
Proof.
  intros HI Hs. unfold parent_step in Hs; cbn [kn prog at_ status lastbg jobs trace] in Hs.
  pose proof HI as [Hre Hsh Hsig Hnews Hnd Hmem Hjnd Hjobs Hb Hrest]. cbn [kn at_ jobs sig_ok news_ok] in *.
  destruct Hsig as [Hbl [Hca Hcg]].
  unfold k_unblock, deliver in Hs. cbn [catching kids blocked pending caught] in Hs.
  rewrite Hca, Hcg in Hs.
  destruct (pending k) eqn:Ep; cbn [caught] in Hs.
  - change (0 <? 1) with true in Hs. apply Some_inj in Hs; subst s'.
    unfold set_at; cbn [kn prog at_ status lastbg jobs trace].
    eapply inv_same_kids; eauto; cbn; auto.
  - change (0 <? 0) with false in Hs. apply Some_inj in Hs; subst s'.
    unfold set_at; cbn [kn prog at_ status lastbg jobs trace].
    eapply inv_same_kids; eauto; cbn [sig_ok news_ok blocked catching pending caught]; auto.
    destruct Hnews as [Hp|Hw]; [discriminate|]. right.
    rewrite <- Hw. apply kwait_sig_irrelevant. reflexivity.
Qed.

Lemma parent_blocked_inv k pr t c st lb jb tr s' :
  Inv (mkState k pr (PWait SBlocked t c) st lb jb tr) ->
  parent_step (mkState k pr (PWait SBlocked t c) st lb jb tr) = Some s' -> Inv s'.
Proof.
  intros HI Hs. unfold parent_step in Hs; cbn [kn prog at_ status lastbg jobs trace] in Hs.
  pose proof HI as [Hre Hsh Hsig Hnews Hnd Hmem Hjnd Hjobs Hb Hrest]. cbn [kn at_ jobs sig_ok news_ok] in *.
  destruct Hsig as [Hbl [Hca Hp]].
  destruct (0 <? caught k); [|discriminate].
  apply Some_inj in Hs; subst s'. unfold set_at; cbn [kn prog at_ status lastbg jobs trace].
  eapply inv_same_kids; eauto; cbn; auto.
Qed.

Lemma parent_builtin_inv k pr t0 st lb jb tr s' :
  Inv (mkState k pr (PBuiltin t0) st lb jb tr) ->
  parent_step (mkState k pr (PBuiltin t0) st lb jb tr) = Some s' -> Inv s'.
Proof.
  intros HI Hs. unfold parent_step in Hs; cbn [kn prog at_ status lastbg jobs trace] in Hs.
  pose proof HI as [Hre Hsh Hsig Hnews Hnd Hmem Hjnd Hjobs Hb Hrest]. cbn [kn at_ jobs sig_ok members] in *.
  assert (Hfin : forall x y, In (x, Some y) jb -> ~ unreaped_at k x).
  { intros x y Hin [d [Hd Hc]].
    pose proof (proj1 (Forall_forall _ _) Hjobs _ Hin) as [d' [Hd' [Hc' _]]]. cbn [fst snd] in *.
    rewrite Hd in Hd'. apply Some_inj in Hd'. subst d'. contradiction. }
  destruct t0 as [i|].
  - destruct (job_find jb i) as [[x|]|] eqn:Ef; apply Some_inj in Hs; subst s';
      unfold set_at, finish; cbn [kn prog at_ status lastbg jobs trace].
    + (* finished: the job is removed *)
      apply job_find_in in Ef.
      constructor; cbn [kn at_ jobs members sig_ok];
        [> assumption | exact I | assumption | exact I | constructor | intros j []
         | apply job_remove_nodup; assumption | | exact I | ].
      * apply Forall_forall. intros [y r] Hin. apply job_remove_in in Hin.
        exact (proj1 (Forall_forall _ _) Hjobs _ Hin).
      * intros j Hj. left. destruct (Hrest j Hj) as [H|[]].
        apply job_remove_keeps; [assumption|]. intros ->. exact (Hfin _ _ Ef Hj).
    + (* still running: wait for any child *)
      eapply inv_same_kids; eauto; cbn [sig_ok news_ok members builtin_ok pc_shape_ok]; auto.
      exists i. apply job_find_in. assumption.
    + eapply inv_same_kids; eauto; cbn; auto.
  - destruct (job_unfinished jb) as [|[y q] rest_] eqn:Eu; apply Some_inj in Hs; subst s';
      cbn [kn prog at_ status lastbg jobs trace].
    + (* all jobs have finished *)
      constructor; cbn [kn at_ jobs members sig_ok map];
        [> assumption | exact I | assumption | exact I | constructor | intros j []
         | constructor | constructor | exact I | ].
      intros j Hj. exfalso. destruct (Hrest j Hj) as [H|[]].
      apply in_map_iff in H. destruct H as [[z r] [<- Hin]]. cbn [fst] in *.
      destruct (job_unfinished_nil _ Eu _ _ Hin) as [y ->]. exact (Hfin _ _ Hin Hj).
    + rewrite <- Eu.
      constructor; cbn [kn at_ jobs members sig_ok news_ok pc_shape_ok];
        [> assumption | exact I | assumption | exact I | constructor | intros j []
         | apply job_unfinished_nodup; assumption | | | ].
      * apply Forall_forall. intros [z r] Hin. apply job_unfinished_in in Hin.
        exact (proj1 (Forall_forall _ _) Hjobs _ Hin).
      * exists y. rewrite Eu. rewrite (job_unfinished_head _ _ _ _ Eu). left; reflexivity.
      * intros j Hj. left. destruct (Hrest j Hj) as [H|[]].
        destruct (job_unfinished_keeps _ _ H) as [H'|[y' H']]; [assumption|].
        exfalso. exact (Hfin _ _ H' Hj).
Qed.

Lemma parent_reap_inv k pr st lb jb tr s' :
  Inv (mkState k pr PReap st lb jb tr) ->
  parent_step (mkState k pr PReap st lb jb tr) = Some s' -> Inv s'.
Proof.
  intros HI Hs. unfold parent_step in Hs; cbn [kn prog at_ status lastbg jobs trace] in Hs.
  pose proof HI as [Hre Hsh Hsig Hnews Hnd Hmem Hjnd Hjobs Hb Hrest]. cbn [kn at_ jobs sig_ok members] in *.
  assert (Hseen : forall i r, (r = WStop i \/ r = WCont i) -> forall k', kwait k TAny = (r, k') ->
            Inv (mkState k' pr PReap st lb jb tr)).
  { intros i r Hr k' Ew.
    destruct (kwait_seen _ _ _ _ i Ew Hr) as [ch [Hn [Ha [Hg [Hk _]]]]].
    assert (Hnr : cs ch <> Reaped) by (unfold is_alive in Ha; destruct (cs ch); discriminate).
    refine (inv_replace _ _ _ _ _ _ _ _ _ _ _ _ _ i ch (seen ch) HI Hn Hnr _ _ _ _ _ _ _ _ _);
      cbn [seen cs code reaps members sig_ok news_ok pc_shape_ok builtin_ok]; auto.
    - rewrite Hk. reflexivity.
    - rewrite Hk. cbn [set_kids blocked catching pending caught]. assumption. }
  destruct (kwait k TAny) as [[i x|i|i| |] k'] eqn:Ew; apply Some_inj in Hs; subst s'.
  - destruct (kwait_some _ _ _ _ _ Ew) as [ch [Hn [Hz [Hx [Hk Ht]]]]]. subst k' x.
    refine (inv_after_reap _ _ _ _ _ _ _ _ _ _ _ _ _ HI Hn Hz eq_refl _ _ _ _ _ _ _);
      cbn [members sig_ok news_ok pc_shape_ok builtin_ok]; auto; try constructor; intros j [].
  - unfold set_at; cbn [kn prog at_ status lastbg jobs trace].
    exact (Hseen i (WStop i) (or_introl eq_refl) k' eq_refl).
  - unfold set_at; cbn [kn prog at_ status lastbg jobs trace].
    exact (Hseen i (WCont i) (or_intror eq_refl) k' eq_refl).
  - unfold set_at; cbn [kn prog at_ status lastbg jobs trace].
    eapply inv_same_kids; eauto; cbn; auto.
  - unfold set_at; cbn [kn prog at_ status lastbg jobs trace].
    eapply inv_same_kids; eauto; cbn; auto.
Qed.

Lemma parent_step_inv s s' : Inv s -> parent_step s = Some s' -> Inv s'.
Proof.
  destruct s as [k pr a st lb jb tr]. intros HI Hs.
  destruct a as [|todo pids pf|m t c|t0| | |].
  - eapply parent_idle_inv; eauto.
  - eapply parent_fork_inv; eauto.
  - destruct m.
    + eapply parent_inst_inv; eauto.
    + eapply parent_poll_inv; eauto.
    + eapply parent_enter_inv; eauto.
    + eapply parent_blocked_inv; eauto.
  - eapply parent_builtin_inv; eauto.
  - eapply parent_reap_inv; eauto.
  - discriminate.
  - discriminate.
Qed.

Lemma step_inv s l s' : Inv s -> step s l = Some s' -> Inv s'.
Proof.
  intros HI Hs. destruct l as [|i]; cbn [step] in Hs.
  - eapply parent_step_inv; eauto.
  - destruct (child_step (kn s) i) as [k'|] eqn:E; [|discriminate].
    apply Some_inj in Hs. subst s'. eapply child_step_inv; eauto.
Qed.

Lemma run_inv ls : forall s s', Inv s -> run s ls = Some s' -> Inv s'.
Proof.
  induction ls as [|l ls IH]; intros s s' HI Hr; cbn [run] in Hr.
  - apply Some_inj in Hr. subst. assumption.
  - destruct (step s l) as [s1|] eqn:E; [|discriminate].
    eapply IH; [|eassumption]. eapply step_inv; eauto.
Qed.

Lemma reach_inv p ls s : run (init p) ls = Some s -> Inv s.
Proof. apply run_inv. apply inv_init. Qed.
