(* C13 — consequences of the invariant: no lost SIGCHLD, progress, no panic,
   every child reaped exactly once. *)
From Yv Require Import Common.Base C13.Model C13.ProofsKern C13.ProofsInv.
From Coq Require Import Arith.

(* wait would report a child (an exit, a stop or a continuation) *)
Definition has_news (k : kern) (t : target) : Prop :=
  fst (kwait k t) <> WNone /\ fst (kwait k t) <> WEchild.

Lemma no_lost_sigchld_lemma p ls s m t c :
  run (init p) ls = Some s -> at_ s = PWait m t c -> (m = SEnter \/ m = SBlocked) ->
  has_news (kn s) t -> pending (kn s) = true \/ 0 < caught (kn s).
Proof.
  intros Hr Ha Hm [Hn _]. pose proof (reach_inv _ _ _ Hr) as HI.
  pose proof (i_news _ HI) as Hnews. rewrite Ha in Hnews.
  destruct Hm as [-> | ->]; cbn [news_ok] in Hnews; destruct Hnews as [H|H]; auto; congruence.
Qed.

(* ------------------------------------------------------------------------ *)
Lemma parent_step_no_panic s s' :
  Inv s -> parent_step s = Some s' -> at_ s' <> PPanic.
Proof.
  intros HI Hs. destruct s as [k pr a st lb jb tr].
  unfold parent_step in Hs; cbn [kn prog at_ status lastbg jobs trace] in Hs.
  destruct a as [|todo pids pf|m t c|t0| | |].
  - destruct pr as [|[w x|l pf|t|] r]; apply Some_inj in Hs; subst s'; cbn; discriminate.
  - destruct todo as [|[w x] todo]; [destruct pids|]; apply Some_inj in Hs; subst s'; cbn; discriminate.
  - destruct m.
    + destruct (negb (blocked k)); [|destruct (negb (catching k))]; apply Some_inj in Hs; subst s'; cbn; discriminate.
    + destruct (kwait k t) as [[i x|i|i| |] k'] eqn:Ew.
      * destruct c as [[|p more] fin pf ra|t0]; apply Some_inj in Hs; subst s'; cbn; try discriminate.
        destruct ra; discriminate.
      * destruct c; apply Some_inj in Hs; subst s'; cbn; discriminate.
      * destruct c; apply Some_inj in Hs; subst s'; cbn; discriminate.
      * apply Some_inj in Hs; subst s'; cbn; discriminate.
      * destruct c as [more fin pf ra|t0]; apply Some_inj in Hs; subst s'; cbn; try discriminate.
        (* wait_for_subshell_to_finish got ECHILD: excluded by the invariant *)
        exfalso. pose proof HI as [_ Hsh _ _ _ Hmem _ _ _ _]. cbn [kn at_ jobs] in *.
        destruct t as [p|]; [|contradiction].
        destruct (Hmem p (or_introl eq_refl)) as [[d [Hd Hc]] _].
        apply kwait_echild in Ew. destruct Ew as [_ [Ew|[d' [Hd' Hc']]]]; [congruence|].
        rewrite Hd in Hd'. apply Some_inj in Hd'. subst d'. contradiction.
    + destruct (0 <? caught (k_unblock k)); apply Some_inj in Hs; subst s'; cbn; discriminate.
    + destruct (0 <? caught k); [|discriminate]. apply Some_inj in Hs; subst s'; cbn; discriminate.
  - destruct t0 as [i|].
    + destruct (job_find jb i) as [[x|]|]; apply Some_inj in Hs; subst s'; cbn; discriminate.
    + destruct (job_unfinished jb); apply Some_inj in Hs; subst s'; cbn; discriminate.
  - destruct (kwait k TAny) as [[i x|i|i| |] k']; apply Some_inj in Hs; subst s'; cbn; discriminate.
  - discriminate.
  - discriminate.
Qed.

Lemma run_no_panic ls : forall s s',
  Inv s -> at_ s <> PPanic -> run s ls = Some s' -> at_ s' <> PPanic.
Proof.
  induction ls as [|l ls IH]; intros s s' HI Hp Hr; cbn [run] in Hr.
  - apply Some_inj in Hr. subst. assumption.
  - destruct (step s l) as [s1|] eqn:E; [|discriminate].
    pose proof (step_inv _ _ _ HI E) as HI1.
    eapply IH; [exact HI1| |exact Hr].
    destruct l as [|i]; cbn [step] in E.
    + exact (parent_step_no_panic s s1 HI E).
    + destruct (child_step (kn s) i); [|discriminate]. apply Some_inj in E. subst s1. cbn. assumption.
Qed.

Lemma never_panics_lemma p ls s : run (init p) ls = Some s -> at_ s <> PPanic.
Proof. intros Hr. eapply run_no_panic; [apply inv_init | cbn; discriminate | exact Hr]. Qed.

(* ------------------------------------------------------------------------ *)
(* progress *)
Lemma running_child_steps k i c p :
  nth_error (kids k) i = Some c -> cs c = Running p -> child_step k i <> None.
Proof. intros Hn Hc. unfold child_step. rewrite Hn, Hc. destruct p as [|[|s t] r]; discriminate. Qed.

Definition some_stopped (k : kern) : Prop :=
  exists i c p, nth_error (kids k) i = Some c /\ cs c = Stopped p.

Lemma existsb_alive_nth l :
  existsb is_alive l = true ->
  exists i c, nth_error l i = Some c /\ ((exists p, cs c = Running p) \/ (exists p, cs c = Stopped p)).
Proof.
  induction l as [|x t IH]; cbn; [discriminate|].
  destruct (is_alive x) eqn:E.
  - intros _. exists 0, x. split; [reflexivity|]. unfold is_alive in E. destruct (cs x); try discriminate; eauto.
  - cbn. intros H. destruct (IH H) as [i [c [Hn Hc]]]. exists (S i), c. auto.
Qed.

(* unless the shell has exited, some process can take a step -- or a child is
   stopped and waits for a SIGCONT that no process is going to send *)
Lemma progress_inv s :
  Inv s -> at_ s <> PExit -> at_ s <> PPanic ->
  (exists l, step s l <> None) \/ some_stopped (kn s).
Proof.
  intros HI He Hp. destruct s as [k pr a st lb jb tr]. cbn [at_ kn] in *.
  assert (HP : parent_step (mkState k pr a st lb jb tr) <> None ->
               (exists l, step (mkState k pr a st lb jb tr) l <> None) \/ some_stopped k)
    by (intros H; left; exists LP; exact H).
  assert (HC : forall j d, nth_error (kids k) j = Some d -> is_alive d = true ->
               (exists l, step (mkState k pr a st lb jb tr) l <> None) \/ some_stopped k).
  { intros j d Hd Ha. unfold is_alive in Ha. destruct (cs d) as [p|p| |] eqn:Hc; try discriminate.
    - left. exists (LC j). cbn [step kn].
      pose proof (running_child_steps k j d p Hd Hc) as H.
      destruct (child_step k j); [discriminate | contradiction].
    - right. exists j, d, p. auto. }
  destruct a as [|todo pids pf|m t c|t0| | |]; try contradiction.
  - apply HP. unfold parent_step; cbn [kn prog at_ status lastbg jobs trace]. destruct pr as [|[w x|l pf|t|] r]; discriminate.
  - apply HP. unfold parent_step; cbn [kn prog at_ status lastbg jobs trace]. destruct todo as [|[w x] todo]; [destruct pids|]; discriminate.
  - destruct m.
    + apply HP. unfold parent_step; cbn [kn prog at_ status lastbg jobs trace].
      destruct (negb (blocked k)); [|destruct (negb (catching k))]; discriminate.
    + apply HP. unfold parent_step; cbn [kn prog at_ status lastbg jobs trace].
      destruct (kwait k t) as [[i x|i|i| |] k']; [destruct c as [[|p more] fin pf ra|t0] | destruct c | destruct c | | destruct c];
        discriminate.
    + apply HP. unfold parent_step; cbn [kn prog at_ status lastbg jobs trace]. destruct (0 <? caught (k_unblock k)); discriminate.
    + (* inside select *)
      pose proof (i_news _ HI) as Hnews. cbn [kn at_ news_ok] in Hnews.
      destruct Hnews as [Hc|Hw].
      * apply HP. unfold parent_step; cbn [kn prog at_ status lastbg jobs trace]. apply Nat.ltb_lt in Hc. rewrite Hc. discriminate.
      * destruct (kwait k t) as [r k'] eqn:Ew. cbn [fst] in Hw. subst r.
        apply kwait_none in Ew. destruct Ew as [_ Ew].
        destruct t as [j|].
        -- destruct Ew as [d [Hd [Ha _]]]. exact (HC j d Hd Ha).
        -- destruct Ew as [_ Hr]. destruct (existsb_alive_nth _ Hr) as [j [d [Hd Hc]]].
           apply (HC j d Hd). unfold is_alive. destruct Hc as [[p Hc]|[p Hc]]; rewrite Hc; reflexivity.
  - apply HP. unfold parent_step; cbn [kn prog at_ status lastbg jobs trace].
    destruct t0 as [i|]; [destruct (job_find jb i) as [[x|]|] | destruct (job_unfinished jb)]; discriminate.
  - apply HP. unfold parent_step; cbn [kn prog at_ status lastbg jobs trace]. destruct (kwait k TAny) as [[i x|i|i| |] k']; discriminate.
Qed.

Lemma progress_lemma p ls s :
  run (init p) ls = Some s -> final s = false ->
  (exists l, step s l <> None) \/ some_stopped (kn s).
Proof.
  intros Hr Hf. apply progress_inv.
  - eapply reach_inv; eauto.
  - unfold final in Hf. destruct (at_ s); try discriminate.
  - eapply never_panics_lemma; eauto.
Qed.

(* ------------------------------------------------------------------------ *)
(* every child is reaped at most once, and exactly once when it is Reaped *)
Lemma reaped_once_lemma p ls s c :
  run (init p) ls = Some s -> In c (kids (kn s)) ->
  reaps c = match cs c with Reaped => 1 | _ => 0 end.
Proof.
  intros Hr Hin. pose proof (reach_inv _ _ _ Hr) as HI.
  exact (proj1 (Forall_forall _ _) (i_reaps _ HI) c Hin).
Qed.

(* when the shell has finished, the children that are not reaped are
   asynchronous jobs the script has not waited for *)
Lemma no_zombie_lemma p ls s i c :
  run (init p) ls = Some s -> final s = true ->
  nth_error (kids (kn s)) i = Some c -> cs c <> Reaped -> In i (map fst (jobs s)).
Proof.
  intros Hr Hf Hn Hc. pose proof (reach_inv _ _ _ Hr) as HI.
  unfold final in Hf. destruct (at_ s) eqn:Ea; try discriminate.
  destruct (i_rest _ HI i) as [H|H]; [exists c; auto | assumption |].
  rewrite Ea in H. destruct H.
Qed.
