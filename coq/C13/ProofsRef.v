(* C13 — status fidelity and schedule independence: the "eventual result" of a
   state (what the sequential reading of the rest of the script gives) is the
   same before and after every step of every process. *)
From Yv Require Import Common.Base C13.Model C13.ProofsKern C13.ProofsInv C13.ProofsMain.
From Coq Require Import Arith.

Definition code_at (k : kern) (i : nat) : N :=
  match nth_error (kids k) i with Some c => code c | None => 0%N end.

Definition abs_jobs (k : kern) (jb : list (nat * option N)) : list (nat * N) :=
  map (fun j => (fst j, code_at k (fst j))) jb.

Definition abs (s : state) : rstate :=
  mkR (length (kids (kn s))) (abs_jobs (kn s) (jobs s)) (status s) (lastbg s) (trace s).

Definition fold_status (k : kern) (pids : list nat) (final : N) (pf : bool) : N :=
  fold_left (fun f p => pipe_status f (code_at k p) pf) pids final.

(* the logical state once the command in progress has completed *)
Definition complete (s : state) : rstate :=
  let r := abs s in
  match at_ s with
  | PFork todo pids pf =>
      mkR (r_n r + length todo) (r_jobs r)
          (pipe_result todo (fold_status (kn s) pids 0%N pf) pf) (r_lastbg r) (r_trace r)
  | PWait _ (TPid p) (KPipe more final pf _) =>
      mkR (r_n r) (r_jobs r) (fold_status (kn s) (p :: more) final pf) (r_lastbg r) (r_trace r)
  | PWait _ _ (KBuiltin t0) | PBuiltin t0 => ref_cmd r (CWait t0)
  | _ => r
  end.

Definition result (s : state) : rstate := fold_left ref_cmd (prog s) (complete s).

Lemma result_init p : result (init p) = ref_run p.
Proof. reflexivity. Qed.

(* ------------------------------------------------------------------------ *)
Lemma code_at_kids k1 k2 i : kids k1 = kids k2 -> code_at k1 i = code_at k2 i.
Proof. unfold code_at. intros ->. reflexivity. Qed.

Lemma code_at_upd k i c c' j :
  nth_error (kids k) i = Some c -> code c' = code c ->
  code_at (set_kids k (upd (kids k) i c')) j = code_at k j.
Proof.
  intros Hn Hc. unfold code_at, set_kids; cbn [kids].
  rewrite (nth_error_upd _ i j _ c Hn).
  destruct (Nat.eqb_spec i j) as [->|Hne]; [|reflexivity]. rewrite Hn. assumption.
Qed.

Lemma code_at_fork_old k w x j :
  j < length (kids k) -> code_at (fst (k_fork k w x)) j = code_at k j.
Proof.
  intros H. unfold code_at. destruct (fork_kids k w x) as [-> _].
  rewrite nth_error_app1 by assumption. reflexivity.
Qed.

Lemma code_at_fork_new k w x : code_at (fst (k_fork k w x)) (length (kids k)) = x.
Proof.
  unfold code_at. destruct (fork_kids k w x) as [-> _].
  rewrite nth_error_app2 by lia. rewrite Nat.sub_diag. reflexivity.
Qed.

Lemma abs_jobs_ext k1 k2 jb :
  (forall j, In j (map fst jb) -> code_at k1 j = code_at k2 j) ->
  abs_jobs k1 jb = abs_jobs k2 jb.
Proof.
  intros H. unfold abs_jobs. apply map_ext_in. intros [x r] Hin. cbn [fst]. f_equal.
  apply H. apply in_map_iff. exists (x, r). auto.
Qed.

Lemma fold_status_ext k1 k2 pids : forall f pf,
  (forall j, In j pids -> code_at k1 j = code_at k2 j) ->
  fold_status k1 pids f pf = fold_status k2 pids f pf.
Proof.
  unfold fold_status. induction pids as [|p t IH]; intros f pf H; cbn [fold_left]; [reflexivity|].
  rewrite (H p (or_introl eq_refl)). apply IH. intros j Hj. apply H. right; assumption.
Qed.

Lemma fold_status_app k pids x f pf :
  fold_status k (pids ++ [x]) f pf = pipe_status (fold_status k pids f pf) (code_at k x) pf.
Proof. unfold fold_status. rewrite fold_left_app. reflexivity. Qed.

Lemma abs_jobs_update k jb i x : abs_jobs k (job_update jb i x) = abs_jobs k jb.
Proof.
  unfold abs_jobs. induction jb as [|[y r] t IH]; cbn; [reflexivity|].
  destruct (y =? i); cbn; [reflexivity | rewrite IH; reflexivity].
Qed.

Lemma rjob_find_abs k jb i :
  rjob_find (abs_jobs k jb) i =
  match job_find jb i with Some _ => Some (code_at k i) | None => None end.
Proof.
  unfold abs_jobs. induction jb as [|[y r] t IH]; cbn; [reflexivity|].
  destruct (Nat.eqb_spec y i) as [->|Hne]; [reflexivity | assumption].
Qed.

Lemma rjob_remove_abs k jb i :
  rjob_remove (abs_jobs k jb) i = abs_jobs k (job_remove jb i).
Proof.
  unfold abs_jobs. induction jb as [|[y r] t IH]; cbn; [reflexivity|].
  destruct (y =? i); cbn; [reflexivity | rewrite IH; reflexivity].
Qed.

Lemma pipe_result_nil f pf : pipe_result [] f pf = f.
Proof. reflexivity. Qed.

(* ------------------------------------------------------------------------ *)
Lemma poll_not_echild k pr t c st lb jb tr :
  Inv (mkState k pr (PWait SPoll t c) st lb jb tr) -> fst (kwait k t) <> WEchild.
Proof.
  intros HI He. pose proof HI as [_ Hsh _ _ _ Hmem _ Hjobs Hb _]. cbn [kn at_ jobs] in *.
  destruct (kwait k t) as [r k'] eqn:Ew. cbn [fst] in He. subst r.
  apply kwait_echild in Ew. destruct Ew as [_ Ew].
  destruct c as [more fin pf ra|t0].
  - destruct t as [p|]; [|contradiction].
    destruct (Hmem p (or_introl eq_refl)) as [[d [Hd Hc]] _].
    destruct Ew as [Ew|[d' [Hd' Hc']]]; [congruence|].
    rewrite Hd in Hd'. apply Some_inj in Hd'. subst d'. contradiction.
  - destruct t as [p|]; [contradiction|].
    destruct Hb as [i Hi].
    pose proof (proj1 (Forall_forall _ _) Hjobs _ Hi) as [d [Hd Hc]]. cbn [fst snd] in *.
    apply Hc. apply Ew. eapply nth_error_In; eauto.
Qed.

Lemma parent_step_result s s' :
  Inv s -> parent_step s = Some s' -> result s' = result s.
Proof.
  intros HI Hs. destruct s as [k pr a st lb jb tr].
  pose proof HI as [Hre Hsh Hsig Hnews Hnd Hmem Hjnd Hjobs Hb Hrest]. cbn [kn at_ jobs] in *.
  unfold parent_step in Hs; cbn [kn prog at_ status lastbg jobs trace] in Hs.
  unfold set_at, finish in Hs; cbn [kn prog at_ status lastbg jobs trace] in Hs.
  unfold result.
  destruct a as [|todo pids pf|m t c|t0| | |].
  - (* PIdle *)
    destruct pr as [|[w x|l pf|t|] r]; apply Some_inj in Hs; subst s';
      cbn [prog fold_left set_at at_]; try reflexivity.
    f_equal. unfold complete, abs; cbn [at_ kn jobs status lastbg trace ref_cmd r_n r_jobs r_status r_lastbg r_trace k_fork].
    change (set_kids k (kids k ++ [mkChild (Running w) x 0])) with (fst (k_fork k w x)).
    destruct (fork_kids k w x) as [Hk _]. rewrite Hk, app_length. cbn [length].
    rewrite Nat.add_1_r. f_equal.
    unfold abs_jobs at 1. rewrite map_app. cbn [map fst].
    rewrite code_at_fork_new. f_equal.
    apply abs_jobs_ext. intros j Hj. apply code_at_fork_old. eapply jobs_lt; eauto.
  - (* PFork *)
    destruct todo as [|[w x] todo].
    + destruct pids as [|p more]; apply Some_inj in Hs; subst s'; cbn [prog set_at finish at_]; f_equal;
        unfold complete, abs; cbn [at_ kn jobs status lastbg trace r_n r_jobs r_status r_lastbg r_trace length];
        rewrite Nat.add_0_r; reflexivity.
    + apply Some_inj in Hs; subst s'. cbn [prog set_at at_]. f_equal.
      unfold complete, abs; cbn [at_ kn jobs status lastbg trace r_n r_jobs r_status r_lastbg r_trace k_fork length].
      change (set_kids k (kids k ++ [mkChild (Running w) x 0])) with (fst (k_fork k w x)).
      destruct (fork_kids k w x) as [Hk _]. rewrite Hk, app_length. cbn [length].
      cbn [members] in Hmem.
      rewrite fold_status_app, code_at_fork_new. cbn [pipe_result].
      f_equal; [lia | | ].
      * apply abs_jobs_ext. intros j Hj. apply code_at_fork_old. eapply jobs_lt; eauto.
      * f_equal. f_equal. apply fold_status_ext. intros j Hj. apply code_at_fork_old.
        destruct (Hmem j Hj) as [Hu _]. apply unreaped_at_lt. assumption.
  - (* PWait *)
    destruct m.
    + destruct (negb (blocked k)); [|destruct (negb (catching k))]; apply Some_inj in Hs; subst s'; reflexivity.
    + pose proof (poll_not_echild _ _ _ _ _ _ _ _ HI) as Hne.
      destruct (kwait k t) as [[i x| |] k'] eqn:Ew; cbn [fst] in Hne; [| |contradiction].
      * destruct (kwait_some _ _ _ _ _ Ew) as [ch [Hn [Hz [Hx [Hk Ht]]]]]. subst k' x.
        assert (Hcode : forall j, code_at (set_kids k (upd (kids k) i (reap ch))) j = code_at k j)
          by (intros j; apply (code_at_upd k i ch (reap ch) j Hn); reflexivity).
        assert (Hci : code_at k i = code ch) by (unfold code_at; rewrite Hn; reflexivity).
        destruct c as [more fin pf ra|t0].
        -- destruct t as [p|]; [|contradiction]. subst i.
           destruct more as [|p' more'].
           ++ apply Some_inj in Hs; subst s'; cbn [prog at_]; f_equal.
              destruct ra; unfold complete, abs;
                cbn [at_ kn jobs status lastbg trace r_n r_jobs r_status r_lastbg r_trace];
                unfold set_kids at 1; cbn [kids]; rewrite upd_length, abs_jobs_update;
                (f_equal; [apply abs_jobs_ext; intros j _; apply Hcode|]);
                unfold fold_status; cbn [fold_left]; rewrite Hci; reflexivity.
           ++ apply Some_inj in Hs; subst s'; cbn [prog at_]; f_equal.
              unfold complete, abs;
                cbn [at_ kn jobs status lastbg trace r_n r_jobs r_status r_lastbg r_trace].
              unfold set_kids at 1; cbn [kids]. rewrite upd_length, abs_jobs_update.
              f_equal; [apply abs_jobs_ext; intros j _; apply Hcode|].
              rewrite (fold_status_ext _ k (p' :: more')) by (intros j _; apply Hcode).
              unfold fold_status; cbn [fold_left]. rewrite Hci. reflexivity.
        -- apply Some_inj in Hs; subst s'; cbn [prog at_]; f_equal.
           unfold complete, abs; cbn [at_ kn jobs status lastbg trace].
           destruct t; unfold set_kids at 1; cbn [kids]; rewrite upd_length, abs_jobs_update;
             f_equal; f_equal; apply abs_jobs_ext; intros j _; apply Hcode.
      * apply Some_inj in Hs; subst s'; reflexivity.
    + destruct (0 <? caught (k_unblock k)); apply Some_inj in Hs; subst s'; cbn [prog set_at at_]; f_equal;
        unfold complete, abs; cbn [at_ kn jobs status lastbg trace]; reflexivity.
    + destruct (0 <? caught k); [|discriminate]. apply Some_inj in Hs; subst s'; reflexivity.
  - (* PBuiltin *)
    destruct t0 as [i|].
    + destruct (job_find jb i) as [[x|]|] eqn:Ef; apply Some_inj in Hs; subst s';
        cbn [prog set_at finish at_]; f_equal;
        unfold complete, abs; cbn [at_ kn jobs status lastbg trace ref_cmd r_n r_jobs r_status r_lastbg r_trace];
        rewrite ?rjob_find_abs, ?Ef; try reflexivity.
      apply job_find_in in Ef.
      pose proof (proj1 (Forall_forall _ _) Hjobs _ Ef) as [d [Hd [Hc Hx]]]. cbn [fst snd] in *.
      rewrite rjob_remove_abs. unfold code_at. rewrite Hd. subst x. reflexivity.
    + destruct (job_unfinished jb) as [|y rest_] eqn:Eu; apply Some_inj in Hs; subst s';
        cbn [prog at_]; f_equal; reflexivity.
  - (* PReap *)
    destruct (kwait k TAny) as [[i x| |] k'] eqn:Ew; apply Some_inj in Hs; subst s'; try reflexivity.
    destruct (kwait_some _ _ _ _ _ Ew) as [ch [Hn [Hz [Hx [Hk Ht]]]]]. subst k' x.
    cbn [prog at_]. f_equal. unfold complete, abs; cbn [at_ kn jobs status lastbg trace].
    unfold set_kids at 1; cbn [kids]. rewrite upd_length, abs_jobs_update. f_equal.
    apply abs_jobs_ext. intros j _. apply (code_at_upd k i ch (reap ch) j Hn). reflexivity.
  - discriminate.
  - discriminate.
Qed.
