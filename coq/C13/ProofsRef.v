(* C13 — status fidelity and schedule independence: the "eventual result" of a
   state (what the sequential reading of the rest of the script gives) is the
   same before and after every step of every process. *)
From Yv Require Import Common.Base C13.Model C13.ProofsKern C13.ProofsInv C13.ProofsMain.
From Coq Require Import Arith.

Definition code_at (k : kern) (i : nat) : N :=
  match nth_error (kids k) i with Some c => code c | None => 0%N end.

Definition abs_jobs (k : kern) (jb : list (nat * option N)) : list (nat * N) :=
  map (fun j => (fst j, code_at k (fst j))) jb.

Definition abs (s : state) : rstate :=
  mkR (length (kids (kn s))) (abs_jobs (kn s) (jobs s)) (status s) (lastbg s) (trace s).

Definition fold_status (k : kern) (pids : list nat) (final : N) (pf : bool) : N :=
  fold_left (fun f p => pipe_status f (code_at k p) pf) pids final.

(* the logical state once the command in progress has completed *)
Definition complete (s : state) : rstate :=
  let r := abs s in
  match at_ s with
  | PFork todo pids pf =>
      mkR (r_n r + length todo) (r_jobs r)
          (pipe_result todo (fold_status (kn s) pids 0%N pf) pf) (r_lastbg r) (r_trace r)
  | PWait _ (TPid p) (KPipe more final pf _) =>
      mkR (r_n r) (r_jobs r) (fold_status (kn s) (p :: more) final pf) (r_lastbg r) (r_trace r)
  | PWait _ _ (KBuiltin t0) | PBuiltin t0 => ref_cmd r (CWait t0)
  | _ => r
  end.

Definition result (s : state) : rstate := fold_left ref_cmd (prog s) (complete s).

Lemma result_init p : result (init p) = ref_run p.
Proof. reflexivity. Qed.

(* ------------------------------------------------------------------------ *)
Lemma code_at_kids k1 k2 i : kids k1 = kids k2 -> code_at k1 i = code_at k2 i.
Proof. unfold code_at. intros ->. reflexivity. Qed.

Lemma code_at_upd k i c c' j :
  nth_error (kids k) i = Some c -> code c' = code c ->
  code_at (set_kids k (upd (kids k) i c')) j = code_at k j.
Proof.
  intros Hn Hc. unfold code_at, set_kids; cbn [kids].
  rewrite (nth_error_upd _ i j _ c Hn).
  destruct (Nat.eqb_spec i j) as [->|Hne]; [|reflexivity]. rewrite Hn. assumption.
Qed.

Lemma code_at_fork_old k w x j :
  j < length (kids k) -> code_at (fst (k_fork k w x)) j = code_at k j.
Proof.
  intros H. unfold code_at. destruct (fork_kids k w x) as [-> _].
  rewrite nth_error_app1 by assumption. reflexivity.
Qed.

Lemma code_at_fork_new k w x : code_at (fst (k_fork k w x)) (length (kids k)) = x.
Proof.
  unfold code_at. destruct (fork_kids k w x) as [-> _].
  rewrite nth_error_app2 by lia. rewrite Nat.sub_diag. reflexivity.
Qed.

Lemma abs_jobs_ext k1 k2 jb :
  (forall j, In j (map fst jb) -> code_at k1 j = code_at k2 j) ->
  abs_jobs k1 jb = abs_jobs k2 jb.
Proof.
  intros H. unfold abs_jobs. apply map_ext_in. intros [x r] Hin. cbn [fst]. f_equal.
  apply H. apply in_map_iff. exists (x, r). auto.
Qed.

Lemma fold_status_ext k1 k2 pids : forall f pf,
  (forall j, In j pids -> code_at k1 j = code_at k2 j) ->
  fold_status k1 pids f pf = fold_status k2 pids f pf.
Proof.
  unfold fold_status. induction pids as [|p t IH]; intros f pf H; cbn [fold_left]; [reflexivity|].
  rewrite (H p (or_introl eq_refl)). apply IH. intros j Hj. apply H. right; assumption.
Qed.

Lemma fold_status_app k pids x f pf :
  fold_status k (pids ++ [x]) f pf = pipe_status (fold_status k pids f pf) (code_at k x) pf.
Proof. unfold fold_status. rewrite fold_left_app. reflexivity. Qed.

Lemma abs_jobs_update k jb i x : abs_jobs k (job_update jb i x) = abs_jobs k jb.
Proof.
  unfold abs_jobs. induction jb as [|[y r] t IH]; cbn; [reflexivity|].
  destruct (y =? i); cbn; [reflexivity | rewrite IH; reflexivity].
Qed.

Lemma rjob_find_abs k jb i :
  rjob_find (abs_jobs k jb) i =
  match job_find jb i with Some _ => Some (code_at k i) | None => None end.
Proof.
  unfold abs_jobs. induction jb as [|[y r] t IH]; cbn; [reflexivity|].
  destruct (Nat.eqb_spec y i) as [->|Hne]; [reflexivity | assumption].
Qed.

Lemma rjob_remove_abs k jb i :
  rjob_remove (abs_jobs k jb) i = abs_jobs k (job_remove jb i).
Proof.
  unfold abs_jobs. induction jb as [|[y r] t IH]; cbn; [reflexivity|].
  destruct (y =? i); cbn; [reflexivity | rewrite IH; reflexivity].
Qed.

Lemma pipe_result_nil f pf : pipe_result [] f pf = f.
Proof. reflexivity. Qed.

(* ------------------------------------------------------------------------ *)
Lemma poll_not_echild k pr t c st lb jb tr :
  Inv (mkState k pr (PWait SPoll t c) st lb jb tr) -> fst (kwait k t) <> WEchild.
Proof.
  intros HI He. pose proof HI as [_ Hsh _ _ _ Hmem _ Hjobs Hb _]. cbn [kn at_ jobs] in *.
  destruct (kwait k t) as [r k'] eqn:Ew. cbn [fst] in He. subst r.
  apply kwait_echild in Ew. destruct Ew as [_ Ew].
  destruct c as [more fin pf ra|t0].
  - destruct t as [p|]; [|contradiction].
    destruct (Hmem p (or_introl eq_refl)) as [[d [Hd Hc]] _].
    destruct Ew as [Ew|[d' [Hd' Hc']]]; [congruence|].
    rewrite Hd in Hd'. apply Some_inj in Hd'. subst d'. contradiction.
  - destruct t as [p|]; [contradiction|].
    destruct Hb as [i Hi].
    pose proof (proj1 (Forall_forall _ _) Hjobs _ Hi) as [d [Hd Hc]]. cbn [fst snd] in *.
    apply Hc. apply Ew. eapply nth_error_In; eauto.
Qed.

Lemma parent_step_result s s' :
  Inv s -> parent_step s = Some s' -> result s' = result s.
Proof.
  intros HI Hs. destruct s as [k pr a st lb jb tr].
  pose proof HI as [Hre Hsh Hsig Hnews Hnd Hmem Hjnd Hjobs Hb Hrest]. cbn [kn at_ jobs] in *.
  unfold parent_step in Hs; cbn [kn prog at_ status lastbg jobs trace] in Hs.
  unfold set_at, finish in Hs; cbn [kn prog at_ status lastbg jobs trace] in Hs.
  unfold result.
  destruct a as [|todo pids pf|m t c|t0| | |].
  - (* PIdle *)
    destruct pr as [|[w x|l pf|t|] r]; apply Some_inj in Hs; subst s';
      cbn [prog fold_left set_at at_]; try reflexivity.
    f_equal. unfold complete, abs; cbn [at_ kn jobs status lastbg trace ref_cmd r_n r_jobs r_status r_lastbg r_trace k_fork].
    change (set_kids k (kids k ++ [mkChild (Running w) x 0 false])) with (fst (k_fork k w x)).
    destruct (fork_kids k w x) as [Hk _]. rewrite Hk, app_length. cbn [length].
    rewrite Nat.add_1_r. f_equal.
    unfold abs_jobs at 1. rewrite map_app. cbn [map fst].
    rewrite code_at_fork_new. f_equal.
    apply abs_jobs_ext. intros j Hj. apply code_at_fork_old. eapply jobs_lt; eauto.
  - (* PFork *)
    destruct todo as [|[w x] todo].
    + destruct pids as [|p more]; apply Some_inj in Hs; subst s'; cbn [prog set_at finish at_]; f_equal;
        unfold complete, abs; cbn [at_ kn jobs status lastbg trace r_n r_jobs r_status r_lastbg r_trace length];
        rewrite Nat.add_0_r; reflexivity.
    + apply Some_inj in Hs; subst s'. cbn [prog set_at at_]. f_equal.
      unfold complete, abs; cbn [at_ kn jobs status lastbg trace r_n r_jobs r_status r_lastbg r_trace k_fork length].
      change (set_kids k (kids k ++ [mkChild (Running w) x 0 false])) with (fst (k_fork k w x)).
      destruct (fork_kids k w x) as [Hk _]. rewrite Hk, app_length. cbn [length].
      cbn [members] in Hmem.
      rewrite fold_status_app, code_at_fork_new. cbn [pipe_result].
      f_equal; [lia | | ].
      * apply abs_jobs_ext. intros j Hj. apply code_at_fork_old. eapply jobs_lt; eauto.
      * f_equal. f_equal. apply fold_status_ext. intros j Hj. apply code_at_fork_old.
        destruct (Hmem j Hj) as [Hu _]. apply unreaped_at_lt. assumption.
  - (* PWait *)
    destruct m.
    + destruct (negb (blocked k)); [|destruct (negb (catching k))]; apply Some_inj in Hs; subst s'; reflexivity.
    + pose proof (poll_not_echild _ _ _ _ _ _ _ _ HI) as Hne.
      assert (Hseen : forall i r k', (r = WStop i \/ r = WCont i) -> kwait k t = (r, k') ->
                length (kids k') = length (kids k) /\ forall j, code_at k' j = code_at k j).
      { intros i r k' Hr Ew. destruct (kwait_seen _ _ _ _ i Ew Hr) as [ch [Hn [_ [_ [Hk _]]]]]. subst k'.
        split; [unfold set_kids; cbn [kids]; apply upd_length|].
        intros j. apply (code_at_upd k i ch (seen ch) j Hn). reflexivity. }
      destruct (kwait k t) as [[i x|i|i| |] k'] eqn:Ew; cbn [fst] in Hne; [| | | |contradiction].
      2: { destruct (Hseen i _ k' (or_introl eq_refl) eq_refl) as [Hlen Hcode].
           destruct c as [more fin pf ra|t0]; apply Some_inj in Hs; subst s'; cbn [prog at_ set_at]; f_equal;
             unfold complete, abs; cbn [at_ kn jobs status lastbg trace]; rewrite Hlen;
             rewrite (abs_jobs_ext k' k jb) by (intros j _; apply Hcode); try reflexivity.
           - destruct t as [tp|]; try reflexivity.
             rewrite (fold_status_ext k' k (tp :: more)) by (intros j _; apply Hcode). reflexivity.
           - destruct t; reflexivity. }
      2: { destruct (Hseen i _ k' (or_intror eq_refl) eq_refl) as [Hlen Hcode].
           destruct c as [more fin pf ra|t0]; apply Some_inj in Hs; subst s'; cbn [prog at_ set_at]; f_equal;
             unfold complete, abs; cbn [at_ kn jobs status lastbg trace]; rewrite Hlen;
             rewrite (abs_jobs_ext k' k jb) by (intros j _; apply Hcode); try reflexivity.
           - destruct t as [tp|]; try reflexivity.
             rewrite (fold_status_ext k' k (tp :: more)) by (intros j _; apply Hcode). reflexivity.
           - destruct t; reflexivity. }
      * destruct (kwait_some _ _ _ _ _ Ew) as [ch [Hn [Hz [Hx [Hk Ht]]]]]. subst k' x.
        assert (Hcode : forall j, code_at (set_kids k (upd (kids k) i (reap ch))) j = code_at k j)
          by (intros j; apply (code_at_upd k i ch (reap ch) j Hn); reflexivity).
        assert (Hci : code_at k i = code ch) by (unfold code_at; rewrite Hn; reflexivity).
        destruct c as [more fin pf ra|t0].
        -- destruct t as [p|]; [|contradiction]. subst i.
           destruct more as [|p' more'].
           ++ apply Some_inj in Hs; subst s'; cbn [prog at_]; f_equal.
              destruct ra; unfold complete, abs;
                cbn [at_ kn jobs status lastbg trace r_n r_jobs r_status r_lastbg r_trace];
                unfold set_kids at 1; cbn [kids]; rewrite upd_length, abs_jobs_update;
                (f_equal; [apply abs_jobs_ext; intros j _; apply Hcode|]);
                unfold fold_status; cbn [fold_left]; rewrite Hci; reflexivity.
           ++ apply Some_inj in Hs; subst s'; cbn [prog at_]; f_equal.
              unfold complete, abs;
                cbn [at_ kn jobs status lastbg trace r_n r_jobs r_status r_lastbg r_trace].
              unfold set_kids at 1; cbn [kids]. rewrite upd_length, abs_jobs_update.
              f_equal; [apply abs_jobs_ext; intros j _; apply Hcode|].
              rewrite (fold_status_ext _ k (p' :: more')) by (intros j _; apply Hcode).
              unfold fold_status; cbn [fold_left]. rewrite Hci. reflexivity.
        -- apply Some_inj in Hs; subst s'; cbn [prog at_]; f_equal.
           unfold complete, abs; cbn [at_ kn jobs status lastbg trace].
           destruct t; unfold set_kids at 1; cbn [kids]; rewrite upd_length, abs_jobs_update;
             f_equal; f_equal; apply abs_jobs_ext; intros j _; apply Hcode.
      * apply Some_inj in Hs; subst s'; reflexivity.
    + assert (Hku : kids (k_unblock k) = kids k)
        by (unfold k_unblock, deliver; destruct (pending k); [destruct (catching k)|]; reflexivity).
      destruct (k_unblock k) as [l1 a1 b1 c1 d1]. cbn [kids] in Hku. subst l1.
      destruct (0 <? caught (mkKern (kids k) a1 b1 c1 d1)); apply Some_inj in Hs; subst s'; reflexivity.
    + destruct (0 <? caught k); [|discriminate]. apply Some_inj in Hs; subst s'; reflexivity.
  - (* PBuiltin *)
    destruct t0 as [i|].
    + destruct (job_find jb i) as [[x|]|] eqn:Ef; apply Some_inj in Hs; subst s';
        cbn [prog set_at finish at_]; f_equal;
        unfold complete, abs; cbn [at_ kn jobs status lastbg trace ref_cmd r_n r_jobs r_status r_lastbg r_trace];
        rewrite ?rjob_find_abs, ?Ef; try reflexivity.
      apply job_find_in in Ef.
      pose proof (proj1 (Forall_forall _ _) Hjobs _ Ef) as [d [Hd [Hc Hx]]]. cbn [fst snd] in *.
      rewrite rjob_remove_abs. unfold code_at. rewrite Hd. subst x. reflexivity.
    + destruct (job_unfinished jb) as [|y rest_] eqn:Eu; apply Some_inj in Hs; subst s';
        cbn [prog at_]; f_equal; reflexivity.
  - (* PReap *)
    destruct (kwait k TAny) as [[i x|i|i| |] k'] eqn:Ew; apply Some_inj in Hs; subst s'; try reflexivity.
    + destruct (kwait_some _ _ _ _ _ Ew) as [ch [Hn [Hz [Hx [Hk Ht]]]]]. subst k' x.
      cbn [prog at_]. f_equal. unfold complete, abs; cbn [at_ kn jobs status lastbg trace].
      unfold set_kids at 1; cbn [kids]. rewrite upd_length, abs_jobs_update. f_equal.
      apply abs_jobs_ext. intros j _. apply (code_at_upd k i ch (reap ch) j Hn). reflexivity.
    + destruct (kwait_seen _ _ _ _ i Ew (or_introl eq_refl)) as [ch [Hn [_ [_ [Hk _]]]]]. subst k'.
      cbn [prog at_ set_at]. f_equal. unfold complete, abs; cbn [at_ kn jobs status lastbg trace].
      unfold set_kids at 1; cbn [kids]. rewrite upd_length. f_equal.
      apply abs_jobs_ext. intros j _. apply (code_at_upd k i ch (seen ch) j Hn). reflexivity.
    + destruct (kwait_seen _ _ _ _ i Ew (or_intror eq_refl)) as [ch [Hn [_ [_ [Hk _]]]]]. subst k'.
      cbn [prog at_ set_at]. f_equal. unfold complete, abs; cbn [at_ kn jobs status lastbg trace].
      unfold set_kids at 1; cbn [kids]. rewrite upd_length. f_equal.
      apply abs_jobs_ext. intros j _. apply (code_at_upd k i ch (seen ch) j Hn). reflexivity.
  - discriminate.
  - discriminate.
Qed.

Lemma signal_codes k sg t :
  length (kids (k_signal k sg t)) = length (kids k) /\ forall j, code_at (k_signal k sg t) j = code_at k j.
Proof.
  unfold k_signal. destruct (nth_error (kids k) t) as [c|] eqn:Hn; [|auto].
  destruct sg; destruct (cs c); auto;
    (split; [rewrite kids_raise; unfold set_kids; cbn [kids]; apply upd_length|]); intros j;
    match goal with |- code_at (raise_chld ?X) _ = _ =>
      rewrite (code_at_kids (raise_chld X) X j (kids_raise X)) end;
    match goal with |- context [upd _ _ ?c'] =>
      exact (code_at_upd k t c c' j Hn eq_refl) end.
Qed.

Lemma child_step_codes k i k' :
  child_step k i = Some k' ->
  length (kids k') = length (kids k) /\ forall j, code_at k' j = code_at k j.
Proof.
  unfold child_step. destruct (nth_error (kids k) i) as [c|] eqn:Hn; [|discriminate].
  destruct (cs c) as [[|[|sg t] r]| | |]; try discriminate; intros H; apply Some_inj in H; subst k'.
  - split; [rewrite kids_raise; unfold set_kids; cbn [kids]; apply upd_length|].
    intros j.
    match goal with |- code_at (raise_chld ?X) _ = _ =>
      rewrite (code_at_kids (raise_chld X) X j (kids_raise X)) end.
    match goal with |- context [upd _ _ ?c'] => exact (code_at_upd k i c c' j Hn eq_refl) end.
  - unfold set_kids; cbn [kids]. split; [apply upd_length|].
    intros j. match goal with |- context [upd _ _ ?c'] => exact (code_at_upd k i c c' j Hn eq_refl) end.
  - destruct (signal_codes (set_kids k (upd (kids k) i (mkChild (Running r) (code c) (reaps c) (chg c)))) sg t)
      as [H1 H2].
    rewrite H1. unfold set_kids at 1; cbn [kids]. split; [apply upd_length|].
    intros j. rewrite H2. match goal with |- context [upd _ _ ?c'] => exact (code_at_upd k i c c' j Hn eq_refl) end.
Qed.

Lemma child_step_result s i k' :
  child_step (kn s) i = Some k' -> result (set_at s k' (at_ s)) = result s.
Proof.
  intros Hst. destruct (child_step_codes _ _ _ Hst) as [Hlen Hca].
  unfold result, set_at; cbn [prog]. f_equal.
  unfold complete, abs; cbn [at_ kn jobs status lastbg trace].
  rewrite Hlen. rewrite (abs_jobs_ext k' (kn s) (jobs s)) by (intros j _; apply Hca).
  destruct (at_ s) as [|todo pids pf|m t c0|t0| | |]; try reflexivity.
  - rewrite (fold_status_ext k' (kn s) pids) by (intros j _; apply Hca). reflexivity.
  - destruct t as [p|]; destruct c0 as [more fin pf ra|t0]; try reflexivity.
    rewrite (fold_status_ext k' (kn s) (p :: more)) by (intros j _; apply Hca). reflexivity.
Qed.

Lemma step_result s l s' : Inv s -> step s l = Some s' -> result s' = result s.
Proof.
  intros HI Hs. destruct l as [|i]; cbn [step] in Hs.
  - eapply parent_step_result; eauto.
  - destruct (child_step (kn s) i) as [k'|] eqn:E; [|discriminate].
    apply Some_inj in Hs. subst s'. exact (child_step_result s i k' E).
Qed.

Lemma run_result ls : forall s s', Inv s -> run s ls = Some s' -> result s' = result s.
Proof.
  induction ls as [|l ls IH]; intros s s' HI Hr; cbn [run] in Hr.
  - apply Some_inj in Hr. subst. reflexivity.
  - destruct (step s l) as [s1|] eqn:E; [|discriminate].
    rewrite (IH s1 s' (step_inv _ _ _ HI E) Hr). eapply step_result; eauto.
Qed.

(* the shell exits only when the script is exhausted *)
Lemma exit_prog_nil ls : forall s s',
  (at_ s = PExit -> prog s = []) -> run s ls = Some s' -> at_ s' = PExit -> prog s' = [].
Proof.
  induction ls as [|l ls IH]; intros s s' H0 Hr; cbn [run] in Hr.
  - apply Some_inj in Hr. subst. assumption.
  - destruct (step s l) as [s1|] eqn:E; [|discriminate].
    eapply IH; [|exact Hr]. clear IH Hr.
    destruct l as [|i]; cbn [step] in E.
    + destruct s as [k pr a st lb jb tr]. unfold parent_step in E; cbn [kn prog at_ status lastbg jobs trace] in E.
      destruct a as [|todo pids pf|m t c|t0| | |]; try discriminate.
      * destruct pr as [|[w x|l pf|t|] r]; apply Some_inj in E; subst s1; cbn; try discriminate. reflexivity.
      * destruct todo as [|[w x] todo]; [destruct pids|]; apply Some_inj in E; subst s1; cbn; discriminate.
      * destruct m.
        -- destruct (negb (blocked k)); [|destruct (negb (catching k))]; apply Some_inj in E; subst s1; cbn; discriminate.
        -- destruct (kwait k t) as [[i x|i|i| |] k'].
           ++ destruct c as [[|p more] fin pf ra|t0]; apply Some_inj in E; subst s1; cbn; try discriminate.
              destruct ra; discriminate.
           ++ destruct c; apply Some_inj in E; subst s1; cbn; discriminate.
           ++ destruct c; apply Some_inj in E; subst s1; cbn; discriminate.
           ++ apply Some_inj in E; subst s1; cbn; discriminate.
           ++ destruct c; apply Some_inj in E; subst s1; cbn; discriminate.
        -- destruct (0 <? caught (k_unblock k)); apply Some_inj in E; subst s1; cbn; discriminate.
        -- destruct (0 <? caught k); [|discriminate]. apply Some_inj in E; subst s1; cbn; discriminate.
      * destruct t0 as [i|]; [destruct (job_find jb i) as [[x|]|] | destruct (job_unfinished jb)];
          apply Some_inj in E; subst s1; cbn; discriminate.
      * destruct (kwait k TAny) as [[i x|i|i| |] k']; apply Some_inj in E; subst s1; cbn; discriminate.
    + destruct (child_step (kn s) i); [|discriminate]. apply Some_inj in E. subst s1. cbn. assumption.
Qed.

(* status fidelity and schedule independence *)
Lemma schedule_independent_lemma p ls s :
  run (init p) ls = Some s -> final s = true ->
  trace s = r_trace (ref_run p) /\ status s = r_status (ref_run p) /\
  lastbg s = r_lastbg (ref_run p) /\ map fst (jobs s) = map fst (r_jobs (ref_run p)).
Proof.
  intros Hr Hf.
  pose proof (run_result _ _ _ (inv_init p) Hr) as Hres. rewrite result_init in Hres.
  unfold final in Hf. destruct (at_ s) eqn:Ea; try discriminate.
  assert (Hp : prog s = []).
  { eapply exit_prog_nil; [|exact Hr|exact Ea]. cbn. discriminate. }
  unfold result in Hres. rewrite Hp in Hres. cbn [fold_left] in Hres.
  unfold complete in Hres. rewrite Ea in Hres. rewrite <- Hres.
  unfold abs; cbn [r_trace r_status r_lastbg r_jobs]. repeat split.
  unfold abs_jobs. rewrite map_map. cbn [fst]. reflexivity.
Qed.

(* two complete runs of the same script agree, whatever the schedules *)
Lemma any_two_schedules_agree_lemma p ls1 ls2 s1 s2 :
  run (init p) ls1 = Some s1 -> final s1 = true ->
  run (init p) ls2 = Some s2 -> final s2 = true ->
  trace s1 = trace s2 /\ status s1 = status s2 /\ lastbg s1 = lastbg s2.
Proof.
  intros H1 F1 H2 F2.
  destruct (schedule_independent_lemma _ _ _ H1 F1) as [A1 [B1 [C1 _]]].
  destruct (schedule_independent_lemma _ _ _ H2 F2) as [A2 [B2 [C2 _]]].
  repeat split; congruence.
Qed.

(* a script that ends with `wait` leaves no child alive or unreaped *)
Lemma ref_wait_all_jobs p : r_jobs (ref_run (p ++ [CWait None])) = [].
Proof. unfold ref_run. rewrite fold_left_app. reflexivity. Qed.

Lemma ref_probe_jobs r : r_jobs (ref_cmd r CProbe) = r_jobs r.
Proof. reflexivity. Qed.

Lemma all_reaped_after_wait_lemma p ls s c :
  run (init (p ++ [CWait None])) ls = Some s -> final s = true ->
  In c (kids (kn s)) -> cs c = Reaped /\ reaps c = 1.
Proof.
  intros Hr Hf Hin.
  destruct (schedule_independent_lemma _ _ _ Hr Hf) as [_ [_ [_ Hj]]].
  rewrite ref_wait_all_jobs in Hj. cbn [map] in Hj.
  destruct (In_nth_error _ _ Hin) as [i Hi].
  destruct (cs c) eqn:Ec;
    try (pose proof (no_zombie_lemma _ _ _ i c Hr Hf Hi) as H; rewrite Hj in H;
         exfalso; apply H; congruence).
  split; [reflexivity|]. pose proof (reaped_once_lemma _ _ _ c Hr Hin) as H.
  rewrite Ec in H. assumption.
Qed.
