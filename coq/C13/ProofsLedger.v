(* C13 — the kernel part of the model satisfies the ledger specification of
   Spec.v for every history of operations (= the stream-K oracle never rejects
   the model). *)
From Yv Require Import Common.Base C13.Model C13.Spec C13.Run C13.ProofsKern C13.ProofsInv.
From Coq Require Import Arith.

Fixpoint model_khist (k : kern) (ops : list kop) : list (kop * kobs * bool) :=
  match ops with
  | [] => []
  | o :: r =>
      match kstep k o with
      | Some (b, k') => (o, b, pending k') :: model_khist k' r
      | None => []
      end
  end.

Fixpoint kops_ok (k : kern) (ops : list kop) : bool :=
  match ops with
  | [] => true
  | o :: r => match kstep k o with Some (_, k') => kops_ok k' r | None => false end
  end.

Definition is_stopped (c : child) : bool := match cs c with Stopped _ => true | _ => false end.

Record LSim (k : kern) (g : ledger) : Prop := mkLSim {
  ls_born : born g = map code (kids k);
  ls_in : forall i c, nth_error (kids k) i = Some c ->
            mem i (exited g) = negb (is_alive c) /\ mem i (reported g) = is_reaped c /\
            mem i (halted g) = is_stopped c /\ mem i (fresh g) = is_alive c && chg c;
  ls_out : forall i, length (kids k) <= i ->
            mem i (exited g) = false /\ mem i (reported g) = false /\
            mem i (halted g) = false /\ mem i (fresh g) = false;
  ls_catch : l_catching g = catching k;
  ls_block : l_blocked g = blocked k;
  ls_pend : owed_pending g = pending k;
  ls_caught : owed_caught g = caught k }.

Lemma lsim_init : LSim kern0 ledger0.
Proof. constructor; cbn; auto. intros [|i] c H; discriminate. Qed.

Lemma mem_cons i j l : mem i (j :: l) = (i =? j) || mem i l.
Proof. reflexivity. Qed.

Lemma mem_drop i j l : mem i (drop j l) = mem i l && negb (i =? j).
Proof.
  unfold drop. induction l as [|x t IH]; [reflexivity|]. cbn [filter].
  destruct (Nat.eqb_spec x j) as [->|Hne]; cbn [negb].
  - rewrite IH. rewrite mem_cons. destruct (Nat.eqb_spec i j); cbn; [rewrite andb_false_r; reflexivity | reflexivity].
  - rewrite !mem_cons, IH. destruct (Nat.eqb_spec i x) as [->|]; cbn [orb]; [|reflexivity].
    destruct (Nat.eqb_spec x j); [contradiction|]. reflexivity.
Qed.

Lemma mem_add i j l : mem i (add j l) = (i =? j) || mem i l.
Proof.
  unfold add. destruct (mem j l) eqn:E; [|reflexivity].
  destruct (Nat.eqb_spec i j) as [->|]; [rewrite E; reflexivity | reflexivity].
Qed.

Lemma existsb_seq_nth {A} (f : A -> bool) (g : nat -> bool) (l : list A) : forall n,
  (forall i c, nth_error l i = Some c -> g (n + i) = f c) ->
  existsb g (seq n (length l)) = existsb f l.
Proof.
  induction l as [|x t IH]; intros n H; cbn [length seq existsb]; [reflexivity|].
  rewrite <- (H 0 x eq_refl). rewrite Nat.add_0_r. f_equal.
  apply IH. intros i c Hi. rewrite <- (H (S i) c Hi). f_equal. lia.
Qed.

Lemma upd_sig_eq g b :
  b = owed_pending g ->
  (if Bool.eqb b (owed_pending g) then (@None N, g) else (Some 5%N, g)) = (None, g).
Proof. intros ->. rewrite Bool.eqb_reflx. reflexivity. Qed.

Lemma map_code_upd (l : list child) : forall i c c',
  nth_error l i = Some c -> code c' = code c -> map code (upd l i c') = map code l.
Proof.
  induction l as [|y t IH]; intros [|i] c c' Hn Hc; cbn in *; try discriminate.
  - apply Some_inj in Hn. subst. rewrite Hc. reflexivity.
  - f_equal. eapply IH; eauto.
Qed.

(* the bookkeeping of SIGCHLD: [owe] mirrors [raise_chld] *)
Lemma owe_sim k g l ex rp ha fr :
  l_catching g = catching k -> l_blocked g = blocked k -> owed_pending g = pending k ->
  owed_caught g = caught k ->
  let g' := owe g ex rp ha fr in
  let k' := raise_chld (set_kids k l) in
  born g' = born g /\ exited g' = ex /\ reported g' = rp /\ halted g' = ha /\ fresh g' = fr /\
  l_catching g' = catching k' /\ l_blocked g' = blocked k' /\ owed_pending g' = pending k' /\
  owed_caught g' = caught k'.
Proof.
  intros H1 H2 H3 H4. unfold owe, raise_chld, deliver, set_kids; cbn [blocked catching pending caught kids].
  rewrite H1, H2. destruct (blocked k); [|destruct (catching k)];
    cbn [born exited reported halted fresh l_catching l_blocked owed_pending owed_caught
         blocked catching pending caught]; repeat split; auto.
Qed.

(* one child is replaced: the per-child relation for all the others stays *)
Definition rel (g : ledger) (i : nat) (c : child) : Prop :=
  mem i (exited g) = negb (is_alive c) /\ mem i (reported g) = is_reaped c /\
  mem i (halted g) = is_stopped c /\ mem i (fresh g) = is_alive c && chg c.

Lemma lsim_replace k g k' g' i c c' :
  LSim k g -> nth_error (kids k) i = Some c -> code c' = code c ->
  kids k' = upd (kids k) i c' -> born g' = born g ->
  rel g' i c' ->
  (forall j, j <> i -> mem j (exited g') = mem j (exited g) /\ mem j (reported g') = mem j (reported g)
                       /\ mem j (halted g') = mem j (halted g) /\ mem j (fresh g') = mem j (fresh g)) ->
  l_catching g' = catching k' -> l_blocked g' = blocked k' -> owed_pending g' = pending k' ->
  owed_caught g' = caught k' ->
  LSim k' g'.
Proof.
  intros [Hb Hin Hout _ _ _ _] Hn Hcode Hk Hborn Hrel Hoth H1 H2 H3 H4.
  constructor; auto.
  - rewrite Hborn, Hb, Hk. symmetry. eapply map_code_upd; eauto.
  - intros j d Hd. rewrite Hk in Hd. rewrite (nth_error_upd _ i j _ c Hn) in Hd.
    destruct (Nat.eqb_spec i j) as [->|Hne].
    + apply Some_inj in Hd. subst d. exact Hrel.
    + destruct (Hoth j ltac:(congruence)) as [A [B [C D]]]. rewrite A, B, C, D. apply Hin. assumption.
  - intros j Hj. rewrite Hk, upd_length in Hj.
    assert (j <> i) by (intros ->; apply nth_error_None in Hj; congruence).
    destruct (Hoth j H) as [A [B [C D]]]. rewrite A, B, C, D. apply Hout. assumption.
Qed.

Lemma lsim_step k g o b k' :
  LSim k g -> kstep k o = Some (b, k') ->
  exists g', ledger_step g o b (pending k') = (None, g') /\ LSim k' g'.
Proof.
  intros HS Hst. pose proof HS as [Hb Hin Hout Hca Hbl Hpe Hcg].
  assert (Hlen : length (born g) = length (kids k)) by (rewrite Hb; apply map_length).
  assert (Halive : forall j d, nth_error (kids k) j = Some d ->
            ((j <? length (kids k)) && negb (mem j (exited g))) = is_alive d).
  { intros j d Hd. destruct (Hin j d Hd) as [H1 _]. rewrite H1.
    assert (j < length (kids k)) by (eapply nth_error_Some_lt'; eauto).
    destruct (Nat.ltb_spec j (length (kids k))); [|lia]. cbn. destruct (is_alive d); reflexivity. }
  assert (Hdead : forall j, nth_error (kids k) j = None ->
            ((j <? length (kids k)) && negb (mem j (exited g))) = false).
  { intros j Hd. apply nth_error_None in Hd. destruct (Nat.ltb_spec j (length (kids k))); [lia|]. reflexivity. }
  destruct o as [w st|i|sg i|t| | |c|]; cbn [kstep] in Hst.
  - (* fork *)
    cbn [k_fork] in Hst. apply Some_inj in Hst. inversion Hst; subst b k'. clear Hst.
    unfold ledger_step. rewrite Hlen, Nat.eqb_refl.
    eexists. split; [apply upd_sig_eq; cbn; auto|].
    constructor; cbn [born exited reported halted fresh l_catching l_blocked owed_pending owed_caught
                      set_kids kids catching blocked pending caught]; auto.
    + rewrite map_app, Hb. reflexivity.
    + intros i c Hi. destruct (Nat.lt_ge_cases i (length (kids k))) as [Hlt|Hge].
      * rewrite nth_error_app1 in Hi by assumption. auto.
      * rewrite nth_error_app2 in Hi by assumption.
        destruct (i - length (kids k)) as [|n] eqn:E; [|destruct n; discriminate].
        cbn in Hi. apply Some_inj in Hi. subst c. cbn. apply Hout. assumption.
    + intros i Hi. rewrite app_length in Hi. cbn in Hi. apply Hout. lia.
  - (* exit *)
    unfold k_exit in Hst. destruct (nth_error (kids k) i) as [c|] eqn:Hn; [|discriminate].
    destruct (cs c) eqn:Hc; try discriminate. apply Some_inj in Hst. inversion Hst; subst b k'. clear Hst.
    set (c' := mkChild Zombie (code c) (reaps c) false).
    destruct (owe_sim k g (upd (kids k) i c') (i :: exited g) (reported g) (halted g) (drop i (fresh g))
                Hca Hbl Hpe Hcg) as [E1 [E2 [E3 [E4 [E5 [E6 [E7 [E8 E9]]]]]]]].
    unfold ledger_step. eexists. split; [apply upd_sig_eq; symmetry; exact E8|].
    destruct (Hin i c Hn) as [A [B [C D]]].
    eapply (lsim_replace k g _ _ i c c' HS Hn); auto.
    + rewrite kids_raise. reflexivity.
    + unfold rel. rewrite E2, E3, E4, E5, mem_cons, Nat.eqb_refl, mem_drop, Nat.eqb_refl, B, C.
      unfold is_alive, is_reaped, is_stopped. subst c'. cbn [cs chg]. rewrite Hc. cbn. rewrite andb_false_r. auto.
    + intros j Hj. rewrite E2, E3, E4, E5, mem_cons, mem_drop.
      destruct (Nat.eqb_spec j i); [contradiction|]. cbn. rewrite andb_true_r. auto.
  - (* a signal *)
    apply Some_inj in Hst. inversion Hst; subst b k'. clear Hst.
    unfold ledger_step, k_signal. rewrite Hlen.
    destruct (nth_error (kids k) i) as [c|] eqn:Hn.
    + rewrite (Halive i c Hn). destruct (Hin i c Hn) as [A [B [C D]]]. rewrite C.
      assert (Hsame : exists g', (if Bool.eqb (pending k) (owed_pending g) then (@None N, g) else (Some 5%N, g))
                                 = (None, g') /\ LSim k g').
      { exists g. split; [apply upd_sig_eq; auto | assumption]. }
      destruct sg; destruct (cs c) eqn:Hc; unfold is_alive, is_stopped; rewrite Hc; cbn [andb negb];
        try exact Hsame.
      * (* stop a running child *)
        set (c' := mkChild (Stopped p) (code c) (reaps c) true).
        destruct (owe_sim k g (upd (kids k) i c') (exited g) (reported g) (i :: halted g) (add i (fresh g))
                    Hca Hbl Hpe Hcg) as [E1 [E2 [E3 [E4 [E5 [E6 [E7 [E8 E9]]]]]]]].
        eexists. split; [apply upd_sig_eq; symmetry; exact E8|].
        eapply (lsim_replace k g _ _ i c c' HS Hn); auto.
        -- rewrite kids_raise. reflexivity.
        -- unfold rel. rewrite E2, E3, E4, E5, mem_cons, Nat.eqb_refl, mem_add, Nat.eqb_refl, A, B.
           unfold is_alive, is_reaped, is_stopped. subst c'. cbn [cs chg]. rewrite Hc. auto.
        -- intros j Hj. rewrite E2, E3, E4, E5, mem_cons, mem_add.
           destruct (Nat.eqb_spec j i); [contradiction|]. auto.
      * (* continue a stopped child *)
        set (c' := mkChild (Running p) (code c) (reaps c) true).
        destruct (owe_sim k g (upd (kids k) i c') (exited g) (reported g) (drop i (halted g)) (add i (fresh g))
                    Hca Hbl Hpe Hcg) as [E1 [E2 [E3 [E4 [E5 [E6 [E7 [E8 E9]]]]]]]].
        eexists. split; [apply upd_sig_eq; symmetry; exact E8|].
        eapply (lsim_replace k g _ _ i c c' HS Hn); auto.
        -- rewrite kids_raise. reflexivity.
        -- unfold rel. rewrite E2, E3, E4, E5, mem_drop, Nat.eqb_refl, mem_add, Nat.eqb_refl, A, B.
           unfold is_alive, is_reaped, is_stopped. subst c'. cbn [cs chg]. rewrite Hc. cbn.
           rewrite andb_false_r. auto.
        -- intros j Hj. rewrite E2, E3, E4, E5, mem_drop, mem_add.
           destruct (Nat.eqb_spec j i); [contradiction|]. cbn. rewrite andb_true_r. auto.
    + rewrite (Hdead i Hn). cbn [andb].
      exists g. split; [destruct sg; apply upd_sig_eq; auto | assumption].
  - (* wait *)
    destruct (kwait k t) as [r k1] eqn:Ew. apply Some_inj in Hst. inversion Hst; subst b k'. clear Hst.
    assert (Hun : forall j d, nth_error (kids k) j = Some d ->
              (mem j (exited g) && negb (mem j (reported g))) = is_zombie d).
    { intros j d Hd. destruct (Hin j d Hd) as [H1 [H2 _]]. rewrite H1, H2.
      unfold is_alive, is_reaped, is_zombie. destruct (cs d); reflexivity. }
    assert (Hfr : forall j d, nth_error (kids k) j = Some d ->
              (((j <? length (kids k)) && negb (mem j (exited g))) && mem j (fresh g)) = is_alive d && chg d).
    { intros j d Hd. rewrite (Halive j d Hd). destruct (Hin j d Hd) as [_ [_ [_ H4]]]. rewrite H4.
      destruct (is_alive d); reflexivity. }
    assert (Hex1 : existsb (fun i => mem i (exited g) && negb (mem i (reported g))) (seq 0 (length (kids k)))
                   = existsb is_zombie (kids k)).
    { apply existsb_seq_nth. intros i c Hi. cbn. apply Hun. assumption. }
    assert (Hex2 : existsb (fun i => (i <? length (kids k)) && negb (mem i (exited g))) (seq 0 (length (kids k)))
                   = existsb is_alive (kids k)).
    { apply existsb_seq_nth. intros i c Hi. cbn. apply Halive. assumption. }
    assert (Hex3 : existsb (fun i => ((i <? length (kids k)) && negb (mem i (exited g))) && mem i (fresh g))
                     (seq 0 (length (kids k)))
                   = existsb (fun d => is_alive d && chg d) (kids k)).
    { apply existsb_seq_nth. intros i c Hi. cbn. apply Hfr. assumption. }
    assert (Hnonews : (forall c, In c (kids k) -> has_news_c c = false) ->
              existsb is_zombie (kids k) = false /\ existsb (fun d => is_alive d && chg d) (kids k) = false).
    { intros Hz. split.
      - destruct (existsb is_zombie (kids k)) eqn:E; [|reflexivity].
        apply existsb_exists in E. destruct E as [c [Hc1 Hc2]]. specialize (Hz c Hc1).
        unfold is_zombie, has_news_c in *. destruct (cs c); discriminate.
      - destruct (existsb (fun d => is_alive d && chg d) (kids k)) eqn:E; [|reflexivity].
        apply existsb_exists in E. destruct E as [c [Hc1 Hc2]]. specialize (Hz c Hc1).
        unfold is_alive, has_news_c in *. destruct (cs c); cbn in *; congruence. }
    unfold ledger_step. rewrite ?Hlen.
    destruct r as [j st|j|j| |].
    + (* an exit is reported *)
      destruct (kwait_some _ _ _ _ _ Ew) as [c [Hn [Hz [Hst [Hk Ht]]]]]. subst k1 st.
      assert (Hok : (match t with TPid i => i =? j | TAny => true end) = true)
        by (destruct t; [subst; apply Nat.eqb_refl | reflexivity]).
      rewrite Hok. cbn [negb].
      rewrite (Hun j c Hn). unfold is_zombie at 1. rewrite Hz. cbn [negb].
      rewrite Hb. rewrite nth_error_map, Hn. cbn [option_map option_eqb]. rewrite N.eqb_refl. cbn [negb].
      eexists. split; [apply upd_sig_eq; cbn; auto|].
      destruct (Hin j c Hn) as [A [B [C D]]].
      eapply (lsim_replace k g _ _ j c (reap c) HS Hn); cbn [born exited reported halted fresh
          l_catching l_blocked owed_pending owed_caught set_kids kids catching blocked pending caught]; auto.
      * unfold rel; cbn [exited reported halted fresh]. rewrite mem_cons, Nat.eqb_refl, A, C, D.
        unfold is_alive, is_reaped, is_stopped, reap. cbn [cs chg]. rewrite Hz. auto.
      * intros i Hi. rewrite mem_cons. destruct (Nat.eqb_spec i j); [contradiction|]. auto.
    + (* a stop is reported *)
      destruct (kwait_seen _ _ _ _ j Ew (or_introl eq_refl)) as [c [Hn [Ha [Hg [Hk [Hs1 [_ Ht]]]]]]]. subst k1.
      destruct (Hs1 eq_refl) as [p Hc].
      assert (Hok : (match t with TPid i => i =? j | TAny => true end) = true)
        by (destruct t; [subst; apply Nat.eqb_refl | reflexivity]).
      rewrite Hok. cbn [negb].
      destruct (Hin j c Hn) as [A [B [C D]]]. rewrite D, C, (Halive j c Hn), Ha, Hg.
      unfold is_stopped. rewrite Hc. cbn [andb negb].
      eexists. split; [apply upd_sig_eq; cbn; auto|].
      eapply (lsim_replace k g _ _ j c (seen c) HS Hn); cbn [born exited reported halted fresh
          l_catching l_blocked owed_pending owed_caught set_kids kids catching blocked pending caught]; auto.
      * unfold rel; cbn [exited reported halted fresh]. rewrite mem_drop, Nat.eqb_refl, A, B, C.
        unfold is_alive, is_reaped, is_stopped, seen. cbn [cs chg]. rewrite Hc. cbn. rewrite andb_false_r. auto.
      * intros i Hi. rewrite mem_drop. destruct (Nat.eqb_spec i j); [contradiction|]. cbn. rewrite andb_true_r. auto.
    + (* a continuation is reported *)
      destruct (kwait_seen _ _ _ _ j Ew (or_intror eq_refl)) as [c [Hn [Ha [Hg [Hk [_ [Hs2 Ht]]]]]]]. subst k1.
      destruct (Hs2 eq_refl) as [p Hc].
      assert (Hok : (match t with TPid i => i =? j | TAny => true end) = true)
        by (destruct t; [subst; apply Nat.eqb_refl | reflexivity]).
      rewrite Hok. cbn [negb].
      destruct (Hin j c Hn) as [A [B [C D]]]. rewrite D, C, (Halive j c Hn), Ha, Hg.
      unfold is_stopped. rewrite Hc. cbn [andb negb].
      eexists. split; [apply upd_sig_eq; cbn; auto|].
      eapply (lsim_replace k g _ _ j c (seen c) HS Hn); cbn [born exited reported halted fresh
          l_catching l_blocked owed_pending owed_caught set_kids kids catching blocked pending caught]; auto.
      * unfold rel; cbn [exited reported halted fresh]. rewrite mem_drop, Nat.eqb_refl, A, B, C.
        unfold is_alive, is_reaped, is_stopped, seen. cbn [cs chg]. rewrite Hc. cbn. rewrite andb_false_r. auto.
      * intros i Hi. rewrite mem_drop. destruct (Nat.eqb_spec i j); [contradiction|]. cbn. rewrite andb_true_r. auto.
    + (* none yet *)
      destruct (kwait_none _ _ _ Ew) as [-> Ht].
      assert (Hfine : (match t with
                       | TPid i => ((i <? length (kids k)) && negb (mem i (exited g))) && negb (mem i (fresh g))
                       | TAny => negb (existsb (fun i => mem i (exited g) && negb (mem i (reported g))) (seq 0 (length (kids k))))
                                 && negb (existsb (fun i => ((i <? length (kids k)) && negb (mem i (exited g))) && mem i (fresh g))
                                            (seq 0 (length (kids k))))
                                 && existsb (fun i => (i <? length (kids k)) && negb (mem i (exited g))) (seq 0 (length (kids k)))
                       end) = true).
      { destruct t as [i|].
        - destruct Ht as [c [Hn [Ha Hnn]]]. rewrite (Halive i c Hn), Ha.
          destruct (Hin i c Hn) as [_ [_ [_ D]]]. rewrite D, Ha.
          unfold has_news_c, is_alive in *. destruct (cs c); try discriminate; rewrite Hnn; reflexivity.
        - destruct Ht as [Hz Hr]. destruct (Hnonews Hz) as [N1 N2]. rewrite Hex1, Hex2, Hex3, N1, N2, Hr. reflexivity. }
      rewrite Hfine.
      eexists. split; [apply upd_sig_eq; auto|]. assumption.
    + (* ECHILD *)
      destruct (kwait_echild _ _ _ Ew) as [-> Ht].
      assert (Hfine : (match t with
                       | TPid i => negb ((i <? length (kids k)) && negb (mem i (exited g)))
                                   && negb (mem i (exited g) && negb (mem i (reported g)))
                       | TAny => negb (existsb (fun i => mem i (exited g) && negb (mem i (reported g))) (seq 0 (length (kids k))))
                                 && negb (existsb (fun i => (i <? length (kids k)) && negb (mem i (exited g))) (seq 0 (length (kids k))))
                       end) = true).
      { destruct t as [i|].
        - destruct Ht as [Hn|[c [Hn Hc]]].
          + rewrite (Hdead i Hn). apply nth_error_None in Hn. destruct (Hout i Hn) as [H1 [H2 _]]. rewrite H1. reflexivity.
          + rewrite (Halive i c Hn), (Hun i c Hn). unfold is_alive, is_zombie. rewrite Hc. reflexivity.
        - rewrite Hex1, Hex2.
          assert (E1 : existsb is_zombie (kids k) = false).
          { destruct (existsb is_zombie (kids k)) eqn:E; [|reflexivity].
            apply existsb_exists in E. destruct E as [c [Hc1 Hc2]].
            unfold is_zombie in Hc2. rewrite (Ht c Hc1) in Hc2. discriminate. }
          assert (E2 : existsb is_alive (kids k) = false).
          { destruct (existsb is_alive (kids k)) eqn:E; [|reflexivity].
            apply existsb_exists in E. destruct E as [c [Hc1 Hc2]].
            unfold is_alive in Hc2. rewrite (Ht c Hc1) in Hc2. discriminate. }
          rewrite E1, E2. reflexivity. }
      rewrite Hfine.
      eexists. split; [apply upd_sig_eq; auto|]. assumption.
  - apply Some_inj in Hst. inversion Hst; subst b k'. clear Hst. unfold ledger_step.
    eexists. split; [apply upd_sig_eq; cbn; auto|]. constructor; cbn; auto.
  - apply Some_inj in Hst. inversion Hst; subst b k'. clear Hst. unfold ledger_step.
    unfold k_unblock, deliver. cbn [catching kids blocked pending caught].
    eexists. split.
    + apply upd_sig_eq. cbn [owed_pending]. destruct (pending k); [destruct (catching k)|]; reflexivity.
    + rewrite Hpe, Hca, Hcg.
      destruct (pending k); [destruct (catching k)|]; constructor; cbn; auto.
  - apply Some_inj in Hst. inversion Hst; subst b k'. clear Hst. unfold ledger_step.
    eexists. split; [apply upd_sig_eq; cbn; auto|]. constructor; cbn; auto.
  - apply Some_inj in Hst. inversion Hst; subst b k'. clear Hst. unfold ledger_step.
    rewrite Hcg, Nat.eqb_refl.
    eexists. split; [apply upd_sig_eq; cbn; auto|]. constructor; cbn; auto.
Qed.

Lemma kernel_refines_ledger_gen ops : forall k g,
  LSim k g -> kops_ok k ops = true -> ledger_run g (model_khist k ops) = None.
Proof.
  induction ops as [|o r IH]; intros k g HS Hok; [reflexivity|].
  cbn [kops_ok model_khist] in *.
  destruct (kstep k o) as [[b k']|] eqn:E; [|discriminate].
  destruct (lsim_step k g o b k' HS E) as [g' [H1 H2]].
  cbn [ledger_run]. rewrite H1. apply IH; assumption.
Qed.

Lemma kernel_refines_ledger_lemma ops :
  kops_ok kern0 ops = true -> ledger_run ledger0 (model_khist kern0 ops) = None.
Proof. apply kernel_refines_ledger_gen. apply lsim_init. Qed.
