(* C13 — the kernel part of the model satisfies the ledger specification of
   Spec.v for every history of operations (= the stream-K oracle never rejects
   the model). *)
From Yv Require Import Common.Base C13.Model C13.Spec C13.Run C13.ProofsKern C13.ProofsInv.
From Coq Require Import Arith.

Fixpoint model_khist (k : kern) (ops : list kop) : list (kop * kobs * bool) :=
  match ops with
  | [] => []
  | o :: r =>
      match kstep k o with
      | Some (b, k') => (o, b, pending k') :: model_khist k' r
      | None => []
      end
  end.

Fixpoint kops_ok (k : kern) (ops : list kop) : bool :=
  match ops with
  | [] => true
  | o :: r => match kstep k o with Some (_, k') => kops_ok k' r | None => false end
  end.

Record LSim (k : kern) (g : ledger) : Prop := mkLSim {
  ls_born : born g = map code (kids k);
  ls_in : forall i c, nth_error (kids k) i = Some c ->
            mem i (exited g) = negb (is_running c) /\ mem i (reported g) = is_reaped c;
  ls_out : forall i, length (kids k) <= i -> mem i (exited g) = false /\ mem i (reported g) = false;
  ls_catch : l_catching g = catching k;
  ls_block : l_blocked g = blocked k;
  ls_pend : owed_pending g = pending k;
  ls_caught : owed_caught g = caught k }.

Lemma lsim_init : LSim kern0 ledger0.
Proof. constructor; cbn; auto. intros [|i] c H; discriminate. Qed.

Lemma mem_cons i j l : mem i (j :: l) = (i =? j) || mem i l.
Proof. reflexivity. Qed.

Lemma existsb_seq_nth {A} (f : A -> bool) (g : nat -> bool) (l : list A) : forall n,
  (forall i c, nth_error l i = Some c -> g (n + i) = f c) ->
  existsb g (seq n (length l)) = existsb f l.
Proof.
  induction l as [|x t IH]; intros n H; cbn [length seq existsb]; [reflexivity|].
  rewrite <- (H 0 x eq_refl). rewrite Nat.add_0_r. f_equal.
  apply IH. intros i c Hi. rewrite <- (H (S i) c Hi). f_equal. lia.
Qed.

Lemma upd_sig_eq g b :
  b = owed_pending g ->
  (if Bool.eqb b (owed_pending g) then (@None N, g) else (Some 5%N, g)) = (None, g).
Proof. intros ->. rewrite Bool.eqb_reflx. reflexivity. Qed.

Lemma map_code_upd (l : list child) : forall i c c',
  nth_error l i = Some c -> code c' = code c -> map code (upd l i c') = map code l.
Proof.
  induction l as [|y t IH]; intros [|i] c c' Hn Hc; cbn in *; try discriminate.
  - apply Some_inj in Hn. subst. rewrite Hc. reflexivity.
  - f_equal. eapply IH; eauto.
Qed.

Lemma lsim_step k g o b k' :
  LSim k g -> kstep k o = Some (b, k') ->
  exists g', ledger_step g o b (pending k') = (None, g') /\ LSim k' g'.
Proof.
  intros [Hb Hin Hout Hca Hbl Hpe Hcg] Hst.
  assert (Hlen : length (born g) = length (kids k)) by (rewrite Hb; apply map_length).
  destruct o as [w st|i|t| | |c|]; cbn [kstep] in Hst.
  - (* fork *)
    cbn [k_fork] in Hst. apply Some_inj in Hst. inversion Hst; subst b k'. clear Hst.
    unfold ledger_step. rewrite Hlen, Nat.eqb_refl.
    eexists. split; [apply upd_sig_eq; cbn; auto|].
    constructor; cbn [born exited reported l_catching l_blocked owed_pending owed_caught
                      set_kids kids catching blocked pending caught]; auto.
    + rewrite map_app, Hb. reflexivity.
    + intros i c Hi. destruct (Nat.lt_ge_cases i (length (kids k))) as [Hlt|Hge].
      * rewrite nth_error_app1 in Hi by assumption. auto.
      * rewrite nth_error_app2 in Hi by assumption.
        destruct (i - length (kids k)) as [|n] eqn:E; [|destruct n; discriminate].
        cbn in Hi. apply Some_inj in Hi. subst c. cbn. apply Hout. assumption.
    + intros i Hi. rewrite app_length in Hi. cbn in Hi. apply Hout. lia.
  - (* exit *)
    unfold k_exit in Hst. destruct (nth_error (kids k) i) as [c|] eqn:Hn; [|discriminate].
    destruct (cs c) eqn:Hc; try discriminate. apply Some_inj in Hst. inversion Hst; subst b k'. clear Hst.
    set (c' := mkChild Zombie (code c) (reaps c)).
    assert (Hkids : forall kk, kids kk = upd (kids k) i c' ->
              (forall j d, nth_error (kids kk) j = Some d ->
                 mem j (i :: exited g) = negb (is_running d) /\ mem j (reported g) = is_reaped d) /\
              (forall j, length (kids kk) <= j -> mem j (i :: exited g) = false /\ mem j (reported g) = false) /\
              born g = map code (kids kk)).
    { intros kk Hk. rewrite Hk. repeat split.
      - rewrite mem_cons. rewrite (nth_error_upd _ _ _ _ _ Hn) in H.
        destruct (Nat.eqb_spec i j) as [->|Hne].
        + apply Some_inj in H. subst d. rewrite Nat.eqb_refl. reflexivity.
        + destruct (Nat.eqb_spec j i); [congruence|]. cbn [orb]. apply (Hin j d H).
      - rewrite (nth_error_upd _ _ _ _ _ Hn) in H.
        destruct (Nat.eqb_spec i j) as [->|Hne].
        + apply Some_inj in H. subst d. destruct (Hin j c Hn) as [_ H2]. rewrite H2.
          unfold is_reaped. rewrite Hc. reflexivity.
        + apply (Hin j d H).
      - rewrite mem_cons. rewrite upd_length in H.
        destruct (Nat.eqb_spec j i) as [->|Hne].
        + apply nth_error_None in H. congruence.
        + cbn [orb]. apply Hout. assumption.
      - rewrite upd_length in H. apply Hout. assumption.
      - rewrite Hb. clear - Hn. revert i Hn. induction (kids k) as [|y t IH]; intros [|i] Hn; cbn in *; try discriminate.
        + apply Some_inj in Hn. subst. reflexivity.
        + f_equal. apply IH. assumption. }
    unfold ledger_step. rewrite Hbl, Hca.
    unfold raise_chld, deliver, set_kids; cbn [blocked catching kids pending caught].
    destruct (blocked k) eqn:Eb.
    + destruct (Hkids (mkKern (upd (kids k) i c') (catching k) true true (caught k)) eq_refl) as [H1 [H2 H3]].
      eexists. split; [apply upd_sig_eq; reflexivity|].
      constructor; cbn [born exited reported l_catching l_blocked owed_pending owed_caught
                        kids catching blocked pending caught]; auto.
    + destruct (catching k) eqn:Ec.
      * destruct (Hkids (mkKern (upd (kids k) i c') true false (pending k) (S (caught k))) eq_refl) as [H1 [H2 H3]].
        eexists. split; [apply upd_sig_eq; cbn; auto|].
        constructor; cbn [born exited reported l_catching l_blocked owed_pending owed_caught
                          kids catching blocked pending caught]; auto.
      * destruct (Hkids (mkKern (upd (kids k) i c') false false (pending k) (caught k)) eq_refl) as [H1 [H2 H3]].
        eexists. split; [apply upd_sig_eq; cbn; auto|].
        constructor; cbn [born exited reported l_catching l_blocked owed_pending owed_caught
                          kids catching blocked pending caught]; auto.
  - (* wait *)
    destruct (kwait k t) as [r k1] eqn:Ew. apply Some_inj in Hst. inversion Hst; subst b k'. clear Hst.
    assert (Hun : forall j d, nth_error (kids k) j = Some d ->
              (mem j (exited g) && negb (mem j (reported g))) = is_zombie d).
    { intros j d Hd. destruct (Hin j d Hd) as [H1 H2]. rewrite H1, H2.
      unfold is_running, is_reaped, is_zombie. destruct (cs d); reflexivity. }
    assert (Hal : forall j d, nth_error (kids k) j = Some d ->
              ((j <? length (kids k)) && negb (mem j (exited g))) = is_running d).
    { intros j d Hd. destruct (Hin j d Hd) as [H1 _]. rewrite H1.
      assert (j < length (kids k)) by (eapply nth_error_Some_lt'; eauto).
      destruct (Nat.ltb_spec j (length (kids k))); [|lia]. cbn. destruct (is_running d); reflexivity. }
    assert (Hex1 : existsb (fun i => mem i (exited g) && negb (mem i (reported g))) (seq 0 (length (kids k)))
                   = existsb is_zombie (kids k)).
    { apply existsb_seq_nth. intros i c Hi. cbn. apply Hun. assumption. }
    assert (Hex2 : existsb (fun i => (i <? length (kids k)) && negb (mem i (exited g))) (seq 0 (length (kids k)))
                   = existsb is_running (kids k)).
    { apply existsb_seq_nth. intros i c Hi. cbn. apply Hal. assumption. }
    destruct r as [j st| |].
    + destruct (kwait_some _ _ _ _ _ Ew) as [c [Hn [Hz [Hst [Hk Ht]]]]]. subst k1 st.
      unfold ledger_step. rewrite ?Hlen.
      assert (Hok : (match t with TPid i => i =? j | TAny => true end) = true)
        by (destruct t; [subst; apply Nat.eqb_refl | reflexivity]).
      rewrite Hok. cbn [negb].
      rewrite (Hun j c Hn). unfold is_zombie at 1. rewrite Hz. cbn [negb].
      rewrite Hb. rewrite nth_error_map, Hn. cbn [option_map option_eqb]. rewrite N.eqb_refl. cbn [negb].
      eexists. split; [apply upd_sig_eq; cbn; auto|].
      constructor; cbn [born exited reported l_catching l_blocked owed_pending owed_caught
                        set_kids kids catching blocked pending caught]; auto.
      * symmetry. apply (map_code_upd _ _ _ _ Hn). reflexivity.
      * intros i d Hd. rewrite (nth_error_upd _ _ _ _ _ Hn) in Hd. rewrite mem_cons.
        destruct (Nat.eqb_spec j i) as [->|Hne].
        -- apply Some_inj in Hd. subst d. rewrite Nat.eqb_refl. cbn.
           destruct (Hin i c Hn) as [H1 _]. rewrite H1. unfold is_running. rewrite Hz. auto.
        -- destruct (Nat.eqb_spec i j); [congruence|]. cbn [orb]. apply (Hin i d Hd).
      * intros i Hi. rewrite upd_length in Hi. rewrite mem_cons.
        destruct (Nat.eqb_spec i j) as [->|Hne]; [|apply Hout; assumption].
        apply nth_error_None in Hi. congruence.
    + destruct (kwait_none _ _ _ Ew) as [-> Ht].
      unfold ledger_step. rewrite ?Hlen.
      assert (Hfine : (match t with
                       | TPid i => (i <? length (kids k)) && negb (mem i (exited g))
                       | TAny => negb (existsb (fun i => mem i (exited g) && negb (mem i (reported g))) (seq 0 (length (kids k))))
                                 && existsb (fun i => (i <? length (kids k)) && negb (mem i (exited g))) (seq 0 (length (kids k)))
                       end) = true).
      { destruct t as [i|].
        - destruct Ht as [c [w [Hn Hc]]]. rewrite (Hal i c Hn). unfold is_running. rewrite Hc. reflexivity.
        - destruct Ht as [Hz Hr]. rewrite Hex1, Hex2, Hr.
          assert (existsb is_zombie (kids k) = false).
          { destruct (existsb is_zombie (kids k)) eqn:E; [|reflexivity].
            apply existsb_exists in E. destruct E as [c [Hc1 Hc2]]. rewrite (Hz c Hc1) in Hc2. discriminate. }
          rewrite H. reflexivity. }
      rewrite Hfine.
      eexists. split; [apply upd_sig_eq; auto|]. constructor; auto.
    + destruct (kwait_echild _ _ _ Ew) as [-> Ht].
      unfold ledger_step. rewrite ?Hlen.
      assert (Hfine : (match t with
                       | TPid i => negb ((i <? length (kids k)) && negb (mem i (exited g)))
                                   && negb (mem i (exited g) && negb (mem i (reported g)))
                       | TAny => negb (existsb (fun i => mem i (exited g) && negb (mem i (reported g))) (seq 0 (length (kids k))))
                                 && negb (existsb (fun i => (i <? length (kids k)) && negb (mem i (exited g))) (seq 0 (length (kids k))))
                       end) = true).
      { destruct t as [i|].
        - destruct Ht as [Hn|[c [Hn Hc]]].
          + apply nth_error_None in Hn. destruct (Hout i Hn) as [H1 H2]. rewrite H1, H2.
            destruct (Nat.ltb_spec i (length (kids k))); [lia|]. reflexivity.
          + rewrite (Hal i c Hn), (Hun i c Hn). unfold is_running, is_zombie. rewrite Hc. reflexivity.
        - rewrite Hex1, Hex2.
          assert (E1 : existsb is_zombie (kids k) = false).
          { destruct (existsb is_zombie (kids k)) eqn:E; [|reflexivity].
            apply existsb_exists in E. destruct E as [c [Hc1 Hc2]].
            unfold is_zombie in Hc2. rewrite (Ht c Hc1) in Hc2. discriminate. }
          assert (E2 : existsb is_running (kids k) = false).
          { destruct (existsb is_running (kids k)) eqn:E; [|reflexivity].
            apply existsb_exists in E. destruct E as [c [Hc1 Hc2]].
            unfold is_running in Hc2. rewrite (Ht c Hc1) in Hc2. discriminate. }
          rewrite E1, E2. reflexivity. }
      rewrite Hfine.
      eexists. split; [apply upd_sig_eq; auto|]. constructor; auto.
  - apply Some_inj in Hst. inversion Hst; subst b k'. clear Hst. unfold ledger_step.
    eexists. split; [apply upd_sig_eq; cbn; auto|]. constructor; cbn; auto.
  - apply Some_inj in Hst. inversion Hst; subst b k'. clear Hst. unfold ledger_step.
    unfold k_unblock, deliver. cbn [catching kids blocked pending caught].
    eexists. split.
    + apply upd_sig_eq. cbn [owed_pending]. destruct (pending k); [destruct (catching k)|]; reflexivity.
    + rewrite Hpe, Hca, Hcg.
      destruct (pending k); [destruct (catching k)|]; constructor; cbn; auto.
  - apply Some_inj in Hst. inversion Hst; subst b k'. clear Hst. unfold ledger_step.
    eexists. split; [apply upd_sig_eq; cbn; auto|]. constructor; cbn; auto.
  - apply Some_inj in Hst. inversion Hst; subst b k'. clear Hst. unfold ledger_step.
    rewrite Hcg, Nat.eqb_refl.
    eexists. split; [apply upd_sig_eq; cbn; auto|]. constructor; cbn; auto.
Qed.

Lemma kernel_refines_ledger_gen ops : forall k g,
  LSim k g -> kops_ok k ops = true -> ledger_run g (model_khist k ops) = None.
Proof.
  induction ops as [|o r IH]; intros k g HS Hok; [reflexivity|].
  cbn [kops_ok model_khist] in *.
  destruct (kstep k o) as [[b k']|] eqn:E; [|discriminate].
  destruct (lsim_step k g o b k' HS E) as [g' [H1 H2]].
  cbn [ledger_run]. rewrite H1. apply IH; assumption.
Qed.

Lemma kernel_refines_ledger_lemma ops :
  kops_ok kern0 ops = true -> ledger_run ledger0 (model_khist kern0 ops) = None.
Proof. apply kernel_refines_ledger_gen. apply lsim_init. Qed.
