(* C13 — what the correspondence check evaluates on every case. *)
From Yv Require Export Common.Base C13.Model C13.Spec C13.Fds.

(* ------------------------------------------------------------------------ *)
(* Stream K: operations of the kernel interface on the real VirtualSystem,
   with a snapshot after each: the state of every child (0 running, 1 exited
   and unreported, 2 exited and reported) and whether SIGCHLD is pending. *)
Definition ksnap := (list nat * bool)%type.

Definition cstate_code (c : child) : nat :=
  match cs c with
  | Running _ => if chg c then 4 else 0
  | Zombie => 1
  | Reaped => 2
  | Stopped _ => if chg c then 5 else 3
  end.

Definition ksnap_of (k : kern) : ksnap := (map cstate_code (kids k), pending k).

Definition ksnap_eqb (a b : ksnap) : bool :=
  list_eqb Nat.eqb (fst a) (fst b) && Bool.eqb (snd a) (snd b).

Definition wres_eqb (a b : wres) : bool :=
  match a, b with
  | WSome i x, WSome j y => (i =? j) && N.eqb x y
  | WStop i, WStop j | WCont i, WCont j => i =? j
  | WNone, WNone | WEchild, WEchild => true
  | _, _ => false
  end.

Definition kobs_eqb (a b : kobs) : bool :=
  match a, b with
  | BPid i, BPid j => i =? j
  | BWait x, BWait y => wres_eqb x y
  | BTaken n, BTaken m => n =? m
  | BUnit, BUnit => true
  | _, _ => false
  end.

Definition k_exit (k : kern) (i : nat) : option kern :=
  match nth_error (kids k) i with
  | Some c =>
      match cs c with
      | Running _ =>
          Some (raise_chld (set_kids k (upd (kids k) i (mkChild Zombie (code c) (reaps c) false))))
      | _ => None
      end
  | None => None
  end.

(* None: the operation is outside the domain (exit of a child that is not running) *)
Definition kstep (k : kern) (o : kop) : option (kobs * kern) :=
  match o with
  | KFork _ st => let (k', i) := k_fork k [] st in Some (BPid i, k')
  | KSig sg i => Some (BUnit, k_signal k sg i)
  | KExit i => match k_exit k i with Some k' => Some (BUnit, k') | None => None end
  | KWait t => let (r, k') := kwait k t in Some (BWait r, k')
  | KBlock => Some (BUnit, k_block k)
  | KUnblock => Some (BUnit, k_unblock k)
  | KCatch b => Some (BUnit, k_catch k b)
  | KTake => Some (BTaken (caught k), k_take_caught k)
  end.

Fixpoint kern_hist (k : kern) (h : list (kop * kobs * ksnap)) : verdict :=
  match h with
  | [] => 0%N
  | (o, b, sn) :: h =>
      match kstep k o with
      | None => 99%N
      | Some (b', k') =>
          if kobs_eqb b b' && ksnap_eqb sn (ksnap_of k') then kern_hist k' h
          else match kern_hist k' h with 99%N => 99%N | _ => 1%N end
      end
  end.

Definition run_kern (h : list (kop * kobs * ksnap)) : verdict :=
  match ledger_run ledger0 (map (fun x => match x with (o, b, sn) => (o, b, snd sn) end) h) with
  | Some k => (2 + k)%N
  | None => kern_hist kern0 h
  end.

(* ------------------------------------------------------------------------ *)
(* Stream S: scripts rendered from a list of commands, run under a schedule. *)
Record sobs := mkSObs {
  so_trace : list (N * option nat);   (* ($?, $! as the index of the child) at every probe *)
  so_status : Z;                      (* exit status of the shell *)
  so_stuck : bool;                    (* deadlock or step budget exhausted *)
  so_panic : bool;
  so_left : list nat }.               (* children alive or unreaped when the shell has exited *)

(* The transition system under a few deterministic schedulers. *)
Definition all_labels (s : state) : list label :=
  LP :: map LC (seq 0 (length (kids (kn s)))).

Fixpoint first_enabled (s : state) (ls : list label) : option state :=
  match ls with
  | [] => None
  | l :: r => match step s l with Some s' => Some s' | None => first_enabled s r end
  end.

Fixpoint rotate {A} (n : nat) (l : list A) : list A :=
  match n, l with
  | S n, x :: t => rotate n (t ++ [x])
  | _, _ => l
  end.

Definition order (kind : nat) (tick : nat) (s : state) : list label :=
  let ls := all_labels s in
  match kind with
  | 0 => ls                                  (* parent first *)
  | 1 => rev ls                              (* newest child first, parent last *)
  | 2 => tl ls ++ [LP]                       (* oldest child first, parent last *)
  | _ => rotate (tick mod (length ls)) ls    (* round robin *)
  end.

Fixpoint sim (fuel : nat) (kind : nat) (tick : nat) (s : state) : option state :=
  match fuel with
  | O => None
  | S fuel =>
      if final s then Some s
      else match first_enabled s (order kind tick s) with
           | Some s' => sim fuel kind (S tick) s'
           | None => None                    (* deadlock or panic *)
           end
  end.

(* scripts without SIGSTOP: no child can ever be stopped, and every scheduler
   reaches the end; with stops a scheduler of the model (which has no notion
   of time) may run into a child that stays stopped *)
Definition act_quiet (a : cact) : bool := match a with AKill SStop _ => false | _ => true end.
Definition script_quiet (p : list cact) : bool := forallb act_quiet p.
Definition cmd_quiet (c : cmd) : bool :=
  match c with
  | CAsync p _ => script_quiet p
  | CPipe l _ => forallb (fun x => script_quiet (fst x)) l
  | _ => true
  end.
Definition prog_quiet (p : list cmd) : bool := forallb cmd_quiet p.

Definition model_result (p : list cmd) (kind : nat) : option (list (N * option nat) * N) :=
  match sim (S (run_bound p)) kind 0 (init p) with
  | Some s => Some (trace s, status s)
  | None => None
  end.

Definition run_script (p : list cmd) (o : sobs) : verdict :=
  let r := ref_run p in
  if so_panic o || so_stuck o then 20%N
  else if negb (trace_eqb (so_trace o) (r_trace r)) then 21%N
  else if negb (Z.eqb (so_status o) (Z.of_N (r_status r))) then 21%N
  else if negb (forallb (may_remain p) (so_left o)) then 22%N
  else
    let agrees kind :=
      match model_result p kind with
      | Some (t, st) => trace_eqb t (so_trace o) && Z.eqb (Z.of_N st) (so_status o)
      | None => negb (prog_quiet p)
      end in
    if agrees 0 && agrees 1 && agrees 2 && agrees 3 then 0%N else 1%N.

(* ------------------------------------------------------------------------ *)
(* Stream X: arbitrary race-free scripts (nested subshells, pipelines that move
   data, command substitutions) run under several schedules: the observations
   of the main shell process must not depend on the schedule. *)
Definition gobs := (list (Z * list str) * Z * bool * bool * nat)%type.
   (* probe records ($?, arguments), exit status, stuck, panic, children left *)

Definition rec_eqb (a b : Z * list str) : bool :=
  Z.eqb (fst a) (fst b) && list_eqb str_eqb (snd a) (snd b).

Definition gobs_eqb (a b : gobs) : bool :=
  match a, b with
  | (t, st, s1, p1, n1), (t', st', s2, p2, n2) =>
      list_eqb rec_eqb t t' && Z.eqb st st' && Bool.eqb s1 s2 && Bool.eqb p1 p2 && (n1 =? n2)
  end.

Definition gobs_bad (a : gobs) : bool :=
  match a with (_, _, stuck, panic, _) => stuck || panic end.
Definition gobs_left (a : gobs) : nat := match a with (_, _, _, _, n) => n end.

(* [waits_all]: the script waits for all its asynchronous children *)
Definition run_cross (waits_all : bool) (runs : list gobs) : verdict :=
  if existsb gobs_bad runs then 20%N
  else if waits_all && existsb (fun r => negb (gobs_left r =? 0)) runs then 22%N
  else match runs with
       | [] => 99%N
       | r0 :: rest => if forallb (gobs_eqb r0) rest then 0%N else 23%N
       end.

(* ------------------------------------------------------------------------ *)
(* Stream T: the wait built-in interrupted by a trapped signal
   (yash-builtin/src/wait/core.rs wait_for_any_job_or_trap, wait.rs execute).
   The script family: a trap on a signal, one asynchronous child that takes
   long and exits with [st], a helper that sends the signal [k] times to the
   shell before the child ends, then [k + 2] times `wait PID` (or `wait`), each
   followed by a probe, and a final `wait` with a probe.
   Specification: every signal interrupts one wait, whose exit status is
   384 + the signal number (> 128), after the trap action has run once; the
   child stays waitable: the next wait gives its true status, the one after it
   127 (`wait PID`) or 0 (`wait`); nothing is left unreaped.
   Records: (0, $?) from the trap action, (1, $?) from a probe. *)
Definition trap_expected (by_pid : bool) (k : nat) (st signo : N) : list (N * Z) :=
  flat_map (fun _ => [(0%N, 0%Z); (1%N, Z.of_N (384 + signo))]) (seq 0 k)
  ++ [(1%N, if by_pid then Z.of_N st else 0%Z);
      (1%N, if by_pid then 127%Z else 0%Z);
      (1%N, 0%Z)].

Definition rec_eqb2 (a b : N * Z) : bool := N.eqb (fst a) (fst b) && Z.eqb (snd a) (snd b).

Definition run_trap (by_pid : bool) (k : nat) (st signo : N)
    (obs : list (N * Z)) (status : Z) (stuck panic : bool) (left : nat) : verdict :=
  if stuck || panic then 20%N
  else if negb (list_eqb rec_eqb2 obs (trap_expected by_pid k st signo)) then 24%N
  else if negb (Z.eqb status 0) then 24%N
  else if negb (left =? 0) then 22%N
  else 0%N.

(* ------------------------------------------------------------------------ *)
(* Stream N: nested process trees (a child that forks and waits itself) checked
   against a sequential reference.  The transition-system theorems are about
   one forking shell; here every subshell runs the same protocol one level
   down, and what the main shell observes must be what reading the script
   sequentially gives. *)
Inductive ncmd :=
  | NWork (w : nat) (st : N)                       (* work w st *)
  | NSub (body : list ncmd)                        (* ( body ) *)
  | NPipe (members : list (list ncmd)) (pf : bool) (* { m1; } | { m2; } | ... *)
  | NAsyncWait (body : list ncmd)                  (* { body; } & wait $! *)
  | NSubst (body : list ncmd)                      (* v=$( body ) *)
  | NExit (st : N)                                 (* exit st (inside a body only) *)
  | NBurst (n : nat).                              (* burst n: writes n bytes to its standard output;
                                                      only used as a member of a pipeline that is not
                                                      the last one, so its own status is never observed
                                                      (the reader may have gone: EPIPE) *)

(* (exit status, whether the enclosing shell has been left by `exit`) *)
Fixpoint neval (c : ncmd) : N * bool :=
  let fix nlist (l : list ncmd) (cur : N) : N * bool :=
    match l with
    | [] => (cur, false)
    | x :: r => let (s, ex) := neval x in if ex then (s, true) else nlist r s
    end in
  match c with
  | NWork _ st => (st, false)
  | NSub body | NAsyncWait body | NSubst body => (fst (nlist body 0%N), false)
  | NPipe ms pf =>
      let fix members (ms : list (list ncmd)) (fin : N) : N :=
        match ms with
        | [] => fin
        | m :: r => members r (pipe_status fin (fst (nlist m 0%N)) pf)
        end in
      (members ms 0%N, false)
  | NExit st => (st, true)
  | NBurst _ => (0%N, false)
  end.

Definition nest_expected (cmds : list ncmd) : list Z := map (fun c => Z.of_N (fst (neval c))) cmds.

Definition run_nest (cmds : list ncmd) (obs : list Z) (status : Z) (stuck panic : bool) (lf : nat)
  : verdict :=
  if stuck || panic then 20%N
  else if negb (list_eqb Z.eqb obs (nest_expected cmds)) then 21%N
  else if negb (lf =? 0) then 22%N
  else 0%N.

(* ------------------------------------------------------------------------ *)
(* Stream P: a pipeline of k members started by a shell whose descriptor table
   is unusual (each of 0..5 open or closed), possibly after earlier children
   have been waited for.  Member 0 writes "a", member i (0 < i < k-1) passes
   its input line on with the digit i appended, the last member records what
   it read and exits with [st].  Every member also records which descriptors
   it has open (fcntl F_GETFD on 0..9).
   ORACLE: $? after the pipeline is [st], the last member received
   [expected_data k], nothing is left, no stall.  MODEL: the descriptor moves
   of Fds.pipeline_tables on the same initial table give the right wiring and
   the same sets of open descriptors in every member. *)
Fixpoint fds_agree (ms : list (option tbl)) (fds : list (nat * list nat)) : bool :=
  match fds with
  | [] => true
  | (i, l) :: r =>
      match nth_error ms i with
      | Some (Some t) => list_eqb Nat.eqb (open_fds t) l && fds_agree ms r
      | _ => false
      end
  end.

Definition run_pipefd (lay : list bool) (k : nat) (st : N) (got : list str)
    (fds : list (nat * list nat)) (obs : list Z) (stuck panic : bool) (lf : nat) : verdict :=
  if stuck || panic then 20%N
  else if negb (list_eqb Z.eqb obs [Z.of_N st]) then 25%N
  else if negb (list_eqb str_eqb got [expected_data k]) then 25%N
  else if negb (lf =? 0) then 22%N
  else if (2 <=? k) && (k <=? 6) && (length lay <=? 6) && (length fds =? k) then
    let (ms, _) := pipeline_tables true (tbl_of lay) k in
    if wired_ok true (tbl_of lay) k && fds_agree ms fds then 0%N else 1%N
  else 99%N.

Inductive case :=
  | CPipeFd (lay : list bool) (k : nat) (st : N) (got : list str) (fds : list (nat * list nat))
            (obs : list Z) (stuck panic : bool) (lf : nat)
  | CNest (cmds : list ncmd) (obs : list Z) (status : Z) (stuck panic : bool) (lf : nat)
  | CTrap (by_pid : bool) (k : nat) (st signo : N) (obs : list (N * Z)) (status : Z)
          (stuck panic : bool) (left : nat)
  | CKern (h : list (kop * kobs * ksnap))
  | CScript (p : list cmd) (o : sobs)
  | CCross (waits_all : bool) (runs : list gobs).

Definition run_case (c : case) : verdict :=
  match c with
  | CPipeFd lay k st got fds obs stuck panic lf => run_pipefd lay k st got fds obs stuck panic lf
  | CNest cmds obs status stuck panic lf => run_nest cmds obs status stuck panic lf
  | CTrap b k st sg obs status stuck panic lf => run_trap b k st sg obs status stuck panic lf
  | CKern h => run_kern h
  | CScript p o => run_script p o
  | CCross w runs => run_cross w runs
  end.

Definition run_cases := run_cases_with run_case.
