(* C13 — two pieces of per-process state that fork copies and on which the
   parent/child protocol depends below the transition system of Model.v:

   1. the SIGCHLD plumbing of one process (signal mask, disposition, and the
      cached `select_mask` of yash-env/src/system/concurrency.rs `State`), with
      `clone_for_fork` as a parameter, along any line of descent of a process
      tree (fork at any point of the parent's life);
   2. the descriptor moves of a pipeline (yash-semantics/src/command/
      pipeline.rs `PipeSet::shift` / `move_to_stdin_stdout`) on an arbitrary
      initial descriptor table. *)
From Yv Require Import Common.Base.

(* ------------------------------------------------------------------------ *)
(* 1. SIGCHLD plumbing of a process *)

Record sigst := mkSig {
  sg_blocked : bool;            (* SIGCHLD is in the signal mask of the process *)
  sg_catch : bool;              (* disposition of SIGCHLD is Catch (internal disposition installed) *)
  sg_selmask : option bool }.   (* State::select_mask: None = never initialised,
                                   Some b = SIGCHLD is (b = true) / is not in the mask given to select *)

Definition sig0 : sigst := mkSig false false None.

(* Concurrent::update_sigmask_and_select_mask(Add, SIGCHLD):
   sigmask(Add) returns the old mask; select_mask.get_or_insert(old).remove(SIGCHLD) *)
Definition sig_block (s : sigst) : sigst :=
  mkSig true (sg_catch s) (Some false).

(* TrapSet::enable_internal_disposition_for_sigchld, as used by
   Env::wait_for_subshell: idempotent -- nothing happens when the (inherited)
   trap set says the disposition is already installed; otherwise
   set_disposition(Catch) = block + update select mask, then sigaction *)
Definition sig_ensure (s : sigst) : sigst :=
  if sg_catch s then s
  else let s' := sig_block s in mkSig (sg_blocked s') true (sg_selmask s').

(* what the child gets: the kernel copies mask and disposition; the
   concurrency state is copied by [cf] = clone_for_fork's treatment of select_mask *)
Definition sig_fork (cf : option bool -> option bool) (s : sigst) : sigst :=
  mkSig (sg_blocked s) (sg_catch s) (cf (sg_selmask s)).

Definition cf_real : option bool -> option bool := fun m => m.      (* select_mask: self.select_mask.clone() *)
Definition cf_reset : option bool -> option bool := fun _ => None.  (* a `Default::default()` there *)

(* select_impl: the mask given to select is select_mask if there is one,
   otherwise the signal mask stays as it is.  A process blocked in select is
   woken by the termination of its child iff SIGCHLD is caught and not blocked
   during select. *)
Definition sig_wakes (s : sigst) : bool :=
  sg_catch s && negb (match sg_selmask s with Some b => b | None => sg_blocked s end).

(* the life of a line of descent: the current process prepares to wait
   (ensure), or forks and we follow the child *)
Inductive sigev := EEnsure | EFork.

Definition sig_step (cf : option bool -> option bool) (s : sigst) (e : sigev) : sigst :=
  match e with EEnsure => sig_ensure s | EFork => sig_fork cf s end.

Definition sig_run (cf : option bool -> option bool) (es : list sigev) : sigst :=
  fold_left (sig_step cf) es sig0.

(* ------------------------------------------------------------------------ *)
(* 2. Descriptor tables and the PipeSet *)

Inductive obj :=
  | Orig (fd : nat)     (* what the shell had at this descriptor when the pipeline started *)
  | PR (i : nat)        (* read end of the pipe between members i and i+1 *)
  | PW (i : nat).       (* its write end *)

Definition obj_eqb (a b : obj) : bool :=
  match a, b with
  | Orig i, Orig j | PR i, PR j | PW i, PW j => i =? j
  | _, _ => false
  end.

Definition tbl := list (option obj).   (* index = descriptor; absent = closed *)

Definition tget (t : tbl) (fd : nat) : option obj := nth fd t None.

Fixpoint tset (t : tbl) (fd : nat) (v : option obj) : tbl :=
  match t, fd with
  | [], O => [v]
  | [], S n => None :: tset [] n v
  | _ :: r, O => v :: r
  | x :: r, S n => x :: tset r n v
  end.

Definition is_none {A} (o : option A) : bool := match o with None => true | _ => false end.

(* lowest closed descriptor >= lo *)
Definition lowest_free (t : tbl) (lo : nat) : nat :=
  match find (fun i => is_none (tget t i)) (seq lo (S (length t))) with
  | Some i => i
  | None => Nat.max lo (length t)
  end.

Definition t_pipe (t : tbl) (i : nat) : tbl * (nat * nat) :=
  let r := lowest_free t 0 in
  let t1 := tset t r (Some (PR i)) in
  let w := lowest_free t1 0 in
  (tset t1 w (Some (PW i)), (r, w)).

Definition t_close (t : tbl) (fd : nat) : tbl := tset t fd None.

(* None = EBADF *)
Definition t_dup2 (t : tbl) (from to : nat) : option tbl :=
  match tget t from with
  | Some o => Some (tset t to (Some o))
  | None => None
  end.

Definition t_dup (t : tbl) (from lo : nat) : option (tbl * nat) :=
  match tget t from with
  | Some o => let n := lowest_free t lo in Some (tset t n (Some o), n)
  | None => None
  end.

Record pipeset := mkPS { ps_prev : option nat; ps_next : option (nat * nat) }.

(* PipeSet::shift; [i] = number of the pipe opened if has_next *)
Definition ps_shift (t : tbl) (ps : pipeset) (has_next : bool) (i : nat) : tbl * pipeset :=
  let t1 := match ps_prev ps with Some fd => t_close t fd | None => t end in
  let (t2, prev) := match ps_next ps with
                    | Some (r, w) => (t_close t1 w, Some r)
                    | None => (t1, None)
                    end in
  if has_next then let (t3, rw) := t_pipe t2 i in (t3, mkPS prev (Some rw))
  else (t2, mkPS prev None).

Definition onat_eqb (a : option nat) (b : nat) : bool :=
  match a with Some x => x =? b | None => false end.

(* PipeSet::move_to_stdin_stdout in the child; [fixed] = false leaves out the
   "move the previous reader away from descriptor 1 first" step.
   None = an assert_ne! fails or a system call reports an error *)
Definition ps_move (fixed : bool) (t : tbl) (ps : pipeset) : option tbl :=
  let step1 :=
    match ps_next ps with
    | Some (r, w) =>
        if (r =? w) || onat_eqb (ps_prev ps) r || onat_eqb (ps_prev ps) w then None
        else
          let t1 := t_close t r in
          if w =? 1 then Some (t1, ps_prev ps)
          else
            let moved :=
              if fixed && onat_eqb (ps_prev ps) 1
              then match t_dup t1 1 0 with
                   | Some (t2, n) => Some (t2, Some n)
                   | None => None
                   end
              else Some (t1, ps_prev ps) in
            match moved with
            | Some (t2, prev) =>
                match t_dup2 t2 w 1 with
                | Some t3 => Some (t_close t3 w, prev)
                | None => None
                end
            | None => None
            end
    | None => Some (t, ps_prev ps)
    end in
  match step1 with
  | Some (t1, Some r) =>
      if r =? 0 then Some t1
      else match t_dup2 t1 r 0 with
           | Some t2 => Some (t_close t2 r)
           | None => None
           end
  | Some (t1, None) => Some t1
  | None => None
  end.

(* execute_multi_command_pipeline: the tables of the members (None where the
   moves fail) and the table of the shell after the last shift *)
Fixpoint pipe_loop (fixed : bool) (t : tbl) (ps : pipeset) (i todo : nat)
  : list (option tbl) * tbl :=
  match todo with
  | O => let (t', _) := ps_shift t ps false i in ([], t')
  | S todo' =>
      let (t1, ps1) := ps_shift t ps (negb (todo' =? 0)) i in
      let child := ps_move fixed t1 ps1 in
      let (rest, tf) := pipe_loop fixed t1 ps1 (S i) todo' in
      (child :: rest, tf)
  end.

Definition pipeline_tables (fixed : bool) (t0 : tbl) (k : nat) : list (option tbl) * tbl :=
  pipe_loop fixed t0 (mkPS None None) 0 k.

(* SPEC: member i of k has the previous pipe's read end as descriptor 0 (the
   shell's own for the first), the next pipe's write end as descriptor 1 (the
   shell's own for the last), and every other descriptor as the shell had it:
   no other pipe end is open in it (otherwise a reader never sees EOF); the
   shell's table is unchanged at the end. *)
Definition oobj_eqb (a b : option obj) : bool :=
  match a, b with
  | Some x, Some y => obj_eqb x y
  | None, None => true
  | _, _ => false
  end.

Definition want (t0 : tbl) (k i fd : nat) : option obj :=
  match fd with
  | 0 => if i =? 0 then tget t0 0 else Some (PR (i - 1))
  | 1 => if S i =? k then tget t0 1 else Some (PW i)
  | _ => tget t0 fd
  end.

Definition tbl_matches (t0 : tbl) (k i : nat) (t : tbl) : bool :=
  forallb (fun fd => oobj_eqb (tget t fd) (want t0 k i fd))
          (seq 0 (Nat.max (length t) (length t0))).

Definition same_tbl (a b : tbl) : bool :=
  forallb (fun fd => oobj_eqb (tget a fd) (tget b fd)) (seq 0 (Nat.max (length a) (length b))).

Fixpoint members_ok (t0 : tbl) (k i : nat) (l : list (option tbl)) : bool :=
  match l with
  | [] => true
  | Some t :: r => tbl_matches t0 k i t && members_ok t0 k (S i) r
  | None :: _ => false
  end.

Definition wired_ok (fixed : bool) (t0 : tbl) (k : nat) : bool :=
  let (ms, tf) := pipeline_tables fixed t0 k in
  (length ms =? k) && members_ok t0 k 0 ms && same_tbl tf t0.

(* initial tables: descriptor i open iff the i-th boolean *)
Definition tbl_of (open : list bool) : tbl :=
  map (fun x => if snd x : bool then Some (Orig (fst x)) else None) (combine (seq 0 (length open)) open).

Fixpoint layouts (n : nat) : list (list bool) :=
  match n with
  | O => [[]]
  | S n => flat_map (fun l => [true :: l; false :: l]) (layouts n)
  end.

(* which descriptors are open in a table, as seen by fcntl(F_GETFD) *)
Definition open_fds (t : tbl) : list nat :=
  filter (fun fd => negb (is_none (tget t fd))) (seq 0 (length t)).

(* what the last member reads when every member passes its input on and
   appends its number: the data follow the descriptors of the model *)
Definition expected_data (k : nat) : str :=
  97%N :: map (fun i => (48 + N.of_nat i)%N) (seq 1 (k - 2)).
