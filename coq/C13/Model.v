(* C13 — executable model of the parent/child protocol of the shell on the
   simulated OS.

   Anchors (yash-rs):
     yash-env/src/system/virtual.rs          Fork::run_in_child_process (pid = max + 1),
                                             Wait::wait, SystemState::child_to_wait_for,
                                             Exit::exit (set_state + raise_sigchld)
     yash-env/src/system/virtual/process.rs  Process::{set_state, take_state, state_has_changed,
                                             raise_signal, deliver_signal, block_signals}
     yash-env/src/system/virtual/select.rs   select: the signal mask is replaced while waiting,
                                             pending signals are delivered, EINTR
     yash-env/src/system/concurrency/signal.rs  set_disposition(Catch) blocks the signal first
     yash-env/src/lib.rs                     Env::wait_for_subshell{,_to_halt,_to_finish},
                                             wait_for_signal, update_all_subshell_statuses
     yash-semantics/src/command/pipeline.rs  execute_multi_command_pipeline (start all, wait each,
                                             pipefail)
     yash-semantics/src/command/item.rs      execute_async ($!, job list)
     yash-semantics/src/command.rs           Command::execute -> update_all_subshell_statuses
     yash-builtin/src/wait{.rs,/core.rs,/status.rs,/search.rs}  the wait built-in

   One shell process (the parent) runs a list of commands; every child is a
   straight-line process (some local work, then exit with a fixed status).
   A step of the system is one step of the parent or of one child; the
   scheduler is the list of labels. *)
From Yv Require Import Common.Base.

(* ------------------------------------------------------------------------ *)
(* The kernel part: children and the parent's SIGCHLD state. *)

(* what a child does: local work, or a signal to one of its siblings (or itself) *)
Inductive sig := SStop | SCont.
Inductive cact := AWork | AKill (s : sig) (t : nat).

Inductive cstate :=
  | Running (p : list cact)   (* the actions left before the exit *)
  | Stopped (p : list cact)   (* suspended by SIGSTOP; resumes with SIGCONT *)
  | Zombie                    (* exited, not yet reported by wait *)
  | Reaped.                   (* exited and reported by wait *)

Record child := mkChild {
  cs : cstate;
  code : N;               (* the exit status this child ends with *)
  reaps : nat;            (* how many times wait has reported its exit *)
  chg : bool }.           (* alive child: a stop / continuation not yet reported
                             (Process::state_has_changed); false once exited *)

Record kern := mkKern {
  kids : list child;      (* child i has process ID 3 + i *)
  catching : bool;        (* disposition of SIGCHLD is Catch (otherwise Default = ignored) *)
  blocked : bool;         (* SIGCHLD is in the signal mask *)
  pending : bool;         (* SIGCHLD is pending (raised while blocked) *)
  caught : nat }.         (* caught SIGCHLDs not yet consumed (Process::caught_signals) *)

Definition kern0 : kern := mkKern [] false false false 0.

Definition set_kids (k : kern) (l : list child) : kern :=
  mkKern l (catching k) (blocked k) (pending k) (caught k).

(* Process::deliver_signal for SIGCHLD: Catch => caught; Default => no effect *)
Definition deliver (k : kern) : kern :=
  if catching k then mkKern (kids k) true (blocked k) (pending k) (S (caught k)) else k.

(* Process::raise_signal(SIGCHLD) on the parent *)
Definition raise_chld (k : kern) : kern :=
  if blocked k then mkKern (kids k) (catching k) true true (caught k) else deliver k.

(* Process::block_signals: adding to / removing from the mask; a pending signal
   is delivered when it gets unblocked *)
Definition k_block (k : kern) : kern :=
  mkKern (kids k) (catching k) true (pending k) (caught k).
Definition k_unblock (k : kern) : kern :=
  let k' := mkKern (kids k) (catching k) false false (caught k) in
  if pending k then deliver k' else k'.
Definition k_catch (k : kern) (b : bool) : kern :=
  mkKern (kids k) b (blocked k) (pending k) (caught k).
(* CaughtSignals::caught_signals takes the list *)
Definition k_take_caught (k : kern) : kern :=
  mkKern (kids k) (catching k) (blocked k) (pending k) 0.

(* fork: a new running child *)
Definition k_fork (k : kern) (p : list cact) (st : N) : kern * nat :=
  (set_kids k (kids k ++ [mkChild (Running p) st 0 false]), length (kids k)).

Fixpoint upd {A} (l : list A) (i : nat) (x : A) : list A :=
  match l, i with
  | [], _ => []
  | _ :: t, O => x :: t
  | y :: t, S i => y :: upd t i x
  end.

(* SendSignal::kill(pid of child t, SIGSTOP / SIGCONT): Process::raise_signal
   changes the state of a live target, marks the change as unreported and
   the parent gets SIGCHLD; a signal that changes nothing has no effect.
   (A signal to a terminated process has no effect either: POSIX.) *)
Definition k_signal (k : kern) (s : sig) (t : nat) : kern :=
  match nth_error (kids k) t with
  | Some c =>
      match s, cs c with
      | SStop, Running p =>
          raise_chld (set_kids k (upd (kids k) t (mkChild (Stopped p) (code c) (reaps c) true)))
      | SCont, Stopped p =>
          raise_chld (set_kids k (upd (kids k) t (mkChild (Running p) (code c) (reaps c) true)))
      | _, _ => k
      end
  | None => k
  end.

(* one step of child i: local work, a signal, or exit (set_state + raise_sigchld);
   a stopped child does not run *)
Definition child_step (k : kern) (i : nat) : option kern :=
  match nth_error (kids k) i with
  | Some c =>
      match cs c with
      | Running (AWork :: r) =>
          Some (set_kids k (upd (kids k) i (mkChild (Running r) (code c) (reaps c) (chg c))))
      | Running (AKill s t :: r) =>
          Some (k_signal (set_kids k (upd (kids k) i (mkChild (Running r) (code c) (reaps c) (chg c))))
                         s t)
      | Running [] =>
          Some (raise_chld (set_kids k (upd (kids k) i (mkChild Zombie (code c) (reaps c) false))))
      | _ => None
      end
  | None => None
  end.

Inductive target := TPid (i : nat) | TAny.
Inductive wres :=
  | WSome (i : nat) (st : N)     (* child i has exited with st *)
  | WStop (i : nat)              (* child i has been stopped *)
  | WCont (i : nat)              (* child i has been continued *)
  | WNone | WEchild.

Definition is_zombie (c : child) : bool := match cs c with Zombie => true | _ => false end.
Definition is_reaped (c : child) : bool := match cs c with Reaped => true | _ => false end.
(* ProcessState::is_alive: running or stopped *)
Definition is_alive (c : child) : bool :=
  match cs c with Running _ | Stopped _ => true | _ => false end.
(* Process::state_has_changed *)
Definition has_news_c (c : child) : bool :=
  match cs c with Zombie => true | Running _ | Stopped _ => chg c | Reaped => false end.

Fixpoint find_from {A} (f : A -> bool) (l : list A) (i : nat) : option (nat * A) :=
  match l with
  | [] => None
  | x :: t => if f x then Some (i, x) else find_from f t (S i)
  end.

Definition reap (c : child) : child := mkChild Reaped (code c) (S (reaps c)) false.
Definition seen (c : child) : child := mkChild (cs c) (code c) (reaps c) false.

(* Process::take_state on child i *)
Definition report (k : kern) (i : nat) (c : child) : wres * kern :=
  match cs c with
  | Zombie => (WSome i (code c), set_kids k (upd (kids k) i (reap c)))
  | Stopped _ => (WStop i, set_kids k (upd (kids k) i (seen c)))
  | Running _ => (WCont i, set_kids k (upd (kids k) i (seen c)))
  | Reaped => (WEchild, k)
  end.

(* VirtualSystem::wait + child_to_wait_for (WNOHANG semantics: never blocks).
   -1: a child whose state has changed first; otherwise "none yet" if a child
   is alive; otherwise ECHILD.  A state change is an exit, a stop or a
   continuation. *)
Definition kwait (k : kern) (t : target) : wres * kern :=
  match t with
  | TPid i =>
      match nth_error (kids k) i with
      | Some c =>
          if has_news_c c then report k i c
          else if is_alive c then (WNone, k) else (WEchild, k)
      | None => (WEchild, k)
      end
  | TAny =>
      match find_from has_news_c (kids k) 0 with
      | Some (i, c) => report k i c
      | None => if existsb is_alive (kids k) then (WNone, k) else (WEchild, k)
      end
  end.

(* ------------------------------------------------------------------------ *)
(* The parent: commands and the micro-steps of their execution. *)

Inductive cmd :=
  | CAsync (p : list cact) (st : N)               (* { actions p; exit st; } &     *)
  | CPipe (l : list (list cact * N)) (pipefail : bool)  (* c1 | c2 | ... ; one element: ( c1 ) *)
  | CWait (t : option nat)                        (* wait  /  wait PID-of-child-t  *)
  | CProbe.                                       (* record $? and $!              *)

(* the stages of the loop "poll wait; if nothing yet, wait for SIGCHLD" *)
Inductive wstage :=
  | SInst      (* enable the internal disposition for SIGCHLD: block it, then catch it *)
  | SPoll      (* about to call wait(target) *)
  | SEnter     (* wait said "none yet": about to enter select (which unblocks SIGCHLD) *)
  | SBlocked.  (* inside select, SIGCHLD unblocked *)

(* what happens with the result of the loop *)
Inductive cont :=
  | KPipe (more : list nat) (final : N) (pipefail : bool) (reap_after : bool)
      (* wait_for_subshell_to_finish for a pipeline member; [more]: members still to wait for *)
  | KBuiltin (t : option nat).   (* wait_for_any_job_or_trap inside the wait built-in *)

Inductive pc :=
  | PIdle                                              (* fetch the next command *)
  | PFork (todo : list (list cact * N)) (pids : list nat) (pipefail : bool)
  | PWait (m : wstage) (t : target) (k : cont)
  | PBuiltin (t : option nat)                          (* the wait built-in looks at the job list *)
  | PReap                                              (* update_all_subshell_statuses *)
  | PExit
  | PPanic.                                            (* .expect("cannot receive exit status ...") *)

Record state := mkState {
  kn : kern;
  prog : list cmd;
  at_ : pc;
  status : N;                          (* $? *)
  lastbg : option nat;                 (* $! (index of the child) *)
  jobs : list (nat * option N);        (* job list: child, recorded exit status if finished *)
  trace : list (N * option nat) }.     (* what the probes saw *)

Definition init (p : list cmd) : state := mkState kern0 p PIdle 0%N None [] [].

Definition NOT_FOUND : N := 127%N.

Fixpoint job_update (j : list (nat * option N)) (i : nat) (st : N) : list (nat * option N) :=
  match j with
  | [] => []
  | (x, r) :: t => if x =? i then (x, Some st) :: t else (x, r) :: job_update t i st
  end.

Fixpoint job_find (j : list (nat * option N)) (i : nat) : option (option N) :=
  match j with
  | [] => None
  | (x, r) :: t => if x =? i then Some r else job_find t i
  end.

Fixpoint job_remove (j : list (nat * option N)) (i : nat) : list (nat * option N) :=
  match j with
  | [] => []
  | (x, r) :: t => if x =? i then t else (x, r) :: job_remove t i
  end.

(* wait without operands (status.rs any_job_is_running): finished jobs are
   removed one after the other until a running one is met.  (The order of the
   job list is the order of creation here; the slab order of the real JobList
   is not observable through wait, $? and $!.) *)
Fixpoint job_unfinished (j : list (nat * option N)) : list (nat * option N) :=
  match j with
  | [] => []
  | (_, Some _) :: t => job_unfinished t
  | (x, None) :: t => (x, None) :: t
  end.

Definition is_nil_nat (l : list nat) : bool := match l with [] => true | _ => false end.

Definition set_at (s : state) (k : kern) (a : pc) : state :=
  mkState k (prog s) a (status s) (lastbg s) (jobs s) (trace s).

(* the exit status of a pipeline so far, after member with status [st] *)
Definition pipe_status (final st : N) (pipefail : bool) : N :=
  if negb (N.eqb st 0) || negb pipefail then st else final.

(* a command that is a simple or compound command ends with
   update_all_subshell_statuses; asynchronous items and multi-command
   pipelines do not *)
Definition finish (s : state) (k : kern) (st : N) (reap_after : bool) : state :=
  mkState k (prog s) (if reap_after then PReap else PIdle) st (lastbg s) (jobs s) (trace s).

Definition parent_step (s : state) : option state :=
  let k := kn s in
  match at_ s with
  | PIdle =>
      match prog s with
      | [] => Some (set_at s k PExit)
      | CAsync w st :: r =>
          let (k', i) := k_fork k w st in
          Some (mkState k' r PIdle 0%N (Some i) (jobs s ++ [(i, None)]) (trace s))
      | CPipe l pf :: r =>
          Some (mkState k r (PFork l [] pf) (status s) (lastbg s) (jobs s) (trace s))
      | CWait t :: r =>
          Some (mkState k r (PBuiltin t) (status s) (lastbg s) (jobs s) (trace s))
      | CProbe :: r =>
          Some (mkState k r PReap 0%N (lastbg s) (jobs s) (trace s ++ [(status s, lastbg s)]))
      end
  | PFork ((w, st) :: todo) pids pf =>
      let (k', i) := k_fork k w st in
      Some (set_at s k' (PFork todo (pids ++ [i]) pf))
  | PFork [] pids pf =>
      match pids with
      | [] => Some (finish s k 0%N false)
      | p :: more => Some (set_at s k (PWait SInst (TPid p) (KPipe more 0%N pf (is_nil_nat more))))
      end
  | PWait SInst t c =>
      if negb (blocked k) then Some (set_at s (k_block k) (PWait SInst t c))
      else if negb (catching k) then Some (set_at s (k_catch k true) (PWait SInst t c))
      else Some (set_at s k (PWait SPoll t c))
  | PWait SPoll t c =>
      match kwait k t with
      | (WSome i st, k') =>
          let j' := job_update (jobs s) i st in
          match c with
          | KPipe more final pf ra =>
              let final' := pipe_status final st pf in
              match more with
              | [] => Some (mkState k' (prog s) (if ra then PReap else PIdle) final'
                                    (lastbg s) j' (trace s))
              | p :: more' =>
                  Some (mkState k' (prog s) (PWait SInst (TPid p) (KPipe more' final' pf ra))
                                (status s) (lastbg s) j' (trace s))
              end
          | KBuiltin t0 =>
              Some (mkState k' (prog s) (PBuiltin t0) (status s) (lastbg s) j' (trace s))
          end
      | (WStop _, k') | (WCont _, k') =>
          (* a stop or a continuation: without job control the waiter goes on
             waiting (wait_for_subshell_to_halt / _to_finish / start_and_wait loop;
             the wait built-in re-examines the job) *)
          match c with
          | KPipe _ _ _ _ => Some (set_at s k' (PWait SInst t c))
          | KBuiltin t0 => Some (set_at s k' (PBuiltin t0))
          end
      | (WNone, _) => Some (set_at s k (PWait SEnter t c))
      | (WEchild, _) =>
          match c with
          | KPipe _ _ _ _ => Some (set_at s k PPanic)
          | KBuiltin _ => Some (finish s k 1%N true)       (* "no job to wait for" *)
          end
      end
  | PWait SEnter t c =>
      (* select replaces the mask: a pending SIGCHLD is delivered at once and
         select returns EINTR; the caught signals are consumed *)
      let k1 := k_unblock k in
      if 0 <? caught k1 then Some (set_at s (k_take_caught (k_block k1)) (PWait SPoll t c))
      else Some (set_at s k1 (PWait SBlocked t c))
  | PWait SBlocked t c =>
      if 0 <? caught k then Some (set_at s (k_take_caught (k_block k)) (PWait SPoll t c))
      else None
  | PBuiltin t0 =>
      match t0 with
      | Some i =>
          match job_find (jobs s) i with
          | None => Some (finish s k NOT_FOUND true)
          | Some (Some st) =>
              Some (mkState k (prog s) PReap st (lastbg s) (job_remove (jobs s) i) (trace s))
          | Some None => Some (set_at s k (PWait SInst TAny (KBuiltin t0)))
          end
      | None =>
          let j' := job_unfinished (jobs s) in
          match j' with
          | [] => Some (mkState k (prog s) PReap 0%N (lastbg s) [] (trace s))
          | _ :: _ =>
              Some (mkState k (prog s) (PWait SInst TAny (KBuiltin None)) (status s) (lastbg s) j'
                            (trace s))
          end
      end
  | PReap =>
      match kwait k TAny with
      | (WSome i st, k') =>
          Some (mkState k' (prog s) PReap (status s) (lastbg s) (job_update (jobs s) i st) (trace s))
      | (WStop _, k') | (WCont _, k') => Some (set_at s k' PReap)
      | (_, _) => Some (set_at s k PIdle)
      end
  | PExit | PPanic => None
  end.

(* ------------------------------------------------------------------------ *)
(* The system: the scheduler picks the parent or a child at every step. *)
Inductive label := LP | LC (i : nat).

Definition step (s : state) (l : label) : option state :=
  match l with
  | LP => parent_step s
  | LC i =>
      match child_step (kn s) i with
      | Some k' => Some (set_at s k' (at_ s))
      | None => None
      end
  end.

Fixpoint run (s : state) (ls : list label) : option state :=
  match ls with
  | [] => Some s
  | l :: ls => match step s l with Some s' => run s' ls | None => None end
  end.

Definition final (s : state) : bool := match at_ s with PExit => true | _ => false end.

(* ------------------------------------------------------------------------ *)
(* The reference: what a sequential reading of the script gives.  The n-th
   child ever created has index n; its exit status is the one written in the
   script. *)
Record rstate := mkR {
  r_n : nat;                    (* children created so far *)
  r_jobs : list (nat * N);      (* asynchronous children not yet waited for, with their status *)
  r_status : N;
  r_lastbg : option nat;
  r_trace : list (N * option nat) }.

Definition rstate0 : rstate := mkR 0 [] 0%N None [].

Fixpoint pipe_result (l : list (list cact * N)) (final : N) (pf : bool) : N :=
  match l with
  | [] => final
  | (_, st) :: t => pipe_result t (pipe_status final st pf) pf
  end.

Fixpoint rjob_find (j : list (nat * N)) (i : nat) : option N :=
  match j with
  | [] => None
  | (x, st) :: t => if x =? i then Some st else rjob_find t i
  end.

Fixpoint rjob_remove (j : list (nat * N)) (i : nat) : list (nat * N) :=
  match j with
  | [] => []
  | (x, st) :: t => if x =? i then t else (x, st) :: rjob_remove t i
  end.

Definition ref_cmd (r : rstate) (c : cmd) : rstate :=
  match c with
  | CAsync w st =>
      mkR (S (r_n r)) (r_jobs r ++ [(r_n r, st)]) 0%N (Some (r_n r)) (r_trace r)
  | CPipe l pf =>
      mkR (r_n r + length l) (r_jobs r) (pipe_result l 0%N pf) (r_lastbg r) (r_trace r)
  | CWait None => mkR (r_n r) [] 0%N (r_lastbg r) (r_trace r)
  | CWait (Some i) =>
      match rjob_find (r_jobs r) i with
      | Some st => mkR (r_n r) (rjob_remove (r_jobs r) i) st (r_lastbg r) (r_trace r)
      | None => mkR (r_n r) (r_jobs r) NOT_FOUND (r_lastbg r) (r_trace r)
      end
  | CProbe =>
      mkR (r_n r) (r_jobs r) 0%N (r_lastbg r) (r_trace r ++ [(r_status r, r_lastbg r)])
  end.

Definition ref_run (p : list cmd) : rstate := fold_left ref_cmd p rstate0.

(* An upper bound on the length of every run (Proofs.measure). *)
Definition act_cost (a : cact) : nat := match a with AWork => 1 | AKill _ _ => 24 end.
Definition script_cost (p : list cact) : nat := list_sum (map act_cost p).
Definition spec_cost (x : list cact * N) : nat := 24 + script_cost (fst x).
Definition cmd_cost (c : cmd) : nat :=
  match c with
  | CAsync p _ => 24 + script_cost p
  | CPipe l _ => list_sum (map spec_cost l) + 8 * length l + 13
  | CWait _ => 10
  | CProbe => 3
  end.
Definition run_bound (p : list cmd) : nat := list_sum (map cmd_cost p) + 1.
