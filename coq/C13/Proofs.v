(* C13 — lemmas. *)
From Yv Require Import Common.Base C13.Model C13.Spec.

Lemma ref_run_nil : ref_run [] = rstate0.
Proof. reflexivity. Qed.
