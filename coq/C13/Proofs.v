(* C13 — collects the lemmas and gives concrete instances of the hypotheses of
   the property theorems (non-vacuity). *)
From Yv Require Export Common.Base C13.Model C13.Spec C13.ProofsKern C13.ProofsInv C13.ProofsMain
  C13.ProofsRef.

Definition ex_prog : list cmd :=
  [CAsync [AWork; AWork] 7%N; CAsync [] 0%N; CWait None; CProbe;
   CPipe [([AWork], 1%N); ([], 0%N); ([AWork], 5%N)] false; CProbe;
   CPipe [([], 3%N); ([AWork], 0%N)] true; CProbe; CAsync [AWork] 9%N; CWait (Some 7); CProbe;
   CWait (Some 7); CProbe; CWait (Some 99); CProbe; CWait None].

(* a helper stops the foreground subshell and continues it later: the shell
   keeps waiting and reports the true exit status 5 *)
Definition ex_stop_prog : list cmd :=
  [CAsync [AWork; AKill SStop 1; AWork; AWork; AKill SCont 1] 0%N;
   CPipe [([AWork; AWork; AWork], 5%N)] false; CProbe; CWait None; CProbe].

Definition ex_stop_sched : list label :=
  [LP; LP; LP; LP; LP; LP; LP; LC 0; LC 1; LC 0; LP; LP; LP; LP; LP; LC 0; LC 0; LC 0; LP; LP; LP; LP; LP;
   LC 1; LC 1; LC 1; LC 0].

Example ex_stop_midway :
  exists s c, run (init ex_stop_prog) (firstn 12 ex_stop_sched) = Some s /\
              nth_error (kids (kn s)) 1 = Some c /\ cs c = Stopped [AWork; AWork] /\ final s = false.
Proof. eexists. eexists. vm_compute. repeat split. Qed.

(* a complete run under a round-robin scheduler *)
Fixpoint ex_sched (fuel : nat) (tick : nat) (s : state) : list label :=
  match fuel with
  | O => []
  | S fuel =>
      let ls := LP :: map LC (seq 0 (length (kids (kn s)))) in
      let fix rot (n : nat) (l : list label) : list label :=
        match n, l with S n, x :: t => rot n (t ++ [x]) | _, _ => l end in
      let fix pick (l : list label) : option (label * state) :=
        match l with
        | [] => None
        | x :: t => match step s x with Some s' => Some (x, s') | None => pick t end
        end in
      match pick (rot (tick mod length ls) ls) with
      | Some (l, s') => l :: ex_sched fuel (S tick) s'
      | None => []
      end
  end.

Definition ex_run : list label := ex_sched 400 0 (init ex_prog).

Example ex_run_final :
  exists s, run (init ex_prog) ex_run = Some s /\ final s = true /\
            trace s = [(0%N, Some 1); (5%N, Some 1); (3%N, Some 1); (9%N, Some 7); (127%N, Some 7); (127%N, Some 7)]
            /\ length (kids (kn s)) = 8.
Proof. eexists. vm_compute. repeat split. Qed.

Example ex_stop_run_final :
  exists s, run (init ex_stop_prog) (ex_sched 400 0 (init ex_stop_prog)) = Some s /\ final s = true /\
            trace s = [(5%N, Some 0); (0%N, Some 0)] /\ forallb is_reaped (kids (kn s)) = true.
Proof. eexists. vm_compute. repeat split. Qed.

(* a reachable state in which the parent sits inside select while the child it
   waits for has already exited: the hypotheses of no_lost_sigchld hold *)
Example ex_blocked_with_news :
  exists s t c, run (init [CPipe [([], 4%N)] false]) [LP; LP; LP; LP; LP; LP; LP; LP; LC 0] = Some s /\
              at_ s = PWait SBlocked t c /\ has_news (kn s) t /\ caught (kn s) = 1.
Proof.
  eexists. eexists. eexists. split; [vm_compute; reflexivity|].
  split; [reflexivity|]. split; [|reflexivity]. split; discriminate.
Qed.

(* a non-final reachable state: the hypothesis of progress *)
Example ex_not_final :
  exists s, run (init ex_prog) (firstn 20 ex_run) = Some s /\ final s = false.
Proof. eexists. vm_compute. split; reflexivity. Qed.

(* the order of installation matters: if the parent polled `wait` without
   having blocked SIGCHLD and installed the handler (a state the invariant
   excludes), the exit of the child would go unnoticed *)
Example lost_wakeup_without_handler :
  let s0 := mkState (mkKern [mkChild (Running []) 4%N 0 false] false false false 0) []
                    (PWait SEnter (TPid 0) (KPipe [] 0%N false true)) 0%N None [] [] in
  exists s, run s0 [LC 0; LP] = Some s /\ at_ s = PWait SBlocked (TPid 0) (KPipe [] 0%N false true)
            /\ caught (kn s) = 0 /\ (forall l, step s l = None).
Proof.
  eexists. split; [vm_compute; reflexivity|]. repeat split.
  intros [|[|[|i]]]; reflexivity.
Qed.
