(* C13 — lemmas about the kernel part of the model and the termination measure. *)
From Yv Require Import Common.Base C13.Model.
From Coq Require Import Arith.

Lemma Some_inj {A} (a b : A) : Some a = Some b -> a = b.
Proof. congruence. Qed.

(* ------------------------------------------------------------------------ *)
(* upd / nth_error / find_from *)

Lemma upd_length {A} (l : list A) : forall i x, length (upd l i x) = length l.
Proof. induction l as [|y t IH]; intros [|i] x; cbn; auto. Qed.

Lemma nth_error_upd_same {A} (l : list A) : forall i x c,
  nth_error l i = Some c -> nth_error (upd l i x) i = Some x.
Proof.
  induction l as [|y t IH]; intros [|i] x c H; cbn in *; try discriminate; auto.
  eapply IH; eauto.
Qed.

Lemma nth_error_upd_other {A} (l : list A) : forall i j x,
  i <> j -> nth_error (upd l i x) j = nth_error l j.
Proof.
  induction l as [|y t IH]; intros [|i] [|j] x H; cbn; auto; try congruence.
Qed.

Lemma find_from_spec {A} (f : A -> bool) (l : list A) : forall n i c,
  find_from f l n = Some (i, c) ->
  n <= i /\ nth_error l (i - n) = Some c /\ f c = true /\
  (forall j d, j < i - n -> nth_error l j = Some d -> f d = false).
Proof.
  induction l as [|x t IH]; intros n i c H; cbn in H; [discriminate|].
  destruct (f x) eqn:E.
  - inversion H; subst. rewrite Nat.sub_diag. repeat split; auto. intros j d Hj; lia.
  - apply IH in H. destruct H as [H1 [H2 [H3 H4]]].
    repeat split; auto; try lia.
    + replace (i - n) with (S (i - S n)) by lia. exact H2.
    + intros j d Hj Hd. destruct j as [|j]; cbn in Hd.
      * inversion Hd; subst; assumption.
      * eapply H4; [|exact Hd]. lia.
Qed.

Lemma find_from_none {A} (f : A -> bool) (l : list A) : forall n,
  find_from f l n = None -> forall c, In c l -> f c = false.
Proof.
  induction l as [|x t IH]; intros n H c Hc; [contradiction|].
  cbn in H. destruct (f x) eqn:E; [discriminate|].
  destruct Hc as [->|Hc]; [assumption|]. eapply IH; eauto.
Qed.

Lemma find_from_none_inv {A} (f : A -> bool) (l : list A) : forall n,
  (forall c, In c l -> f c = false) -> find_from f l n = None.
Proof.
  induction l as [|x t IH]; intros n H; [reflexivity|].
  cbn. rewrite (H x (or_introl eq_refl)). apply IH. intros c Hc. apply H. right; exact Hc.
Qed.

(* ------------------------------------------------------------------------ *)
(* counting *)

Definition count {A} (f : A -> bool) (l : list A) : nat := length (filter f l).

Lemma count_app {A} (f : A -> bool) l1 l2 : count f (l1 ++ l2) = count f l1 + count f l2.
Proof. unfold count. rewrite filter_app, app_length. reflexivity. Qed.

Definition b2n (b : bool) : nat := if b then 1 else 0.

Lemma count_upd {A} (f : A -> bool) (l : list A) : forall i c x,
  nth_error l i = Some c -> count f (upd l i x) + b2n (f c) = count f l + b2n (f x).
Proof.
  unfold count.
  induction l as [|y t IH]; intros [|i] c x H; cbn in H; try discriminate.
  - inversion H; subst. cbn [upd filter]. destruct (f c), (f x); cbn; lia.
  - cbn [upd filter]. specialize (IH i c x H). destruct (f y); cbn [length]; lia.
Qed.

Lemma sum_upd {A} (g : A -> nat) (l : list A) : forall i c x,
  nth_error l i = Some c ->
  list_sum (map g (upd l i x)) + g c = list_sum (map g l) + g x.
Proof.
  induction l as [|y t IH]; intros [|i] c x H; cbn in H; try discriminate.
  - inversion H; subst. unfold list_sum. cbn [upd map fold_right]. lia.
  - specialize (IH i c x H). unfold list_sum in *. cbn [upd map fold_right]. lia.
Qed.

Lemma count_exists {A} (f : A -> bool) (l : list A) : existsb f l = true -> 1 <= count f l.
Proof.
  unfold count. induction l as [|x t IH]; cbn; [discriminate|].
  destruct (f x); cbn; [lia|auto].
Qed.

(* ------------------------------------------------------------------------ *)
(* the termination measure *)

Definition unreaped (c : child) : bool := negb (is_reaped c).
Definition fresh_alive (c : child) : bool := is_alive c && chg c.
Definition workload (c : child) : nat :=
  match cs c with Running p | Stopped p => S (script_cost p) | _ => 0 end.

Definition kmeasure (k : kern) : nat :=
  16 * count unreaped (kids k) + 16 * count fresh_alive (kids k)
  + 4 * (count is_alive (kids k) + b2n (pending k) + b2n (0 <? caught k))
  + list_sum (map workload (kids k)).

Definition stage_rank (k : kern) (m : wstage) : nat :=
  match m with
  | SInst => 4 + b2n (negb (blocked k)) + b2n (negb (catching k))
  | SPoll => 3
  | SEnter => 2
  | SBlocked => 1
  end.

Definition fork_rank (todo : list (list cact * N)) (pids : list nat) : nat :=
  list_sum (map spec_cost todo) + 8 * (length todo + length pids) + 12.

Definition pc_rank (k : kern) (a : pc) : nat :=
  match a with
  | PIdle => 1
  | PFork todo pids _ => fork_rank todo pids
  | PWait m _ (KPipe more _ _ _) => stage_rank k m + 8 * length more + 3
  | PWait m _ (KBuiltin _) => stage_rank k m
  | PBuiltin _ => 9
  | PReap => 2
  | PExit | PPanic => 0
  end.

Definition measure (s : state) : nat :=
  list_sum (map cmd_cost (prog s)) + pc_rank (kn s) (at_ s) + kmeasure (kn s).

Lemma measure_init p : measure (init p) = run_bound p.
Proof.
  unfold measure, run_bound, init, kmeasure, count.
  cbn [kn prog at_ kern0 kids pending caught pc_rank filter length map b2n].
  change (0 <? 0) with false. unfold list_sum at 2. cbn [b2n fold_right]. lia.
Qed.

(* ------------------------------------------------------------------------ *)
(* what wait does *)

Lemma kwait_report k t r k' :
  kwait k t = (r, k') -> r <> WNone -> r <> WEchild ->
  exists i c, nth_error (kids k) i = Some c /\ has_news_c c = true /\ report k i c = (r, k') /\
              match t with
              | TPid j => j = i
              | TAny => forall j d, j < i -> nth_error (kids k) j = Some d -> has_news_c d = false
              end.
Proof.
  unfold kwait. destruct t as [j|].
  - destruct (nth_error (kids k) j) as [c|] eqn:E; [|intros H; inversion H; congruence].
    destruct (has_news_c c) eqn:En.
    + intros H _ _. exists j, c. auto.
    + destruct (is_alive c); intros H; inversion H; congruence.
  - destruct (find_from has_news_c (kids k) 0) as [[j c]|] eqn:E.
    + intros H _ _. apply find_from_spec in E. rewrite Nat.sub_0_r in E.
      destruct E as [_ [E1 [E2 E3]]]. exists j, c. auto.
    + destruct (existsb is_alive (kids k)); intros H; inversion H; congruence.
Qed.

Lemma report_cases k i c r k' :
  report k i c = (r, k') -> has_news_c c = true ->
  (cs c = Zombie /\ r = WSome i (code c) /\ k' = set_kids k (upd (kids k) i (reap c))) \/
  ((exists p, cs c = Stopped p) /\ chg c = true /\ r = WStop i /\ k' = set_kids k (upd (kids k) i (seen c))) \/
  ((exists p, cs c = Running p) /\ chg c = true /\ r = WCont i /\ k' = set_kids k (upd (kids k) i (seen c))).
Proof.
  unfold report, has_news_c. destruct (cs c) eqn:Ec; intros H Hn; inversion H; subst; try discriminate.
  - right. right. eauto 6.
  - right. left. eauto 6.
  - left. auto.
Qed.

Lemma kwait_some k t i st k' :
  kwait k t = (WSome i st, k') ->
  exists c, nth_error (kids k) i = Some c /\ cs c = Zombie /\ st = code c /\
            k' = set_kids k (upd (kids k) i (reap c)) /\
            match t with
            | TPid j => j = i
            | TAny => forall j d, j < i -> nth_error (kids k) j = Some d -> has_news_c d = false
            end.
Proof.
  intros H. destruct (kwait_report _ _ _ _ H) as [j [c [Hn [Hnews [Hr Ht]]]]]; try discriminate.
  destruct (report_cases _ _ _ _ _ Hr Hnews) as [[Hc [E1 E2]]|[[_ [_ [E1 _]]]|[_ [_ [E1 _]]]]]; try discriminate.
  inversion E1; subst. exists c. auto.
Qed.

(* wait reports a stop or a continuation of child i *)
Lemma kwait_seen k t r k' i :
  kwait k t = (r, k') -> (r = WStop i \/ r = WCont i) ->
  exists c, nth_error (kids k) i = Some c /\ is_alive c = true /\ chg c = true /\
            k' = set_kids k (upd (kids k) i (seen c)) /\
            (r = WStop i -> exists p, cs c = Stopped p) /\
            (r = WCont i -> exists p, cs c = Running p) /\
            match t with TPid j => j = i | TAny => True end.
Proof.
  intros H Hr.
  destruct (kwait_report _ _ _ _ H) as [j [c [Hn [Hnews [Hrep Ht]]]]];
    try (destruct Hr; subst; discriminate).
  destruct (report_cases _ _ _ _ _ Hrep Hnews) as [[Hc [E1 E2]]|[[[p Hc] [Hg [E1 E2]]]|[[p Hc] [Hg [E1 E2]]]]];
    subst r; destruct Hr as [Hr|Hr]; try discriminate; inversion Hr; subst j;
    exists c; unfold is_alive; rewrite Hc;
    (repeat split; auto; try (intros; eauto; fail); try (intros E; discriminate E));
    destruct t; auto.
Qed.

Lemma kwait_none k t k' :
  kwait k t = (WNone, k') ->
  k' = k /\
  match t with
  | TPid j => exists c, nth_error (kids k) j = Some c /\ is_alive c = true /\ has_news_c c = false
  | TAny => (forall c, In c (kids k) -> has_news_c c = false) /\ existsb is_alive (kids k) = true
  end.
Proof.
  unfold kwait. destruct t as [j|].
  - destruct (nth_error (kids k) j) as [c|] eqn:E; [|discriminate].
    destruct (has_news_c c) eqn:En.
    + unfold report. destruct (cs c); discriminate.
    + destruct (is_alive c) eqn:Ea; [|discriminate].
      intros H; injection H as Hk; subst k'; split; [reflexivity|]. exists c. auto.
  - destruct (find_from has_news_c (kids k) 0) as [[j c]|] eqn:E.
    + unfold report. destruct (cs c); discriminate.
    + destruct (existsb is_alive (kids k)) eqn:Er; [|discriminate].
      intros H; injection H as Hk; subst k'; split; [reflexivity|]. split; [|reflexivity].
      eapply find_from_none; eauto.
Qed.

Lemma kwait_echild k t k' :
  kwait k t = (WEchild, k') ->
  k' = k /\
  match t with
  | TPid j => nth_error (kids k) j = None \/ exists c, nth_error (kids k) j = Some c /\ cs c = Reaped
  | TAny => forall c, In c (kids k) -> cs c = Reaped
  end.
Proof.
  unfold kwait. destruct t as [j|].
  - destruct (nth_error (kids k) j) as [c|] eqn:E.
    + destruct (has_news_c c) eqn:En.
      * unfold report. unfold has_news_c in En. destruct (cs c) eqn:Ec; try discriminate.
      * destruct (is_alive c) eqn:Ea; [discriminate|].
        intros H; injection H as Hk; subst k'; split; [reflexivity|]. right. exists c. split; [reflexivity|].
        unfold has_news_c, is_alive in *. destruct (cs c); try discriminate; reflexivity.
    + intros H; injection H as Hk; subst k'. auto.
  - destruct (find_from has_news_c (kids k) 0) as [[j c]|] eqn:E.
    + unfold report. apply find_from_spec in E. destruct E as [_ [_ [E _]]]. unfold has_news_c in E.
      destruct (cs c); try discriminate.
    + destruct (existsb is_alive (kids k)) eqn:Er; [discriminate|].
      intros H; injection H as Hk; subst k'; split; [reflexivity|].
      intros c Hc. pose proof (find_from_none _ _ _ E c Hc) as Hz.
      assert (Hr : is_alive c = false).
      { destruct (is_alive c) eqn:Hr; [|reflexivity].
        assert (existsb is_alive (kids k) = true) by (apply existsb_exists; exists c; auto).
        congruence. }
      unfold has_news_c, is_alive in *. destruct (cs c); try discriminate; reflexivity.
Qed.

(* how replacing child i changes the four sums of kmeasure *)
Lemma sums_upd k i c c' :
  nth_error (kids k) i = Some c ->
  count unreaped (upd (kids k) i c') + b2n (unreaped c) = count unreaped (kids k) + b2n (unreaped c') /\
  count fresh_alive (upd (kids k) i c') + b2n (fresh_alive c) = count fresh_alive (kids k) + b2n (fresh_alive c') /\
  count is_alive (upd (kids k) i c') + b2n (is_alive c) = count is_alive (kids k) + b2n (is_alive c') /\
  list_sum (map workload (upd (kids k) i c')) + workload c = list_sum (map workload (kids k)) + workload c'.
Proof.
  intros Hn. repeat split; [apply count_upd | apply count_upd | apply count_upd | apply sum_upd]; assumption.
Qed.

(* the measure of a kernel whose child i has been replaced *)
Lemma kmeasure_upd k i c c' :
  nth_error (kids k) i = Some c ->
  kmeasure (set_kids k (upd (kids k) i c'))
  + 16 * b2n (unreaped c) + 16 * b2n (fresh_alive c) + 4 * b2n (is_alive c) + workload c
  = kmeasure k
  + 16 * b2n (unreaped c') + 16 * b2n (fresh_alive c') + 4 * b2n (is_alive c') + workload c'.
Proof.
  intros Hn. destruct (sums_upd k i c c' Hn) as [H1 [H2 [H3 H4]]].
  unfold kmeasure, set_kids; cbn [kids pending caught]. lia.
Qed.

Lemma kids_raise k : kids (raise_chld k) = kids k.
Proof. unfold raise_chld, deliver. destruct (blocked k); [reflexivity|]. destruct (catching k); reflexivity. Qed.

Lemma raise_measure k : kmeasure (raise_chld k) <= kmeasure k + 4.
Proof.
  unfold raise_chld, deliver, kmeasure.
  destruct (blocked k); [|destruct (catching k)]; cbn [kids pending caught];
    destruct (pending k); cbn [b2n];
    destruct (Nat.ltb_spec 0 (caught k)); try destruct (Nat.ltb_spec 0 (S (caught k))); cbn [b2n]; lia.
Qed.

Ltac child_sums H :=
  unfold unreaped, fresh_alive, is_alive, is_reaped, workload, script_cost in H;
  cbn [cs chg code reaps reap seen negb andb b2n map act_cost] in H;
  unfold list_sum in H; cbn [fold_right] in H.

Lemma kmeasure_reap k i c :
  nth_error (kids k) i = Some c -> cs c = Zombie ->
  kmeasure (set_kids k (upd (kids k) i (reap c))) + 16 = kmeasure k.
Proof.
  intros Hn Hc. pose proof (kmeasure_upd k i c (reap c) Hn) as H.
  destruct c as [s0 cd rp cg]. cbn [cs] in Hc. subst s0. child_sums H. cbn [reap code reaps]. lia.
Qed.

Lemma kmeasure_seen k i c :
  nth_error (kids k) i = Some c -> is_alive c = true -> chg c = true ->
  kmeasure (set_kids k (upd (kids k) i (seen c))) + 16 = kmeasure k.
Proof.
  intros Hn Ha Hg. pose proof (kmeasure_upd k i c (seen c) Hn) as H.
  destruct c as [s0 cd rp cg]. cbn [chg] in Hg. subst cg. unfold is_alive in Ha. cbn [cs] in Ha.
  cbn [seen cs code reaps].
  destruct s0; try discriminate; child_sums H; lia.
Qed.

Lemma kmeasure_fork k p st :
  kmeasure (fst (k_fork k p st)) = kmeasure k + 21 + script_cost p.
Proof.
  unfold k_fork, kmeasure, set_kids; cbn [fst kids pending caught].
  rewrite !count_app, map_app, list_sum_app. unfold count. cbn. lia.
Qed.

Lemma signal_measure k s t : kmeasure (k_signal k s t) <= kmeasure k + 20.
Proof.
  unfold k_signal. destruct (nth_error (kids k) t) as [c|] eqn:Hn; [|lia].
  destruct c as [s0 cd rp cg]. cbn [cs code reaps].
  destruct s; destruct s0; try lia.
  - pose proof (raise_measure (set_kids k (upd (kids k) t (mkChild (Stopped p) cd rp true)))).
    pose proof (kmeasure_upd k t _ (mkChild (Stopped p) cd rp true) Hn) as H1.
    child_sums H1. destruct cg; cbn [b2n andb] in H1; lia.
  - pose proof (raise_measure (set_kids k (upd (kids k) t (mkChild (Running p) cd rp true)))).
    pose proof (kmeasure_upd k t _ (mkChild (Running p) cd rp true) Hn) as H1.
    child_sums H1. destruct cg; cbn [b2n andb] in H1; lia.
Qed.

Lemma child_step_measure k i k' :
  child_step k i = Some k' -> kmeasure k' < kmeasure k.
Proof.
  unfold child_step. destruct (nth_error (kids k) i) as [c|] eqn:Hn; [|discriminate].
  destruct c as [s0 cd rp cg]. cbn [cs code reaps chg].
  destruct s0 as [[|[|s t] r]| | |]; try discriminate; intros H; apply Some_inj in H; subst k'.
  - (* exit *)
    pose proof (raise_measure (set_kids k (upd (kids k) i (mkChild Zombie cd rp false)))).
    pose proof (kmeasure_upd k i _ (mkChild Zombie cd rp false) Hn) as H1.
    child_sums H1. destruct cg; cbn [b2n andb] in H1; lia.
  - (* local work *)
    pose proof (kmeasure_upd k i _ (mkChild (Running r) cd rp cg) Hn) as H1.
    child_sums H1. destruct cg; cbn [b2n andb] in H1; lia.
  - (* a signal *)
    pose proof (signal_measure (set_kids k (upd (kids k) i (mkChild (Running r) cd rp cg))) s t).
    pose proof (kmeasure_upd k i _ (mkChild (Running r) cd rp cg) Hn) as H1.
    child_sums H1. destruct cg; cbn [b2n andb] in H1; lia.
Qed.

Lemma kmeasure_block k : kmeasure (k_block k) = kmeasure k.
Proof. reflexivity. Qed.
Lemma kmeasure_catch k b : kmeasure (k_catch k b) = kmeasure k.
Proof. reflexivity. Qed.

Ltac bool_cases :=
  repeat match goal with
  | |- context [b2n (negb ?b)] => destruct b; cbn [negb b2n]
  | |- context [b2n ?b] => is_var b; destruct b; cbn [b2n]
  end.

(* entering select: SIGCHLD is unblocked *)
Lemma enter_select_measure k :
  let k1 := k_unblock k in
  (0 < caught k1 -> kmeasure (k_take_caught (k_block k1)) + 4 <= kmeasure k) /\
  (caught k1 = 0 -> kmeasure k1 <= kmeasure k).
Proof.
  unfold k_unblock, deliver, k_take_caught, k_block, kmeasure;
    cbn [kids pending caught catching blocked].
  destruct (pending k); [destruct (catching k)|]; cbn [kids pending caught catching blocked b2n];
    change (0 <? 0) with false; cbn [b2n];
    (split; [intros H | intros H]);
    try destruct (Nat.ltb_spec 0 (caught k)); try destruct (Nat.ltb_spec 0 (S (caught k)));
    cbn [b2n]; lia.
Qed.

Lemma take_caught_measure k :
  0 < caught k -> kmeasure (k_take_caught (k_block k)) + 4 <= kmeasure k.
Proof.
  intros H. unfold k_take_caught, k_block, kmeasure; cbn [kids pending caught].
  change (0 <? 0) with false. destruct (Nat.ltb_spec 0 (caught k)); [|lia]. cbn [b2n]. lia.
Qed.

Lemma stage_rank_bound k m : stage_rank k m <= 6.
Proof. destruct m; cbn; try lia. destruct (blocked k), (catching k); cbn; lia. Qed.

(* the signal fields are what the ranks look at *)
Lemma stage_rank_kids k l m : stage_rank (set_kids k l) m = stage_rank k m.
Proof. reflexivity. Qed.

Lemma parent_step_measure s s' :
  parent_step s = Some s' -> measure s' < measure s.
Proof.
  destruct s as [k pr a st lb jb tr]. unfold parent_step, measure; cbn [kn prog at_ status lastbg jobs trace].
  destruct a as [|todo pids pf|m t c|t0| | |].
  - (* PIdle *)
    destruct pr as [|[w x|l pf|t|] r]; intros H; apply Some_inj in H; subst s';
      cbn [kn prog at_ set_at map list_sum fold_right cmd_cost pc_rank k_fork fst snd].
    + unfold list_sum; cbn [map fold_right]. lia.
    + pose proof (kmeasure_fork k w x) as Hf. cbn [k_fork fst] in Hf.
      unfold list_sum in *; cbn [map fold_right]. lia.
    + unfold fork_rank, list_sum; cbn [map fold_right length]. lia.
    + unfold list_sum; cbn [map fold_right]. lia.
    + unfold list_sum; cbn [map fold_right]. lia.
  - (* PFork *)
    destruct todo as [|[w x] todo].
    + destruct pids as [|p more]; intros H; apply Some_inj in H; subst s';
        cbn [kn prog at_ set_at finish pc_rank]; unfold fork_rank; cbn [map list_sum length fold_right].
      * unfold list_sum; cbn [fold_right]. lia.
      * pose proof (stage_rank_bound k SInst) as Hb; cbn [stage_rank] in Hb. unfold list_sum; cbn [fold_right]. cbn [stage_rank]. lia.
    + intros H; apply Some_inj in H; subst s'.
      cbn [kn prog at_ set_at pc_rank k_fork fst snd].
      pose proof (kmeasure_fork k w x) as Hf. cbn [k_fork fst] in Hf.
      unfold fork_rank, spec_cost, list_sum in *; cbn [map fold_right length fst].
      rewrite app_length. cbn [length]. lia.
  - (* PWait *)
    destruct m.
    + (* SInst *)
      destruct (blocked k) eqn:Eb; cbn [negb]; [destruct (catching k) eqn:Ec; cbn [negb]|];
        intros H; apply Some_inj in H; subst s'; cbn [kn prog at_ set_at pc_rank];
        try rewrite kmeasure_block; try rewrite kmeasure_catch;
        destruct c; cbn [stage_rank k_block k_catch blocked catching]; rewrite ?Eb, ?Ec; cbn [negb b2n];
        bool_cases; lia.
    + (* SPoll *)
      destruct (kwait k t) as [[i x|i|i| |] k'] eqn:Ew.
      * destruct (kwait_some _ _ _ _ _ Ew) as [ch [Hn [Hz [Hx [Hk _]]]]].
        pose proof (kmeasure_reap k i ch Hn Hz) as Hr. rewrite <- Hk in Hr.
        destruct c as [more fin pf ra|t0].
        -- destruct more as [|p more']; intros H; apply Some_inj in H; subst s';
             cbn [kn prog at_ pc_rank stage_rank length].
           ++ destruct ra; cbn [pc_rank]; lia.
           ++ pose proof (stage_rank_bound k' SInst) as Hb; cbn [stage_rank] in Hb. lia.
        -- intros H; apply Some_inj in H; subst s'. cbn [kn prog at_ pc_rank stage_rank]. lia.
      * destruct (kwait_seen _ _ _ _ i Ew (or_introl eq_refl)) as [ch [Hn [Ha [Hg [Hk _]]]]].
        pose proof (kmeasure_seen k i ch Hn Ha Hg) as Hr. rewrite <- Hk in Hr.
        pose proof (stage_rank_bound k' SInst) as Hb; cbn [stage_rank] in Hb.
        destruct c; intros H; apply Some_inj in H; subst s'; cbn [kn prog at_ set_at pc_rank stage_rank]; lia.
      * destruct (kwait_seen _ _ _ _ i Ew (or_intror eq_refl)) as [ch [Hn [Ha [Hg [Hk _]]]]].
        pose proof (kmeasure_seen k i ch Hn Ha Hg) as Hr. rewrite <- Hk in Hr.
        pose proof (stage_rank_bound k' SInst) as Hb; cbn [stage_rank] in Hb.
        destruct c; intros H; apply Some_inj in H; subst s'; cbn [kn prog at_ set_at pc_rank stage_rank]; lia.
      * intros H; apply Some_inj in H; subst s'. cbn [kn prog at_ set_at pc_rank].
        destruct c; cbn [stage_rank]; lia.
      * destruct c; intros H; apply Some_inj in H; subst s'; cbn [kn prog at_ set_at finish pc_rank stage_rank]; lia.
    + (* SEnter *)
      destruct (enter_select_measure k) as [H1 H2].
      destruct (Nat.ltb_spec 0 (caught (k_unblock k))) as [Hc|Hc];
        intros H; apply Some_inj in H; subst s'; cbn [kn prog at_ set_at pc_rank].
      * specialize (H1 Hc). destruct c; cbn [stage_rank]; lia.
      * assert (Hz : caught (k_unblock k) = 0) by lia. specialize (H2 Hz).
        destruct c; cbn [stage_rank]; lia.
    + (* SBlocked *)
      destruct (Nat.ltb_spec 0 (caught k)) as [Hc|Hc]; [|discriminate].
      intros H; apply Some_inj in H; subst s'; cbn [kn prog at_ set_at pc_rank].
      pose proof (take_caught_measure k Hc). destruct c; cbn [stage_rank]; lia.
  - (* PBuiltin *)
    destruct t0 as [i|].
    + destruct (job_find jb i) as [[x|]|]; intros H; apply Some_inj in H; subst s';
        cbn [kn prog at_ set_at finish pc_rank]; try lia.
      pose proof (stage_rank_bound k SInst) as Hb; cbn [stage_rank] in *. lia.
    + destruct (job_unfinished jb); intros H; apply Some_inj in H; subst s';
        cbn [kn prog at_ set_at finish pc_rank]; try lia.
      pose proof (stage_rank_bound k SInst) as Hb; cbn [stage_rank] in *. lia.
  - (* PReap *)
    destruct (kwait k TAny) as [[i x|i|i| |] k'] eqn:Ew; intros H; apply Some_inj in H; subst s';
      cbn [kn prog at_ set_at pc_rank]; try lia.
    + destruct (kwait_some _ _ _ _ _ Ew) as [ch [Hn [Hz [Hx [Hk _]]]]].
      pose proof (kmeasure_reap k i ch Hn Hz) as Hr. rewrite <- Hk in Hr. lia.
    + destruct (kwait_seen _ _ _ _ i Ew (or_introl eq_refl)) as [ch [Hn [Ha [Hg [Hk _]]]]].
      pose proof (kmeasure_seen k i ch Hn Ha Hg) as Hr. rewrite <- Hk in Hr. lia.
    + destruct (kwait_seen _ _ _ _ i Ew (or_intror eq_refl)) as [ch [Hn [Ha [Hg [Hk _]]]]].
      pose proof (kmeasure_seen k i ch Hn Ha Hg) as Hr. rewrite <- Hk in Hr. lia.
  - discriminate.
  - discriminate.
Qed.

(* a child step leaves the signal mask and the disposition alone *)
Lemma child_step_sigfields k i k' :
  child_step k i = Some k' -> blocked k' = blocked k /\ catching k' = catching k.
Proof.
  assert (Hr : forall kk, blocked (raise_chld kk) = blocked kk /\ catching (raise_chld kk) = catching kk).
  { intros kk. unfold raise_chld, deliver. destruct (blocked kk) eqn:Eb; cbn [blocked catching]; auto.
    destruct (catching kk) eqn:Ec; cbn [blocked catching]; auto. }
  assert (Hs : forall kk s t, blocked (k_signal kk s t) = blocked kk /\ catching (k_signal kk s t) = catching kk).
  { intros kk s t. unfold k_signal. destruct (nth_error (kids kk) t) as [c|]; [|auto].
    destruct s; destruct (cs c); auto;
      match goal with |- context [raise_chld ?x] => destruct (Hr x) as [A B]; rewrite A, B end; auto. }
  unfold child_step. destruct (nth_error (kids k) i) as [c|]; [|discriminate].
  destruct (cs c) as [[|[|s t] r]| | |]; try discriminate; intros H; apply Some_inj in H; subst k'.
  - match goal with |- context [raise_chld ?x] => destruct (Hr x) as [A B]; rewrite A, B end; auto.
  - auto.
  - match goal with |- context [k_signal ?x ?s ?t] => destruct (Hs x s t) as [A B]; rewrite A, B end; auto.
Qed.

Lemma step_measure s l s' : step s l = Some s' -> measure s' < measure s.
Proof.
  destruct l as [|i]; cbn [step].
  - apply parent_step_measure.
  - destruct (child_step (kn s) i) as [k'|] eqn:E; [|discriminate].
    intros H; apply Some_inj in H; subst s'.
    pose proof (child_step_measure _ _ _ E).
    unfold measure, set_at; cbn [kn prog at_].
    assert (pc_rank k' (at_ s) = pc_rank (kn s) (at_ s)).
    { destruct (child_step_sigfields _ _ _ E) as [Hb Hc].
      destruct (at_ s) as [| | m t c0| | | |]; try reflexivity.
      destruct c0, m; cbn [pc_rank stage_rank]; rewrite ?Hb, ?Hc; reflexivity. }
    lia.
Qed.

Lemma run_measure ls : forall s s', run s ls = Some s' -> length ls + measure s' <= measure s.
Proof.
  induction ls as [|l ls IH]; intros s s' H; cbn [run] in H.
  - apply Some_inj in H. subst. cbn. lia.
  - destruct (step s l) as [s1|] eqn:E; [|discriminate].
    pose proof (step_measure _ _ _ E). specialize (IH _ _ H). cbn [length]. lia.
Qed.

Lemma terminates_lemma p ls s : run (init p) ls = Some s -> length ls <= run_bound p.
Proof. intros H. pose proof (run_measure _ _ _ H). rewrite measure_init in H0. lia. Qed.
