(* C13 — lemmas about the kernel part of the model and the termination measure. *)
From Yv Require Import Common.Base C13.Model.
From Coq Require Import Arith.

Lemma Some_inj {A} (a b : A) : Some a = Some b -> a = b.
Proof. congruence. Qed.

(* ------------------------------------------------------------------------ *)
(* upd / nth_error / find_from *)

Lemma upd_length {A} (l : list A) : forall i x, length (upd l i x) = length l.
Proof. induction l as [|y t IH]; intros [|i] x; cbn; auto. Qed.

Lemma nth_error_upd_same {A} (l : list A) : forall i x c,
  nth_error l i = Some c -> nth_error (upd l i x) i = Some x.
Proof.
  induction l as [|y t IH]; intros [|i] x c H; cbn in *; try discriminate; auto.
  eapply IH; eauto.
Qed.

Lemma nth_error_upd_other {A} (l : list A) : forall i j x,
  i <> j -> nth_error (upd l i x) j = nth_error l j.
Proof.
  induction l as [|y t IH]; intros [|i] [|j] x H; cbn; auto; try congruence.
Qed.

Lemma find_from_spec {A} (f : A -> bool) (l : list A) : forall n i c,
  find_from f l n = Some (i, c) ->
  n <= i /\ nth_error l (i - n) = Some c /\ f c = true /\
  (forall j d, j < i - n -> nth_error l j = Some d -> f d = false).
Proof.
  induction l as [|x t IH]; intros n i c H; cbn in H; [discriminate|].
  destruct (f x) eqn:E.
  - inversion H; subst. rewrite Nat.sub_diag. repeat split; auto. intros j d Hj; lia.
  - apply IH in H. destruct H as [H1 [H2 [H3 H4]]].
    repeat split; auto; try lia.
    + replace (i - n) with (S (i - S n)) by lia. exact H2.
    + intros j d Hj Hd. destruct j as [|j]; cbn in Hd.
      * inversion Hd; subst; assumption.
      * eapply H4; [|exact Hd]. lia.
Qed.

Lemma find_from_none {A} (f : A -> bool) (l : list A) : forall n,
  find_from f l n = None -> forall c, In c l -> f c = false.
Proof.
  induction l as [|x t IH]; intros n H c Hc; [contradiction|].
  cbn in H. destruct (f x) eqn:E; [discriminate|].
  destruct Hc as [->|Hc]; [assumption|]. eapply IH; eauto.
Qed.

Lemma find_from_none_inv {A} (f : A -> bool) (l : list A) : forall n,
  (forall c, In c l -> f c = false) -> find_from f l n = None.
Proof.
  induction l as [|x t IH]; intros n H; [reflexivity|].
  cbn. rewrite (H x (or_introl eq_refl)). apply IH. intros c Hc. apply H. right; exact Hc.
Qed.

(* ------------------------------------------------------------------------ *)
(* counting *)

Definition count {A} (f : A -> bool) (l : list A) : nat := length (filter f l).

Lemma count_app {A} (f : A -> bool) l1 l2 : count f (l1 ++ l2) = count f l1 + count f l2.
Proof. unfold count. rewrite filter_app, app_length. reflexivity. Qed.

Definition b2n (b : bool) : nat := if b then 1 else 0.

Lemma count_upd {A} (f : A -> bool) (l : list A) : forall i c x,
  nth_error l i = Some c -> count f (upd l i x) + b2n (f c) = count f l + b2n (f x).
Proof.
  unfold count.
  induction l as [|y t IH]; intros [|i] c x H; cbn in H; try discriminate.
  - inversion H; subst. cbn [upd filter]. destruct (f c), (f x); cbn; lia.
  - cbn [upd filter]. specialize (IH i c x H). destruct (f y); cbn [length]; lia.
Qed.

Lemma sum_upd {A} (g : A -> nat) (l : list A) : forall i c x,
  nth_error l i = Some c ->
  list_sum (map g (upd l i x)) + g c = list_sum (map g l) + g x.
Proof.
  induction l as [|y t IH]; intros [|i] c x H; cbn in H; try discriminate.
  - inversion H; subst. unfold list_sum. cbn [upd map fold_right]. lia.
  - specialize (IH i c x H). unfold list_sum in *. cbn [upd map fold_right]. lia.
Qed.

Lemma count_exists {A} (f : A -> bool) (l : list A) : existsb f l = true -> 1 <= count f l.
Proof.
  unfold count. induction l as [|x t IH]; cbn; [discriminate|].
  destruct (f x); cbn; [lia|auto].
Qed.

(* ------------------------------------------------------------------------ *)
(* the termination measure *)

Definition unreaped (c : child) : bool := negb (is_reaped c).
Definition workload (c : child) : nat := match cs c with Running w => S w | _ => 0 end.

Definition kmeasure (k : kern) : nat :=
  16 * count unreaped (kids k)
  + 4 * (count is_running (kids k) + b2n (pending k) + b2n (0 <? caught k))
  + list_sum (map workload (kids k)).

Definition stage_rank (k : kern) (m : wstage) : nat :=
  match m with
  | SInst => 4 + b2n (negb (blocked k)) + b2n (negb (catching k))
  | SPoll => 3
  | SEnter => 2
  | SBlocked => 1
  end.

Definition fork_rank (todo : list (nat * N)) (pids : list nat) : nat :=
  list_sum (map spec_cost todo) + 8 * (length todo + length pids) + 12.

Definition pc_rank (k : kern) (a : pc) : nat :=
  match a with
  | PIdle => 1
  | PFork todo pids _ => fork_rank todo pids
  | PWait m _ (KPipe more _ _ _) => stage_rank k m + 8 * length more + 3
  | PWait m _ (KBuiltin _) => stage_rank k m
  | PBuiltin _ => 9
  | PReap => 2
  | PExit | PPanic => 0
  end.

Definition measure (s : state) : nat :=
  list_sum (map cmd_cost (prog s)) + pc_rank (kn s) (at_ s) + kmeasure (kn s).

Lemma measure_init p : measure (init p) = run_bound p.
Proof.
  unfold measure, run_bound, init, kmeasure, count.
  cbn [kn prog at_ kern0 kids pending caught pc_rank filter length map b2n].
  change (0 <? 0) with false. unfold list_sum at 2. cbn [b2n fold_right]. lia.
Qed.

(* ------------------------------------------------------------------------ *)
(* what the kernel operations do *)

Lemma kwait_some k t i st k' :
  kwait k t = (WSome i st, k') ->
  exists c, nth_error (kids k) i = Some c /\ cs c = Zombie /\ st = code c /\
            k' = set_kids k (upd (kids k) i (reap c)) /\
            match t with
            | TPid j => j = i
            | TAny => forall j d, j < i -> nth_error (kids k) j = Some d -> is_zombie d = false
            end.
Proof.
  unfold kwait. destruct t as [j|].
  - destruct (nth_error (kids k) j) as [c|] eqn:E; [|discriminate].
    destruct (cs c) eqn:Ec; try discriminate.
    intros H; inversion H; subst. exists c. auto.
  - destruct (find_from is_zombie (kids k) 0) as [[j c]|] eqn:E.
    + intros H; inversion H; subst.
      apply find_from_spec in E. rewrite Nat.sub_0_r in E. destruct E as [_ [E1 [E2 E3]]].
      exists c. repeat split; auto.
      unfold is_zombie in E2. destruct (cs c); try discriminate; reflexivity.
    + destruct (existsb is_running (kids k)); discriminate.
Qed.

Lemma kwait_none k t k' :
  kwait k t = (WNone, k') ->
  k' = k /\
  match t with
  | TPid j => exists c w, nth_error (kids k) j = Some c /\ cs c = Running w
  | TAny => (forall c, In c (kids k) -> is_zombie c = false) /\ existsb is_running (kids k) = true
  end.
Proof.
  unfold kwait. destruct t as [j|].
  - destruct (nth_error (kids k) j) as [c|] eqn:E; [|discriminate].
    destruct (cs c) eqn:Ec; try discriminate.
    intros H; injection H as Hk; subst k'; split; [reflexivity|]. exists c, w. auto.
  - destruct (find_from is_zombie (kids k) 0) as [[j c]|] eqn:E; [discriminate|].
    destruct (existsb is_running (kids k)) eqn:Er; [|discriminate].
    intros H; injection H as Hk; subst k'; split; [reflexivity|]. split; [|reflexivity].
    eapply find_from_none; eauto.
Qed.

Lemma kwait_echild k t k' :
  kwait k t = (WEchild, k') ->
  k' = k /\
  match t with
  | TPid j => nth_error (kids k) j = None \/ exists c, nth_error (kids k) j = Some c /\ cs c = Reaped
  | TAny => forall c, In c (kids k) -> cs c = Reaped
  end.
Proof.
  unfold kwait. destruct t as [j|].
  - destruct (nth_error (kids k) j) as [c|] eqn:E.
    + destruct (cs c) eqn:Ec; try discriminate.
      intros H; injection H as Hk; subst k'; split; [reflexivity|]. right. exists c; auto.
    + intros H; injection H as Hk; subst k'. auto.
  - destruct (find_from is_zombie (kids k) 0) as [[j c]|] eqn:E; [discriminate|].
    destruct (existsb is_running (kids k)) eqn:Er; [discriminate|].
    intros H; injection H as Hk; subst k'; split; [reflexivity|].
    intros c Hc. pose proof (find_from_none _ _ _ E c Hc) as Hz.
    assert (Hr : is_running c = false).
    { destruct (is_running c) eqn:Hr; [|reflexivity].
      assert (existsb is_running (kids k) = true) by (apply existsb_exists; exists c; auto).
      congruence. }
    unfold is_zombie, is_running in *. destruct (cs c); try discriminate; reflexivity.
Qed.

(* how replacing child i changes the three sums of kmeasure *)
Lemma sums_upd k i c c' :
  nth_error (kids k) i = Some c ->
  count unreaped (upd (kids k) i c') + b2n (unreaped c) = count unreaped (kids k) + b2n (unreaped c') /\
  count is_running (upd (kids k) i c') + b2n (is_running c) = count is_running (kids k) + b2n (is_running c') /\
  list_sum (map workload (upd (kids k) i c')) + workload c = list_sum (map workload (kids k)) + workload c'.
Proof.
  intros Hn. repeat split; [apply count_upd | apply count_upd | apply sum_upd]; assumption.
Qed.

Ltac child_facts c Hc :=
  let E1 := fresh "E" in let E2 := fresh "E" in let E3 := fresh "E" in
  assert (E1 : unreaped c = negb match cs c with Reaped => true | _ => false end) by reflexivity;
  assert (E2 : is_running c = match cs c with Running _ => true | _ => false end) by reflexivity;
  assert (E3 : workload c = match cs c with Running w => S w | _ => 0 end) by reflexivity;
  rewrite Hc in E1, E2, E3; cbn [negb] in E1.

Lemma kmeasure_reap k i c :
  nth_error (kids k) i = Some c -> cs c = Zombie ->
  kmeasure (set_kids k (upd (kids k) i (reap c))) + 16 = kmeasure k.
Proof.
  intros Hn Hc. unfold kmeasure, set_kids; cbn [kids pending caught].
  destruct (sums_upd k i c (reap c) Hn) as [H1 [H2 H3]].
  child_facts c Hc.
  change (unreaped (reap c)) with false in H1.
  change (is_running (reap c)) with false in H2.
  change (workload (reap c)) with 0 in H3.
  rewrite E in H1. rewrite E0 in H2. rewrite E1 in H3. cbn [b2n] in *. lia.
Qed.

Lemma kmeasure_fork k w st :
  kmeasure (fst (k_fork k w st)) = kmeasure k + 21 + w.
Proof.
  unfold k_fork, kmeasure, set_kids; cbn [fst kids pending caught].
  rewrite !count_app, map_app, list_sum_app. unfold count. cbn. lia.
Qed.

Lemma kmeasure_sig k l :
  kmeasure (mkKern l (catching k) (blocked k) (pending k) (caught k)) =
  kmeasure (set_kids k l).
Proof. reflexivity. Qed.

Lemma child_step_measure k i k' :
  child_step k i = Some k' -> kmeasure k' < kmeasure k.
Proof.
  unfold child_step. destruct (nth_error (kids k) i) as [c|] eqn:Hn; [|discriminate].
  destruct (cs c) as [[|w]| |] eqn:Hc; try discriminate; intros H; apply Some_inj in H; subst k'.
  - (* exit *)
    set (c' := mkChild Zombie (code c) (reaps c)).
    destruct (sums_upd k i c c' Hn) as [H1 [H2 H3]].
    child_facts c Hc.
    change (unreaped c') with true in H1.
    change (is_running c') with false in H2.
    change (workload c') with 0 in H3.
    rewrite E in H1. rewrite E0 in H2. rewrite E1 in H3. cbn [b2n] in *.
    unfold raise_chld, deliver, set_kids; cbn [blocked catching kids pending caught].
    destruct (blocked k); [|destruct (catching k)]; unfold kmeasure; cbn [kids pending caught];
      destruct (pending k); cbn [b2n];
      destruct (Nat.ltb_spec 0 (caught k)); try destruct (Nat.ltb_spec 0 (S (caught k))); cbn [b2n]; lia.
  - (* local work *)
    set (c' := mkChild (Running w) (code c) (reaps c)).
    destruct (sums_upd k i c c' Hn) as [H1 [H2 H3]].
    child_facts c Hc.
    change (unreaped c') with true in H1.
    change (is_running c') with true in H2.
    change (workload c') with (S w) in H3.
    rewrite E in H1. rewrite E0 in H2. rewrite E1 in H3. cbn [b2n] in *.
    unfold kmeasure, set_kids; cbn [kids pending caught]. lia.
Qed.

Lemma kmeasure_block k : kmeasure (k_block k) = kmeasure k.
Proof. reflexivity. Qed.
Lemma kmeasure_catch k b : kmeasure (k_catch k b) = kmeasure k.
Proof. reflexivity. Qed.

Ltac bool_cases :=
  repeat match goal with
  | |- context [b2n (negb ?b)] => destruct b; cbn [negb b2n]
  | |- context [b2n ?b] => is_var b; destruct b; cbn [b2n]
  end.

(* entering select: SIGCHLD is unblocked *)
Lemma enter_select_measure k :
  let k1 := k_unblock k in
  (0 < caught k1 -> kmeasure (k_take_caught (k_block k1)) + 4 <= kmeasure k) /\
  (caught k1 = 0 -> kmeasure k1 <= kmeasure k).
Proof.
  unfold k_unblock, deliver, k_take_caught, k_block, kmeasure;
    cbn [kids pending caught catching blocked].
  destruct (pending k); [destruct (catching k)|]; cbn [kids pending caught catching blocked b2n];
    change (0 <? 0) with false; cbn [b2n];
    (split; [intros H | intros H]);
    try destruct (Nat.ltb_spec 0 (caught k)); try destruct (Nat.ltb_spec 0 (S (caught k)));
    cbn [b2n]; lia.
Qed.

Lemma take_caught_measure k :
  0 < caught k -> kmeasure (k_take_caught (k_block k)) + 4 <= kmeasure k.
Proof.
  intros H. unfold k_take_caught, k_block, kmeasure; cbn [kids pending caught].
  change (0 <? 0) with false. destruct (Nat.ltb_spec 0 (caught k)); [|lia]. cbn [b2n]. lia.
Qed.

Lemma stage_rank_bound k m : stage_rank k m <= 6.
Proof. destruct m; cbn; try lia. destruct (blocked k), (catching k); cbn; lia. Qed.

Lemma parent_step_measure s s' :
  parent_step s = Some s' -> measure s' < measure s.
Proof.
  destruct s as [k pr a st lb jb tr]. unfold parent_step, measure; cbn [kn prog at_ status lastbg jobs trace].
  destruct a as [|todo pids pf|m t c|t0| | |].
  - (* PIdle *)
    destruct pr as [|[w x|l pf|t|] r]; intros H; apply Some_inj in H; subst s';
      cbn [kn prog at_ set_at map list_sum fold_right cmd_cost pc_rank k_fork fst snd].
    + unfold list_sum; cbn [map fold_right]. lia.
    + pose proof (kmeasure_fork k w x) as Hf. cbn [k_fork fst] in Hf.
      unfold list_sum in *; cbn [map fold_right]. lia.
    + unfold fork_rank, list_sum; cbn [map fold_right length]. lia.
    + unfold list_sum; cbn [map fold_right]. lia.
    + unfold list_sum; cbn [map fold_right]. lia.
  - (* PFork *)
    destruct todo as [|[w x] todo].
    + destruct pids as [|p more]; intros H; apply Some_inj in H; subst s';
        cbn [kn prog at_ set_at finish pc_rank]; unfold fork_rank; cbn [map list_sum length fold_right].
      * unfold list_sum; cbn [fold_right]. lia.
      * pose proof (stage_rank_bound k SInst) as Hb; cbn [stage_rank] in Hb. unfold list_sum; cbn [fold_right]. cbn [stage_rank]. lia.
    + intros H; apply Some_inj in H; subst s'.
      cbn [kn prog at_ set_at pc_rank k_fork fst snd].
      pose proof (kmeasure_fork k w x) as Hf. cbn [k_fork fst] in Hf.
      unfold fork_rank, spec_cost, list_sum in *; cbn [map fold_right length fst].
      rewrite app_length. cbn [length]. lia.
  - (* PWait *)
    destruct m.
    + (* SInst *)
      destruct (blocked k) eqn:Eb; cbn [negb]; [destruct (catching k) eqn:Ec; cbn [negb]|];
        intros H; apply Some_inj in H; subst s'; cbn [kn prog at_ set_at pc_rank];
        try rewrite kmeasure_block; try rewrite kmeasure_catch;
        destruct c; cbn [stage_rank k_block k_catch blocked catching]; rewrite ?Eb, ?Ec; cbn [negb b2n];
        bool_cases; lia.
    + (* SPoll *)
      destruct (kwait k t) as [[i x| |] k'] eqn:Ew.
      * destruct (kwait_some _ _ _ _ _ Ew) as [ch [Hn [Hz [Hx [Hk _]]]]].
        pose proof (kmeasure_reap k i ch Hn Hz) as Hr. rewrite <- Hk in Hr.
        destruct c as [more fin pf ra|t0].
        -- destruct more as [|p more']; intros H; apply Some_inj in H; subst s';
             cbn [kn prog at_ pc_rank stage_rank length].
           ++ destruct ra; cbn [pc_rank]; lia.
           ++ pose proof (stage_rank_bound k' SInst) as Hb; cbn [stage_rank] in Hb. lia.
        -- intros H; apply Some_inj in H; subst s'. cbn [kn prog at_ pc_rank stage_rank]. lia.
      * intros H; apply Some_inj in H; subst s'. cbn [kn prog at_ set_at pc_rank].
        destruct c; cbn [stage_rank]; lia.
      * destruct c; intros H; apply Some_inj in H; subst s'; cbn [kn prog at_ set_at finish pc_rank stage_rank]; lia.
    + (* SEnter *)
      destruct (enter_select_measure k) as [H1 H2].
      destruct (Nat.ltb_spec 0 (caught (k_unblock k))) as [Hc|Hc];
        intros H; apply Some_inj in H; subst s'; cbn [kn prog at_ set_at pc_rank].
      * specialize (H1 Hc). destruct c; cbn [stage_rank]; lia.
      * assert (Hz : caught (k_unblock k) = 0) by lia. specialize (H2 Hz).
        destruct c; cbn [stage_rank]; lia.
    + (* SBlocked *)
      destruct (Nat.ltb_spec 0 (caught k)) as [Hc|Hc]; [|discriminate].
      intros H; apply Some_inj in H; subst s'; cbn [kn prog at_ set_at pc_rank].
      pose proof (take_caught_measure k Hc). destruct c; cbn [stage_rank]; lia.
  - (* PBuiltin *)
    destruct t0 as [i|].
    + destruct (job_find jb i) as [[x|]|]; intros H; apply Some_inj in H; subst s';
        cbn [kn prog at_ set_at finish pc_rank]; try lia.
      pose proof (stage_rank_bound k SInst) as Hb; cbn [stage_rank] in *. lia.
    + destruct (job_unfinished jb); intros H; apply Some_inj in H; subst s';
        cbn [kn prog at_ set_at finish pc_rank]; try lia.
      pose proof (stage_rank_bound k SInst) as Hb; cbn [stage_rank] in *. lia.
  - (* PReap *)
    destruct (kwait k TAny) as [[i x| |] k'] eqn:Ew; intros H; apply Some_inj in H; subst s';
      cbn [kn prog at_ set_at pc_rank]; try lia.
    destruct (kwait_some _ _ _ _ _ Ew) as [ch [Hn [Hz [Hx [Hk _]]]]].
    pose proof (kmeasure_reap k i ch Hn Hz) as Hr. rewrite <- Hk in Hr. lia.
  - discriminate.
  - discriminate.
Qed.

Lemma step_measure s l s' : step s l = Some s' -> measure s' < measure s.
Proof.
  destruct l as [|i]; cbn [step].
  - apply parent_step_measure.
  - destruct (child_step (kn s) i) as [k'|] eqn:E; [|discriminate].
    intros H; apply Some_inj in H; subst s'.
    pose proof (child_step_measure _ _ _ E).
    unfold measure, set_at; cbn [kn prog at_].
    assert (pc_rank k' (at_ s) = pc_rank (kn s) (at_ s)).
    { assert (Hsame : blocked k' = blocked (kn s) /\ catching k' = catching (kn s)).
      { unfold child_step in E. destruct (nth_error (kids (kn s)) i) as [c|]; [|discriminate].
        destruct (cs c) as [[|w]| |]; try discriminate; apply Some_inj in E; subst k';
          unfold raise_chld, deliver, set_kids; cbn [blocked catching];
          destruct (blocked (kn s)) eqn:Eb; cbn [blocked catching]; auto;
          destruct (catching (kn s)) eqn:Ec; cbn [blocked catching]; auto. }
      destruct Hsame as [Hb Hc].
      destruct (at_ s) as [| | m t c0| | | |]; try reflexivity.
      destruct c0, m; cbn [pc_rank stage_rank]; rewrite ?Hb, ?Hc; reflexivity. }
    lia.
Qed.

Lemma run_measure ls : forall s s', run s ls = Some s' -> length ls + measure s' <= measure s.
Proof.
  induction ls as [|l ls IH]; intros s s' H; cbn [run] in H.
  - apply Some_inj in H. subst. cbn. lia.
  - destruct (step s l) as [s1|] eqn:E; [|discriminate].
    pose proof (step_measure _ _ _ E). specialize (IH _ _ H). cbn [length]. lia.
Qed.

Lemma terminates_lemma p ls s : run (init p) ls = Some s -> length ls <= run_bound p.
Proof. intros H. pose proof (run_measure _ _ _ H). rewrite measure_init in H0. lia. Qed.
