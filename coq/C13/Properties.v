(* C13 — property theorems only.  Each is closed by [exact] of a lemma; the
   driver pins the statements with [Check] and prints the assumptions. *)
From Yv Require Import Common.Base C13.Model C13.Spec C13.Run C13.Proofs C13.ProofsRun C13.ProofsLedger C13.ProofsFds.

(* the protocol invariant holds in every reachable state *)
Theorem protocol_invariant :
  forall p ls s, run (init p) ls = Some s -> Inv s.
Proof. exact reach_inv. Qed.

(* while the parent is about to block or blocked in select, a child exit that
   wait would report is never unnoticed: SIGCHLD is pending or caught *)
Theorem no_lost_sigchld :
  forall p ls s m t c, run (init p) ls = Some s -> at_ s = PWait m t c ->
    (m = SEnter \/ m = SBlocked) -> has_news (kn s) t ->
    pending (kn s) = true \/ 0 < caught (kn s).
Proof. exact no_lost_sigchld_lemma. Qed.

(* no deadlock: until the shell has exited, some process can take a step --
   unless a child has been stopped and no process is left to continue it *)
Theorem progress :
  forall p ls s, run (init p) ls = Some s -> final s = false ->
    (exists l, step s l <> None) \/ some_stopped (kn s).
Proof. exact progress_lemma. Qed.

(* wait_for_subshell_to_finish never gets ECHILD (the `expect` cannot fail) *)
Theorem never_panics :
  forall p ls s, run (init p) ls = Some s -> at_ s <> PPanic.
Proof. exact never_panics_lemma. Qed.

(* every schedule is finite *)
Theorem terminates_under_every_schedule :
  forall p ls s, run (init p) ls = Some s -> length ls <= run_bound p.
Proof. exact terminates_lemma. Qed.

(* wait reports the exit of a child at most once, and exactly once for a
   child in state Reaped *)
Theorem reaped_exactly_once :
  forall p ls s c, run (init p) ls = Some s -> In c (kids (kn s)) ->
    reaps c = match cs c with Reaped => 1 | _ => 0 end.
Proof. exact reaped_once_lemma. Qed.

(* when the shell exits, a child that is not reaped is an asynchronous job the
   script never waited for *)
Theorem no_zombie_at_exit :
  forall p ls s i c, run (init p) ls = Some s -> final s = true ->
    nth_error (kids (kn s)) i = Some c -> cs c <> Reaped -> In i (map fst (jobs s)).
Proof. exact no_zombie_lemma. Qed.

Theorem all_reaped_after_wait :
  forall p ls s c, run (init (p ++ [CWait None])) ls = Some s -> final s = true ->
    In c (kids (kn s)) -> cs c = Reaped /\ reaps c = 1.
Proof. exact all_reaped_after_wait_lemma. Qed.

(* $?, $! and the job list after every command are those of the sequential
   reading of the script (pipeline = last member, rightmost failure under
   pipefail, 127 for a process that is not a known job), for every schedule *)
Theorem status_fidelity :
  forall p ls s, run (init p) ls = Some s -> final s = true ->
    trace s = r_trace (ref_run p) /\ status s = r_status (ref_run p) /\
    lastbg s = r_lastbg (ref_run p) /\ map fst (jobs s) = map fst (r_jobs (ref_run p)).
Proof. exact schedule_independent_lemma. Qed.

Theorem schedule_independent_result :
  forall p ls1 ls2 s1 s2,
    run (init p) ls1 = Some s1 -> final s1 = true ->
    run (init p) ls2 = Some s2 -> final s2 = true ->
    trace s1 = trace s2 /\ status s1 = status s2 /\ lastbg s1 = lastbg s2.
Proof. exact any_two_schedules_agree_lemma. Qed.

(* the four deterministic schedulers of the correspondence check never run out
   of fuel and give the reference result: the script oracle asks for exactly
   what the model computes *)
Theorem model_schedulers_sound :
  forall p kind x, model_result p kind = Some x -> x = (r_trace (ref_run p), r_status (ref_run p)).
Proof. exact model_result_sound. Qed.

Theorem model_schedulers_give_reference :
  forall p kind, prog_quiet p = true ->
    model_result p kind = Some (r_trace (ref_run p), r_status (ref_run p)).
Proof. exact model_result_is_reference. Qed.

(* whenever the implementation shows the reference observations, the script
   check accepts them *)
Theorem script_oracle_is_sound :
  forall p o, so_panic o = false -> so_stuck o = false ->
    so_trace o = r_trace (ref_run p) -> so_status o = Z.of_N (r_status (ref_run p)) ->
    forallb (may_remain p) (so_left o) = true -> run_script p o = 0%N.
Proof. exact script_oracle_sound. Qed.

(* the kernel part of the model satisfies the ledger specification for every
   history of fork / exit / wait / sigmask / sigaction / caught_signals: the
   stream-K oracle is sound *)
Theorem kernel_refines_ledger :
  forall ops, kops_ok kern0 ops = true -> ledger_run ledger0 (model_khist kern0 ops) = None.
Proof. exact kernel_refines_ledger_lemma. Qed.

(* fork at any point of the parent's life: on every line of descent of a
   process tree (any sequence of 'prepare to wait' and 'fork, follow the
   child'), a process that prepares to wait and enters select is woken by the
   SIGCHLD of its child: SIGCHLD is caught and is not in the mask given to
   select (clone_for_fork copies select_mask) *)
Theorem blocked_waiter_is_woken_after_any_forks :
  forall es, sig_wakes (sig_ensure (sig_run cf_real es)) = true.
Proof. exact wait_wakes_lemma. Qed.

(* the statement depends on clone_for_fork: with a child state whose select
   mask is reset, a subshell forked after an earlier wait is never woken ... *)
Theorem select_mask_reset_refuted :
  exists es, sig_wakes (sig_ensure (sig_run cf_reset es)) = false.
Proof. exact reset_refuted_lemma. Qed.

(* ... while subshells forked before the first wait are unaffected (why the
   streams need 'an earlier child that was waited for' as a dimension) *)
Theorem select_mask_reset_first_fork_unaffected :
  forall n, sig_wakes (sig_ensure (sig_run cf_reset (repeat EFork n))) = true.
Proof. exact reset_first_fork_lemma. Qed.

(* PipeSet on an arbitrary initial table.  Full statement (NOT proved):
     forall t0 k, 1 <= k -> wired_ok true t0 k = true
   proved: for every table in which each of the descriptors 0..5 is open or
   closed and nothing above is open, and 1..6 members (by evaluation). *)
Theorem pipeline_wiring_partial :
  forall l k, In l (layouts 6) -> In k (seq 1 6) -> wired_ok true (tbl_of l) k = true.
Proof. exact wiring_lemma. Qed.

Example pipeline_wiring_nonvacuous :
  existsb (list_eqb Bool.eqb [true; false; true; true; false; true]) (layouts 6) = true /\
  fst (pipeline_tables true (tbl_of [true; false; true]) 3) =
    [Some [Some (Orig 0); Some (PW 0); Some (Orig 2); None];
     Some [Some (PR 0); Some (PW 1); Some (Orig 2); None; None];
     Some [Some (PR 1); None; Some (Orig 2); None; None]].
Proof. vm_compute. split; reflexivity. Qed.

(* without the step that moves the previous pipe's read end away from
   descriptor 1, the middle member of `a | b | c` started with descriptor 1
   closed is wired wrongly; two-member pipelines never show it *)
Theorem pipeline_unfixed_refuted :
  wired_ok false (tbl_of [true; false; true]) 3 = false.
Proof. exact unfixed_refuted_lemma. Qed.

Theorem pipeline_unfixed_two_members_unaffected :
  forall l, In l (layouts 6) -> wired_ok false (tbl_of l) 2 = true.
Proof. exact unfixed_two_lemma. Qed.

(* whenever the implementation shows the expected status and data and the
   members' open descriptors are those of the model, the stream-P check accepts *)
Theorem pipefd_oracle_is_sound :
  forall lay k st fds, In lay (layouts 6) -> In k (seq 2 5) -> length fds = k ->
    fds_agree (fst (pipeline_tables true (tbl_of lay) k)) fds = true ->
    run_pipefd lay k st [expected_data k] fds [Z.of_N st] false false 0 = 0%N.
Proof. exact pipefd_oracle_sound. Qed.

Print Assumptions pipefd_oracle_is_sound.
Print Assumptions blocked_waiter_is_woken_after_any_forks.
Print Assumptions select_mask_reset_refuted.
Print Assumptions select_mask_reset_first_fork_unaffected.
Print Assumptions pipeline_wiring_partial.
Print Assumptions pipeline_unfixed_refuted.
Print Assumptions pipeline_unfixed_two_members_unaffected.
Print Assumptions protocol_invariant.
Print Assumptions model_schedulers_give_reference.
Print Assumptions model_schedulers_sound.
Print Assumptions script_oracle_is_sound.
Print Assumptions kernel_refines_ledger.
Print Assumptions no_lost_sigchld.
Print Assumptions progress.
Print Assumptions never_panics.
Print Assumptions terminates_under_every_schedule.
Print Assumptions reaped_exactly_once.
Print Assumptions no_zombie_at_exit.
Print Assumptions all_reaped_after_wait.
Print Assumptions status_fidelity.
Print Assumptions schedule_independent_result.
