(* C13 — property theorems only. *)
From Yv Require Import Common.Base C13.Model C13.Spec C13.Proofs.

Theorem ref_run_empty : ref_run [] = rstate0.
Proof. exact ref_run_nil. Qed.
