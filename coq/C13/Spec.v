(* C13 — the property, independent of the implementation's data structures,
   and its boolean form (ORACLE).

   "For every script that starts children and under every interleaving the shell
    terminates without deadlock; wait, $? and $! report each child's true exit
    status and identity (the last command for a pipeline, the rightmost failure
    under pipefail, 127 for an unknown pid); every child is reaped exactly once,
    leaving no zombie.  No result depends on which process happens to run first." *)
From Yv Require Import Common.Base C13.Model.

(* ------------------------------------------------------------------------ *)
(* 1. The kernel interface as a ledger: which children exist, which have
   exited with which status, which exits have been reported. *)
Inductive kop :=
  | KFork (w : nat) (st : N)
  | KExit (i : nat)                 (* child i runs to its exit *)
  | KWait (t : target)
  | KBlock | KUnblock               (* SIGCHLD into / out of the signal mask *)
  | KCatch (b : bool)               (* sigaction(SIGCHLD, Catch / Default) *)
  | KTake.                          (* caught_signals() *)

Inductive kobs :=
  | BPid (i : nat)                  (* fork returned child i *)
  | BWait (r : wres)
  | BTaken (n : nat)                (* number of SIGCHLDs in the list *)
  | BUnit.

Record ledger := mkLedger {
  born : list N;                    (* exit status each child will have, by index *)
  exited : list nat;                (* children that have exited *)
  reported : list nat;              (* children whose exit wait has reported *)
  l_catching : bool;
  l_blocked : bool;
  owed_pending : bool;              (* an exit happened while SIGCHLD was blocked and
                                       it has not been unblocked since *)
  owed_caught : nat }.              (* exits delivered to the handler and not yet taken
                                       (a lower bound: blocked exits collapse into one) *)

Definition ledger0 : ledger := mkLedger [] [] [] false false false 0.

Definition mem (i : nat) (l : list nat) : bool := existsb (Nat.eqb i) l.

(* the pending flag is visible after every operation *)
Definition ledger_step (g : ledger) (o : kop) (b : kobs) (pending_seen : bool)
  : option N * ledger :=
  let upd_sig g' :=
    (* clause 5: SIGCHLD is pending iff an exit is owed under a blocking mask *)
    if Bool.eqb pending_seen (owed_pending g') then (None, g') else (Some 5%N, g') in
  match o, b with
  | KFork _ st, BPid i =>
      if i =? length (born g)
      then upd_sig (mkLedger (born g ++ [st]) (exited g) (reported g) (l_catching g) (l_blocked g)
                             (owed_pending g) (owed_caught g))
      else (Some 0%N, g)                      (* identity: children are numbered in order *)
  | KExit i, BUnit =>
      let g1 := mkLedger (born g) (i :: exited g) (reported g) (l_catching g) (l_blocked g)
                         (owed_pending g) (owed_caught g) in
      if l_blocked g then
        upd_sig (mkLedger (born g1) (exited g1) (reported g1) (l_catching g) true true (owed_caught g))
      else if l_catching g then
        upd_sig (mkLedger (born g1) (exited g1) (reported g1) true false (owed_pending g)
                          (S (owed_caught g)))
      else upd_sig g1
  | KWait t, BWait r =>
      let unreported i := mem i (exited g) && negb (mem i (reported g)) in
      let alive i := (i <? length (born g)) && negb (mem i (exited g)) in
      let all := seq 0 (length (born g)) in
      match r with
      | WSome j st =>
          let ok_target := match t with TPid i => i =? j | TAny => true end in
          if negb ok_target then (Some 1%N, g)                     (* wrong child *)
          else if negb (unreported j) then (Some 2%N, g)           (* not exited / reported twice *)
          else if negb (option_eqb N.eqb (nth_error (born g) j) (Some st)) then (Some 3%N, g)
          else upd_sig (mkLedger (born g) (exited g) (j :: reported g) (l_catching g) (l_blocked g)
                                 (owed_pending g) (owed_caught g))
      | WNone =>
          let fine := match t with
                      | TPid i => alive i
                      | TAny => negb (existsb unreported all) && existsb alive all
                      end in
          if fine then upd_sig g else (Some 4%N, g)
      | WEchild =>
          let fine := match t with
                      | TPid i => negb (alive i) && negb (unreported i)
                      | TAny => negb (existsb unreported all) && negb (existsb alive all)
                      end in
          if fine then upd_sig g else (Some 4%N, g)
      end
  | KBlock, BUnit =>
      upd_sig (mkLedger (born g) (exited g) (reported g) (l_catching g) true (owed_pending g)
                        (owed_caught g))
  | KUnblock, BUnit =>
      (* the pending signal is delivered: to the handler if one is installed *)
      upd_sig (mkLedger (born g) (exited g) (reported g) (l_catching g) false false
                        (if owed_pending g && l_catching g then S (owed_caught g) else owed_caught g))
  | KCatch c, BUnit =>
      upd_sig (mkLedger (born g) (exited g) (reported g) c (l_blocked g) (owed_pending g)
                        (owed_caught g))
  | KTake, BTaken n =>
      (* clause 6: every delivered exit is seen by the handler *)
      if n =? owed_caught g
      then upd_sig (mkLedger (born g) (exited g) (reported g) (l_catching g) (l_blocked g)
                             (owed_pending g) 0)
      else (Some 6%N, g)
  | _, _ => (Some 7%N, g)
  end.

Fixpoint ledger_run (g : ledger) (h : list (kop * kobs * bool)) : option N :=
  match h with
  | [] => None
  | (o, b, p) :: h =>
      match ledger_step g o b p with
      | (Some k, _) => Some k
      | (None, g') => ledger_run g' h
      end
  end.

(* ------------------------------------------------------------------------ *)
(* 2. Scripts: what has to be observed is what the sequential reading gives
   (Model.ref_run), whatever the schedule. *)
Definition trace_eqb (a b : list (N * option nat)) : bool :=
  list_eqb (pair_eqb N.eqb (option_eqb Nat.eqb)) a b.

(* children that may legitimately be left alive or unreaped when the shell
   exits: asynchronous children the script never waited for *)
Definition may_remain (p : list cmd) (i : nat) : bool :=
  existsb (fun j => fst j =? i) (r_jobs (ref_run p)).
