(* C13 — the property, independent of the implementation's data structures,
   and its boolean form (ORACLE).

   "For every script that starts children and under every interleaving the shell
    terminates without deadlock; wait, $? and $! report each child's true exit
    status and identity (the last command for a pipeline, the rightmost failure
    under pipefail, 127 for an unknown pid); every child is reaped exactly once,
    leaving no zombie.  No result depends on which process happens to run first." *)
From Yv Require Import Common.Base C13.Model.

(* ------------------------------------------------------------------------ *)
(* 1. The kernel interface as a ledger: which children exist, which have
   exited with which status, which exits have been reported. *)
Inductive kop :=
  | KFork (w : nat) (st : N)
  | KExit (i : nat)                 (* child i runs to its exit *)
  | KSig (s : sig) (i : nat)        (* kill(child i, SIGSTOP / SIGCONT) *)
  | KWait (t : target)
  | KBlock | KUnblock               (* SIGCHLD into / out of the signal mask *)
  | KCatch (b : bool)               (* sigaction(SIGCHLD, Catch / Default) *)
  | KTake.                          (* caught_signals() *)

Inductive kobs :=
  | BPid (i : nat)                  (* fork returned child i *)
  | BWait (r : wres)
  | BTaken (n : nat)                (* number of SIGCHLDs in the list *)
  | BUnit.

Record ledger := mkLedger {
  born : list N;                    (* exit status each child will have, by index *)
  exited : list nat;                (* children that have exited *)
  reported : list nat;              (* children whose exit wait has reported *)
  halted : list nat;                (* children that are stopped at the moment *)
  fresh : list nat;                 (* live children with a stop / continuation that wait
                                       has not reported yet *)
  l_catching : bool;
  l_blocked : bool;
  owed_pending : bool;              (* an exit happened while SIGCHLD was blocked and
                                       it has not been unblocked since *)
  owed_caught : nat }.              (* exits delivered to the handler and not yet taken
                                       (a lower bound: blocked exits collapse into one) *)

Definition ledger0 : ledger := mkLedger [] [] [] [] [] false false false 0.

Definition mem (i : nat) (l : list nat) : bool := existsb (Nat.eqb i) l.
Definition drop (i : nat) (l : list nat) : list nat := filter (fun j => negb (j =? i)) l.
Definition add (i : nat) (l : list nat) : list nat := if mem i l then l else i :: l.

(* a change of state of a child raises SIGCHLD in the parent *)
Definition owe (g : ledger) (ex rp ha fr : list nat) : ledger :=
  if l_blocked g then
    mkLedger (born g) ex rp ha fr (l_catching g) true true (owed_caught g)
  else if l_catching g then
    mkLedger (born g) ex rp ha fr true false (owed_pending g) (S (owed_caught g))
  else mkLedger (born g) ex rp ha fr false false (owed_pending g) (owed_caught g).

(* the pending flag is visible after every operation *)
Definition ledger_step (g : ledger) (o : kop) (b : kobs) (pending_seen : bool)
  : option N * ledger :=
  let upd_sig g' :=
    (* clause 5: SIGCHLD is pending iff a change is owed under a blocking mask *)
    if Bool.eqb pending_seen (owed_pending g') then (None, g') else (Some 5%N, g') in
  let same ex rp ha fr :=
    mkLedger (born g) ex rp ha fr (l_catching g) (l_blocked g) (owed_pending g) (owed_caught g) in
  let alive i := (i <? length (born g)) && negb (mem i (exited g)) in
  let unreported i := mem i (exited g) && negb (mem i (reported g)) in
  let all := seq 0 (length (born g)) in
  match o, b with
  | KFork _ st, BPid i =>
      if i =? length (born g)
      then upd_sig (mkLedger (born g ++ [st]) (exited g) (reported g) (halted g) (fresh g)
                             (l_catching g) (l_blocked g) (owed_pending g) (owed_caught g))
      else (Some 0%N, g)                      (* identity: children are numbered in order *)
  | KExit i, BUnit =>
      upd_sig (owe g (i :: exited g) (reported g) (halted g) (drop i (fresh g)))
  | KSig SStop i, BUnit =>
      if alive i && negb (mem i (halted g))
      then upd_sig (owe g (exited g) (reported g) (i :: halted g) (add i (fresh g)))
      else upd_sig g
  | KSig SCont i, BUnit =>
      if alive i && mem i (halted g)
      then upd_sig (owe g (exited g) (reported g) (drop i (halted g)) (add i (fresh g)))
      else upd_sig g
  | KWait t, BWait r =>
      let ok_target j := match t with TPid i => i =? j | TAny => true end in
      match r with
      | WSome j st =>
          if negb (ok_target j) then (Some 1%N, g)                 (* wrong child *)
          else if negb (unreported j) then (Some 2%N, g)           (* not exited / reported twice *)
          else if negb (option_eqb N.eqb (nth_error (born g) j) (Some st)) then (Some 3%N, g)
          else upd_sig (same (exited g) (j :: reported g) (halted g) (fresh g))
      | WStop j =>
          if negb (ok_target j) then (Some 1%N, g)
          else if negb (mem j (fresh g) && mem j (halted g) && alive j) then (Some 2%N, g)
          else upd_sig (same (exited g) (reported g) (halted g) (drop j (fresh g)))
      | WCont j =>
          if negb (ok_target j) then (Some 1%N, g)
          else if negb (mem j (fresh g) && negb (mem j (halted g)) && alive j) then (Some 2%N, g)
          else upd_sig (same (exited g) (reported g) (halted g) (drop j (fresh g)))
      | WNone =>
          let fine := match t with
                      | TPid i => alive i && negb (mem i (fresh g))
                      | TAny => negb (existsb unreported all)
                                && negb (existsb (fun i => alive i && mem i (fresh g)) all)
                                && existsb alive all
                      end in
          if fine then upd_sig g else (Some 4%N, g)
      | WEchild =>
          let fine := match t with
                      | TPid i => negb (alive i) && negb (unreported i)
                      | TAny => negb (existsb unreported all) && negb (existsb alive all)
                      end in
          if fine then upd_sig g else (Some 4%N, g)
      end
  | KBlock, BUnit =>
      upd_sig (mkLedger (born g) (exited g) (reported g) (halted g) (fresh g) (l_catching g) true
                        (owed_pending g) (owed_caught g))
  | KUnblock, BUnit =>
      (* the pending signal is delivered: to the handler if one is installed *)
      upd_sig (mkLedger (born g) (exited g) (reported g) (halted g) (fresh g) (l_catching g) false false
                        (if owed_pending g && l_catching g then S (owed_caught g) else owed_caught g))
  | KCatch c, BUnit =>
      upd_sig (mkLedger (born g) (exited g) (reported g) (halted g) (fresh g) c (l_blocked g)
                        (owed_pending g) (owed_caught g))
  | KTake, BTaken n =>
      (* clause 6: every delivered change is seen by the handler *)
      if n =? owed_caught g
      then upd_sig (mkLedger (born g) (exited g) (reported g) (halted g) (fresh g) (l_catching g)
                             (l_blocked g) (owed_pending g) 0)
      else (Some 6%N, g)
  | _, _ => (Some 7%N, g)
  end.

Fixpoint ledger_run (g : ledger) (h : list (kop * kobs * bool)) : option N :=
  match h with
  | [] => None
  | (o, b, p) :: h =>
      match ledger_step g o b p with
      | (Some k, _) => Some k
      | (None, g') => ledger_run g' h
      end
  end.

(* ------------------------------------------------------------------------ *)
(* 2. Scripts: what has to be observed is what the sequential reading gives
   (Model.ref_run), whatever the schedule. *)
Definition trace_eqb (a b : list (N * option nat)) : bool :=
  list_eqb (pair_eqb N.eqb (option_eqb Nat.eqb)) a b.

(* children that may legitimately be left alive or unreaped when the shell
   exits: asynchronous children the script never waited for *)
Definition may_remain (p : list cmd) (i : nat) : bool :=
  existsb (fun j => fst j =? i) (r_jobs (ref_run p)).
