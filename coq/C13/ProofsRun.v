(* C13 — the deterministic schedulers of Run.v never run out of fuel and give
   the reference result: the script oracle (stream S) asks for exactly what the
   model computes. *)
From Yv Require Import Common.Base C13.Model C13.Spec C13.Run C13.ProofsKern C13.ProofsInv
  C13.ProofsMain C13.ProofsRef.
From Coq Require Import Arith.

Lemma first_enabled_some s ls s' :
  first_enabled s ls = Some s' -> exists l, In l ls /\ step s l = Some s'.
Proof.
  induction ls as [|l r IH]; cbn; [discriminate|].
  destruct (step s l) as [s1|] eqn:E.
  - intros H. apply Some_inj in H. subst. exists l. auto.
  - intros H. destruct (IH H) as [l' [Hin Hs]]. exists l'. auto.
Qed.

Lemma first_enabled_none s ls :
  first_enabled s ls = None -> forall l, In l ls -> step s l = None.
Proof.
  induction ls as [|l r IH]; cbn; [intros _ l []|].
  destruct (step s l) as [s1|] eqn:E; [discriminate|].
  intros H l' [<-|Hin]; auto.
Qed.

Lemma in_rotate {A} n : forall (l : list A) x, In x (rotate n l) <-> In x l.
Proof.
  induction n as [|n IH]; intros l x; [destruct l; reflexivity|].
  destruct l as [|y t]; [reflexivity|]. cbn [rotate]. rewrite IH.
  rewrite in_app_iff. cbn. tauto.
Qed.

Lemma in_order kind tick s l : In l (all_labels s) -> In l (order kind tick s).
Proof.
  unfold order. intros H.
  destruct kind as [|[|[|k]]].
  - assumption.
  - apply in_rev. rewrite rev_involutive. assumption.
  - unfold all_labels in *. cbn [tl]. rewrite in_app_iff. cbn. destruct H as [<-|H]; auto.
  - apply in_rotate. assumption.
Qed.

Lemma enabled_in_all_labels s l : step s l <> None -> In l (all_labels s).
Proof.
  unfold all_labels. destruct l as [|i]; [left; reflexivity|].
  intros H. right. apply in_map. apply in_seq. split; [lia|]. cbn.
  cbn [step] in H. unfold child_step in H.
  destruct (nth_error (kids (kn s)) i) as [c|] eqn:E; [|contradiction].
  eapply nth_error_Some_lt'; eauto.
Qed.

(* what a scheduler returns is the end of a run *)
Lemma sim_sound fuel : forall kind tick s s',
  sim fuel kind tick s = Some s' -> exists ls, run s ls = Some s' /\ final s' = true.
Proof.
  induction fuel as [|fuel IH]; intros kind tick s s' H; [discriminate|].
  cbn [sim] in H. destruct (final s) eqn:Hf.
  - apply Some_inj in H. subst. exists []. auto.
  - destruct (first_enabled s (order kind tick s)) as [s1|] eqn:Ef; [|discriminate].
    destruct (first_enabled_some _ _ _ Ef) as [l1 [_ Hs1]].
    destruct (IH _ _ _ _ H) as [ls [H1 H2]].
    exists (l1 :: ls). split; [|assumption]. cbn [run]. rewrite Hs1. assumption.
Qed.

Lemma model_result_sound p kind x :
  model_result p kind = Some x -> x = (r_trace (ref_run p), r_status (ref_run p)).
Proof.
  unfold model_result. destruct (sim (S (run_bound p)) kind 0 (init p)) as [s'|] eqn:E; [|discriminate].
  intros H. apply Some_inj in H. subst x.
  destruct (sim_sound _ _ _ _ _ E) as [ls [H1 H2]].
  destruct (schedule_independent_lemma p ls s' H1 H2) as [A [B _]]. rewrite A, B. reflexivity.
Qed.

(* ------------------------------------------------------------------------ *)
(* scripts without SIGSTOP *)
Definition child_quiet (c : child) : bool :=
  match cs c with Running p => script_quiet p | Stopped _ => false | _ => true end.

Definition pc_quiet (a : pc) : bool :=
  match a with PFork todo _ _ => forallb (fun x => script_quiet (fst x)) todo | _ => true end.

Definition state_quiet (s : state) : Prop :=
  forallb child_quiet (kids (kn s)) = true /\ prog_quiet (prog s) = true /\ pc_quiet (at_ s) = true.

Lemma forallb_upd {A} (f : A -> bool) (l : list A) : forall i x,
  forallb f l = true -> f x = true -> forallb f (upd l i x) = true.
Proof.
  induction l as [|y t IH]; intros [|i] x Hl Hx; cbn in *; auto;
    apply andb_true_iff in Hl; destruct Hl as [H1 H2]; apply andb_true_iff; auto.
Qed.

Lemma forallb_nth {A} (f : A -> bool) (l : list A) i c :
  forallb f l = true -> nth_error l i = Some c -> f c = true.
Proof. intros H Hn. rewrite forallb_forall in H. apply H. eapply nth_error_In; eauto. Qed.

Lemma quiet_signal k sg t :
  forallb child_quiet (kids k) = true -> sg = SCont ->
  forallb child_quiet (kids (k_signal k sg t)) = true.
Proof.
  intros Hq ->. unfold k_signal. destruct (nth_error (kids k) t) as [c|] eqn:Hn; [|assumption].
  destruct (cs c) eqn:Hc; try assumption.
  pose proof (forallb_nth _ _ _ _ Hq Hn) as H. unfold child_quiet in H. rewrite Hc in H. discriminate.
Qed.

Lemma quiet_child_step k i k' :
  forallb child_quiet (kids k) = true -> child_step k i = Some k' ->
  forallb child_quiet (kids k') = true.
Proof.
  intros Hq. unfold child_step. destruct (nth_error (kids k) i) as [c|] eqn:Hn; [|discriminate].
  pose proof (forallb_nth _ _ _ _ Hq Hn) as Hc0. unfold child_quiet in Hc0.
  destruct (cs c) as [[|[|sg t] r]| | |] eqn:Hc; try discriminate; intros H; apply Some_inj in H; subst k'.
  - rewrite kids_raise. unfold set_kids; cbn [kids]. apply forallb_upd; auto.
  - unfold set_kids; cbn [kids]. apply forallb_upd; auto;
      unfold child_quiet; cbn [cs]; cbn [script_quiet forallb] in Hc0; apply andb_true_iff in Hc0; tauto.
  - cbn [script_quiet forallb] in Hc0. apply andb_true_iff in Hc0. destruct Hc0 as [Ha Hr].
    apply quiet_signal.
    + unfold set_kids; cbn [kids]. apply forallb_upd; auto.
    + destruct sg; [discriminate | reflexivity].
Qed.

Lemma quiet_kwait k t r k' :
  forallb child_quiet (kids k) = true -> kwait k t = (r, k') ->
  forallb child_quiet (kids k') = true.
Proof.
  intros Hq Hw.
  destruct r as [i x|i|i| |].
  - destruct (kwait_some _ _ _ _ _ Hw) as [c [Hn [_ [_ [-> _]]]]].
    unfold set_kids; cbn [kids]. apply forallb_upd; auto.
  - destruct (kwait_seen _ _ _ _ i Hw (or_introl eq_refl)) as [c [Hn [_ [_ [-> _]]]]].
    unfold set_kids; cbn [kids]. apply forallb_upd; auto.
    exact (forallb_nth _ _ _ _ Hq Hn).
  - destruct (kwait_seen _ _ _ _ i Hw (or_intror eq_refl)) as [c [Hn [_ [_ [-> _]]]]].
    unfold set_kids; cbn [kids]. apply forallb_upd; auto.
    exact (forallb_nth _ _ _ _ Hq Hn).
  - destruct (kwait_none _ _ _ Hw) as [-> _]. assumption.
  - destruct (kwait_echild _ _ _ Hw) as [-> _]. assumption.
Qed.

Lemma quiet_fork k p st :
  forallb child_quiet (kids k) = true -> script_quiet p = true ->
  forallb child_quiet (kids (fst (k_fork k p st))) = true.
Proof.
  intros Hq Hp. cbn [k_fork fst set_kids kids]. rewrite forallb_app, Hq. cbn. rewrite Hp. reflexivity.
Qed.

Lemma kids_unblock k : kids (k_unblock k) = kids k.
Proof. unfold k_unblock, deliver. destruct (pending k); [destruct (catching k)|]; reflexivity. Qed.

Lemma quiet_parent_step s s' :
  state_quiet s -> parent_step s = Some s' -> state_quiet s'.
Proof.
  intros [Hk [Hp Ha]] Hs. destruct s as [k pr a st lb jb tr]. cbn [kn prog at_] in *.
  unfold parent_step in Hs; cbn [kn prog at_ status lastbg jobs trace] in Hs.
  unfold set_at, finish in Hs; cbn [kn prog at_ status lastbg jobs trace] in Hs.
  unfold state_quiet.
  destruct a as [|todo pids pf|m t c|t0| | |].
  - destruct pr as [|[w x|l pf|t|] r]; apply Some_inj in Hs; subst s'; cbn [kn prog at_];
      cbn [prog_quiet forallb cmd_quiet] in Hp; try (apply andb_true_iff in Hp; destruct Hp as [Hp1 Hp2]);
      repeat split; auto.
    apply (quiet_fork k w x); assumption.
  - destruct todo as [|[w x] todo].
    + destruct pids; apply Some_inj in Hs; subst s'; cbn [kn prog at_]; repeat split; auto.
    + apply Some_inj in Hs; subst s'; cbn [kn prog at_].
      cbn [pc_quiet forallb fst] in Ha. apply andb_true_iff in Ha. destruct Ha as [Ha1 Ha2].
      repeat split; auto. apply (quiet_fork k w x); assumption.
  - destruct m.
    + destruct (negb (blocked k)); [|destruct (negb (catching k))]; apply Some_inj in Hs; subst s';
        cbn [kn prog at_ k_block k_catch kids]; repeat split; auto.
    + destruct (kwait k t) as [[i x|i|i| |] k'] eqn:Ew; pose proof (quiet_kwait _ _ _ _ Hk Ew) as Hk'.
      * destruct c as [[|p more] fin pf ra|t0]; apply Some_inj in Hs; subst s'; cbn [kn prog at_];
          repeat split; auto. destruct ra; reflexivity.
      * destruct c; apply Some_inj in Hs; subst s'; cbn [kn prog at_]; repeat split; auto.
      * destruct c; apply Some_inj in Hs; subst s'; cbn [kn prog at_]; repeat split; auto.
      * apply Some_inj in Hs; subst s'; cbn [kn prog at_]; repeat split; auto.
      * destruct c; apply Some_inj in Hs; subst s'; cbn [kn prog at_]; repeat split; auto.
    + destruct (0 <? caught (k_unblock k)); apply Some_inj in Hs; subst s';
        cbn [kn prog at_ k_take_caught k_block kids]; rewrite kids_unblock; repeat split; auto.
    + destruct (0 <? caught k); [|discriminate]. apply Some_inj in Hs; subst s';
        cbn [kn prog at_ k_take_caught k_block kids]; repeat split; auto.
  - destruct t0 as [i|]; [destruct (job_find jb i) as [[x|]|] | destruct (job_unfinished jb)];
      apply Some_inj in Hs; subst s'; cbn [kn prog at_]; repeat split; auto.
  - destruct (kwait k TAny) as [[i x|i|i| |] k'] eqn:Ew; pose proof (quiet_kwait _ _ _ _ Hk Ew) as Hk';
      apply Some_inj in Hs; subst s'; cbn [kn prog at_]; repeat split; auto.
  - discriminate.
  - discriminate.
Qed.

Lemma quiet_step s l s' : state_quiet s -> step s l = Some s' -> state_quiet s'.
Proof.
  intros Hq Hs. destruct l as [|i]; cbn [step] in Hs.
  - eapply quiet_parent_step; eauto.
  - destruct (child_step (kn s) i) as [k'|] eqn:E; [|discriminate].
    apply Some_inj in Hs. subst s'. destruct Hq as [Hk [Hp Ha]].
    unfold state_quiet, set_at; cbn [kn prog at_]. repeat split; auto.
    eapply quiet_child_step; eauto.
Qed.

Lemma quiet_no_stopped s : state_quiet s -> ~ some_stopped (kn s).
Proof.
  intros [Hk _] [i [c [p [Hn Hc]]]].
  pose proof (forallb_nth _ _ _ _ Hk Hn) as H. unfold child_quiet in H. rewrite Hc in H. discriminate.
Qed.

Lemma sim_complete fuel : forall kind tick s,
  Inv s -> state_quiet s -> at_ s <> PPanic -> measure s < fuel ->
  exists s', sim fuel kind tick s = Some s'.
Proof.
  induction fuel as [|fuel IH]; intros kind tick s HI Hq Hp Hm; [lia|].
  cbn [sim]. destruct (final s) eqn:Hf.
  - eauto.
  - assert (He : at_ s <> PExit) by (unfold final in Hf; destruct (at_ s); congruence).
    destruct (progress_inv s HI He Hp) as [[l Hl]|Hst]; [|exfalso; exact (quiet_no_stopped s Hq Hst)].
    destruct (first_enabled s (order kind tick s)) as [s1|] eqn:Ef.
    + destruct (first_enabled_some _ _ _ Ef) as [l1 [_ Hs1]].
      pose proof (step_inv _ _ _ HI Hs1) as HI1.
      pose proof (step_measure _ _ _ Hs1) as Hm1.
      pose proof (quiet_step _ _ _ Hq Hs1) as Hq1.
      assert (Hp1 : at_ s1 <> PPanic).
      { destruct l1 as [|i]; cbn [step] in Hs1.
        - exact (parent_step_no_panic s s1 HI Hs1).
        - destruct (child_step (kn s) i); [|discriminate]. apply Some_inj in Hs1. subst s1. exact Hp. }
      apply IH; auto. lia.
    + exfalso. apply Hl. eapply first_enabled_none; [exact Ef|].
      apply in_order. apply enabled_in_all_labels. assumption.
Qed.

Lemma model_result_is_reference p kind :
  prog_quiet p = true ->
  model_result p kind = Some (r_trace (ref_run p), r_status (ref_run p)).
Proof.
  intros Hq.
  destruct (sim_complete (S (run_bound p)) kind 0 (init p) (inv_init p)) as [s' H1].
  - unfold state_quiet, init; cbn. auto.
  - cbn. discriminate.
  - rewrite measure_init. lia.
  - destruct (model_result p kind) as [x|] eqn:E.
    + rewrite (model_result_sound p kind x E). reflexivity.
    + unfold model_result in E. rewrite H1 in E. discriminate.
Qed.

(* soundness of the script oracle: whenever the implementation's observation
   is the reference, the check accepts it *)
Lemma script_oracle_sound p o :
  so_panic o = false -> so_stuck o = false ->
  so_trace o = r_trace (ref_run p) -> so_status o = Z.of_N (r_status (ref_run p)) ->
  forallb (may_remain p) (so_left o) = true ->
  run_script p o = 0%N.
Proof.
  intros Hp Hs Ht Hst Hl. unfold run_script. rewrite Hp, Hs. cbn [orb].
  assert (Tr : forall t, trace_eqb t t = true).
  { intros t. unfold trace_eqb. apply list_eqb_spec; [|reflexivity].
    intros [a b] [c d]. unfold pair_eqb. cbn [fst snd]. rewrite andb_true_iff, N.eqb_eq.
    rewrite (option_eqb_spec Nat.eqb Nat.eqb_eq). split; [intros [-> ->]; reflexivity|].
    intros H; inversion H; auto. }
  rewrite Ht, Tr, Hst, Z.eqb_refl, Hl. cbn [negb].
  assert (Hag : forall kind,
            match model_result p kind with
            | Some (t, st) => trace_eqb t (r_trace (ref_run p)) && Z.eqb (Z.of_N st) (Z.of_N (r_status (ref_run p)))
            | None => negb (prog_quiet p)
            end = true).
  { intros kind. destruct (model_result p kind) as [[t st]|] eqn:E.
    - pose proof (model_result_sound p kind _ E) as H. inversion H; subst. rewrite Tr, Z.eqb_refl. reflexivity.
    - destruct (prog_quiet p) eqn:Eq; [|reflexivity].
      rewrite (model_result_is_reference p kind Eq) in E. discriminate. }
  rewrite !Hag. reflexivity.
Qed.
