(* C13 — the deterministic schedulers of Run.v never run out of fuel and give
   the reference result: the script oracle (stream S) asks for exactly what the
   model computes. *)
From Yv Require Import Common.Base C13.Model C13.Spec C13.Run C13.ProofsKern C13.ProofsInv
  C13.ProofsMain C13.ProofsRef.
From Coq Require Import Arith.

Lemma first_enabled_some s ls s' :
  first_enabled s ls = Some s' -> exists l, In l ls /\ step s l = Some s'.
Proof.
  induction ls as [|l r IH]; cbn; [discriminate|].
  destruct (step s l) as [s1|] eqn:E.
  - intros H. apply Some_inj in H. subst. exists l. auto.
  - intros H. destruct (IH H) as [l' [Hin Hs]]. exists l'. auto.
Qed.

Lemma first_enabled_none s ls :
  first_enabled s ls = None -> forall l, In l ls -> step s l = None.
Proof.
  induction ls as [|l r IH]; cbn; [intros _ l []|].
  destruct (step s l) as [s1|] eqn:E; [discriminate|].
  intros H l' [<-|Hin]; auto.
Qed.

Lemma in_rotate {A} n : forall (l : list A) x, In x (rotate n l) <-> In x l.
Proof.
  induction n as [|n IH]; intros l x; [destruct l; reflexivity|].
  destruct l as [|y t]; [reflexivity|]. cbn [rotate]. rewrite IH.
  rewrite in_app_iff. cbn. tauto.
Qed.

Lemma in_order kind tick s l : In l (all_labels s) -> In l (order kind tick s).
Proof.
  unfold order. intros H.
  destruct kind as [|[|[|k]]].
  - assumption.
  - apply in_rev. rewrite rev_involutive. assumption.
  - unfold all_labels in *. cbn [tl]. rewrite in_app_iff. cbn. destruct H as [<-|H]; auto.
  - apply in_rotate. assumption.
Qed.

Lemma enabled_in_all_labels s l : step s l <> None -> In l (all_labels s).
Proof.
  unfold all_labels. destruct l as [|i]; [left; reflexivity|].
  intros H. right. apply in_map. apply in_seq. split; [lia|]. cbn.
  cbn [step] in H. unfold child_step in H.
  destruct (nth_error (kids (kn s)) i) as [c|] eqn:E; [|contradiction].
  eapply nth_error_Some_lt'; eauto.
Qed.

Lemma sim_complete fuel : forall kind tick s,
  Inv s -> at_ s <> PPanic -> measure s < fuel ->
  exists s' ls, sim fuel kind tick s = Some s' /\ run s ls = Some s' /\ final s' = true.
Proof.
  induction fuel as [|fuel IH]; intros kind tick s HI Hp Hm; [lia|].
  cbn [sim]. destruct (final s) eqn:Hf.
  - exists s, []. auto.
  - assert (He : at_ s <> PExit) by (unfold final in Hf; destruct (at_ s); congruence).
    destruct (progress_inv s HI He Hp) as [l Hl].
    destruct (first_enabled s (order kind tick s)) as [s1|] eqn:Ef.
    + destruct (first_enabled_some _ _ _ Ef) as [l1 [_ Hs1]].
      pose proof (step_inv _ _ _ HI Hs1) as HI1.
      pose proof (step_measure _ _ _ Hs1) as Hm1.
      assert (Hp1 : at_ s1 <> PPanic).
      { destruct l1 as [|i]; cbn [step] in Hs1.
        - exact (parent_step_no_panic s s1 HI Hs1).
        - destruct (child_step (kn s) i); [|discriminate]. apply Some_inj in Hs1. subst s1. exact Hp. }
      destruct (IH kind (S tick) s1 HI1 Hp1 ltac:(lia)) as [s' [ls [H1 [H2 H3]]]].
      exists s', (l1 :: ls). split; [assumption|]. split; [|assumption].
      cbn [run]. rewrite Hs1. assumption.
    + exfalso. apply Hl. eapply first_enabled_none; [exact Ef|].
      apply in_order. apply enabled_in_all_labels. assumption.
Qed.

Lemma model_result_is_reference p kind :
  model_result p kind = Some (r_trace (ref_run p), r_status (ref_run p)).
Proof.
  unfold model_result.
  destruct (sim_complete (S (run_bound p)) kind 0 (init p) (inv_init p)) as [s' [ls [H1 [H2 H3]]]].
  - cbn. discriminate.
  - rewrite measure_init. lia.
  - rewrite H1. destruct (schedule_independent_lemma p ls s' H2 H3) as [A [B _]].
    rewrite A, B. reflexivity.
Qed.

(* soundness of the script oracle: whenever the implementation's observation
   is the model's, the oracle accepts it (up to the leftover check, which is
   the no_zombie theorem) *)
Lemma script_oracle_sound p o :
  so_panic o = false -> so_stuck o = false ->
  so_trace o = r_trace (ref_run p) -> so_status o = Z.of_N (r_status (ref_run p)) ->
  forallb (may_remain p) (so_left o) = true ->
  run_script p o = 0%N.
Proof.
  intros Hp Hs Ht Hst Hl. unfold run_script. rewrite Hp, Hs. cbn [orb].
  assert (Tr : forall t, trace_eqb t t = true).
  { intros t. unfold trace_eqb. apply list_eqb_spec; [|reflexivity].
    intros [a b] [c d]. unfold pair_eqb. cbn [fst snd]. rewrite andb_true_iff, N.eqb_eq.
    rewrite (option_eqb_spec Nat.eqb Nat.eqb_eq). split; [intros [-> ->]; reflexivity|].
    intros H; inversion H; auto. }
  rewrite Ht, Tr, Hst, Z.eqb_refl, Hl. cbn [negb].
  rewrite !model_result_is_reference. rewrite Tr, Z.eqb_refl. reflexivity.
Qed.
