(* C20 — proofs, part 7: the oracle accepts a rejection only if the vector is
   malformed (so an accepted result always agrees with the model up to
   spelling). *)
From Yv Require Import Common.Base C20.Model C20.Spec C20.ProofsNames C20.ProofsFields
  C20.ProofsMain C20.ProofsOracle C20.ProofsReject.

Lemma span_flags_spec specs m cs :
  cs = fst (span_flags specs m cs) ++ snd (span_flags specs m cs)
  /\ Flags specs m (fst (span_flags specs m cs)).
Proof.
  induction cs as [|c cs [IH1 IH2]]; cbn [span_flags].
  - split; [reflexivity | apply flags_nil].
  - destruct (is_flag_b specs m c) eqn:F.
    + destruct (span_flags specs m cs) as [a b]. cbn [fst snd] in *. split.
      * cbn. rewrite <- IH1. reflexivity.
      * apply is_flag_b_spec in F. destruct F as [i [s [FS [Ar Al]]]]. eapply flags_cons; eauto.
    + split; [reflexivity | apply flags_nil].
Qed.

Lemma flags_then specs m pre : Flags specs m pre -> forall tail extra cos,
  Shorts specs m tail extra cos -> exists cos', Shorts specs m (pre ++ tail) extra cos'.
Proof.
  induction pre as [|c pre IH]; intros Fl tail extra cos Sh.
  - exists cos. exact Sh.
  - destruct (Fl c (or_introl eq_refl)) as [i [s [FS [Ar Al]]]].
    destruct (IH (fun c' I => Fl c' (or_intror I)) tail extra cos Sh) as [cos' Sh'].
    exists ((i, None) :: cos'). cbn [app]. eapply Sh_flag; eauto.
Qed.

Lemma find_first_short specs c s :
  find (short_is c) specs = Some s -> exists i, FirstShort specs c i s.
Proof.
  rewrite find_short_is. destruct (find_short specs c) as [[i s']|] eqn:F; cbn; [|discriminate].
  intros E. inversion E; subst. exists i. apply find_short_some. exact F.
Qed.

Lemma long_match_inr_not_single specs name i : long_match specs name <> inr [i].
Proof.
  rewrite long_match_indices. destruct (indices (long_is name) specs); [|discriminate].
  destruct (indices (long_has_prefix name) specs) as [|a [|b l]]; discriminate.
Qed.

Lemma candidates_single specs name i :
  candidates specs name = [i] -> exists s, Resolves specs name i s.
Proof.
  rewrite candidates_spec. destruct (long_match specs name) as [j|l] eqn:LM.
  - intros E. inversion E; subst. apply long_match_resolves. exact LM.
  - intros ->. exfalso. exact (long_match_inr_not_single _ _ _ LM).
Qed.

(* a field the oracle takes for a complete option field is one *)
Lemma good_field_optfield specs m f next b :
  good_field_b specs m f next = Some b ->
  (b = true -> next <> None)
  /\ exists cos, OptField specs m f (if b then next else None) cos.
Proof.
  intros G. destruct f as [|c0 [|c1 t]]; try discriminate.
  destruct (N.eqb_spec c0 HYPHEN) as [->|NE0]; [|unfold good_field_b in G; apply N.eqb_neq in NE0; rewrite NE0 in G; discriminate].
  destruct (N.eqb_spec c1 HYPHEN) as [->|NE].
  - destruct t as [|t0 t]; [unfold good_field_b in G; cbn in G; discriminate|].
    rewrite good_field_long in G by discriminate.
    pose proof (split_eq_spec (t0 :: t)) as SE. destruct (split_eq (t0 :: t)) as [name oeq].
    destruct (candidates specs name) as [|i [|j l]] eqn:C; try discriminate.
    apply candidates_single in C. destruct C as [s R]. cbv zeta in G.
    rewrite (resolves_nth _ _ _ _ R) in G.
    destruct (long_allowed_b m s) eqn:Al; [|discriminate]. apply long_allowed_b_spec in Al.
    destruct (sp_arg s) eqn:Ar, oeq as [a|]; try discriminate.
    + inversion G; subst b. split; [discriminate|]. destruct SE as [-> NI].
      exists [(i, Some a)]. eapply OF_long_eq; eauto.
    + destruct next as [a|]; [|discriminate]. inversion G; subst b. split; [discriminate|].
      destruct SE as [<- NI]. exists [(i, Some a)]. eapply OF_long_next; eauto. discriminate.
    + inversion G; subst b. split; [discriminate|]. destruct SE as [<- NI].
      exists [(i, None)]. eapply OF_long_flag; eauto. discriminate.
  - rewrite good_field_short in G by exact NE.
    destruct (span_flags_spec specs m (c1 :: t)) as [E Fl].
    destruct (snd (span_flags specs m (c1 :: t))) as [|c post] eqn:SP.
    + inversion G; subst b. split; [discriminate|]. rewrite app_nil_r in E.
      destruct (flags_then specs m _ Fl [] None [] (Sh_nil specs m)) as [cos Sh].
      rewrite app_nil_r, <- E in Sh. exists cos. apply OF_short; assumption.
    + destruct (find (short_is c) specs) as [s|] eqn:F; [|discriminate].
      apply find_first_short in F. destruct F as [i FS].
      destruct (sp_arg s) eqn:Ar; [|discriminate].
      destruct (short_allowed_b m s) eqn:Al; [|discriminate]. apply short_allowed_b_spec in Al.
      cbn [andb] in G. destruct post as [|p0 post].
      * destruct next as [a|]; [|discriminate]. inversion G; subst b. split; [discriminate|].
        destruct (flags_then specs m _ Fl [c] (Some a) _ (Sh_next specs m c i s a FS Ar Al)) as [cos Sh].
        rewrite <- E in Sh. exists cos. apply OF_short; assumption.
      * destruct (m_same m) eqn:Sm; [|discriminate]. inversion G; subst b. split; [discriminate|].
        assert (NP : p0 :: post <> []) by discriminate.
        destruct (flags_then specs m _ Fl (c :: p0 :: post) None _
                    (Sh_attached specs m c i s (p0 :: post) FS Ar Al NP Sm)) as [cos Sh].
        rewrite <- E in Sh. exists cos. apply OF_short; assumption.
Qed.

Lemma skip_options_prefix specs m : forall args f rest,
  skip_options specs m args = f :: rest ->
  exists pre cos, args = pre ++ f :: rest /\ OptPrefix specs m pre cos.
Proof.
  intros args. induction args as [|f0 rest0 IH1 IH2] using args_ind2; intros f rest E.
  - discriminate.
  - cbn [skip_options] in E. destruct rest0 as [|a rest'].
    + destruct (good_field_b specs m f0 None) as [[|]|] eqn:G.
      * inversion E; subst. exists [], []. split; [reflexivity | constructor].
      * discriminate.
      * inversion E; subst. exists [], []. split; [reflexivity | constructor].
    + destruct (good_field_b specs m f0 (Some a)) as [[|]|] eqn:G.
      * destruct (good_field_optfield _ _ _ _ _ G) as [_ [cos OF]].
        destruct (IH2 a rest' eq_refl f rest E) as [pre [cos' [-> OP]]].
        exists (f0 :: a :: pre), (cos ++ cos'). split; [reflexivity|].
        apply (OP_cons specs m f0 (Some a) cos pre cos'); assumption.
      * destruct (good_field_optfield _ _ _ _ _ G) as [_ [cos OF]].
        destruct (IH1 f rest E) as [pre [cos' [EQ OP]]].
        exists (f0 :: pre), (cos ++ cos'). split; [cbn; rewrite EQ; reflexivity|].
        apply (OP_cons specs m f0 None cos pre cos'); assumption.
      * inversion E; subst. exists [], []. split; [reflexivity | constructor].
Qed.

Lemma short_culprit_inv specs m f c post :
  short_culprit specs m f = Some (c, post) ->
  exists c0 cs pre, f = HYPHEN :: c0 :: cs /\ c0 <> HYPHEN /\ c0 :: cs = pre ++ c :: post
                    /\ Flags specs m pre.
Proof.
  unfold short_culprit. destruct (is_short_field f) eqn:SF; [|discriminate].
  apply is_short_field_inv in SF. destruct SF as [c0 [cs [-> NE]]]. cbn [skipn].
  destruct (span_flags_spec specs m (c0 :: cs)) as [E Fl].
  destruct (snd (span_flags specs m (c0 :: cs))) as [|c' post'] eqn:SP; [discriminate|].
  intros X. inversion X; subst. eauto 8.
Qed.

Lemma long_parts_inv f name oeq :
  long_parts f = Some (name, oeq) ->
  exists body, f = HYPHEN :: HYPHEN :: body /\ body <> [] /\ split_eq body = (name, oeq).
Proof.
  unfold long_parts. destruct (is_long_field f) eqn:LF; [|discriminate].
  apply is_long_field_inv in LF. destruct LF as [body [-> NE]]. cbn [skipn].
  intros X. inversion X. eauto.
Qed.

Lemma existsb_short_none specs c : existsb (short_is c) specs = false -> NoShort specs c.
Proof.
  intros X s I Sh. apply short_is_spec in Sh.
  assert (existsb (short_is c) specs = true); [|congruence].
  apply existsb_exists. eauto.
Qed.

Lemma not_long_allowed m s : long_allowed_b m s = false -> ~ LongAllowed m s.
Proof. intros X H. apply long_allowed_b_spec in H. congruence. Qed.

Lemma not_short_allowed m s : short_allowed_b m s = false -> ~ ShortAllowed m s.
Proof. intros X H. apply short_allowed_b_spec in H. congruence. Qed.

Lemma justified_badfield specs m f rest e :
  justified_b specs m f rest e = true -> BadField specs m f rest (class_of e).
Proof.
  unfold justified_b. destruct e as [c f'|f'|c f' i|f' i|f' l|f' i|f' i|f' i]; cbn [class_of].
  - destruct (short_culprit specs m f) as [[c' post]|] eqn:SC; [|discriminate].
    rewrite andb_true_iff, N.eqb_eq, negb_true_iff. intros [<- X].
    destruct (short_culprit_inv _ _ _ _ _ SC) as [c0 [cs [pre [-> [NE [E Fl]]]]]].
    eapply BF_unknown_short; eauto using existsb_short_none.
  - destruct (long_parts f) as [[name oeq]|] eqn:LP; [|discriminate].
    rewrite negb_true_iff. intros X.
    destruct (long_parts_inv _ _ _ LP) as [body [-> [NE SE]]].
    eapply BF_unknown_long; eauto. intros j l HL P.
    assert (existsb (long_has_prefix name) specs = true); [|congruence].
    destruct HL as [s [N Lg]]. apply existsb_exists. exists s. split; [eapply nth_error_In; eauto|].
    apply long_has_prefix_spec. eauto.
  - destruct (short_culprit specs m f) as [[c' post]|] eqn:SC; [|discriminate].
    rewrite !andb_true_iff, N.eqb_eq, negb_true_iff. intros [[<- FB] NA].
    apply first_short_b_spec in FB. destruct FB as [s FS]. rewrite (first_short_at _ _ _ _ FS) in NA.
    destruct (short_culprit_inv _ _ _ _ _ SC) as [c0 [cs [pre [-> [NE [E Fl]]]]]].
    eapply BF_nonportable_short; eauto using not_short_allowed.
  - destruct (long_parts f) as [[name oeq]|] eqn:LP; [|discriminate].
    rewrite andb_true_iff, negb_true_iff. intros [RB NA].
    apply resolves_b_spec in RB. destruct RB as [s R]. rewrite (resolves_nth _ _ _ _ R) in NA.
    destruct (long_parts_inv _ _ _ LP) as [body [-> [NE SE]]].
    eapply BF_nonportable_long; eauto using not_long_allowed.
  - destruct (long_parts f) as [[name oeq]|] eqn:LP; [|discriminate].
    rewrite !andb_true_iff, negb_true_iff. intros [[NX EL] L2].
    destruct (long_parts_inv _ _ _ LP) as [body [-> [NE SE]]].
    apply (list_eqb_spec Nat.eqb Nat.eqb_eq) in EL. apply Nat.leb_le in L2.
    eapply BF_ambiguous; eauto. split.
    + intros j HL. destruct HL as [s [N Lg]].
      assert (existsb (long_is name) specs = true); [|congruence].
      apply existsb_exists. exists s. split; [eapply nth_error_In; eauto | apply long_is_spec; exact Lg].
    + pose proof (indices_from_sorted (long_has_prefix name) specs 0) as Sorted.
      fold (indices (long_has_prefix name) specs) in Sorted. rewrite <- EL in Sorted.
      destruct l as [|a [|b t]]; cbn in L2; try lia.
      assert (Ia : In a (indices (long_has_prefix name) specs)) by (rewrite <- EL; left; reflexivity).
      assert (Ib : In b (indices (long_has_prefix name) specs)) by (rewrite <- EL; right; left; reflexivity).
      apply has_long_prefix_spec in Ia, Ib. destruct Ia as [l1 [H1 P1]], Ib as [l2 [H2 P2]].
      exists a, b, l1, l2. splits; auto.
      inversion Sorted as [|? ? _ F]; subst. inversion F; subst. lia.
  - destruct rest as [|r0 rest]; [|discriminate].
    destruct (short_culprit specs m f) as [[c post]|] eqn:SC.
    + destruct (short_culprit_inv _ _ _ _ _ SC) as [c0 [cs [pre [-> [NE [E Fl]]]]]].
      rewrite long_parts_short by exact NE. destruct post as [|p0 post]; [|discriminate].
      rewrite !andb_true_iff. intros [[FB Al] Ar].
      apply first_short_b_spec in FB. destruct FB as [s FS]. rewrite (first_short_at _ _ _ _ FS) in Al, Ar.
      apply short_allowed_b_spec in Al. eapply BF_missing_short; eauto.
    + destruct (long_parts f) as [[name [a|]]|] eqn:LP; try discriminate.
      rewrite !andb_true_iff. intros [[RB Al] Ar].
      apply resolves_b_spec in RB. destruct RB as [s R]. rewrite (resolves_nth _ _ _ _ R) in Al, Ar.
      apply long_allowed_b_spec in Al.
      destruct (long_parts_inv _ _ _ LP) as [body [-> [NE SE]]].
      eapply BF_missing_long; eauto.
  - destruct (short_culprit specs m f) as [[c [|p0 post]]|] eqn:SC; try discriminate.
    rewrite !andb_true_iff, negb_true_iff. intros [[[FB Al] Ar] Sm].
    apply first_short_b_spec in FB. destruct FB as [s FS]. rewrite (first_short_at _ _ _ _ FS) in Al, Ar.
    apply short_allowed_b_spec in Al.
    destruct (short_culprit_inv _ _ _ _ _ SC) as [c0 [cs [pre [-> [NE [E Fl]]]]]].
    eapply BF_unseparated; eauto. discriminate.
  - destruct (long_parts f) as [[name [a|]]|] eqn:LP; try discriminate.
    rewrite !andb_true_iff, negb_true_iff. intros [[RB Al] Ar].
    apply resolves_b_spec in RB. destruct RB as [s R]. rewrite (resolves_nth _ _ _ _ R) in Al, Ar.
    apply long_allowed_b_spec in Al.
    destruct (long_parts_inv _ _ _ LP) as [body [-> [NE SE]]].
    eapply BF_unexpected; eauto.
Qed.

Lemma rejects_b_malformed specs m args e :
  rejects_b specs m args e = true -> Malformed specs m args (class_of e).
Proof.
  unfold rejects_b. destruct (skip_options specs m args) as [|f rest] eqn:S; [discriminate|].
  rewrite andb_true_iff. intros [_ J].
  destruct (skip_options_prefix _ _ _ _ _ S) as [pre [cos [-> OP]]].
  exists pre, cos, f, rest. split; [reflexivity|]. split; [exact OP|].
  apply justified_badfield. exact J.
Qed.

(* what the oracle accepts agrees with the model up to spelling *)
Lemma oracle_exact_lemma specs m args r :
  oracle_parse specs m args r = None -> canon r = canon (parse specs m args).
Proof.
  unfold oracle_parse. destruct r as [os ops|e].
  - destruct (spells_b specs m (map canon_occ os) ops args) eqn:S; [|discriminate]. intros _.
    symmetry. apply parse_sound_lemma, spells_b_sound. exact S.
  - destruct (rejects_b specs m args e) eqn:R; [|discriminate]. intros _.
    apply rejects_b_malformed, malformed_parse_err in R. destruct R as [e' [-> _]]. reflexivity.
Qed.
