(* C20 — property theorems only.  Each is closed by [exact] of a lemma from
   the Proofs files; the driver pins the statements with [Check] and prints
   the assumptions on every run.

   Reading guide.  [parse] is the model of `parse_arguments`
   (yash-builtin/src/common/syntax.rs); [canon] forgets how an option was
   spelled (location, byte offset, short/long) and keeps (option index,
   option-argument) and the operands, [None] for a rejection.  [Spells specs
   m os ops args] is the grammar of the syntax guidelines: `args` is a way
   of writing the invocation (os, ops).  [Respell] is the equivalence generated
   by the rewrite rules [Rewrite] (split a group, detach an option-argument,
   `=`/next field, abbreviate a long name, short/long name, insert `--`)
   applied behind complete option fields.  [Malformed specs m args d]: after
   complete option fields comes a field with defect d (unknown, ambiguous,
   missing argument, unexpected argument, disabled by the portable mode). *)
From Yv Require Import Common.Base C20.Model C20.Spec C20.Tables C20.Getopts C20.Kill C20.SetBuiltin C20.Typeset C20.Proofs.

(* -- accepts every spelling, and only those ------------------------------------ *)

Theorem parse_iff_spells : forall specs m args os ops,
  canon (parse specs m args) = Some (os, ops) <-> Spells specs m os ops args.
Proof. exact parse_iff_spells_lemma. Qed.

Theorem spellings_agree : forall specs m os ops a b,
  Spells specs m os ops a -> Spells specs m os ops b ->
  canon (parse specs m a) = canon (parse specs m b).
Proof. exact spellings_agree_lemma. Qed.

Theorem spells_functional : forall specs m os ops os' ops' args,
  Spells specs m os ops args -> Spells specs m os' ops' args -> os = os' /\ ops = ops'.
Proof. exact spells_functional_lemma. Qed.

(* -- the rewrite rules of the guidelines ----------------------------------------- *)

Theorem equivalent_spellings_same_result : forall specs m a b,
  Respell specs m a b -> canon (parse specs m a) = canon (parse specs m b).
Proof. exact respell_same. Qed.

Theorem grouped_short_options : forall specs m c i s c' cs rest,
  FirstShort specs c i s -> sp_arg s = false -> ShortAllowed m s ->
  c <> HYPHEN -> c' <> HYPHEN ->
  canon (parse specs m ((HYPHEN :: c :: c' :: cs) :: rest)) =
  canon (parse specs m ([HYPHEN; c] :: (HYPHEN :: c' :: cs) :: rest)).
Proof. exact rule_group. Qed.

Theorem attached_option_argument : forall specs m c i s a rest,
  FirstShort specs c i s -> sp_arg s = true -> m_same m = true ->
  c <> HYPHEN -> a <> [] ->
  canon (parse specs m ((HYPHEN :: c :: a) :: rest)) =
  canon (parse specs m ([HYPHEN; c] :: a :: rest)).
Proof. exact rule_attach. Qed.

Theorem long_option_equal_sign : forall specs m name i s a rest,
  Resolves specs name i s -> sp_arg s = true -> name <> [] -> ~ In EQUAL name ->
  canon (parse specs m ((HYPHEN :: HYPHEN :: name ++ EQUAL :: a) :: rest)) =
  canon (parse specs m ((HYPHEN :: HYPHEN :: name) :: a :: rest)).
Proof. exact rule_equal. Qed.

Theorem long_option_abbreviation : forall specs m p q i s rest,
  Resolves specs p i s -> Resolves specs q i s ->
  p <> [] -> q <> [] -> ~ In EQUAL p -> ~ In EQUAL q ->
  canon (parse specs m ((HYPHEN :: HYPHEN :: p) :: rest)) =
  canon (parse specs m ((HYPHEN :: HYPHEN :: q) :: rest)).
Proof. exact rule_abbrev. Qed.

Theorem long_option_abbreviation_equal : forall specs m p q i s a rest,
  Resolves specs p i s -> Resolves specs q i s -> ~ In EQUAL p -> ~ In EQUAL q ->
  canon (parse specs m ((HYPHEN :: HYPHEN :: p ++ EQUAL :: a) :: rest)) =
  canon (parse specs m ((HYPHEN :: HYPHEN :: q ++ EQUAL :: a) :: rest)).
Proof. exact rule_abbrev_equal. Qed.

Theorem short_and_long_name : forall specs m c name i s rest,
  FirstShort specs c i s -> Resolves specs name i s -> LongAllowed m s ->
  c <> HYPHEN -> name <> [] -> ~ In EQUAL name ->
  canon (parse specs m ([HYPHEN; c] :: rest)) =
  canon (parse specs m ((HYPHEN :: HYPHEN :: name) :: rest)).
Proof. exact rule_short_long. Qed.

Theorem double_dash_optional : forall specs m ops,
  PlainStart ops -> canon (parse specs m ops) = canon (parse specs m (SEP :: ops)).
Proof. exact rule_sep. Qed.

Theorem double_dash_ends_options : forall specs m pre os ops,
  OptPrefix specs m pre os -> canon (parse specs m (pre ++ SEP :: ops)) = Some (os, ops).
Proof. exact double_dash. Qed.

Theorem rewriting_behind_options : forall specs m pre os l r,
  OptPrefix specs m pre os ->
  canon (parse specs m l) = canon (parse specs m r) ->
  canon (parse specs m (pre ++ l)) = canon (parse specs m (pre ++ r)).
Proof. exact optprefix_congruence. Qed.

(* -- malformed vectors are rejected, and nothing else is ------------------------- *)

Theorem malformed_rejected : forall specs m args d,
  Malformed specs m args d -> exists e, parse specs m args = Err e /\ class_of e = d.
Proof. exact malformed_parse_err. Qed.

Theorem rejected_only_malformed : forall specs m args e,
  parse specs m args = Err e -> Malformed specs m args (class_of e).
Proof. exact parse_err_malformed. Qed.

Theorem spelling_or_malformed : forall specs m args,
  (exists os ops, Spells specs m os ops args) \/ (exists d, Malformed specs m args d).
Proof. exact decides_lemma. Qed.

Theorem spelling_not_malformed : forall specs m os ops args d,
  Spells specs m os ops args -> ~ Malformed specs m args d.
Proof. exact exclusive_lemma. Qed.

(* -- the oracle ---------------------------------------------------------------------- *)

Theorem oracle_sound : forall specs m args,
  oracle_parse specs m args (parse specs m args) = None.
Proof. exact oracle_sound_lemma. Qed.

Theorem oracle_accepts_only_readings : forall specs m args os ops,
  oracle_parse specs m args (Ok os ops) = None ->
  canon (parse specs m args) = Some (map canon_occ os, ops).
Proof. exact oracle_ok_exact_lemma. Qed.

Theorem oracle_accepts_only_malformed : forall specs m args e,
  rejects_b specs m args e = true -> Malformed specs m args (class_of e).
Proof. exact rejects_b_malformed. Qed.

Theorem oracle_exact : forall specs m args r,
  oracle_parse specs m args r = None -> canon r = canon (parse specs m args).
Proof. exact oracle_exact_lemma. Qed.

Theorem spells_b_decides : forall specs m os ops args,
  spells_b specs m os ops args = true <-> Spells specs m os ops args.
Proof. exact spells_b_decides_lemma. Qed.

(* -- the option tables of the real built-ins (regenerated from the source) -------- *)

Theorem unambiguous_table_reachable : forall t i s,
  table_ok t = true -> nth_error t i = Some s ->
  (forall c, sp_short s = Some c -> FirstShort t c i s /\ c <> HYPHEN)
  /\ (forall l, sp_long s = Some l -> Resolves t l i s /\ l <> [] /\ ~ In EQUAL l)
  /\ (sp_short s <> None \/ sp_long s <> None).
Proof. exact table_ok_reachable. Qed.

Theorem gen_specs_unambiguous :
  forallb (fun p => table_ok (snd p)) builtin_tables = true.
Proof. exact gen_tables_ok. Qed.

Theorem gen_specs_every_option_reachable : forall name t i s,
  In (name, t) builtin_tables -> nth_error t i = Some s ->
  (forall c, sp_short s = Some c -> FirstShort t c i s /\ c <> HYPHEN)
  /\ (forall l, sp_long s = Some l -> Resolves t l i s /\ l <> [] /\ ~ In EQUAL l)
  /\ (sp_short s <> None \/ sp_long s <> None).
Proof. exact gen_tables_reachable. Qed.

(* -- the getopts built-in (model of getopts/model.rs `next`, called in a loop) ----- *)

(* the loop that re-enters `next` with the $OPTIND indices never runs out of
   fuel and delivers the structural reading of the arguments *)
Theorem getopts_loop_is_structural_reading : forall raw args,
  getopts_run raw args = Some (gobserved (gdirect raw (starts_with_colon raw) 1 args)).
Proof. exact getopts_run_observed. Qed.

Theorem getopts_loop_terminates : forall raw args, getopts_run raw args <> None.
Proof. exact getopts_run_total. Qed.

(* -xy... = -x -y... for a letter x that takes no argument, known or UNKNOWN:
   same ($name, $OPTARG) sequence, operands and stderr-emptiness *)
Theorem getopts_grouped_options : forall raw c cs rest,
  judge raw c <> GTakesArg -> c <> HYPHEN -> cs <> [] -> cs <> [HYPHEN] ->
  gvisible (getopts_run raw ((HYPHEN :: c :: cs) :: rest)) =
  gvisible (getopts_run raw ([HYPHEN; c] :: (HYPHEN :: cs) :: rest)).
Proof. exact getopts_group_split. Qed.

Theorem getopts_attached_argument : forall raw c a rest,
  judge raw c = GTakesArg -> c <> HYPHEN -> a <> [] ->
  gvisible (getopts_run raw ((HYPHEN :: c :: a) :: rest)) =
  gvisible (getopts_run raw ([HYPHEN; c] :: a :: rest)).
Proof. exact getopts_attached. Qed.

(* every spelling of an abstract invocation (option string + the letters used
   as unknown options) makes the loop report the expected ($name, $OPTARG)
   sequence, leave the operands and write to stderr exactly when an unknown
   letter occurs in verbose mode *)
Theorem getopts_spelling_gives_expected_events : forall raw unknown os ops args,
  AllUnknown raw unknown ->
  Spells (gtable raw unknown) gmode os ops args ->
  gvisible (getopts_run raw args) =
  Some (map (expected_event raw unknown) os, ops, starts_with_colon raw || forallb (known_b raw) os).
Proof. exact getopts_spelling. Qed.

(* rewriting behind complete option fields (known or unknown letters) *)
Theorem getopts_rules_behind_options : forall raw unknown pre os l r,
  AllUnknown raw unknown -> OptPrefix (gtable raw unknown) gmode pre os ->
  gvisible (getopts_run raw l) = gvisible (getopts_run raw r) ->
  gvisible (getopts_run raw (pre ++ l)) = gvisible (getopts_run raw (pre ++ r)).
Proof. exact getopts_behind_options. Qed.

(* -- kill's own parser (model of kill/syntax.rs, portable off) ------------------------ *)

(* outside the class of the open finding F42 (a first argument -SIGNAL whose
   lower-case name starts with l or v) every vector is read as the documented
   grammar [kref] reads it, and rejected exactly when the grammar has no
   reading *)
Theorem kill_reads_documented_grammar : forall t term args,
  known_lv t args = false -> kcanon (kparse t term args) = kref t term args.
Proof. exact kparse_kref. Qed.

Theorem kill_equivalent_spellings_same_result : forall t term a b,
  known_lv t a = false -> known_lv t b = false -> kref t term a = kref t term b ->
  kcanon (kparse t term a) = kcanon (kparse t term b).
Proof. exact kill_equivalent_spellings. Qed.

(* F42: the full statement (without the hypothesis) is false of the model *)
Theorem kill_lv_cluster_refuted :
  exists t term args c, known_lv t args = true /\ kref t term args = Some c
                        /\ kcanon (kparse t term args) = None.
Proof. exact kill_lv_refuted. Qed.

(* `--foo`, `-x`: looks like an option, is neither an option nor a signal:
   rejected, no command results (so no signal is sent) *)
Theorem kill_malformed_option_rejected : forall t term c rem rest,
  is_lv c = false -> N.eqb c CH_s || N.eqb c CH_n = false ->
  c :: rem <> [HYPHEN] -> parse_signal t (c :: rem) = None ->
  kparse t term ((HYPHEN :: c :: rem) :: rest) = KErr (KUnknownOption (HYPHEN :: c :: rem)).
Proof. exact kill_unknown_option_rejected. Qed.

Theorem kill_attached_signal_argument : forall t term c a rest,
  N.eqb c CH_s || N.eqb c CH_n = true -> a <> [] -> parse_signal t a <> None ->
  kref t term ([HYPHEN; c] :: a :: rest) = kref t term ((HYPHEN :: c :: a) :: rest).
Proof. exact kref_attached. Qed.

(* -- set's own parser (model of set/syntax.rs, portable off) -------------------------- *)

(* -o NAME = -oNAME = --NAME (and +o NAME = +oNAME = ++NAME) for a name that
   denotes an option `set` can modify *)
Theorem set_named_option_spellings : forall (sht : short_table) (lt : long_table) (negate : bool)
    (name opt : str) (st : bool) (rest : list str),
  lookup_long name lt = Some (LOk opt st true) -> name <> [] ->
  let o : occurrence := (opt, if negate then negb st else st) in
  sloop sht lt ([sign_char negate; CH_o] :: name :: rest) = sprepend [o] (sloop sht lt rest)
  /\ sloop sht lt ((sign_char negate :: CH_o :: name) :: rest) = sprepend [o] (sloop sht lt rest)
  /\ sloop sht lt ((sign_char negate :: sign_char negate :: name) :: rest) = sprepend [o] (sloop sht lt rest).
Proof. exact set_named_option_forms. Qed.

(* -- typeset's own long-option rule vs the generic parser's --------------------------- *)

Theorem typeset_long_rule_vs_generic : forall specs name,
  tmatch specs name = common_match specs name
  \/ (exists j, common_match specs name = TFound j /\ In j (indices (long_is name) specs)
                /\ tmatch specs name = TAmbiguous).
Proof. exact typeset_rule_vs_common. Qed.

Theorem typeset_long_rule_prefix_free : forall specs name,
  prefix_free specs = true -> tmatch specs name = common_match specs name.
Proof. exact prefix_free_agree. Qed.

Theorem typeset_long_rule_refuted :
  exists specs name, common_match specs name = TFound 0 /\ tmatch specs name = TAmbiguous.
Proof. exact typeset_rule_refuted. Qed.

Print Assumptions parse_iff_spells.
Print Assumptions spellings_agree.
Print Assumptions spells_functional.
Print Assumptions equivalent_spellings_same_result.
Print Assumptions grouped_short_options.
Print Assumptions attached_option_argument.
Print Assumptions long_option_equal_sign.
Print Assumptions long_option_abbreviation.
Print Assumptions long_option_abbreviation_equal.
Print Assumptions short_and_long_name.
Print Assumptions double_dash_optional.
Print Assumptions double_dash_ends_options.
Print Assumptions rewriting_behind_options.
Print Assumptions malformed_rejected.
Print Assumptions rejected_only_malformed.
Print Assumptions spelling_or_malformed.
Print Assumptions spelling_not_malformed.
Print Assumptions oracle_sound.
Print Assumptions oracle_accepts_only_readings.
Print Assumptions spells_b_decides.
Print Assumptions oracle_accepts_only_malformed.
Print Assumptions oracle_exact.
Print Assumptions unambiguous_table_reachable.
Print Assumptions gen_specs_unambiguous.
Print Assumptions gen_specs_every_option_reachable.
Print Assumptions getopts_loop_is_structural_reading.
Print Assumptions getopts_loop_terminates.
Print Assumptions getopts_grouped_options.
Print Assumptions getopts_attached_argument.
Print Assumptions getopts_spelling_gives_expected_events.
Print Assumptions getopts_rules_behind_options.
Print Assumptions kill_reads_documented_grammar.
Print Assumptions kill_equivalent_spellings_same_result.
Print Assumptions kill_lv_cluster_refuted.
Print Assumptions kill_malformed_option_rejected.
Print Assumptions kill_attached_signal_argument.
Print Assumptions set_named_option_spellings.
Print Assumptions typeset_long_rule_vs_generic.
Print Assumptions typeset_long_rule_prefix_free.
Print Assumptions typeset_long_rule_refuted.
