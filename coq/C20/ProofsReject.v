(* C20 — proofs, part 6: the oracle's justification of a rejection. *)
From Yv Require Import Common.Base C20.Model C20.Spec C20.ProofsNames C20.ProofsFields
  C20.ProofsMain C20.ProofsOracle.

(* ---- flags ------------------------------------------------------------------- *)

Lemma find_short_find specs c i s :
  FirstShort specs c i s -> find (short_is c) specs = Some s.
Proof. intros FS. apply find_short_some in FS. rewrite find_short_is, FS. reflexivity. Qed.

Lemma is_flag_b_spec specs m c :
  is_flag_b specs m c = true <->
  exists i s, FirstShort specs c i s /\ sp_arg s = false /\ ShortAllowed m s.
Proof.
  unfold is_flag_b. rewrite find_short_is. destruct (find_short specs c) as [[i s]|] eqn:F; cbn.
  - apply find_short_some in F. rewrite andb_true_iff, negb_true_iff, short_allowed_b_spec. split.
    + intros [A B]. eauto.
    + intros [i' [s' [FS [A B]]]]. destruct (first_short_fun _ _ _ _ _ _ F FS) as [-> ->]. auto.
  - split; [discriminate|]. intros [i [s [FS _]]]. apply find_short_some in FS. congruence.
Qed.

Lemma span_flags_all specs m cs : Flags specs m cs -> span_flags specs m cs = (cs, []).
Proof.
  induction cs as [|c cs IH]; intros Fl; cbn [span_flags]; [reflexivity|].
  assert (F : is_flag_b specs m c = true) by (apply is_flag_b_spec, Fl; left; reflexivity).
  rewrite F, IH; [reflexivity|]. intros c' I. apply Fl. right. exact I.
Qed.

Lemma span_flags_app specs m pre c post :
  Flags specs m pre -> is_flag_b specs m c = false ->
  span_flags specs m (pre ++ c :: post) = (pre, c :: post).
Proof.
  induction pre as [|c0 pre IH]; intros Fl NF; cbn [span_flags app].
  - rewrite NF. reflexivity.
  - assert (F : is_flag_b specs m c0 = true) by (apply is_flag_b_spec, Fl; left; reflexivity).
    rewrite F, IH; [reflexivity| |exact NF]. intros c' I. apply Fl. right. exact I.
Qed.

Lemma not_flag_arg specs m c i s :
  FirstShort specs c i s -> sp_arg s = true -> is_flag_b specs m c = false.
Proof.
  intros FS Ar. destruct (is_flag_b specs m c) eqn:F; [|reflexivity].
  apply is_flag_b_spec in F. destruct F as [i' [s' [FS' [A _]]]].
  destruct (first_short_fun _ _ _ _ _ _ FS FS') as [_ <-]. congruence.
Qed.

Lemma not_flag_disallowed specs m c i s :
  FirstShort specs c i s -> ~ ShortAllowed m s -> is_flag_b specs m c = false.
Proof.
  intros FS NA. destruct (is_flag_b specs m c) eqn:F; [|reflexivity].
  apply is_flag_b_spec in F. destruct F as [i' [s' [FS' [_ A]]]].
  destruct (first_short_fun _ _ _ _ _ _ FS FS') as [_ <-]. contradiction.
Qed.

Lemma not_flag_unknown specs m c : NoShort specs c -> is_flag_b specs m c = false.
Proof.
  intros NS. destruct (is_flag_b specs m c) eqn:F; [|reflexivity].
  apply is_flag_b_spec in F. destruct F as [i [s [[E [Sh _]] _]]]. exfalso.
  apply (NS s); [eapply nth_error_In; eauto | exact Sh].
Qed.

(* the shape of a group that the grammar accepts *)
Lemma shorts_shape specs m cs extra cos :
  Shorts specs m cs extra cos ->
  (Flags specs m cs /\ extra = None)
  \/ exists pre c post i s,
       cs = pre ++ c :: post /\ Flags specs m pre /\ FirstShort specs c i s /\
       sp_arg s = true /\ ShortAllowed m s /\
       ((post <> [] /\ m_same m = true /\ extra = None) \/ (post = [] /\ exists a, extra = Some a)).
Proof.
  induction 1 as [|c i s cs extra os FS Ar Al Sh IH|c i s a FS Ar Al NE Sm|c i s a FS Ar Al].
  - left. split; [apply flags_nil | reflexivity].
  - destruct IH as [[Fl ->]|[pre [c1 [post [i1 [s1 [-> [Fl [FS1 [Ar1 [Al1 K]]]]]]]]]]].
    + left. split; [eapply flags_cons; eauto | reflexivity].
    + right. exists (c :: pre), c1, post, i1, s1. splits; auto. eapply flags_cons; eauto.
  - right. exists [], c, a, i, s. splits; auto using flags_nil.
  - right. exists [], c, [], i, s. splits; auto using flags_nil. right. eauto.
Qed.

(* ---- good_field_b on short groups ------------------------------------------------ *)

Lemma good_field_short specs m c0 cs next :
  c0 <> HYPHEN ->
  good_field_b specs m (HYPHEN :: c0 :: cs) next =
  match snd (span_flags specs m (c0 :: cs)) with
  | [] => Some false
  | c :: post =>
      match find (short_is c) specs with
      | Some s =>
          if sp_arg s && short_allowed_b m s then
            match post with
            | [] => match next with Some _ => Some true | None => None end
            | _ :: _ => if m_same m then Some false else None
            end
          else None
      | None => None
      end
  end.
Proof.
  intros NE. unfold good_field_b. rewrite N.eqb_refl. apply N.eqb_neq in NE. rewrite NE. reflexivity.
Qed.

Lemma short_culprit_spec specs m c0 cs :
  c0 <> HYPHEN ->
  short_culprit specs m (HYPHEN :: c0 :: cs) =
  match snd (span_flags specs m (c0 :: cs)) with
  | c :: post => Some (c, post)
  | [] => None
  end.
Proof.
  intros NE. unfold short_culprit. rewrite is_short_field_intro by exact NE. reflexivity.
Qed.

Lemma long_parts_short c0 cs : c0 <> HYPHEN -> long_parts (HYPHEN :: c0 :: cs) = None.
Proof.
  intros NE. unfold long_parts. cbn. apply N.eqb_neq in NE. rewrite NE.
  destruct cs; reflexivity.
Qed.

Lemma good_short_done specs m c0 cs cos next :
  c0 <> HYPHEN -> Shorts specs m (c0 :: cs) None cos ->
  good_field_b specs m (HYPHEN :: c0 :: cs) next = Some false.
Proof.
  intros NE Sh. rewrite good_field_short by exact NE.
  destruct (shorts_shape _ _ _ _ _ Sh) as [[Fl _]|[pre [c [post [i [s [E [Fl [FS [Ar [Al K]]]]]]]]]]].
  - rewrite span_flags_all by exact Fl. reflexivity.
  - rewrite E, span_flags_app by (try exact Fl; eapply not_flag_arg; eauto). cbn [snd].
    rewrite (find_short_find _ _ _ _ FS), Ar. apply short_allowed_b_spec in Al. rewrite Al. cbn [andb].
    destruct K as [[NP [Sm _]]|[_ [a X]]]; [|discriminate].
    destruct post; [congruence|]. rewrite Sm. reflexivity.
Qed.

Lemma good_short_need specs m c0 cs pre c i s :
  c0 <> HYPHEN -> c0 :: cs = pre ++ [c] -> Flags specs m pre -> FirstShort specs c i s ->
  ShortAllowed m s -> sp_arg s = true ->
  (forall a, good_field_b specs m (HYPHEN :: c0 :: cs) (Some a) = Some true)
  /\ good_field_b specs m (HYPHEN :: c0 :: cs) None = None
  /\ justified_b specs m (HYPHEN :: c0 :: cs) [] (MissingArg (HYPHEN :: c0 :: cs) i) = true.
Proof.
  intros NE E Fl FS Al Ar.
  assert (SP : snd (span_flags specs m (c0 :: cs)) = [c]).
  { rewrite E, span_flags_app by (try exact Fl; eapply not_flag_arg; eauto). reflexivity. }
  apply short_allowed_b_spec in Al. splits.
  - intros a. rewrite good_field_short, SP, (find_short_find _ _ _ _ FS), Ar, Al by exact NE. reflexivity.
  - rewrite good_field_short, SP, (find_short_find _ _ _ _ FS), Ar, Al by exact NE. reflexivity.
  - unfold justified_b. rewrite short_culprit_spec, SP by exact NE.
    rewrite (first_short_b_intro _ _ _ _ FS), (first_short_at _ _ _ _ FS), Al, Ar. reflexivity.
Qed.

Lemma good_short_err specs m c0 cs pre c post e :
  c0 <> HYPHEN -> c0 :: cs = pre ++ c :: post -> Flags specs m pre ->
  ShortDefect specs m (HYPHEN :: c0 :: cs) c post e ->
  (forall next, good_field_b specs m (HYPHEN :: c0 :: cs) next = None)
  /\ err_field e = HYPHEN :: c0 :: cs
  /\ forall rest, justified_b specs m (HYPHEN :: c0 :: cs) rest e = true.
Proof.
  intros NE E Fl D.
  destruct D as [[-> NS]|[[i [s [-> [FS NA]]]]|[i [s [-> [FS [Al [Ar [NP Sm]]]]]]]]].
  - assert (SP : snd (span_flags specs m (c0 :: cs)) = c :: post).
    { rewrite E, span_flags_app by (try exact Fl; apply not_flag_unknown; exact NS). reflexivity. }
    assert (FN : find (short_is c) specs = None).
    { rewrite find_short_is. apply find_short_none in NS. rewrite NS. reflexivity. }
    splits.
    + intros next. rewrite good_field_short, SP, FN by exact NE. reflexivity.
    + reflexivity.
    + intros rest. unfold justified_b. rewrite short_culprit_spec, SP by exact NE.
      rewrite N.eqb_refl. cbn [andb]. apply negb_true_iff.
      destruct (existsb (short_is c) specs) eqn:X; [|reflexivity]. exfalso.
      apply existsb_exists in X. destruct X as [s [I Sh]]. apply short_is_spec in Sh. exact (NS s I Sh).
  - assert (SP : snd (span_flags specs m (c0 :: cs)) = c :: post).
    { rewrite E, span_flags_app by (try exact Fl; eapply not_flag_disallowed; eauto). reflexivity. }
    assert (A : short_allowed_b m s = false).
    { destruct (short_allowed_b m s) eqn:X; [|reflexivity]. apply short_allowed_b_spec in X. contradiction. }
    splits.
    + intros next. rewrite good_field_short, SP, (find_short_find _ _ _ _ FS), A, andb_false_r by exact NE.
      reflexivity.
    + reflexivity.
    + intros rest. unfold justified_b. rewrite short_culprit_spec, SP by exact NE.
      rewrite N.eqb_refl, (first_short_b_intro _ _ _ _ FS), (first_short_at _ _ _ _ FS), A. reflexivity.
  - assert (SP : snd (span_flags specs m (c0 :: cs)) = c :: post).
    { rewrite E, span_flags_app by (try exact Fl; eapply not_flag_arg; eauto). reflexivity. }
    apply short_allowed_b_spec in Al. destruct post as [|p0 post]; [congruence|]. splits.
    + intros next. rewrite good_field_short, SP, (find_short_find _ _ _ _ FS), Ar, Al, Sm by exact NE.
      reflexivity.
    + reflexivity.
    + intros rest. unfold justified_b. rewrite short_culprit_spec, SP by exact NE.
      rewrite (first_short_b_intro _ _ _ _ FS), (first_short_at _ _ _ _ FS), Al, Ar, Sm. reflexivity.
Qed.

(* ---- good_field_b on long options -------------------------------------------------- *)

Definition candidates specs name : list nat :=
  match indices (long_is name) specs with
  | j :: _ => [j]
  | [] => indices (long_has_prefix name) specs
  end.

Lemma candidates_spec specs name :
  candidates specs name = match long_match specs name with inl i => [i] | inr l => l end.
Proof.
  unfold candidates. rewrite long_match_indices.
  destruct (indices (long_is name) specs); [|reflexivity].
  destruct (indices (long_has_prefix name) specs) as [|a [|b l]]; reflexivity.
Qed.

Lemma good_field_long specs m body next :
  body <> [] ->
  good_field_b specs m (HYPHEN :: HYPHEN :: body) next =
  let (name, oeq) := split_eq body in
  match candidates specs name with
  | [i] =>
      let s := spec_at specs i in
      if long_allowed_b m s then
        match sp_arg s, oeq with
        | false, None => Some false
        | true, Some _ => Some false
        | true, None => match next with Some _ => Some true | None => None end
        | false, Some _ => None
        end
      else None
  | _ => None
  end.
Proof.
  intros NE. unfold good_field_b, candidates. rewrite !N.eqb_refl. cbn [negb].
  destruct body; [congruence|]. reflexivity.
Qed.

Lemma long_parts_spec body :
  body <> [] -> long_parts (HYPHEN :: HYPHEN :: body) = Some (split_eq body).
Proof.
  intros NE. unfold long_parts. destruct (is_long_field_intro body NE) as [-> _]. reflexivity.
Qed.

Lemma short_culprit_long specs m body : short_culprit specs m (HYPHEN :: HYPHEN :: body) = None.
Proof. unfold short_culprit. cbn. reflexivity. Qed.

Lemma good_long specs m body :
  body <> [] ->
  let f := HYPHEN :: HYPHEN :: body in
  match long_field specs m f with
  | LDone _ => forall next, good_field_b specs m f next = Some false
  | LNeed i => (forall a, good_field_b specs m f (Some a) = Some true)
               /\ good_field_b specs m f None = None
               /\ justified_b specs m f [] (MissingArg f i) = true
  | LErr e => (forall next, good_field_b specs m f next = None)
              /\ err_field e = f
              /\ forall rest, justified_b specs m f rest e = true
  end.
Proof.
  intros NE f. subst f.
  pose proof (good_field_long specs m body) as G.
  unfold long_field. cbn [skipn]. unfold justified_b. rewrite short_culprit_long, long_parts_spec by exact NE.
  destruct (split_eq body) as [name oeq] eqn:SE. cbv zeta in G.
  assert (C := candidates_spec specs name).
  destruct (long_match specs name) as [i|l] eqn:LM.
  - assert (RB : resolves_b specs name i = true).
    { apply resolves_b_spec. apply long_match_resolves. exact LM. }
    rewrite long_test.
    destruct (long_allowed_b m (spec_at specs i)) eqn:A.
    + destruct (sp_arg (spec_at specs i)) eqn:Ar, oeq as [a|].
      * intros next. rewrite G, C, A, Ar by exact NE. reflexivity.
      * splits; [intros a| |]; rewrite ?G, ?C, ?A, ?Ar, ?RB by exact NE; reflexivity.
      * splits; [intros next| |intros rest]; rewrite ?G, ?C, ?A, ?Ar, ?RB by exact NE; reflexivity.
      * intros next. rewrite G, C, A, Ar by exact NE. reflexivity.
    + splits; [intros next| |intros rest]; rewrite ?G, ?C, ?A, ?RB by exact NE; reflexivity.
  - destruct l as [|a l].
    + splits; [intros next| |intros rest]; rewrite ?G, ?C by exact NE; try reflexivity.
      apply negb_true_iff. rewrite existsb_indices. apply long_match_unknown in LM.
      destruct (indices (long_has_prefix name) specs) as [|j r] eqn:EI; [reflexivity|]. exfalso.
      assert (I : In j (indices (long_has_prefix name) specs)) by (rewrite EI; left; reflexivity).
      apply has_long_prefix_spec in I. destruct I as [l' [HL P]]. exact (LM j l' HL P).
    + pose proof (long_match_ambiguous specs name (a :: l)) as AM.
      destruct AM as [_ [EL [L2 EX]]]; [discriminate | exact LM|].
      splits; [intros next| |intros rest]; rewrite ?G, ?C by exact NE.
      * destruct l; [cbn in L2; lia | reflexivity].
      * reflexivity.
      * rewrite existsb_indices, EX, <- EL. cbn [negb andb].
        rewrite (proj2 (list_eqb_spec Nat.eqb Nat.eqb_eq (a :: l) (a :: l)) eq_refl). cbn [andb].
        apply Nat.leb_le. exact L2.
Qed.

(* ---- the rejection is justified ---------------------------------------------------- *)

Lemma skip_options_stop specs m f rest :
  (forall next, good_field_b specs m f next = None) -> skip_options specs m (f :: rest) = f :: rest.
Proof.
  intros G. cbn [skip_options]. destruct rest; rewrite G; reflexivity.
Qed.

Lemma skip_options_done specs m f a rest :
  (forall next, good_field_b specs m f next = Some false) ->
  skip_options specs m (f :: a :: rest) = skip_options specs m (a :: rest).
Proof. intros G. cbn [skip_options]. rewrite G. reflexivity. Qed.

Lemma rejects_b_intro specs m args f rest e :
  skip_options specs m args = f :: rest -> err_field e = f -> justified_b specs m f rest e = true ->
  rejects_b specs m args e = true.
Proof.
  intros S E J. unfold rejects_b. rewrite S, E, str_eqb_refl, J. reflexivity.
Qed.

Lemma parse_err_rejects specs m : forall args e,
  parse specs m args = Err e ->
  exists f rest, skip_options specs m args = f :: rest /\ err_field e = f
                 /\ justified_b specs m f rest e = true.
Proof.
  intros args. induction args as [|f rest IH1 IH2] using args_ind2; intros e E.
  - discriminate.
  - destruct (is_short_field f) eqn:SF.
    { apply is_short_field_inv in SF. destruct SF as [c [cs [-> NE]]].
      rewrite parse_short_step in E by exact NE. cbv zeta in E.
      pose proof (short_chars_struct specs m (HYPHEN :: c :: cs) (c :: cs) 1%N) as H.
      destruct (short_chars specs m (HYPHEN :: c :: cs) 1 (c :: cs)) as [e'|os1|os1 i idx].
      - inversion E; subst e'. destruct H as [pre [c1 [post [Ecs [Fl D]]]]].
        destruct (good_short_err _ _ _ _ _ _ _ _ NE Ecs Fl D) as [G [EF J]].
        exists (HYPHEN :: c :: cs), rest. splits; auto. apply skip_options_stop. exact G.
      - apply prepend_err in E. destruct rest as [|a rest']; [discriminate|].
        rewrite skip_options_done by (intros next; eapply good_short_done; eauto).
        apply IH1. exact E.
      - destruct H as [pre [c1 [s [Ecs [Fl [FS [Al [Ar Sh]]]]]]]].
        destruct (good_short_need _ _ _ _ _ _ _ _ NE Ecs Fl FS Al Ar) as [G1 [G2 J]].
        destruct rest as [|a rest'].
        + inversion E; subst e. exists (HYPHEN :: c :: cs), []. splits; auto.
          cbn [skip_options]. rewrite G2. reflexivity.
        + apply prepend_err in E. cbn [skip_options]. rewrite G1. apply (IH2 a rest' eq_refl). exact E. }
    destruct (is_long_field f) eqn:LF.
    { apply is_long_field_inv in LF. destruct LF as [body [-> NE]].
      rewrite parse_long_step in E by exact NE. cbv zeta in E.
      pose proof (good_long specs m body NE) as H. cbv zeta in H.
      destruct (long_field specs m (HYPHEN :: HYPHEN :: body)) as [e'|o|i].
      - inversion E; subst e'. destruct H as [G [EF J]].
        exists (HYPHEN :: HYPHEN :: body), rest. splits; auto. apply skip_options_stop. exact G.
      - apply prepend_err in E. destruct rest as [|a rest']; [discriminate|].
        rewrite skip_options_done by exact H. apply IH1. exact E.
      - destruct H as [G1 [G2 J]]. destruct rest as [|a rest'].
        + inversion E; subst e. exists (HYPHEN :: HYPHEN :: body), []. splits; auto.
          cbn [skip_options]. rewrite G2. reflexivity.
        + apply prepend_err in E. cbn [skip_options]. rewrite G1. apply (IH2 a rest' eq_refl). exact E. }
    cbn [parse] in E. rewrite SF, LF in E. destruct (is_separator f); discriminate.
Qed.

Lemma oracle_sound_lemma specs m args : oracle_parse specs m args (parse specs m args) = None.
Proof.
  unfold oracle_parse. destruct (parse specs m args) as [os ops|e] eqn:E.
  - change (map canon_occ os) with (canons os).
    rewrite (spells_b_complete specs m (canons os) ops args); [reflexivity|].
    apply parse_complete_lemma. exact E.
  - destruct (parse_err_rejects _ _ _ _ E) as [f [rest [S [EF J]]]].
    rewrite (rejects_b_intro _ _ _ _ _ _ S EF J). reflexivity.
Qed.
