(* C20 — proofs about the model of kill's parser: outside the class of the
   open finding F42 it reads every vector as the documented grammar (kref)
   says; the class is not empty; `--foo` and the like are rejected. *)
From Yv Require Import Common.Base C20.Model C20.Spec C20.Kill.

Definition Flagged (st : kstate) : Prop := ks_list st <> None \/ ks_verbose st <> None.

Lemma set_signal_with_origin st o new a : ks_origin st = Some o -> exists e, set_signal st new a = inl e.
Proof. intros E. unfold set_signal. destruct new; rewrite ?E; eauto. Qed.

(* what happens to the rest of the vector after the character loop *)
Definition kcont (t : sigtable) (f : str) (rest : list str) (s : kstep) : kresult :=
  match s with
  | KSErr e => KErr e
  | KSDone st' => kfrom t st' rest
  | KSNeed st' c =>
      match rest with
      | [] => KErr (KMissingSignal c f)
      | a :: rest' =>
          match set_signal st' (parse_signal t a) a with
          | inl e => KErr e
          | inr st'' => kfrom t st'' rest'
          end
      end
  end.

Lemma kfrom_option_arg t st f rest :
  is_option_arg f = true -> str_eqb (skipn 1 f) [HYPHEN] = false ->
  kfrom t st (f :: rest) = kcont t f rest (kchars t f (skipn 1 f) st (skipn 1 f)).
Proof.
  intros O S. unfold kfrom. cbn [kloop]. rewrite O. cbv zeta. rewrite S.
  destruct (kchars t f (skipn 1 f) st (skipn 1 f)) as [e|st'|st' c]; cbn [kcont]; try reflexivity.
  destruct rest as [|a rest']; [reflexivity|].
  destruct (set_signal st' (parse_signal t a) a); reflexivity.
Qed.

Lemma kfrom_plain t st f rest : is_option_arg f = false -> kfrom t st (f :: rest) = kfinish st (f :: rest).
Proof. intros O. unfold kfrom. cbn [kloop]. rewrite O. reflexivity. Qed.

Lemma kfrom_sep t st rest : kfrom t st (SEP :: rest) = kfinish st rest.
Proof. reflexivity. Qed.

Lemma kfrom_nil t st : kfrom t st [] = kfinish st [].
Proof. reflexivity. Qed.

Lemma kfinish_doomed st o ops : ks_origin st = Some o -> Flagged st -> kcanon (kfinish st ops) = None.
Proof.
  intros E [F|F]; unfold kfinish, list_case; rewrite E;
    destruct (ks_verbose st), (ks_list st); try congruence; reflexivity.
Qed.

(* once a signal is given, the character loop can only fail, flag, or ask for
   a second signal *)
Lemma kchars_origin t arg opts o : forall cs st,
  ks_origin st = Some o ->
  match kchars t arg opts st cs with
  | KSErr _ => True
  | KSNeed st' _ => ks_origin st' = Some o
  | KSDone st' => ks_origin st' = Some o /\ (Flagged st \/ cs <> [] -> Flagged st')
  end.
Proof.
  induction cs as [|c rem IH]; intros st E; cbn [kchars].
  - split; [exact E|]. intros [F|F]; [exact F | congruence].
  - destruct (N.eqb c CH_s || N.eqb c CH_n).
    + destruct rem; [exact E|]. destruct (set_signal_with_origin st o (orelse (parse_signal t (n :: rem)) (parse_signal t opts)) arg E) as [e ->]. exact I.
    + destruct (N.eqb c CH_l).
      * specialize (IH (mkK (ks_sig st) (ks_origin st) (Some arg) (ks_verbose st)) E).
        destruct (kchars t arg opts _ rem); auto. destruct IH as [A B]. split; [exact A|].
        intros _. apply B. left. left. cbn. discriminate.
      * destruct (N.eqb c CH_v).
        -- specialize (IH (mkK (ks_sig st) (ks_origin st) (ks_list st) (Some arg)) E).
           destruct (kchars t arg opts _ rem); auto. destruct IH as [A B]. split; [exact A|].
           intros _. apply B. left. right. cbn. discriminate.
        -- destruct (set_signal_with_origin st o (parse_signal t opts) arg E) as [e ->].
           destruct e; exact I.
Qed.

Lemma list_ind2 {A} (P : list A -> Prop) :
  P [] ->
  (forall f rest, P rest -> (forall a rest', rest = a :: rest' -> P rest') -> P (f :: rest)) ->
  forall l, P l.
Proof.
  intros H0 HS.
  assert (H : forall l, P l /\ (forall a rest', l = a :: rest' -> P rest')).
  { induction l as [|f rest [IH1 IH2]].
    - split; [exact H0 | discriminate].
    - split; [apply HS; assumption|]. intros a rest' E. inversion E; subst. exact IH1. }
  intros l. apply H.
Qed.

Lemma option_arg_cases f :
  is_option_arg f = true ->
  f = SEP \/ (str_eqb (skipn 1 f) [HYPHEN] = false /\ exists c rem, f = HYPHEN :: c :: rem).
Proof.
  destruct f as [|c0 [|c rem]]; cbn; try discriminate. rewrite N.eqb_eq. intros ->.
  destruct (str_eqb (c :: rem) [HYPHEN]) eqn:S.
  - left. apply str_eqb_eq in S. rewrite S. reflexivity.
  - right. split; [exact S | eauto].
Qed.

(* a signal and -l/-v together: rejected whatever follows *)
Lemma kfrom_doomed t o : forall args st,
  ks_origin st = Some o -> Flagged st -> kcanon (kfrom t st args) = None.
Proof.
  intros args. induction args as [|f rest IH1 IH2] using list_ind2; intros st E F.
  - rewrite kfrom_nil. eapply kfinish_doomed; eauto.
  - destruct (is_option_arg f) eqn:O.
    + destruct (option_arg_cases f O) as [->|[S [c [rem ->]]]].
      * rewrite kfrom_sep. eapply kfinish_doomed; eauto.
      * rewrite kfrom_option_arg by assumption.
        pose proof (kchars_origin t (HYPHEN :: c :: rem) (skipn 1 (HYPHEN :: c :: rem)) o
                                  (skipn 1 (HYPHEN :: c :: rem)) st E) as K.
        destruct (kchars t _ _ st _) as [e|st'|st' c']; cbn [kcont].
        -- reflexivity.
        -- destruct K as [A B]. apply IH1; auto.
        -- destruct rest as [|a rest']; [reflexivity|].
           destruct (set_signal_with_origin st' o (parse_signal t a) a K) as [e ->]. reflexivity.
    + rewrite kfrom_plain by exact O. eapply kfinish_doomed; eauto.
Qed.

(* after the signal come the targets, nothing else *)
Lemma kfrom_after_signal t st o args :
  ks_origin st = Some o -> ks_list st = None -> ks_verbose st = None ->
  kcanon (kfrom t st args) = send (ks_sig st) (operands_of args).
Proof.
  intros E L V. destruct args as [|f rest].
  - rewrite kfrom_nil. unfold kfinish. rewrite L, V. reflexivity.
  - destruct (is_option_arg f) eqn:O.
    + destruct (option_arg_cases f O) as [->|[S [c [rem ->]]]].
      * rewrite kfrom_sep. unfold kfinish. rewrite L, V. destruct rest; reflexivity.
      * assert (NS : str_eqb (HYPHEN :: c :: rem) SEP = false).
        { destruct (str_eqb (HYPHEN :: c :: rem) SEP) eqn:X; [|reflexivity].
          apply str_eqb_eq in X. inversion X; subst. discriminate S. }
        cbn [operands_of]. rewrite NS, O. cbn [send].
        rewrite kfrom_option_arg by assumption.
        pose proof (kchars_origin t (HYPHEN :: c :: rem) (skipn 1 (HYPHEN :: c :: rem)) o
                                  (skipn 1 (HYPHEN :: c :: rem)) st E) as K.
        destruct (kchars t _ _ st _) as [e|st'|st' c']; cbn [kcont].
        -- reflexivity.
        -- destruct K as [A B]. eapply kfrom_doomed; [exact A|]. apply B. right. discriminate.
        -- destruct rest as [|a rest']; [reflexivity|].
           destruct (set_signal_with_origin st' o (parse_signal t a) a K) as [e ->]. reflexivity.
    + rewrite kfrom_plain by exact O. unfold kfinish. rewrite L, V. cbn [operands_of].
      assert (NS : str_eqb f SEP = false).
      { destruct (str_eqb f SEP) eqn:X; [|reflexivity]. apply str_eqb_eq in X. subst. discriminate O. }
      rewrite NS, O. reflexivity.
Qed.

Definition is_some {A} (o : option A) : bool := match o with Some _ => true | None => false end.

(* a cluster of l and v only *)
Lemma kchars_lv t arg opts : forall cs st,
  forallb is_lv cs = true ->
  exists st', kchars t arg opts st cs = KSDone st' /\ ks_origin st' = ks_origin st /\ ks_sig st' = ks_sig st
              /\ (Flagged st \/ cs <> [] -> Flagged st')
              /\ is_some (ks_verbose st') = (is_some (ks_verbose st) || existsb (N.eqb CH_v) cs).
Proof.
  induction cs as [|c rem IH]; intros st A; cbn [kchars].
  - exists st. split; [reflexivity|]. split; [reflexivity|]. split; [reflexivity|]. split.
    + intros [F|F]; [exact F | congruence].
    + cbn. rewrite orb_false_r. reflexivity.
  - cbn [forallb] in A. apply andb_true_iff in A. destruct A as [A1 A2]. unfold is_lv in A1.
    assert (NS : N.eqb c CH_s || N.eqb c CH_n = false).
    { apply orb_true_iff in A1. destruct A1 as [X|X]; apply N.eqb_eq in X; subst; reflexivity. }
    rewrite NS. destruct (N.eqb_spec c CH_l) as [->|NL].
    + destruct (IH (mkK (ks_sig st) (ks_origin st) (Some arg) (ks_verbose st)) A2) as [st' [K [O [Sg [F V]]]]].
      exists st'. split; [exact K|]. split; [exact O|]. split; [exact Sg|]. split.
      * intros _. apply F. left. left. cbn. discriminate.
      * rewrite V. cbn. reflexivity.
    + assert (c = CH_v).
      { apply orb_true_iff in A1. destruct A1 as [X|X]; [discriminate X | apply N.eqb_eq in X; exact X]. }
      subst c. cbn [N.eqb]. rewrite N.eqb_refl.
      destruct (IH (mkK (ks_sig st) (ks_origin st) (ks_list st) (Some arg)) A2) as [st' [K [O [Sg [F V]]]]].
      exists st'. split; [exact K|]. split; [exact O|]. split; [exact Sg|]. split.
      * intros _. apply F. left. right. cbn. discriminate.
      * rewrite V. cbn. rewrite orb_true_r. reflexivity.
Qed.

(* a cluster with something else than l and v, when -l or -v is already given
   and no signal yet *)
Lemma kchars_nonlv t arg opts : forall cs st,
  forallb is_lv cs = false -> ks_origin st = None -> Flagged st ->
  match kchars t arg opts st cs with
  | KSErr _ => True
  | KSNeed st' _ => ks_origin st' = None /\ Flagged st'
  | KSDone st' => ks_origin st' <> None /\ Flagged st'
  end.
Proof.
  induction cs as [|c rem IH]; intros st A E F; [discriminate|]. cbn [kchars].
  destruct (N.eqb c CH_s || N.eqb c CH_n) eqn:SN.
  - destruct rem; [auto|]. unfold set_signal. rewrite E.
    destruct (orelse _ _); cbn; [|exact I]. split; [discriminate | exact F].
  - cbn [forallb] in A. destruct (N.eqb_spec c CH_l) as [->|NL].
    + cbn in A. apply IH; [exact A | exact E | left; cbn; discriminate].
    + destruct (N.eqb_spec c CH_v) as [->|NV].
      * cbn in A. apply IH; [exact A | exact E | right; cbn; discriminate].
      * unfold set_signal. rewrite E. destruct (parse_signal t opts); cbn; [|exact I].
        split; [discriminate | exact F].
Qed.

Lemma kcont_flagged_nonlv t f rest cs st :
  forallb is_lv cs = false -> ks_origin st = None -> Flagged st ->
  kcanon (kcont t f rest (kchars t f (skipn 1 f) st cs)) = None.
Proof.
  intros A E F. pose proof (kchars_nonlv t f (skipn 1 f) cs st A E F) as K.
  destruct (kchars t f (skipn 1 f) st cs) as [e|st'|st' c]; cbn [kcont].
  - reflexivity.
  - destruct K as [O Fl]. destruct (ks_origin st') as [o|] eqn:Eo; [|congruence].
    eapply kfrom_doomed; eauto.
  - destruct K as [O Fl]. destruct rest as [|a rest']; [reflexivity|].
    unfold set_signal. rewrite O. destruct (parse_signal t a); [|reflexivity].
    eapply kfrom_doomed; [reflexivity | exact Fl].
Qed.

Lemma existsb_v_field c rem :
  existsb (N.eqb CH_v) (HYPHEN :: c :: rem) = existsb (N.eqb CH_v) (c :: rem).
Proof. reflexivity. Qed.

(* -l / -v given, no signal: clusters of l and v, then the operands *)
Lemma kfrom_print t : forall args st,
  ks_origin st = None -> Flagged st ->
  kcanon (kfrom t st args) = print_mode (is_some (ks_verbose st)) args.
Proof.
  induction args as [|f rest IH]; intros st E F.
  - rewrite kfrom_nil. unfold kfinish, list_case. rewrite E.
    destruct (ks_verbose st) eqn:V1, (ks_list st) eqn:L1; try reflexivity. destruct F; congruence.
  - assert (Fin : forall ops, kcanon (kfinish st ops) = Some (CPrint (is_some (ks_verbose st)) ops)).
    { intros ops. unfold kfinish, list_case. rewrite E.
      destruct (ks_verbose st) eqn:V1, (ks_list st) eqn:L1; try reflexivity. destruct F; congruence. }
    cbn [print_mode]. destruct (lv_cluster f) eqn:LV.
    + destruct f as [|c0 [|c rem]]; try discriminate. cbn [lv_cluster] in LV.
      apply andb_true_iff in LV. destruct LV as [H A]. apply N.eqb_eq in H. subst c0.
      assert (S : str_eqb (skipn 1 (HYPHEN :: c :: rem)) [HYPHEN] = false).
      { cbn [skipn]. destruct (str_eqb (c :: rem) [HYPHEN]) eqn:X; [|reflexivity].
        apply str_eqb_eq in X. inversion X; subst. discriminate A. }
      rewrite kfrom_option_arg by (auto; reflexivity). cbn [skipn].
      destruct (kchars_lv t (HYPHEN :: c :: rem) (c :: rem) (c :: rem) st A) as [st' [K [O [Sg [Fl V]]]]].
      rewrite K. cbn [kcont]. rewrite IH; [|congruence | apply Fl; right; discriminate].
      rewrite V, existsb_v_field. reflexivity.
    + destruct (is_option_arg f) eqn:O.
      * destruct (option_arg_cases f O) as [->|[S [c [rem ->]]]].
        -- rewrite kfrom_sep, Fin. reflexivity.
        -- assert (NS : str_eqb (HYPHEN :: c :: rem) SEP = false).
           { destruct (str_eqb (HYPHEN :: c :: rem) SEP) eqn:X; [|reflexivity].
             apply str_eqb_eq in X. inversion X; subst. discriminate S. }
           cbn [operands_of]. rewrite NS, O.
           rewrite kfrom_option_arg by assumption.
           apply kcont_flagged_nonlv; auto; cbn [lv_cluster] in LV; rewrite N.eqb_refl in LV; exact LV.
      * rewrite kfrom_plain, Fin by exact O. cbn [operands_of].
        assert (NS : str_eqb f SEP = false).
        { destruct (str_eqb f SEP) eqn:X; [|reflexivity]. apply str_eqb_eq in X. subst. discriminate O. }
        rewrite NS, O. reflexivity.
Qed.

(* ---- the main statement ------------------------------------------------------------- *)

Lemma kparse_kref t term args :
  known_lv t args = false -> kcanon (kparse t term args) = kref t term args.
Proof.
  intros NK. unfold kparse. set (st0 := mkK term None None None).
  destruct args as [|f rest]; [reflexivity|]. cbn [kref].
  destruct (is_option_arg f) eqn:O; cbn [negb orb].
  2:{ rewrite kfrom_plain by exact O. cbn [operands_of].
      assert (NS : str_eqb f SEP = false).
      { destruct (str_eqb f SEP) eqn:X; [|reflexivity]. apply str_eqb_eq in X. subst. discriminate O. }
      rewrite NS, O. reflexivity. }
  destruct (option_arg_cases f O) as [->|[S [c [rem ->]]]].
  { rewrite kfrom_sep. cbn. destruct rest; reflexivity. }
  assert (NS : str_eqb (HYPHEN :: c :: rem) SEP = false).
  { destruct (str_eqb (HYPHEN :: c :: rem) SEP) eqn:X; [|reflexivity].
    apply str_eqb_eq in X. inversion X; subst. discriminate S. }
  rewrite NS. rewrite kfrom_option_arg by assumption. cbn [skipn].
  destruct (lv_cluster (HYPHEN :: c :: rem)) eqn:LV.
  - (* -l, -v, ... *)
    cbn [lv_cluster] in LV. rewrite N.eqb_refl in LV. cbn [andb] in LV.
    destruct (kchars_lv t (HYPHEN :: c :: rem) (c :: rem) (c :: rem) st0 LV) as [st' [K [Or [Sg [Fl V]]]]].
    rewrite K. cbn [kcont]. rewrite kfrom_print; [|rewrite Or; reflexivity | apply Fl; right; discriminate].
    rewrite V. cbn [print_mode]. cbn [lv_cluster]. rewrite N.eqb_refl. cbn [andb]. rewrite LV.
    rewrite existsb_v_field. reflexivity.
  - cbn [lv_cluster] in LV. rewrite N.eqb_refl in LV. cbn [andb] in LV.
    cbn [kchars]. unfold sig_of_field. rewrite N.eqb_refl. cbn [negb].
    destruct (N.eqb c CH_s || N.eqb c CH_n) eqn:SN.
    + (* -s / -n *)
      destruct rem as [|r0 rem'].
      * assert (X : str_eqb [HYPHEN; c] [HYPHEN; CH_s] || str_eqb [HYPHEN; c] [HYPHEN; CH_n] = true).
        { apply orb_true_iff in SN. destruct SN as [X|X]; apply N.eqb_eq in X; subst; reflexivity. }
        rewrite X. cbn [kcont]. destruct rest as [|a rest']; [reflexivity|].
        unfold set_signal. cbn [ks_origin st0]. destruct (parse_signal t a) as [sg|]; [|reflexivity].
        rewrite (kfrom_after_signal t _ a rest') by reflexivity. reflexivity.
      * assert (X : str_eqb (HYPHEN :: c :: r0 :: rem') [HYPHEN; CH_s]
                    || str_eqb (HYPHEN :: c :: r0 :: rem') [HYPHEN; CH_n] = false).
        { cbn. rewrite !andb_false_r. reflexivity. }
        rewrite X. unfold set_signal. cbn [ks_origin st0].
        destruct (orelse (parse_signal t (r0 :: rem')) (parse_signal t (c :: r0 :: rem'))) as [sg|]; cbn [of_set kcont].
        -- rewrite (kfrom_after_signal t _ (HYPHEN :: c :: r0 :: rem') rest) by reflexivity. reflexivity.
        -- reflexivity.
    + assert (X : str_eqb (HYPHEN :: c :: rem) [HYPHEN; CH_s] || str_eqb (HYPHEN :: c :: rem) [HYPHEN; CH_n] = false).
      { apply orb_false_iff in SN. destruct SN as [A B]. cbn. rewrite A, B. cbn. reflexivity. }
      rewrite X.
      destruct (is_lv c) eqn:LC.
      * (* the letter is l or v but the cluster is not made of them: outside
           the known class the cluster is no signal, and the vector is rejected *)
        assert (PN : parse_signal t (c :: rem) = None).
        { cbn [known_lv] in NK. rewrite N.eqb_refl, LC, LV in NK. cbn in NK.
          destruct (parse_signal t (c :: rem)); [discriminate | reflexivity]. }
        rewrite PN.
        assert (A : forallb is_lv rem = false).
        { cbn [forallb] in LV. rewrite LC in LV. exact LV. }
        unfold is_lv in LC. apply orb_true_iff in LC. destruct LC as [LC|LC]; apply N.eqb_eq in LC; subst c.
        -- cbn [N.eqb]. rewrite N.eqb_refl.
           apply (kcont_flagged_nonlv t (HYPHEN :: CH_l :: rem) rest rem _ A); [reflexivity | left; cbn; discriminate].
        -- assert (NL : N.eqb CH_v CH_l = false) by reflexivity. rewrite NL, N.eqb_refl.
           apply (kcont_flagged_nonlv t (HYPHEN :: CH_v :: rem) rest rem _ A); [reflexivity | right; cbn; discriminate].
      * unfold is_lv in LC. apply orb_false_iff in LC. destruct LC as [A B]. rewrite A, B.
        unfold set_signal. cbn [ks_origin st0].
        destruct (parse_signal t (c :: rem)) as [sg|]; cbn [kcont].
        -- rewrite (kfrom_after_signal t _ (HYPHEN :: c :: rem) rest) by reflexivity. reflexivity.
        -- reflexivity.
Qed.

(* ---- corollaries ------------------------------------------------------------------------ *)

Lemma kill_equivalent_spellings t term a b :
  known_lv t a = false -> known_lv t b = false -> kref t term a = kref t term b ->
  kcanon (kparse t term a) = kcanon (kparse t term b).
Proof. intros A B E. rewrite !kparse_kref by assumption. exact E. Qed.

(* the class of the open finding is not empty: a documented spelling that the
   parser rejects *)
Lemma kill_lv_refuted :
  exists t term args c, known_lv t args = true /\ kref t term args = Some c
                        /\ kcanon (kparse t term args) = None.
Proof.
  exists [([86; 84; 65; 76; 82; 77]%N, 26%Z)], 15%Z,
         [[45; 118; 116; 97; 108; 114; 109]%N; [49]%N], (CSend 26 [[49]%N]).
  vm_compute. auto.
Qed.

(* an argument that looks like an option and is neither one nor a signal is
   rejected (no command, hence no signal sent): `--foo`, `-x`, ... *)
Lemma kill_unknown_option_rejected t term c rem rest :
  is_lv c = false -> N.eqb c CH_s || N.eqb c CH_n = false ->
  c :: rem <> [HYPHEN] -> parse_signal t (c :: rem) = None ->
  kparse t term ((HYPHEN :: c :: rem) :: rest) = KErr (KUnknownOption (HYPHEN :: c :: rem)).
Proof.
  intros LV SN NS PN. unfold kparse.
  assert (S : str_eqb (skipn 1 (HYPHEN :: c :: rem)) [HYPHEN] = false).
  { cbn [skipn]. destruct (str_eqb (c :: rem) [HYPHEN]) eqn:X; [|reflexivity]. apply str_eqb_eq in X. contradiction. }
  rewrite kfrom_option_arg by (auto; reflexivity). cbn [skipn kchars]. rewrite SN.
  unfold is_lv in LV. apply orb_false_iff in LV. destruct LV as [A B]. rewrite A, B.
  unfold set_signal. rewrite PN. reflexivity.
Qed.

(* -s SIGNAL = -sSIGNAL, and = -SIGNAL when the name does not start with s or n
   (documented grammar) *)
Lemma kref_attached t term c a rest :
  N.eqb c CH_s || N.eqb c CH_n = true -> a <> [] -> parse_signal t a <> None ->
  kref t term ([HYPHEN; c] :: a :: rest) = kref t term ((HYPHEN :: c :: a) :: rest).
Proof.
  intros SN NE PS. destruct a as [|a0 a']; [congruence|].
  assert (C : c = CH_s \/ c = CH_n).
  { apply orb_true_iff in SN. destruct SN as [X|X]; apply N.eqb_eq in X; auto. }
  destruct (parse_signal t (a0 :: a')) as [sg|] eqn:P; [|congruence].
  destruct C as [->| ->]; cbn [kref is_option_arg]; rewrite ?N.eqb_refl; cbn [negb orb];
    cbn; rewrite ?andb_false_r; cbn; unfold sig_of_field; cbn; rewrite P; reflexivity.
Qed.
