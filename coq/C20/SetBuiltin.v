(* C20 — the set built-in's own argument parser: MODEL of
   yash-builtin/src/set/syntax.rs (`try_parse_short`, `try_parse_long`,
   `parse`) with the `portable` option off and staying off.

   External components (yash_env::option): `parse_short`, and
   `parse_long . canonicalize`, given as finite tables for the letters and
   names that occur; a letter or name outside the tables is outside the
   model's domain ([SOutside]).  An option is identified by its name. *)
From Yv Require Import Common.Base C20.Model C20.Spec.

Definition CH_o : N := 111.
Definition PLUSC : N := 43.

Definition sign_char (negate : bool) : N := if negate then PLUSC else HYPHEN.

Inductive lres :=
| LOk (opt : str) (state : bool) (modifiable : bool)
| LNoSuch
| LAmbiguous.

(* letter -> what parse_short returns (with is_modifiable) *)
Definition short_table : Type := list (N * option (str * bool * bool)).
(* name as written -> what parse_long (canonicalize name) returns *)
Definition long_table : Type := list (str * lres).

Fixpoint lookup_short (c : N) (t : short_table) : option (option (str * bool * bool)) :=
  match t with
  | [] => None
  | (k, v) :: t' => if N.eqb k c then Some v else lookup_short c t'
  end.

Fixpoint lookup_long (n : str) (t : long_table) : option lres :=
  match t with
  | [] => None
  | (k, v) :: t' => if str_eqb k n then Some v else lookup_long n t'
  end.

Inductive serr :=
| SUnknownShort (c : N) (f : str)
| SUnknownLong (f : str)
| SAmbiguousLong (f : str)
| SMissingArg (f : str)
| SUnmodShort (c : N) (f : str)
| SUnmodLong (f : str).

Definition occurrence : Type := str * bool.     (* option, new state *)

Inductive sres :=
| SPrintVariables
| SPrintHuman
| SPrintMachine
| SModify (options : list occurrence) (positional : option (list str))
| SErr (e : serr)
| SOutside.                                      (* a table has no entry *)

(* outcome of one short-option field *)
Inductive sstep :=
| StErr (e : serr)
| StOutside
| StDone (os : list occurrence)
| StNeed (os : list occurrence).                (* `o` came last: the name is the next field *)

Definition st_cons (o : occurrence) (r : sstep) : sstep :=
  match r with
  | StDone os => StDone (o :: os)
  | StNeed os => StNeed (o :: os)
  | other => other
  end.

(* the name after -o / +o, found in [field] *)
Definition long_name (lt : long_table) (negate : bool) (name field : str) : sstep :=
  match lookup_long name lt with
  | None => StOutside
  | Some (LOk opt st true) => StDone [(opt, if negate then negb st else st)]
  | Some (LOk _ _ false) => StErr (SUnmodLong field)
  | Some LNoSuch => StErr (SUnknownLong field)
  | Some LAmbiguous => StErr (SAmbiguousLong field)
  end.

Fixpoint schars (sht : short_table) (lt : long_table) (negate : bool) (field : str) (cs : str) : sstep :=
  match cs with
  | [] => StDone []
  | c :: rem =>
      if N.eqb c CH_o then
        match rem with
        | [] => StNeed []
        | _ :: _ => long_name lt negate rem field
        end
      else
        match lookup_short c sht with
        | None => StOutside
        | Some (Some (opt, st, true)) =>
            st_cons (opt, if negate then negb st else st) (schars sht lt negate field rem)
        | Some (Some (_, _, false)) => StErr (SUnmodShort c field)
        | Some None => StErr (SUnknownShort c field)
        end
  end.

(* try_parse_short's test; the sign *)
Definition short_sign (f : str) : option bool :=
  match f with
  | c0 :: c1 :: _ =>
      if N.eqb c0 HYPHEN then (if N.eqb c1 HYPHEN then None else Some false)
      else if N.eqb c0 PLUSC then (if N.eqb c1 PLUSC then None else Some true)
      else None
  | _ => None
  end.

(* try_parse_long's test: the name and the sign *)
Definition long_sign (f : str) : option (str * bool) :=
  match f with
  | c0 :: c1 :: name =>
      if N.eqb c0 HYPHEN && N.eqb c1 HYPHEN then
        match name with [] => None | _ :: _ => Some (name, false) end
      else if N.eqb c0 PLUSC && N.eqb c1 PLUSC then Some (name, true)
      else None
  | _ => None
  end.

Definition sprepend (os : list occurrence) (r : sres) : sres :=
  match r with
  | SModify os' p => SModify (os ++ os') p
  | other => other
  end.

Definition sfinish (args : list str) : sres :=
  match args with
  | [] => SModify [] None
  | f :: rest =>
      if str_eqb f SEP || str_eqb f [HYPHEN] then SModify [] (Some rest)
      else SModify [] (Some args)
  end.

Fixpoint sloop (sht : short_table) (lt : long_table) (args : list str) : sres :=
  match args with
  | [] => sfinish []
  | f :: rest =>
      match short_sign f with
      | Some negate =>
          match schars sht lt negate f (skipn 1 f) with
          | StErr e => SErr e
          | StOutside => SOutside
          | StDone os => sprepend os (sloop sht lt rest)
          | StNeed os =>
              match rest with
              | [] => SErr (SMissingArg f)
              | a :: rest' =>
                  match long_name lt negate a a with
                  | StDone o => sprepend (os ++ o) (sloop sht lt rest')
                  | StErr e => SErr e
                  | _ => SOutside
                  end
              end
          end
      | None =>
          match long_sign f with
          | Some (name, negate) =>
              match long_name lt negate name f with
              | StDone o => sprepend o (sloop sht lt rest)
              | StErr e => SErr e
              | _ => SOutside
              end
          | None => sfinish args
          end
      end
  end.

(* syntax::parse (portable off) *)
Definition sparse (sht : short_table) (lt : long_table) (args : list str) : sres :=
  match args with
  | [] => SPrintVariables
  | [f] => if str_eqb f [HYPHEN; CH_o] then SPrintHuman
           else if str_eqb f [PLUSC; CH_o] then SPrintMachine
           else sloop sht lt args
  | _ => sloop sht lt args
  end.

(* ---- equality tests ------------------------------------------------------------------ *)

Definition occ2_eqb (a b : occurrence) : bool := str_eqb (fst a) (fst b) && Bool.eqb (snd a) (snd b).

Definition serr_eqb (a b : serr) : bool :=
  match a, b with
  | SUnknownShort c f, SUnknownShort c' f' => N.eqb c c' && str_eqb f f'
  | SUnknownLong f, SUnknownLong f' => str_eqb f f'
  | SAmbiguousLong f, SAmbiguousLong f' => str_eqb f f'
  | SMissingArg f, SMissingArg f' => str_eqb f f'
  | SUnmodShort c f, SUnmodShort c' f' => N.eqb c c' && str_eqb f f'
  | SUnmodLong f, SUnmodLong f' => str_eqb f f'
  | _, _ => false
  end.

Definition sres_eqb (a b : sres) : bool :=
  match a, b with
  | SPrintVariables, SPrintVariables | SPrintHuman, SPrintHuman | SPrintMachine, SPrintMachine => true
  | SModify o p, SModify o' p' => list_eqb occ2_eqb o o' && option_eqb (list_eqb str_eqb) p p'
  | SErr e, SErr e' => serr_eqb e e'
  | _, _ => false
  end.

(* ORACLE for a group of spellings of one invocation: every result is the
   invocation (options in order with their new states, positional parameters) *)
Definition is_invocation (os : list occurrence) (p : option (list str)) (r : sres) : bool :=
  sres_eqb r (SModify os p).
