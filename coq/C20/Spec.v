(* C20 — SPEC: the utility syntax guidelines (plus the documented long-option
   extensions) as a *grammar of spellings*.

   An abstract invocation is a list of options (index of the option in the
   built-in's table, option-argument) and a list of operands.  [Spells specs m
   os ops args] says that the argument vector [args] is one way of writing
   that invocation:

     - several argument-less short options may be grouped behind one hyphen,
       the last option of a group may take an argument;
     - an option-argument is either the rest of the field or the next field;
     - a long option is written with any prefix of its name that designates
       it (the full name, or a proper prefix shared with no other long
       option), its argument follows `=` or is the next field;
     - `--` ends the options; without it the options end at the first field
       that is `-` or does not start with `-`.

   Nothing here looks at how the parser walks the vector; names are resolved
   by the declarative relations [FirstShort] and [Resolves].  The property is
   then: the parser returns (os, ops) exactly for the spellings of (os, ops)
   (hence equivalent spellings give identical results), and rejects exactly
   the vectors described by [Malformed].

   The second half of the file is the boolean form, the ORACLE, evaluated at
   run time on what the implementation returned. *)
From Yv Require Import Common.Base C20.Model.

(* ---- what a result means, independently of its spelling ----------------- *)

Definition cocc : Type := nat * option str.      (* spec index, option-argument *)

Definition canon_occ (o : occ) : cocc := (o_spec o, option_map fst (o_arg o)).

Definition canon (r : result) : option (list cocc * list str) :=
  match r with
  | Ok os ops => Some (map canon_occ os, ops)
  | Err _ => None
  end.

Definition SEP : str := [HYPHEN; HYPHEN].

Definition opt_list {A} (o : option A) : list A :=
  match o with Some a => [a] | None => [] end.

(* ---- resolving names ------------------------------------------------------ *)

Definition Prefix (p s : str) : Prop := exists t, s = p ++ t.

(* [c] designates the first option of the table whose short name is [c] *)
Definition FirstShort (specs : list ospec) (c : N) (i : nat) (s : ospec) : Prop :=
  nth_error specs i = Some s /\ sp_short s = Some c /\
  forall j s', (j < i)%nat -> nth_error specs j = Some s' -> sp_short s' <> Some c.

Definition NoShort (specs : list ospec) (c : N) : Prop :=
  forall s, In s specs -> sp_short s <> Some c.

Definition HasLong (specs : list ospec) (j : nat) (l : str) : Prop :=
  exists s, nth_error specs j = Some s /\ sp_long s = Some l.

(* [name] designates option [i]: it is its full long name (the first such
   option if the table repeats a name), or nobody's full name and a prefix
   of the long name of option [i] only *)
Definition Resolves (specs : list ospec) (name : str) (i : nat) (s : ospec) : Prop :=
  nth_error specs i = Some s /\
  ( (sp_long s = Some name /\ forall j, (j < i)%nat -> ~ HasLong specs j name)
    \/
    ((exists l, sp_long s = Some l /\ Prefix name l) /\
     (forall j, ~ HasLong specs j name) /\
     (forall j l, HasLong specs j l -> Prefix name l -> j = i)) ).

Definition NoLongPrefix (specs : list ospec) (name : str) : Prop :=
  forall j l, HasLong specs j l -> ~ Prefix name l.

Definition Ambiguous (specs : list ospec) (name : str) : Prop :=
  (forall j, ~ HasLong specs j name) /\
  exists j1 j2 l1 l2, j1 <> j2 /\ HasLong specs j1 l1 /\ HasLong specs j2 l2 /\
                      Prefix name l1 /\ Prefix name l2.

(* what the mode (the `portable` shell option) lets through *)
Definition ShortAllowed (m : mode) (s : ospec) : Prop :=
  sp_ext s = true -> m_ext m = true.
Definition LongAllowed (m : mode) (s : ospec) : Prop :=
  m_long m = true /\ (sp_ext s = true -> m_ext m = true).

(* ---- the grammar ------------------------------------------------------------ *)

(* the characters after the hyphen of a group; [extra] is the following field
   when the last option takes it as its argument *)
Inductive Shorts (specs : list ospec) (m : mode) : str -> option str -> list cocc -> Prop :=
| Sh_nil : Shorts specs m [] None []
| Sh_flag : forall c i s cs extra os,
    FirstShort specs c i s -> sp_arg s = false -> ShortAllowed m s ->
    Shorts specs m cs extra os ->
    Shorts specs m (c :: cs) extra ((i, None) :: os)
| Sh_attached : forall c i s a,
    FirstShort specs c i s -> sp_arg s = true -> ShortAllowed m s ->
    a <> [] -> m_same m = true ->
    Shorts specs m (c :: a) None [(i, Some a)]
| Sh_next : forall c i s a,
    FirstShort specs c i s -> sp_arg s = true -> ShortAllowed m s ->
    Shorts specs m [c] (Some a) [(i, Some a)].

(* one option field, possibly with the following field as its argument *)
Inductive OptField (specs : list ospec) (m : mode) : str -> option str -> list cocc -> Prop :=
| OF_short : forall c cs extra os,
    c <> HYPHEN -> Shorts specs m (c :: cs) extra os ->
    OptField specs m (HYPHEN :: c :: cs) extra os
| OF_long_flag : forall name i s,
    name <> [] -> ~ In EQUAL name ->
    Resolves specs name i s -> sp_arg s = false -> LongAllowed m s ->
    OptField specs m (HYPHEN :: HYPHEN :: name) None [(i, None)]
| OF_long_eq : forall name a i s,
    ~ In EQUAL name ->
    Resolves specs name i s -> sp_arg s = true -> LongAllowed m s ->
    OptField specs m (HYPHEN :: HYPHEN :: name ++ EQUAL :: a) None [(i, Some a)]
| OF_long_next : forall name a i s,
    name <> [] -> ~ In EQUAL name ->
    Resolves specs name i s -> sp_arg s = true -> LongAllowed m s ->
    OptField specs m (HYPHEN :: HYPHEN :: name) (Some a) [(i, Some a)].

(* a field that starts with a hyphen and has at least one more character *)
Definition OptionLike (f : str) : Prop := exists c t, f = HYPHEN :: c :: t.

(* the operands can follow the options without `--` *)
Definition PlainStart (ops : list str) : Prop :=
  ops = [] \/ exists f t, ops = f :: t /\ ~ OptionLike f.

Inductive Spells (specs : list ospec) (m : mode) : list cocc -> list str -> list str -> Prop :=
| Sp_plain : forall ops, PlainStart ops -> Spells specs m [] ops ops
| Sp_sep : forall ops, Spells specs m [] ops (SEP :: ops)
| Sp_opt : forall f extra os os' ops rest,
    OptField specs m f extra os -> Spells specs m os' ops rest ->
    Spells specs m (os ++ os') ops (f :: opt_list extra ++ rest).

(* complete option fields in front of something *)
Inductive OptPrefix (specs : list ospec) (m : mode) : list str -> list cocc -> Prop :=
| OP_nil : OptPrefix specs m [] []
| OP_cons : forall f extra os pre os',
    OptField specs m f extra os -> OptPrefix specs m pre os' ->
    OptPrefix specs m (f :: opt_list extra ++ pre) (os ++ os').

(* ---- the guidelines as rewrite rules ------------------------------------------ *)

(* One rewriting step at the place where the next option is expected; the rest
   of the vector is arbitrary.  Left: one spelling, right: an equivalent one. *)
Inductive Rewrite (specs : list ospec) (m : mode) : list str -> list str -> Prop :=
(* -xy...  =  -x -y...   (guideline 5: grouping) *)
| RW_group : forall c i s c' cs rest,
    FirstShort specs c i s -> sp_arg s = false -> ShortAllowed m s ->
    c <> HYPHEN -> c' <> HYPHEN ->
    Rewrite specs m ((HYPHEN :: c :: c' :: cs) :: rest)
                    ([HYPHEN; c] :: (HYPHEN :: c' :: cs) :: rest)
(* -oARG  =  -o ARG   (guideline 6, and the same-field extension) *)
| RW_attach : forall c i s a rest,
    FirstShort specs c i s -> sp_arg s = true -> m_same m = true ->
    c <> HYPHEN -> a <> [] ->
    Rewrite specs m ((HYPHEN :: c :: a) :: rest) ([HYPHEN; c] :: a :: rest)
(* --name=ARG  =  --name ARG *)
| RW_equal : forall name i s a rest,
    Resolves specs name i s -> sp_arg s = true -> name <> [] -> ~ In EQUAL name ->
    Rewrite specs m ((HYPHEN :: HYPHEN :: name ++ EQUAL :: a) :: rest)
                    ((HYPHEN :: HYPHEN :: name) :: a :: rest)
(* --p  =  --q   when both names designate the same option (abbreviation) *)
| RW_abbrev : forall p q i s rest,
    Resolves specs p i s -> Resolves specs q i s ->
    p <> [] -> q <> [] -> ~ In EQUAL p -> ~ In EQUAL q ->
    Rewrite specs m ((HYPHEN :: HYPHEN :: p) :: rest) ((HYPHEN :: HYPHEN :: q) :: rest)
| RW_abbrev_equal : forall p q i s a rest,
    Resolves specs p i s -> Resolves specs q i s -> ~ In EQUAL p -> ~ In EQUAL q ->
    Rewrite specs m ((HYPHEN :: HYPHEN :: p ++ EQUAL :: a) :: rest)
                    ((HYPHEN :: HYPHEN :: q ++ EQUAL :: a) :: rest)
(* -x  =  --name   when both designate the same option *)
| RW_short_long : forall c name i s rest,
    FirstShort specs c i s -> Resolves specs name i s -> LongAllowed m s ->
    c <> HYPHEN -> name <> [] -> ~ In EQUAL name ->
    Rewrite specs m ([HYPHEN; c] :: rest) ((HYPHEN :: HYPHEN :: name) :: rest)
(* operands  =  -- operands   (guideline 10) *)
| RW_sep : forall ops,
    PlainStart ops -> Rewrite specs m ops (SEP :: ops).

(* the equivalence generated by rewriting behind complete option fields *)
Inductive Respell (specs : list ospec) (m : mode) : list str -> list str -> Prop :=
| RS_step : forall pre cos l r,
    OptPrefix specs m pre cos -> Rewrite specs m l r -> Respell specs m (pre ++ l) (pre ++ r)
| RS_refl : forall a, Respell specs m a a
| RS_sym : forall a b, Respell specs m a b -> Respell specs m b a
| RS_trans : forall a b c, Respell specs m a b -> Respell specs m b c -> Respell specs m a c.

(* ---- malformed vectors --------------------------------------------------------- *)

Inductive defect := DUnknown | DAmbiguous | DMissingArg | DUnexpectedArg | DNonPortable.

Definition class_of (e : perr) : defect :=
  match e with
  | UnknownShort _ _ | UnknownLong _ => DUnknown
  | AmbiguousLong _ _ => DAmbiguous
  | MissingArg _ _ => DMissingArg
  | UnexpectedArg _ _ => DUnexpectedArg
  | NonPortableShort _ _ _ | NonPortableLong _ _ | Unseparated _ _ => DNonPortable
  end.

(* every character is an argument-less short option the mode allows *)
Definition Flags (specs : list ospec) (m : mode) (cs : str) : Prop :=
  forall c, In c cs -> exists i s, FirstShort specs c i s /\ sp_arg s = false /\ ShortAllowed m s.

(* the field [f], followed by [rest], is an option field with the given defect *)
Inductive BadField (specs : list ospec) (m : mode) : str -> list str -> defect -> Prop :=
| BF_unknown_short : forall c0 cs pre c post rest,
    c0 <> HYPHEN -> c0 :: cs = pre ++ c :: post -> Flags specs m pre ->
    NoShort specs c ->
    BadField specs m (HYPHEN :: c0 :: cs) rest DUnknown
| BF_nonportable_short : forall c0 cs pre c post rest i s,
    c0 <> HYPHEN -> c0 :: cs = pre ++ c :: post -> Flags specs m pre ->
    FirstShort specs c i s -> ~ ShortAllowed m s ->
    BadField specs m (HYPHEN :: c0 :: cs) rest DNonPortable
| BF_unseparated : forall c0 cs pre c post rest i s,
    c0 <> HYPHEN -> c0 :: cs = pre ++ c :: post -> Flags specs m pre ->
    FirstShort specs c i s -> ShortAllowed m s -> sp_arg s = true ->
    post <> [] -> m_same m = false ->
    BadField specs m (HYPHEN :: c0 :: cs) rest DNonPortable
| BF_missing_short : forall c0 cs pre c i s,
    c0 <> HYPHEN -> c0 :: cs = pre ++ [c] -> Flags specs m pre ->
    FirstShort specs c i s -> ShortAllowed m s -> sp_arg s = true ->
    BadField specs m (HYPHEN :: c0 :: cs) [] DMissingArg
| BF_unknown_long : forall body name oa rest,
    body <> [] -> split_eq body = (name, oa) -> NoLongPrefix specs name ->
    BadField specs m (HYPHEN :: HYPHEN :: body) rest DUnknown
| BF_ambiguous : forall body name oa rest,
    body <> [] -> split_eq body = (name, oa) -> Ambiguous specs name ->
    BadField specs m (HYPHEN :: HYPHEN :: body) rest DAmbiguous
| BF_nonportable_long : forall body name oa rest i s,
    body <> [] -> split_eq body = (name, oa) -> Resolves specs name i s ->
    ~ LongAllowed m s ->
    BadField specs m (HYPHEN :: HYPHEN :: body) rest DNonPortable
| BF_unexpected : forall body name a rest i s,
    split_eq body = (name, Some a) -> Resolves specs name i s ->
    LongAllowed m s -> sp_arg s = false ->
    BadField specs m (HYPHEN :: HYPHEN :: body) rest DUnexpectedArg
| BF_missing_long : forall body name i s,
    body <> [] -> split_eq body = (name, None) -> Resolves specs name i s ->
    LongAllowed m s -> sp_arg s = true ->
    BadField specs m (HYPHEN :: HYPHEN :: body) [] DMissingArg.

(* complete option fields, then a defective one *)
Definition Malformed (specs : list ospec) (m : mode) (args : list str) (d : defect) : Prop :=
  exists pre os f rest,
    args = pre ++ f :: rest /\ OptPrefix specs m pre os /\ BadField specs m f rest d.

(* ======================================================================== *)
(* ORACLE: the boolean form, evaluated on the implementation's output.      *)
(* ======================================================================== *)

Definition short_is (c : N) (s : ospec) : bool := option_eqb N.eqb (sp_short s) (Some c).
Definition long_is (name : str) (s : ospec) : bool := option_eqb str_eqb (sp_long s) (Some name).
Definition long_has_prefix (name : str) (s : ospec) : bool :=
  match sp_long s with Some l => prefixb name l | None => false end.

(* indices of the table entries that satisfy [p] *)
Fixpoint indices_from (k : nat) (p : ospec -> bool) (specs : list ospec) : list nat :=
  match specs with
  | [] => []
  | s :: t => if p s then k :: indices_from (S k) p t else indices_from (S k) p t
  end.
Definition indices := indices_from 0.

Definition first_short_b (specs : list ospec) (c : N) (i : nat) : bool :=
  match nth_error specs i with
  | Some s => short_is c s && negb (existsb (short_is c) (firstn i specs))
  | None => false
  end.

Definition resolves_b (specs : list ospec) (name : str) (i : nat) : bool :=
  match indices (long_is name) specs with
  | j :: _ => Nat.eqb i j
  | [] => list_eqb Nat.eqb (indices (long_has_prefix name) specs) [i]
  end.

Definition short_allowed_b (m : mode) (s : ospec) : bool := negb (sp_ext s) || m_ext m.
Definition long_allowed_b (m : mode) (s : ospec) : bool := m_long m && (negb (sp_ext s) || m_ext m).

Definition optionlike_b (f : str) : bool :=
  match f with c0 :: _ :: _ => N.eqb c0 HYPHEN | _ => false end.

(* Checking a reported reading against the vector.  The walkers are guided by
   the reported options: they return what is left of them and whether the
   following field was used as an option-argument. *)
Fixpoint shorts_w (specs : list ospec) (m : mode) (cs : str) (os : list cocc) (next : option str)
  : option (list cocc * bool) :=
  match cs with
  | [] => Some (os, false)
  | c :: cs' =>
      match os with
      | [] => None
      | (i, oa) :: os' =>
          let s := spec_at specs i in
          if first_short_b specs c i && short_allowed_b m s then
            match oa with
            | None => if sp_arg s then None else shorts_w specs m cs' os' next
            | Some a =>
                if sp_arg s then
                  match cs' with
                  | [] => match next with
                          | Some n => if str_eqb n a then Some (os', true) else None
                          | None => None
                          end
                  | _ :: _ => if m_same m && str_eqb a cs' then Some (os', false) else None
                  end
                else None
            end
          else None
      end
  end.

Definition long_w (specs : list ospec) (m : mode) (body : str) (os : list cocc) (next : option str)
  : option (list cocc * bool) :=
  let (name, oeq) := split_eq body in
  match os with
  | [] => None
  | (i, oa) :: os' =>
      let s := spec_at specs i in
      if resolves_b specs name i && long_allowed_b m s then
        match sp_arg s, oeq, oa with
        | false, None, None => Some (os', false)
        | true, Some a, Some a' => if str_eqb a a' then Some (os', false) else None
        | true, None, Some a' =>
            match next with
            | Some n => if str_eqb n a' then Some (os', true) else None
            | None => None
            end
        | _, _, _ => None
        end
      else None
  end.

Definition field_w (specs : list ospec) (m : mode) (f : str) (os : list cocc) (next : option str)
  : option (list cocc * bool) :=
  match f with
  | c0 :: c1 :: t =>
      if N.eqb c0 HYPHEN then
        if N.eqb c1 HYPHEN then
          match t with
          | [] => None
          | _ :: _ => long_w specs m t os next
          end
        else shorts_w specs m (c1 :: t) os next
      else None
  | _ => None
  end.

(* [spells_b specs m os ops args]: is [args] a spelling of (os, ops)? *)
Fixpoint spells_b (specs : list ospec) (m : mode) (os : list cocc) (ops : list str)
    (args : list str) : bool :=
  match args with
  | [] => match os, ops with [], [] => true | _, _ => false end
  | f :: rest =>
      match os with
      | [] =>
          (str_eqb f SEP && list_eqb str_eqb ops rest)
          || (negb (optionlike_b f) && list_eqb str_eqb ops (f :: rest))
      | _ :: _ =>
          match rest with
          | [] =>
              match field_w specs m f os None with
              | Some (os', false) => match os', ops with [], [] => true | _, _ => false end
              | _ => false
              end
          | a :: rest' =>
              match field_w specs m f os (Some a) with
              | Some (os', false) => spells_b specs m os' ops rest
              | Some (os', true) => spells_b specs m os' ops rest'
              | None => false
              end
          end
      end
  end.

(* ---- justification of a rejection ------------------------------------------------ *)

Definition is_flag_b (specs : list ospec) (m : mode) (c : N) : bool :=
  match find (short_is c) specs with
  | Some s => negb (sp_arg s) && short_allowed_b m s
  | None => false
  end.

(* leading argument-less options of a group, and the rest *)
Fixpoint span_flags (specs : list ospec) (m : mode) (cs : str) : str * str :=
  match cs with
  | [] => ([], [])
  | c :: cs' =>
      if is_flag_b specs m c then let (a, b) := span_flags specs m cs' in (c :: a, b)
      else ([], cs)
  end.

(* Is [f] (followed by [next]) a complete, valid option field?  Returns
   whether it uses the following field. *)
Definition good_field_b (specs : list ospec) (m : mode) (f : str) (next : option str)
  : option bool :=
  match f with
  | c0 :: c1 :: t =>
      if negb (N.eqb c0 HYPHEN) then None
      else if negb (N.eqb c1 HYPHEN) then
        match snd (span_flags specs m (c1 :: t)) with
        | [] => Some false
        | c :: post =>
            match find (short_is c) specs with
            | Some s =>
                if sp_arg s && short_allowed_b m s then
                  match post with
                  | [] => match next with Some _ => Some true | None => None end
                  | _ :: _ => if m_same m then Some false else None
                  end
                else None
            | None => None
            end
        end
      else
        match t with
        | [] => None
        | _ :: _ =>
            let (name, oeq) := split_eq t in
            let cands :=
              match indices (long_is name) specs with
              | j :: _ => [j]
              | [] => indices (long_has_prefix name) specs
              end in
            match cands with
            | [i] =>
                let s := spec_at specs i in
                if long_allowed_b m s then
                  match sp_arg s, oeq with
                  | false, None => Some false
                  | true, Some _ => Some false
                  | true, None => match next with Some _ => Some true | None => None end
                  | false, Some _ => None
                  end
                else None
            | _ => None
            end
        end
  | _ => None
  end.

(* skip the complete option fields; what remains *)
Fixpoint skip_options (specs : list ospec) (m : mode) (args : list str) : list str :=
  match args with
  | [] => []
  | f :: rest =>
      match rest with
      | [] =>
          match good_field_b specs m f None with
          | Some false => []
          | _ => args
          end
      | a :: rest' =>
          match good_field_b specs m f (Some a) with
          | Some false => skip_options specs m rest
          | Some true => skip_options specs m rest'
          | None => args
          end
      end
  end.

Definition err_field (e : perr) : str :=
  match e with
  | UnknownShort _ f | UnknownLong f | NonPortableShort _ f _ | NonPortableLong f _
  | AmbiguousLong f _ | MissingArg f _ | Unseparated f _ | UnexpectedArg f _ => f
  end.

(* the first character of the group that is not an allowed flag, and what follows it *)
Definition short_culprit (specs : list ospec) (m : mode) (f : str) : option (N * str) :=
  if is_short_field f then
    match snd (span_flags specs m (skipn 1 f)) with
    | c :: post => Some (c, post)
    | [] => None
    end
  else None.

Definition long_parts (f : str) : option (str * option str) :=
  if is_long_field f then Some (split_eq (skipn 2 f)) else None.

(* is the reported error the defect of field [f] followed by [rest]? *)
Definition justified_b (specs : list ospec) (m : mode) (f : str) (rest : list str) (e : perr) : bool :=
  match e with
  | UnknownShort c _ =>
      match short_culprit specs m f with
      | Some (c', _) => N.eqb c c' && negb (existsb (short_is c) specs)
      | None => false
      end
  | NonPortableShort c _ i =>
      match short_culprit specs m f with
      | Some (c', _) => N.eqb c c' && first_short_b specs c i
                        && negb (short_allowed_b m (spec_at specs i))
      | None => false
      end
  | Unseparated _ i =>
      match short_culprit specs m f with
      | Some (c, _ :: _) => first_short_b specs c i && short_allowed_b m (spec_at specs i)
                            && sp_arg (spec_at specs i) && negb (m_same m)
      | _ => false
      end
  | MissingArg _ i =>
      match rest with
      | _ :: _ => false
      | [] =>
          match short_culprit specs m f, long_parts f with
          | Some (c, []), _ => first_short_b specs c i && short_allowed_b m (spec_at specs i)
                               && sp_arg (spec_at specs i)
          | _, Some (name, None) => resolves_b specs name i && long_allowed_b m (spec_at specs i)
                                    && sp_arg (spec_at specs i)
          | _, _ => false
          end
      end
  | UnknownLong _ =>
      match long_parts f with
      | Some (name, _) => negb (existsb (long_has_prefix name) specs)
      | None => false
      end
  | AmbiguousLong _ l =>
      match long_parts f with
      | Some (name, _) => negb (existsb (long_is name) specs)
                          && list_eqb Nat.eqb l (indices (long_has_prefix name) specs)
                          && (2 <=? length l)%nat
      | None => false
      end
  | NonPortableLong _ i =>
      match long_parts f with
      | Some (name, _) => resolves_b specs name i && negb (long_allowed_b m (spec_at specs i))
      | None => false
      end
  | UnexpectedArg _ i =>
      match long_parts f with
      | Some (name, Some _) => resolves_b specs name i && long_allowed_b m (spec_at specs i)
                               && negb (sp_arg (spec_at specs i))
      | _ => false
      end
  end.

(* [rejects_b specs m args e]: after the complete option fields of [args]
   comes the field named by [e], and it has the defect [e] reports *)
Definition rejects_b (specs : list ospec) (m : mode) (args : list str) (e : perr) : bool :=
  match skip_options specs m args with
  | f :: rest => str_eqb f (err_field e) && justified_b specs m f rest e
  | [] => false
  end.

(* the oracle on one result of the generic parser; [None] = accepted,
   [Some k] = clause k rejects *)
Definition oracle_parse (specs : list ospec) (m : mode) (args : list str) (r : result) : option N :=
  match r with
  | Ok os ops => if spells_b specs m (map canon_occ os) ops args then None else Some 0%N
  | Err e => if rejects_b specs m args e then None else Some 1%N
  end.
