(* C20 — the option tables of the real built-ins (generated from the source by
   translator/c20_builtin_specs.py into Gen/Gen_BuiltinSpecs.v) and what
   "unambiguous" means for a table. *)
From Yv Require Import Common.Base C20.Model C20.Spec.
From Yv Require Export Gen.Gen_BuiltinSpecs.

(* entry [i] of the table is designated by its own names: its short name
   designates it (no earlier entry has the same one) and is not a hyphen, its
   long name designates it (no other entry has the same one), is not empty
   and contains no `=`; and it has a name *)
Definition entry_ok (t : list ospec) (i : nat) (s : ospec) : bool :=
  match sp_short s with
  | Some c => first_short_b t c i && negb (N.eqb c HYPHEN)
  | None => true
  end
  && match sp_long s with
     | Some l => resolves_b t l i && negb (existsb (N.eqb EQUAL) l)
                 && match l with [] => false | _ :: _ => true end
     | None => true
     end
  && match sp_short s, sp_long s with None, None => false | _, _ => true end.

Fixpoint entries_ok_from (t : list ospec) (i : nat) (l : list ospec) : bool :=
  match l with
  | [] => true
  | s :: l' => entry_ok t i s && entries_ok_from t (S i) l'
  end.

Definition table_ok (t : list ospec) : bool := entries_ok_from t 0 t.

Fixpoint lookup_table (name : str) (l : list (str * list ospec)) : option (list ospec) :=
  match l with
  | [] => None
  | (n, t) :: l' => if str_eqb n name then Some t else lookup_table name l'
  end.

Definition ospec_eqb (a b : ospec) : bool :=
  option_eqb N.eqb (sp_short a) (sp_short b) && option_eqb str_eqb (sp_long a) (sp_long b)
  && Bool.eqb (sp_arg a) (sp_arg b) && Bool.eqb (sp_ext a) (sp_ext b).

(* is [t] the table the source gives for the built-in [name]? *)
Definition is_source_table (name : str) (t : list ospec) : bool :=
  match lookup_table name builtin_tables with
  | Some t' => list_eqb ospec_eqb t' t
  | None => false
  end.
