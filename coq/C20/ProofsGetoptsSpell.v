(* C20 — proofs: the getopts loop against the grammar of spellings.  Every
   argument vector that spells an abstract invocation (for the table of the
   option string followed by the letters used as unknown options) makes the
   loop report exactly the expected ($name, $OPTARG) sequence, leave exactly
   the operands, and write to stderr exactly when expected. *)
From Yv Require Import Common.Base C20.Model C20.Spec C20.Getopts
  C20.ProofsNames C20.ProofsFields C20.ProofsMain C20.ProofsOracle C20.ProofsGetopts.

(* ---- the option string as a table ----------------------------------------- *)

Lemma gtable_known_no_colon raw : forall s, In s (gtable_known raw) -> sp_short s <> Some COLON.
Proof.
  induction raw as [|x r IH]; intros s I; [destruct I|]. cbn [gtable_known] in I.
  destruct (N.eqb_spec x COLON) as [->|NE]; [auto|].
  destruct I as [<-|I]; [cbn; congruence | auto].
Qed.

(* judge = looking the letter up in the table of the option string *)
Lemma judge_find_short raw c : forall k,
  c <> COLON ->
  match find_short_from k (gtable_known raw) c with
  | Some (_, s) => judge raw c = if sp_arg s then GTakesArg else GNoArg
  | None => judge raw c = GUnknown
  end.
Proof.
  intros k NC. unfold judge. apply N.eqb_neq in NC. rewrite NC. revert k.
  induction raw as [|x r IH]; intros k; cbn [gtable_known find_after find_short_from]; [reflexivity|].
  destruct (N.eqb_spec x COLON) as [->|NX].
  - rewrite N.eqb_sym, NC. apply IH.
  - cbn [find_short_from sp_short option_eqb]. destruct (N.eqb_spec x c) as [->|NE].
    + cbn [sp_arg]. destruct r as [|n r']; cbn; [reflexivity|]. destruct (N.eqb n COLON); reflexivity.
    + apply IH.
Qed.

Lemma find_short_from_app t1 t2 c : forall k,
  find_short_from k (t1 ++ t2) c =
  match find_short_from k t1 c with
  | Some r => Some r
  | None => find_short_from (k + length t1) t2 c
  end.
Proof.
  induction t1 as [|s t IH]; intros k; cbn [app find_short_from length].
  - rewrite Nat.add_0_r. reflexivity.
  - destruct (option_eqb N.eqb (sp_short s) (Some c)); [reflexivity|].
    rewrite IH. replace (S k + length t)%nat with (k + S (length t))%nat by lia. reflexivity.
Qed.

Lemma find_short_from_bounds t c : forall k i s,
  find_short_from k t c = Some (i, s) -> (k <= i < k + length t)%nat /\ sp_short s = Some c /\ In s t.
Proof.
  induction t as [|x t IH]; intros k i s E; cbn in E; [discriminate|].
  destruct (option_eqb N.eqb (sp_short x) (Some c)) eqn:X.
  - inversion E; subst. cbn. split; [lia|]. split; [|left; reflexivity].
    apply (option_eqb_spec N.eqb) in X; [exact X | intros; apply N.eqb_eq].
  - destruct (IH _ _ _ E) as [B [Sh I]]. cbn. split; [lia|]. split; [exact Sh | right; exact I].
Qed.

(* what the letter designated by entry [i] of the table is for getopts *)
Lemma first_short_judge raw unknown c i s :
  AllUnknown raw unknown ->
  FirstShort (gtable raw unknown) c i s ->
  ((i < length (gtable_known raw))%nat /\ judge raw c = (if sp_arg s then GTakesArg else GNoArg))
  \/ ((length (gtable_known raw) <= i)%nat /\ judge raw c = GUnknown /\ sp_arg s = false).
Proof.
  intros AU FS. apply find_short_some in FS. unfold find_short, gtable in FS.
  rewrite find_short_from_app in FS.
  destruct (N.eqb_spec c COLON) as [->|NC].
  - (* a colon is never a letter of the option string *)
    destruct (find_short_from 0 (gtable_known raw) COLON) as [[j s']|] eqn:F.
    + exfalso. destruct (find_short_from_bounds _ _ _ _ _ F) as [_ [Sh I]].
      exact (gtable_known_no_colon raw s' I Sh).
    + right. destruct (find_short_from_bounds _ _ _ _ _ FS) as [B [_ I]].
      apply in_map_iff in I. destruct I as [u [<- _]]. cbn. split; [lia|]. split; reflexivity.
  - pose proof (judge_find_short raw c 0 NC) as J.
    destruct (find_short_from 0 (gtable_known raw) c) as [[j s']|] eqn:F.
    + inversion FS; subst. left. destruct (find_short_from_bounds _ _ _ _ _ F) as [B _].
      split; [lia | exact J].
    + right. destruct (find_short_from_bounds _ _ _ _ _ FS) as [B [_ I]].
      apply in_map_iff in I. destruct I as [u [<- _]]. cbn. split; [lia|]. split; [exact J | reflexivity].
Qed.

(* ---- expected events of one option ------------------------------------------ *)

Lemma expected_event_known raw unknown c i s oa :
  FirstShort (gtable raw unknown) c i s -> (i < length (gtable_known raw))%nat ->
  expected_event raw unknown (i, oa) = ([c], oa).
Proof.
  intros FS L. unfold expected_event. cbn [fst snd].
  rewrite (first_short_at _ _ _ _ FS). destruct FS as [_ [Sh _]]. rewrite Sh.
  apply Nat.ltb_lt in L. rewrite L. reflexivity.
Qed.

Lemma expected_event_unknown raw unknown c i s oa :
  FirstShort (gtable raw unknown) c i s -> (length (gtable_known raw) <= i)%nat ->
  expected_event raw unknown (i, oa) =
  if starts_with_colon raw then ([QUESTION], Some [c]) else ([QUESTION], None).
Proof.
  intros FS L. unfold expected_event. cbn [fst snd].
  rewrite (first_short_at _ _ _ _ FS). destruct FS as [_ [Sh _]]. rewrite Sh.
  apply Nat.ltb_ge in L. rewrite L. reflexivity.
Qed.

(* ---- one group ------------------------------------------------------------------ *)

Definition chars_events (r : list gevent * bool * nat) : list cevent_t := map fst (fst (fst r)).

Lemma gchars_shorts raw unknown cs extra os :
  AllUnknown raw unknown ->
  Shorts (gtable raw unknown) gmode cs extra os -> cs <> [] ->
  forall ai ci rest,
  let r := gchars raw (starts_with_colon raw) ai ci cs (opt_list extra ++ rest) in
  chars_events r = map (expected_event raw unknown) os
  /\ snd (fst r) = (starts_with_colon raw || forallb (known_b raw) os)
  /\ snd r = (1 + length (opt_list extra))%nat.
Proof.
  intros AU Sh. induction Sh as [|c i s cs extra os FS Ar Al Sh IH|c i s a FS Ar Al NE Sm|c i s a FS Ar Al];
    intros NEcs ai ci rest; [congruence| | |].
  - (* an argument-less letter, known or unknown *)
    cbv zeta. rewrite gchars_cons. cbn [map forallb].
    destruct (first_short_judge _ _ _ _ _ AU FS) as [[L J]|[L [J _]]]; [rewrite Ar in J|].
    + (* known *)
      unfold gclass. rewrite J.
      rewrite (expected_event_known _ _ _ _ _ None FS L).
      assert (K : known_b raw (i, None) = true) by (apply Nat.ltb_lt; exact L).
      destruct cs as [|c1 cs'].
      * inversion Sh; subst. rewrite K. cbn. rewrite orb_true_r. auto.
      * cbv beta iota zeta. cbn [greport].
        specialize (IH ltac:(discriminate) ai (ci + 1)%nat rest). cbv zeta in IH.
        destruct (gchars raw (starts_with_colon raw) ai (ci + 1) (c1 :: cs') (opt_list extra ++ rest)) as [[evs q] n].
        unfold chars_events in *. cbn [fst snd map forallb] in *. destruct IH as [A [B C]].
        rewrite A, B, C, K. cbn [andb]. auto.
    + (* unknown *)
      unfold gclass. rewrite J.
      rewrite (expected_event_unknown _ _ _ _ _ None FS L).
      assert (K : known_b raw (i, None) = false) by (apply Nat.ltb_ge; exact L).
      destruct cs as [|c1 cs'].
      * inversion Sh; subst. rewrite K. destruct (starts_with_colon raw); cbn; auto.
      * cbv beta iota zeta.
        specialize (IH ltac:(discriminate) ai (ci + 1)%nat rest). cbv zeta in IH.
        destruct (gchars raw (starts_with_colon raw) ai (ci + 1) (c1 :: cs') (opt_list extra ++ rest)) as [[evs q] n].
        unfold chars_events in *. cbn [fst snd map forallb] in *. destruct IH as [A [B C]].
        rewrite K. cbn [andb]. rewrite orb_false_r.
        destruct (starts_with_colon raw); cbn [greport fst snd map andb orb] in *; rewrite A, ?B, C; auto.
  - (* attached option-argument *)
    cbv zeta. rewrite gchars_cons. cbn [map forallb].
    destruct (first_short_judge _ _ _ _ _ AU FS) as [[L J]|[L [J Ar']]]; [|congruence].
    rewrite Ar in J. unfold gclass. rewrite J. destruct a as [|a0 a']; [congruence|].
    rewrite (expected_event_known _ _ _ _ _ _ FS L).
    assert (K : forall oa, known_b raw (i, oa) = true) by (intros; apply Nat.ltb_lt; exact L).
    rewrite K. cbn. rewrite orb_true_r. auto.
  - (* the next argument is the option-argument *)
    cbv zeta. rewrite gchars_cons. cbn [map forallb].
    destruct (first_short_judge _ _ _ _ _ AU FS) as [[L J]|[L [J Ar']]]; [|congruence].
    rewrite Ar in J. unfold gclass. rewrite J.
    rewrite (expected_event_known _ _ _ _ _ _ FS L).
    assert (K : forall oa, known_b raw (i, oa) = true) by (intros; apply Nat.ltb_lt; exact L).
    rewrite K. cbn. rewrite orb_true_r. auto.
Qed.

(* ---- whole vectors ---------------------------------------------------------------- *)

Lemma gdirect_plain raw colon ai ops :
  PlainStart ops -> gdirect raw colon ai ops = ([], ai, ops, true).
Proof.
  intros [->|[f [t [-> N]]]]; [reflexivity|]. cbn [gdirect].
  destruct f as [|c0 [|c1 cs]]; try reflexivity.
  destruct (N.eqb_spec c0 HYPHEN) as [->|NE]; [|reflexivity].
  exfalso. apply N. exists c1, cs. reflexivity.
Qed.

Lemma optfield_gmode raw unknown f extra os :
  OptField (gtable raw unknown) gmode f extra os ->
  exists c cs, f = HYPHEN :: c :: cs /\ c <> HYPHEN /\ Shorts (gtable raw unknown) gmode (c :: cs) extra os.
Proof.
  intros OF. destruct OF as [c cs extra os NE Sh|? ? ? ? ? ? ? [X _]|? ? ? ? ? ? ? [X _]|? ? ? ? ? ? ? ? [X _]];
    try discriminate X. eauto.
Qed.

Definition gexpect raw unknown (os : list cocc) (ops : list str) : list cevent_t * list str * bool :=
  (map (expected_event raw unknown) os, ops, starts_with_colon raw || forallb (known_b raw) os).

Lemma gdirect_optfield raw unknown f extra os rest ai :
  AllUnknown raw unknown -> OptField (gtable raw unknown) gmode f extra os ->
  gstrip (gdirect raw (starts_with_colon raw) ai (f :: opt_list extra ++ rest)) =
  match gstrip (gdirect raw (starts_with_colon raw) ai rest) with
  | (ce, ops, q) => (map (expected_event raw unknown) os ++ ce, ops,
                     (starts_with_colon raw || forallb (known_b raw) os) && q)
  end.
Proof.
  intros AU OF. destruct (optfield_gmode _ _ _ _ _ OF) as [c [cs [-> [NE Sh]]]].
  assert (X : str_eqb (c :: cs) [HYPHEN] = false).
  { destruct cs; cbn; [apply N.eqb_neq in NE; rewrite NE; reflexivity | apply andb_false_r]. }
  rewrite (gdirect_option _ _ _ _ _ _ X).
  pose proof (gchars_shorts raw unknown (c :: cs) extra os AU Sh ltac:(discriminate) ai 1%nat rest) as G.
  cbv zeta in G.
  destruct (gchars raw (starts_with_colon raw) ai 1 (c :: cs) (opt_list extra ++ rest)) as [[evs q] n].
  unfold chars_events in G. cbn [fst snd] in G. destruct G as [A [B C]]. subst q n.
  destruct extra as [a|]; cbn [opt_list app length Nat.add].
  - rewrite gstrip_prepend, A. rewrite (gdirect_strip raw _ rest (ai + 2)%nat ai). reflexivity.
  - destruct rest; rewrite gstrip_prepend, A, (gdirect_strip raw _ _ (ai + 1)%nat ai); reflexivity.
Qed.

Lemma gdirect_spells raw unknown os ops args :
  AllUnknown raw unknown ->
  Spells (gtable raw unknown) gmode os ops args ->
  forall ai, gstrip (gdirect raw (starts_with_colon raw) ai args) = gexpect raw unknown os ops.
Proof.
  intros AU Sp. induction Sp as [ops P|ops|f extra os os' ops rest OF Sp IH]; intros ai; unfold gexpect.
  - rewrite gdirect_plain by exact P. cbn. rewrite orb_true_r. reflexivity.
  - assert (E : gdirect raw (starts_with_colon raw) ai (SEP :: ops) = ([], (ai + 1)%nat, ops, true)) by reflexivity.
    rewrite E. cbn. rewrite orb_true_r. reflexivity.
  - rewrite (gdirect_optfield _ _ _ _ _ _ _ AU OF), (IH ai). unfold gexpect.
    rewrite map_app, forallb_app. f_equal.
    destruct (starts_with_colon raw); cbn; [reflexivity|]. reflexivity.
Qed.

(* complete option fields in front: their events come first, then the loop
   goes on as if it started behind them *)
Lemma gdirect_optprefix raw unknown pre os :
  AllUnknown raw unknown -> OptPrefix (gtable raw unknown) gmode pre os ->
  forall l ai,
  gstrip (gdirect raw (starts_with_colon raw) ai (pre ++ l)) =
  match gstrip (gdirect raw (starts_with_colon raw) ai l) with
  | (ce, ops, q) => (map (expected_event raw unknown) os ++ ce, ops,
                     (starts_with_colon raw || forallb (known_b raw) os) && q)
  end.
Proof.
  intros AU OP. induction OP as [|f extra os pre os' OF OP IH]; intros l ai.
  - cbn. destruct (gstrip (gdirect raw (starts_with_colon raw) ai l)) as [[ce ops] q].
    rewrite orb_true_r. reflexivity.
  - cbn [app]. rewrite <- app_assoc, (gdirect_optfield _ _ _ _ _ _ _ AU OF), (IH l ai).
    destruct (gstrip (gdirect raw (starts_with_colon raw) ai l)) as [[ce ops] q].
    rewrite map_app, forallb_app, app_assoc. f_equal.
    destruct (starts_with_colon raw); cbn; [reflexivity|]. apply andb_assoc.
Qed.

(* ---- statements about what a script sees ------------------------------------------ *)

Lemma getopts_spelling raw unknown os ops args :
  AllUnknown raw unknown ->
  Spells (gtable raw unknown) gmode os ops args ->
  gvisible (getopts_run raw args) =
  Some (map (expected_event raw unknown) os, ops, starts_with_colon raw || forallb (known_b raw) os).
Proof.
  intros AU Sp. rewrite gvisible_run, (gdirect_spells _ _ _ _ _ AU Sp). reflexivity.
Qed.

Lemma getopts_behind_options raw unknown pre os l r :
  AllUnknown raw unknown -> OptPrefix (gtable raw unknown) gmode pre os ->
  gvisible (getopts_run raw l) = gvisible (getopts_run raw r) ->
  gvisible (getopts_run raw (pre ++ l)) = gvisible (getopts_run raw (pre ++ r)).
Proof.
  intros AU OP E. rewrite !gvisible_run in *. inversion E as [E'].
  rewrite !(gdirect_optprefix _ _ _ _ AU OP), E'. reflexivity.
Qed.
