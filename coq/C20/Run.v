(* C20 — what the correspondence check evaluates on every case. *)
From Yv Require Export Common.Base C20.Model C20.Spec C20.Tables C20.Getopts C20.Kill C20.SetBuiltin C20.Typeset.

(* What the virtual shell did with one script: exit status of the built-in
   (negative: the shell panicked or hung), whether nothing was written to the
   standard error, hash of what the built-in wrote to the standard output,
   hash of the state snapshot taken afterwards (variables with attributes,
   functions, aliases, traps, umask, options, positional parameters, limits,
   working directory), and whether the shell survived to take the snapshot. *)
Record outcome := mkOut {
  out_status : Z;
  out_stderr_empty : bool;
  out_stdout : N;
  out_state : N;
  out_alive : bool
}.

(* One case of the generic-parser streams. *)
Inductive case :=
(* an option table, a mode, an argument vector and what `parse_arguments`
   returned for it *)
| CParse (specs : list ospec) (m : mode) (args : list str) (r : result)
(* an abstract invocation and several spellings of it, each with what
   `parse_arguments` returned *)
| CSpell (specs : list ospec) (m : mode) (os : list cocc) (ops : list str)
         (spellings : list (list str * result))
(* `parse_arguments` panicked on this input *)
| CPanic (specs : list ospec) (m : mode) (args : list str)
(* a built-in that uses the generic parser, run in the virtual shell: its
   option table, an abstract invocation, spellings of it with what the shell
   did, malformed variants with what the shell did, and the outcome of the
   same script without the invocation.  [from_source]: the table is claimed to
   be the one the source gives for this built-in (checked against the
   generated tables); false for the table of a `getopts` option string.
   [m]: the parser mode the shell is in (with_extensions by default,
   Mode::default() while the `portable` option is on) *)
| CBuiltin (name : str) (from_source : bool) (m : mode) (specs : list ospec) (os : list cocc) (ops : list str)
           (valid : list (list str * outcome)) (malformed : list (list str * outcome))
           (baseline : outcome)
(* a built-in with a parser of its own (set, kill, typeset family, getopts,
   the shell's command line): spellings listed as equivalent, and malformed ones *)
| CBespoke (name : str) (valid : list (list str * outcome)) (malformed : list (list str * outcome))
           (baseline : outcome)
(* complete `while getopts RAW name` loops in the virtual shell: the option
   string, the characters used as unknown options, an abstract invocation
   (index into the table of the option string followed by the unknown
   characters, option-argument), the option left without its argument at the
   end (if any), the operands, and one run per spelling *)
| CGetopts (raw : str) (unknown : list N) (os : list cocc) (missing : option nat)
           (ops : list str) (runs : list grun)
(* kill's own parser (kill::syntax::parse, portable off): the system's signal
   table, SIGTERM, the arguments and what it returned ([None]: it panicked) *)
| CKill (t : sigtable) (term : Z) (args : list str) (r : option kresult)
(* set's own parser (set::syntax::parse, portable off): the tables of
   parse_short / parse_long for the letters and names in play, and either one
   vector with its result, or an invocation (option occurrences with their new
   states, positional parameters) written in several spellings *)
(* typeset's own long-option rule (typeset::syntax::parse with `--NAME`):
   the table's long names, the name, what it answered; [real]: the table is
   typeset's own ALL_OPTIONS, for which the rule must agree with the generic
   parser's *)
| CTypesetLong (real : bool) (specs : list ospec) (name : str) (r : tres)
| CSetRaw (sht : short_table) (lt : long_table) (args : list str) (r : option sres)
| CSetSpell (sht : short_table) (lt : long_table) (os : list occurrence) (p : option (list str))
            (spellings : list (list str * sres)).

Definition outcome_eqb (a b : outcome) : bool :=
  Z.eqb (out_status a) (out_status b) && Bool.eqb (out_stderr_empty a) (out_stderr_empty b)
  && N.eqb (out_stdout a) (out_stdout b) && N.eqb (out_state a) (out_state b)
  && Bool.eqb (out_alive a) (out_alive b).

Definition cocc_eqb (a b : cocc) : bool :=
  Nat.eqb (fst a) (fst b) && option_eqb str_eqb (snd a) (snd b).

Definition canon_is (r : result) (os : list cocc) (ops : list str) : bool :=
  match r with
  | Ok os' ops' => list_eqb cocc_eqb (map canon_occ os') os && list_eqb str_eqb ops' ops
  | Err _ => false
  end.

(* verdict of one (vector, result) pair: oracle first, on the implementation's
   result only; then the model *)
Definition run_parse (specs : list ospec) (m : mode) (args : list str) (r : result) : verdict :=
  match oracle_parse specs m args r with
  | Some k => (2 + k)%N
  | None => if result_eqb (parse specs m args) r then 0%N else 1%N
  end.

Fixpoint run_spellings (specs : list ospec) (m : mode) (os : list cocc) (ops : list str)
    (l : list (list str * result)) (acc : verdict) : verdict :=
  match l with
  | [] => acc
  | (args, r) :: l =>
      if negb (spells_b specs m os ops args) then 99%N     (* the generator's spelling is not one *)
      else if negb (canon_is r os ops) then 4%N            (* an equivalent spelling read differently *)
      else match run_parse specs m args r with
           | 0%N => run_spellings specs m os ops l acc
           | 1%N => run_spellings specs m os ops l 1%N
           | v => v
           end
  end.

(* the oracle on the behaviour of a built-in: [None] = accepted *)
Definition crashed (o : outcome) : bool := (out_status o <? 0)%Z.

Definition oracle_valid (l : list (list str * outcome)) : option N :=
  if existsb (fun p => crashed (snd p)) l then Some 7%N
  else match l with
       | [] => None
       | (_, o0) :: t => if forallb (fun p => outcome_eqb (snd p) o0) t then None else Some 4%N
       end.

Definition oracle_malformed_one (base o : outcome) : option N :=
  if crashed o then Some 7%N
  else if Z.eqb (out_status o) 0 || out_stderr_empty o then Some 5%N
  else if negb (N.eqb (out_stdout o) (out_stdout base)) then Some 6%N
  else if out_alive o && negb (N.eqb (out_state o) (out_state base)) then Some 6%N
  else None.

Fixpoint oracle_malformed (base : outcome) (l : list (list str * outcome)) : option N :=
  match l with
  | [] => None
  | (_, o) :: t =>
      match oracle_malformed_one base o with
      | Some k => Some k
      | None => oracle_malformed base t
      end
  end.

Definition run_shell (valid malformed : list (list str * outcome)) (base : outcome)
    (generator_ok : bool) : verdict :=
  match oracle_valid valid with
  | Some k => (2 + k)%N
  | None =>
      match oracle_malformed base malformed with
      | Some k => (2 + k)%N
      | None => if generator_ok then 0%N else 99%N
      end
  end.

Fixpoint run_getopts (raw : str) (unknown : list N) (os : list cocc) (missing : option nat)
    (ops : list str) (runs : list grun) (acc : verdict) : verdict :=
  match runs with
  | [] => acc
  | r :: runs' =>
      (* the expectation only makes sense for a spelling of the invocation *)
      if negb (gspelling_ok raw unknown os missing ops (g_args r)) then 99%N
      else match oracle_getopts raw unknown os missing ops r with
           | Some k => (2 + k)%N
           | None => run_getopts raw unknown os missing ops runs'
                       (if model_agrees raw r then acc else 1%N)
           end
  end.

Fixpoint run_set_spellings (sht : short_table) (lt : long_table) (os : list occurrence)
    (p : option (list str)) (l : list (list str * sres)) (acc : verdict) : verdict :=
  match l with
  | [] => acc
  | (args, r) :: l' =>
      (* the generator's part: the model reads the spelling as the invocation *)
      if negb (is_invocation os p (sparse sht lt args)) then 99%N
      else if negb (is_invocation os p r) then 16%N
      else run_set_spellings sht lt os p l' acc
  end.

Definition run_case (c : case) : verdict :=
  match c with
  | CParse specs m args r => run_parse specs m args r
  | CSpell specs m os ops l => run_spellings specs m os ops l 0%N
  | CPanic _ _ _ => 5%N
  | CBuiltin name from_source m specs os ops valid malformed base =>
      (* the model's part: the table is the source's, the generator's spellings
         are spellings of (os, ops), the malformed ones are rejected by the
         model of the parser *)
      run_shell valid malformed base
        ((negb from_source || is_source_table name specs)
         && forallb (fun p => spells_b specs m os ops (fst p)) valid
         && forallb (fun p => match canon (parse specs m (fst p)) with
                              | None => true | Some _ => false end) malformed)
  | CBespoke _ valid malformed base => run_shell valid malformed base true
  | CGetopts raw unknown os missing ops runs => run_getopts raw unknown os missing ops runs 0%N
  | CTypesetLong real specs name r =>
      if real && negb (tres_eqb r (common_match specs name)) then 17%N
      else if tres_eqb (tmatch specs name) r then 0%N else 1%N
  | CSetRaw sht lt args None => 5%N
  | CSetRaw sht lt args (Some r) =>
      match sparse sht lt args with
      | SOutside => 99%N
      | m => if sres_eqb m r then 0%N else 1%N
      end
  | CSetSpell sht lt os p l => run_set_spellings sht lt os p l 0%N
  | CKill t term args None => 5%N
  | CKill t term args (Some r) =>
      match oracle_kill t term args r with
      | Some k => (2 + k)%N
      | None => if kresult_eqb (kparse t term args) r then 0%N else 1%N
      end
  end.

Definition run_cases := run_cases_with run_case.
