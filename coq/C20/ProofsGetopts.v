(* C20 — proofs about the getopts model: the loop over `next` (re-entered
   with the $OPTIND indices) delivers exactly the structural reading of the
   arguments, never runs out of fuel, and grouped and separate spellings give
   the same sequence of results. *)
From Yv Require Import Common.Base C20.Model C20.Spec C20.Getopts.

Definition gresult_t : Type := list gevent * nat * bool.

Definition gcons (evs : list gevent) (q : bool) (r : gresult_t) : gresult_t :=
  match r with (evs', fin, q') => (evs ++ evs', fin, q && q') end.

Lemma skipn_cons_S {A} (l : list A) : forall n a t, skipn n l = a :: t -> skipn (S n) l = t.
Proof.
  induction l as [|x l IH]; intros n a t E.
  - destruct n; discriminate.
  - destruct n; cbn in *; [inversion E; reflexivity | eapply IH; eauto].
Qed.

Lemma skipn_add {A} (l : list A) : forall n k, skipn (n + k) l = skipn k (skipn n l).
Proof.
  induction l as [|x l IH]; intros n k.
  - rewrite !skipn_nil. reflexivity.
  - destruct n; cbn; [reflexivity | apply IH].
Qed.

Lemma gloop_mono fuel : forall args raw ai ci r k,
  gloop fuel args raw ai ci = Some r -> gloop (fuel + k) args raw ai ci = Some r.
Proof.
  induction fuel as [|fuel IH]; intros args raw ai ci r k E; [discriminate|].
  cbn [gloop Nat.add] in *. destruct (gr_option (gnext args raw ai ci)) as [occ|]; [|exact E].
  destruct (greport (starts_with_colon raw) occ) as [[var optarg] quiet].
  destruct (gloop fuel args raw (gr_ai (gnext args raw ai ci)) (gr_ci (gnext args raw ai ci))) as [[[evs fin] q]|] eqn:L;
    [|discriminate].
  rewrite (IH _ _ _ _ _ k L). exact E.
Qed.

Lemma gloop_mono_le fuel fuel' args raw ai ci r :
  (fuel <= fuel')%nat -> gloop fuel args raw ai ci = Some r -> gloop fuel' args raw ai ci = Some r.
Proof.
  intros L E. replace fuel' with (fuel + (fuel' - fuel))%nat by lia. apply gloop_mono. exact E.
Qed.

Lemma gclass_incr0 raw opt rem rest a e : gclass raw opt rem rest = (a, 0%nat, e) -> rem <> [].
Proof.
  unfold gclass. destruct rem; [|discriminate].
  destruct (judge raw opt); try discriminate. destruct rest; discriminate.
Qed.

(* one step of `next` inside the argument number [ai] *)
Lemma gnext_in_field (args : list str) raw ai ci (chars : str) (rest : list str) opt (rem : str) :
  (1 <= ai)%nat -> (1 <= ci)%nat ->
  skipn (ai - 1) args = (HYPHEN :: chars) :: rest -> chars <> [HYPHEN] ->
  skipn (ci - 1) chars = opt :: rem ->
  gnext args raw ai ci =
  let '(argument, incr, err) := gclass raw opt rem rest in
  mkGResult (Some (opt, argument, err)) (ai + incr) (match incr with O => ci + 1 | S _ => 1 end).
Proof.
  intros La Lc E NS Ec. unfold gnext. rewrite E, N.eqb_refl. cbn [negb].
  destruct (str_eqb chars [HYPHEN]) eqn:X; [apply str_eqb_eq in X; contradiction|].
  rewrite Ec. reflexivity.
Qed.

(* the characters of one argument, then the loop goes on behind it *)
Lemma gloop_chars raw (args : list str) ai (chars : str) (rest : list str) :
  (1 <= ai)%nat -> skipn (ai - 1) args = (HYPHEN :: chars) :: rest -> chars <> [HYPHEN] ->
  forall cs ci fuel r,
  (1 <= ci)%nat -> skipn (ci - 1) chars = cs -> cs <> [] ->
  let '(evs, q, n) := gchars raw (starts_with_colon raw) ai ci cs rest in
  gloop fuel args raw (ai + n) 1 = Some r ->
  gloop (length cs + fuel) args raw ai ci = Some (gcons evs q r).
Proof.
  intros La E NS. induction cs as [|opt rem IH]; intros ci fuel r Lc Ec NE; [congruence|].
  cbn [gchars length Nat.add].
  pose proof (gnext_in_field args raw ai ci chars rest opt rem La Lc E NS Ec) as GN.
  destruct (gclass raw opt rem rest) as [[argument incr] err] eqn:GC.
  destruct (greport (starts_with_colon raw) (opt, argument, err)) as [[var optarg] quiet] eqn:GR.
  destruct incr as [|incr'].
  - assert (NR : rem <> []) by (eapply gclass_incr0; eauto).
    assert (Ec' : skipn (ci + 1 - 1) chars = rem).
    { replace (ci + 1 - 1)%nat with (S (ci - 1)) by lia. eapply skipn_cons_S; eauto. }
    specialize (IH (ci + 1)%nat fuel r ltac:(lia) Ec' NR).
    destruct (gchars raw (starts_with_colon raw) ai (ci + 1) rem rest) as [[evs q] n].
    intros L. specialize (IH L). cbn [gloop]. rewrite GN. cbn [gr_option gr_ai gr_ci]. rewrite GR.
    rewrite Nat.add_0_r, IH. destruct r as [[evs' fin] q']. cbn [gcons app].
    rewrite andb_assoc. reflexivity.
  - intros L. cbn [gloop]. rewrite GN. cbn [gr_option gr_ai gr_ci]. rewrite GR.
    rewrite (gloop_mono_le fuel (length rem + fuel) args raw _ 1 r ltac:(lia) L).
    destruct r as [[evs' fin] q']. reflexivity.
Qed.

Definition gforget (r : list gevent * nat * list str * bool) : gresult_t :=
  match r with (evs, fin, _, q) => (evs, fin, q) end.

Lemma gforget_prepend evs q r : gforget (gprepend evs q r) = gcons evs q (gforget r).
Proof. destruct r as [[[a b] c] d]. reflexivity. Qed.

Lemma gfuel_cons f rest : gfuel (f :: rest) = (S (length f) + gfuel rest)%nat.
Proof. unfold gfuel. cbn. lia. Qed.

Lemma gfuel_pos l : (1 <= gfuel l)%nat.
Proof. unfold gfuel. lia. Qed.

(* induction for functions that consume one or two arguments per step *)
Lemma list_ind2 {A} (P : list A -> Prop) :
  P [] ->
  (forall f rest, P rest -> (forall a rest', rest = a :: rest' -> P rest') -> P (f :: rest)) ->
  forall l, P l.
Proof.
  intros H0 HS.
  assert (H : forall l, P l /\ (forall a rest', l = a :: rest' -> P rest')).
  { induction l as [|f rest [IH1 IH2]].
    - split; [exact H0 | discriminate].
    - split; [apply HS; assumption|]. intros a rest' E. inversion E; subst. exact IH1. }
  intros l. apply H.
Qed.

Definition gfin (r : list gevent * nat * list str * bool) : nat :=
  match r with (_, fin, _, _) => fin end.
Definition gops (r : list gevent * nat * list str * bool) : list str :=
  match r with (_, _, ops, _) => ops end.

Lemma gfin_prepend evs q r : gfin (gprepend evs q r) = gfin r.
Proof. destruct r as [[[a b] c] d]. reflexivity. Qed.
Lemma gops_prepend evs q r : gops (gprepend evs q r) = gops r.
Proof. destruct r as [[[a b] c] d]. reflexivity. Qed.

Lemma gclass_incr raw opt rem rest a incr e :
  gclass raw opt rem rest = (a, incr, e) ->
  (incr = 0%nat /\ rem <> []) \/ incr = 1%nat \/ (incr = 2%nat /\ exists x r, rest = x :: r).
Proof.
  unfold gclass. destruct (judge raw opt), rem as [|r0 rem], rest as [|x rest]; intros E; inversion E; subst;
    try (left; split; [reflexivity | discriminate]); try (right; left; reflexivity).
  all: right; right; split; [reflexivity | eauto].
Qed.

(* a non-empty group consumes its own argument, and the next one only if there is one *)
Lemma gchars_consumed raw colon ai rest : forall cs ci,
  cs <> [] ->
  let n := snd (gchars raw colon ai ci cs rest) in
  n = 1%nat \/ (n = 2%nat /\ exists x r, rest = x :: r).
Proof.
  induction cs as [|opt rem IH]; intros ci NE; [congruence|]. cbn [gchars].
  destruct (gclass raw opt rem rest) as [[argument incr] err] eqn:GC.
  destruct (greport colon (opt, argument, err)) as [[var optarg] quiet].
  destruct (gclass_incr _ _ _ _ _ _ _ GC) as [[-> NR]|[->|[-> X]]].
  - specialize (IH (ci + 1)%nat NR). destruct (gchars raw colon ai (ci + 1) rem rest) as [[evs q] n]. exact IH.
  - left. reflexivity.
  - right. split; [reflexivity | exact X].
Qed.

(* the loop, entered at the argument number [ai], delivers the structural
   reading of the arguments from there on, within the fuel *)
Lemma gloop_direct raw (args : list str) : forall (rem : list str) ai,
  (1 <= ai)%nat -> skipn (ai - 1) args = rem ->
  let D := gdirect raw (starts_with_colon raw) ai rem in
  gloop (gfuel rem) args raw ai 1 = Some (gforget D) /\ skipn (gfin D - 1) args = gops D.
Proof.
  intros rem. induction rem as [|f rest IH1 IH2] using list_ind2; intros ai La E; cbv zeta.
  - split; [|exact E]. unfold gfuel. cbn [gloop length fold_right Nat.add]. unfold gnext. rewrite E. reflexivity.
  - assert (Stop : forall fuel, gr_option (gnext args raw ai 1) = None ->
                                gloop (S fuel) args raw ai 1 = Some ([], gr_ai (gnext args raw ai 1), true)).
    { intros fuel X. cbn [gloop]. rewrite X. reflexivity. }
    assert (E1 : skipn (ai + 1 - 1) args = rest).
    { replace (ai + 1 - 1)%nat with (S (ai - 1)) by lia. eapply skipn_cons_S; eauto. }
    rewrite gfuel_cons. cbn [Nat.add gdirect].
    destruct f as [|c0 [|c1 cs]].
    + split; [|exact E]. rewrite Stop; unfold gnext; rewrite E; reflexivity.
    + split; [|exact E]. rewrite Stop; unfold gnext; rewrite E;
        destruct (negb (N.eqb c0 HYPHEN)); cbn; reflexivity.
    + destruct (N.eqb_spec c0 HYPHEN) as [->|NE]; cbn [negb].
      2:{ split; [|exact E]. rewrite Stop; unfold gnext; rewrite E; apply N.eqb_neq in NE; rewrite NE; reflexivity. }
      destruct (str_eqb (c1 :: cs) [HYPHEN]) eqn:SEP.
      { split; [|exact E1]. rewrite Stop; unfold gnext; rewrite E, N.eqb_refl, SEP; reflexivity. }
      assert (NS : c1 :: cs <> [HYPHEN]).
      { intros X. rewrite X in SEP. vm_compute in SEP. discriminate. }
      pose proof (gloop_chars raw args ai (c1 :: cs) rest La E NS (c1 :: cs) 1%nat) as CH.
      pose proof (gchars_consumed raw (starts_with_colon raw) ai rest (c1 :: cs) 1%nat ltac:(discriminate)) as CN.
      destruct (gchars raw (starts_with_colon raw) ai 1 (c1 :: cs) rest) as [[evs q] n].
      cbn [snd] in CN. destruct CN as [->|[-> [x [rest' ->]]]].
      * destruct (IH1 (ai + 1)%nat ltac:(lia) E1) as [L S1].
        rewrite gforget_prepend, gfin_prepend, gops_prepend. split; [|exact S1].
        specialize (CH (gfuel rest) _ ltac:(lia) eq_refl ltac:(discriminate) L).
        eapply gloop_mono_le; [|exact CH]. cbn [length]. lia.
      * assert (E2 : skipn (ai + 2 - 1) args = rest').
        { replace (ai + 2 - 1)%nat with (S (ai + 1 - 1)) by lia. eapply skipn_cons_S; eauto. }
        destruct (IH2 x rest' eq_refl (ai + 2)%nat ltac:(lia) E2) as [L S2].
        rewrite gforget_prepend, gfin_prepend, gops_prepend. split; [|exact S2].
        specialize (CH (gfuel rest') _ ltac:(lia) eq_refl ltac:(discriminate) L).
        eapply gloop_mono_le; [|exact CH]. rewrite gfuel_cons. cbn [length]. lia.
Qed.

(* ---- the loop as a script sees it -------------------------------------------------- *)

Lemma getopts_run_direct raw args :
  getopts_run raw args =
  let D := gdirect raw (starts_with_colon raw) 1 args in
  Some (fst (fst (gforget D)), gops D, snd (gforget D)).
Proof.
  unfold getopts_run. destruct (gloop_direct raw args args 1%nat (le_n 1) eq_refl) as [L S1].
  rewrite L. cbv zeta. destruct (gdirect raw (starts_with_colon raw) 1 args) as [[[evs fin] ops] q].
  cbn in *. rewrite S1. reflexivity.
Qed.

Lemma getopts_run_total raw args : getopts_run raw args <> None.
Proof. rewrite getopts_run_direct. discriminate. Qed.

Lemma getopts_run_observed raw args :
  getopts_run raw args = Some (gobserved (gdirect raw (starts_with_colon raw) 1 args)).
Proof.
  rewrite getopts_run_direct. cbv zeta.
  destruct (gdirect raw (starts_with_colon raw) 1 args) as [[[evs fin] ops] q]. reflexivity.
Qed.

Lemma gvisible_run raw args :
  gvisible (getopts_run raw args) = Some (gstrip (gdirect raw (starts_with_colon raw) 1 args)).
Proof.
  rewrite getopts_run_direct. cbv zeta.
  destruct (gdirect raw (starts_with_colon raw) 1 args) as [[[evs fin] ops] q]. reflexivity.
Qed.

Lemma gstrip_prepend evs q r :
  gstrip (gprepend evs q r) =
  match gstrip r with (ce, ops, q') => (map fst evs ++ ce, ops, q && q') end.
Proof. destruct r as [[[a b] c] d]. cbn. rewrite map_app. reflexivity. Qed.

(* the ($name, $OPTARG) of a group do not depend on the indices *)
Lemma gchars_strip raw colon rest : forall cs ai ci ai' ci',
  map fst (fst (fst (gchars raw colon ai ci cs rest))) = map fst (fst (fst (gchars raw colon ai' ci' cs rest)))
  /\ snd (fst (gchars raw colon ai ci cs rest)) = snd (fst (gchars raw colon ai' ci' cs rest))
  /\ snd (gchars raw colon ai ci cs rest) = snd (gchars raw colon ai' ci' cs rest).
Proof.
  induction cs as [|opt rem IH]; intros ai ci ai' ci'; cbn [gchars]; [auto|].
  destruct (gclass raw opt rem rest) as [[argument incr] err].
  destruct (greport colon (opt, argument, err)) as [[var optarg] quiet].
  destruct incr; [|cbn; auto].
  specialize (IH ai (ci + 1)%nat ai' (ci' + 1)%nat).
  destruct (gchars raw colon ai (ci + 1) rem rest) as [[evs q] n],
           (gchars raw colon ai' (ci' + 1) rem rest) as [[evs' q'] n'].
  cbn in *. destruct IH as [A [B C]]. rewrite A, B, C. auto.
Qed.

Lemma gdirect_strip raw colon : forall args ai ai',
  gstrip (gdirect raw colon ai args) = gstrip (gdirect raw colon ai' args).
Proof.
  intros args. induction args as [|f rest IH1 IH2] using list_ind2; intros ai ai'; [reflexivity|].
  cbn [gdirect]. destruct f as [|c0 [|c1 cs]]; try reflexivity.
  destruct (negb (N.eqb c0 HYPHEN)); [reflexivity|].
  destruct (str_eqb (c1 :: cs) [HYPHEN]); [reflexivity|].
  destruct (gchars_strip raw colon rest (c1 :: cs) ai 1%nat ai' 1%nat) as [A [B C]].
  destruct (gchars raw colon ai 1 (c1 :: cs) rest) as [[evs q] n],
           (gchars raw colon ai' 1 (c1 :: cs) rest) as [[evs' q'] n'].
  cbn [fst snd] in A, B, C. subst q' n'.
  destruct n as [|[|n]]; [| |destruct rest as [|x rest']]; rewrite !gstrip_prepend, A.
  - rewrite (IH1 (ai + 1)%nat (ai' + 1)%nat). reflexivity.
  - rewrite (IH1 (ai + 1)%nat (ai' + 1)%nat). reflexivity.
  - rewrite (IH1 (ai + 1)%nat (ai' + 1)%nat). reflexivity.
  - rewrite (IH2 x rest' eq_refl (ai + 2)%nat (ai' + 2)%nat). reflexivity.
Qed.

Lemma gdirect_option raw colon ai c1 cs rest :
  str_eqb (c1 :: cs) [HYPHEN] = false ->
  gdirect raw colon ai ((HYPHEN :: c1 :: cs) :: rest) =
  let '(evs, q, n) := gchars raw colon ai 1 (c1 :: cs) rest in
  match n, rest with
  | S (S _), _ :: rest' => gprepend evs q (gdirect raw colon (ai + 2) rest')
  | _, _ => gprepend evs q (gdirect raw colon (ai + 1) rest)
  end.
Proof.
  intros X. remember (gchars raw colon ai 1 (c1 :: cs) rest) as G.
  cbn [gdirect]. rewrite N.eqb_refl. cbn [negb]. rewrite X, <- HeqG. reflexivity.
Qed.

Lemma gchars_cons raw colon ai ci opt rem rest :
  gchars raw colon ai ci (opt :: rem) rest =
  let '(argument, incr, err) := gclass raw opt rem rest in
  let '(var, optarg, quiet) := greport colon (opt, argument, err) in
  match incr with
  | O => let '(evs, q, n) := gchars raw colon ai (ci + 1) rem rest in
         ((var, optarg, (ai, (ci + 1)%nat)) :: evs, quiet && q, n)
  | S _ => ([(var, optarg, ((ai + incr)%nat, 1%nat))], quiet, incr)
  end.
Proof. reflexivity. Qed.

Lemma str_eqb_hyphen_long c c1 cs : str_eqb (c :: c1 :: cs) [HYPHEN] = false.
Proof. cbn. apply andb_false_r. Qed.

(* -xy...  =  -x -y...  for an option letter x that takes no argument — known
   or unknown — as long as what is split off is not `--` *)
Lemma getopts_group_split raw c cs rest :
  judge raw c <> GTakesArg -> c <> HYPHEN -> cs <> [] -> cs <> [HYPHEN] ->
  gvisible (getopts_run raw ((HYPHEN :: c :: cs) :: rest)) =
  gvisible (getopts_run raw ([HYPHEN; c] :: (HYPHEN :: cs) :: rest)).
Proof.
  intros NT NH NE NS. rewrite !gvisible_run. f_equal.
  set (colon := starts_with_colon raw).
  destruct cs as [|c1 cs']; [congruence|].
  assert (X2 : str_eqb [c] [HYPHEN] = false).
  { cbn. apply N.eqb_neq in NH. rewrite NH. reflexivity. }
  assert (X3 : str_eqb (c1 :: cs') [HYPHEN] = false).
  { destruct (str_eqb (c1 :: cs') [HYPHEN]) eqn:X; [|reflexivity]. apply str_eqb_eq in X. contradiction. }
  assert (GC : exists e, gclass raw c (c1 :: cs') rest = (None, 0%nat, e) /\
                         gclass raw c [] ((HYPHEN :: c1 :: cs') :: rest) = (None, 1%nat, e)).
  { unfold gclass. destruct (judge raw c); [eauto | congruence | eauto]. }
  destruct GC as [e [G1 G2]].
  rewrite (gdirect_option raw colon 1 c (c1 :: cs') rest (str_eqb_hyphen_long _ _ _)).
  rewrite (gdirect_option raw colon 1 c [] ((HYPHEN :: c1 :: cs') :: rest) X2).
  rewrite (gchars_cons raw colon 1 1 c (c1 :: cs') rest), G1.
  rewrite (gchars_cons raw colon 1 1 c [] ((HYPHEN :: c1 :: cs') :: rest)), G2.
  destruct (greport colon (c, None, e)) as [[var optarg] quiet].
  cbv beta iota zeta.
  rewrite (gdirect_option raw colon (1 + 1) c1 cs' rest X3).
  destruct (gchars_strip raw colon rest (c1 :: cs') 1%nat (1 + 1)%nat (1 + 1)%nat 1%nat) as [A [B C]].
  destruct (gchars raw colon 1 (1 + 1) (c1 :: cs') rest) as [[evs q] n],
           (gchars raw colon (1 + 1) 1 (c1 :: cs') rest) as [[evs' q'] n'].
  cbn [fst snd] in A, B, C. subst q' n'.
  assert (F : forall r r', gstrip r = gstrip r' ->
              gstrip (gprepend ((var, optarg, (1%nat, (1 + 1)%nat)) :: evs) (quiet && q) r) =
              gstrip (gprepend [(var, optarg, ((1 + 1)%nat, 1%nat))] quiet (gprepend evs' q r'))).
  { intros r r' R. rewrite !gstrip_prepend, R. cbn [map fst app]. rewrite A.
    destruct (gstrip r') as [[ce ops] q']. rewrite andb_assoc. reflexivity. }
  destruct n as [|[|n]]; [| |destruct rest as [|x rest']]; apply F; apply gdirect_strip.
Qed.

(* -oARG  =  -o ARG  for an option letter that takes an argument *)
Lemma getopts_attached raw c a rest :
  judge raw c = GTakesArg -> c <> HYPHEN -> a <> [] ->
  gvisible (getopts_run raw ((HYPHEN :: c :: a) :: rest)) =
  gvisible (getopts_run raw ([HYPHEN; c] :: a :: rest)).
Proof.
  intros T NH NE. rewrite !gvisible_run. f_equal.
  set (colon := starts_with_colon raw).
  destruct a as [|a0 a']; [congruence|].
  assert (X2 : str_eqb [c] [HYPHEN] = false).
  { cbn. apply N.eqb_neq in NH. rewrite NH. reflexivity. }
  rewrite (gdirect_option raw colon 1 c (a0 :: a') rest (str_eqb_hyphen_long _ _ _)).
  rewrite (gdirect_option raw colon 1 c [] ((a0 :: a') :: rest) X2).
  rewrite (gchars_cons raw colon 1 1 c (a0 :: a') rest).
  rewrite (gchars_cons raw colon 1 1 c [] ((a0 :: a') :: rest)).
  unfold gclass. rewrite T. cbv beta iota zeta.
  destruct (greport colon _) as [[var optarg] quiet].
  cbv beta iota zeta. rewrite !gstrip_prepend. cbn [map fst app].
  rewrite (gdirect_strip raw colon rest (1 + 1)%nat (1 + 2)%nat). reflexivity.
Qed.
