(* C20 — typeset's long-option rule against the generic parser's. *)
From Yv Require Import Common.Base C20.Model C20.Spec C20.Typeset C20.ProofsNames.

Lemma common_match_indices specs name :
  common_match specs name =
  match indices (long_is name) specs with
  | j :: _ => TFound j
  | [] => tmatch specs name
  end.
Proof.
  unfold common_match, tmatch. rewrite long_match_indices.
  destruct (indices (long_is name) specs); [|reflexivity].
  destruct (indices (long_has_prefix name) specs) as [|a [|b l]]; reflexivity.
Qed.

(* the two rules differ only when the name is the full name of an entry and
   also a prefix of another entry's name: typeset calls it ambiguous *)
Lemma typeset_rule_vs_common specs name :
  tmatch specs name = common_match specs name
  \/ (exists j, common_match specs name = TFound j /\ In j (indices (long_is name) specs)
                /\ tmatch specs name = TAmbiguous).
Proof.
  rewrite common_match_indices. destruct (indices (long_is name) specs) as [|j l] eqn:EX; [left; reflexivity|].
  assert (Ij : In j (indices (long_is name) specs)) by (rewrite EX; left; reflexivity).
  assert (Pj : In j (indices (long_has_prefix name) specs)).
  { apply indices_spec in Ij. destruct Ij as [s [N L]]. apply indices_spec. exists s. split; [exact N|].
    apply long_is_spec in L. apply long_has_prefix_spec. exists name. split; [exact L | apply prefix_refl]. }
  unfold tmatch. destruct (indices (long_has_prefix name) specs) as [|a [|b r]] eqn:EP.
  - destruct Pj.
  - destruct Pj as [->|[]]. left. reflexivity.
  - right. exists j. split; [reflexivity|]. split; [left; reflexivity | reflexivity].
Qed.

Lemma prefix_free_agree specs name :
  prefix_free specs = true -> tmatch specs name = common_match specs name.
Proof.
  intros PF. destruct (typeset_rule_vs_common specs name) as [E|[j [C [Ij T]]]]; [exact E|]. exfalso.
  apply indices_spec in Ij. destruct Ij as [s [N L]]. apply long_is_spec in L.
  unfold prefix_free in PF. rewrite forallb_forall in PF.
  specialize (PF s (nth_error_In _ _ N)). rewrite L in PF. apply Nat.leb_le in PF.
  unfold tmatch in T. destruct (indices (long_has_prefix name) specs) as [|a [|b r]]; try discriminate.
  cbn in PF. lia.
Qed.

(* the rule is not the generic parser's in general *)
Lemma typeset_rule_refuted :
  exists specs name, common_match specs name = TFound 0 /\ tmatch specs name = TAmbiguous.
Proof.
  exists [mkSpec None (Some [112; 114]%N) false false; mkSpec None (Some [112; 114; 120]%N) false false],
         [112; 114]%N.
  vm_compute. auto.
Qed.
