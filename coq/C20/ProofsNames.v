(* C20 — proofs, part 1: strings, and how the model resolves option names
   (find_short, long_match) against the declarative relations of Spec.v and
   against the oracle's boolean forms. *)
From Coq Require Import Sorted.
From Yv Require Import Common.Base C20.Model C20.Spec.

(* ---- strings ---------------------------------------------------------- *)

Lemma prefixb_spec p s : prefixb p s = true <-> Prefix p s.
Proof.
  revert s; induction p as [|a p IH]; intros s; cbn.
  - split; [intros _; exists s; reflexivity | reflexivity].
  - destruct s as [|b s].
    + split; [discriminate | intros [t E]; discriminate].
    + rewrite andb_true_iff, N.eqb_eq, IH. split.
      * intros [-> [t ->]]. exists t. reflexivity.
      * intros [t E]. cbn in E. inversion E; subst. split; [reflexivity | exists t; reflexivity].
Qed.

Lemma prefix_same_length p s : Prefix p s -> length s = length p -> s = p.
Proof.
  intros [t ->] L. rewrite app_length in L.
  destruct t; [apply app_nil_r | cbn in L; lia].
Qed.

Lemma prefix_refl p : Prefix p p.
Proof. exists []. symmetry. apply app_nil_r. Qed.

Lemma split_eq_spec s :
  match split_eq s with
  | (name, None) => s = name /\ ~ In EQUAL name
  | (name, Some a) => s = name ++ EQUAL :: a /\ ~ In EQUAL name
  end.
Proof.
  induction s as [|c s IH]; cbn.
  - split; [reflexivity | intros []].
  - destruct (N.eqb_spec c EQUAL) as [->|NE].
    + split; [reflexivity | intros []].
    + destruct (split_eq s) as [name [a|]]; destruct IH as [-> NI]; (split; [reflexivity|]);
        intros [E|I]; auto.
Qed.

Lemma split_eq_noeq name : ~ In EQUAL name -> split_eq name = (name, None).
Proof.
  induction name as [|c s IH]; cbn; intros NI; [reflexivity|].
  destruct (N.eqb_spec c EQUAL) as [->|NE]; [exfalso; auto|].
  rewrite IH by auto. reflexivity.
Qed.

Lemma split_eq_eq name a : ~ In EQUAL name -> split_eq (name ++ EQUAL :: a) = (name, Some a).
Proof.
  induction name as [|c s IH]; cbn; intros NI.
  - reflexivity.
  - destruct (N.eqb_spec c EQUAL) as [->|NE]; [exfalso; auto|].
    rewrite IH by auto. reflexivity.
Qed.

Lemma nth_error_firstn_lt {A} (l : list A) : forall i j,
  (j < i)%nat -> nth_error (firstn i l) j = nth_error l j.
Proof.
  induction l as [|a l IH]; intros i j L.
  - rewrite firstn_nil. reflexivity.
  - destruct i; [lia|]. destruct j; cbn; [reflexivity|]. apply IH. lia.
Qed.

(* ---- the table, by index ------------------------------------------------- *)

Lemma spec_at_nth specs i s : nth_error specs i = Some s -> spec_at specs i = s.
Proof. intros H. unfold spec_at. apply nth_error_nth. exact H. Qed.

Lemma indices_from_spec p specs : forall k j,
  In j (indices_from k p specs) <->
  (k <= j)%nat /\ exists s, nth_error specs (j - k) = Some s /\ p s = true.
Proof.
  induction specs as [|s t IH]; intros k j; cbn.
  - split; [intros [] | intros [_ [s [E _]]]; destruct (j - k)%nat; discriminate].
  - assert (Step : In j (indices_from (S k) p t) <->
                   (S k <= j)%nat /\ exists s', nth_error (s :: t) (j - k) = Some s' /\ p s' = true).
    { rewrite IH. split.
      - intros [L [s' [E P]]]. split; [exact L|]. exists s'. split; [|exact P].
        replace (j - k)%nat with (S (j - S k)) by lia. exact E.
      - intros [L [s' [E P]]]. split; [exact L|]. exists s'. split; [|exact P].
        replace (j - k)%nat with (S (j - S k)) in E by lia. exact E. }
    destruct (p s) eqn:Ps; cbn; rewrite ?Step.
    + split.
      * intros [<-|[L X]]; [|split; [lia | exact X]].
        split; [lia|]. exists s. rewrite Nat.sub_diag. auto.
      * intros [L [s' [E P]]]. destruct (Nat.eq_dec k j) as [->|NE]; [left; reflexivity|].
        right. split; [lia|]. exists s'. auto.
    + split.
      * intros [L X]. split; [lia | exact X].
      * intros [L [s' [E P]]]. split; [|exists s'; auto].
        destruct (Nat.eq_dec k j) as [->|NE]; [|lia].
        rewrite Nat.sub_diag in E. cbn in E. congruence.
Qed.

Lemma indices_spec p specs j :
  In j (indices p specs) <-> exists s, nth_error specs j = Some s /\ p s = true.
Proof.
  unfold indices. rewrite indices_from_spec, Nat.sub_0_r. split; [intros [_ H]; exact H | intros H; split; [lia | exact H]].
Qed.

(* the list of indices is strictly increasing *)
Lemma indices_from_sorted p specs : forall k,
  StronglySorted lt (indices_from k p specs).
Proof.
  induction specs as [|s t IH]; intros k; cbn; [constructor|].
  destruct (p s).
  - constructor; [apply IH|]. apply Forall_forall. intros j I.
    apply indices_from_spec in I. lia.
  - apply IH.
Qed.

Lemma indices_head_least p specs j l :
  indices p specs = j :: l -> forall j', In j' (indices p specs) -> (j <= j')%nat.
Proof.
  intros E j' I. pose proof (indices_from_sorted p specs 0) as S. unfold indices in *.
  rewrite E in *. inversion S as [|? ? _ F]; subst. destruct I as [<-|I]; [lia|].
  rewrite Forall_forall in F. apply F in I. lia.
Qed.

Lemma indices_nil p specs :
  indices p specs = [] <-> forall s, In s specs -> p s = false.
Proof.
  split.
  - intros E s I. apply In_nth_error in I. destruct I as [j Ej].
    destruct (p s) eqn:Ps; [|reflexivity].
    assert (In j (indices p specs)) by (apply indices_spec; exists s; auto).
    rewrite E in H. destruct H.
  - intros H. destruct (indices p specs) as [|j l] eqn:E; [reflexivity|].
    assert (I : In j (indices p specs)) by (rewrite E; left; reflexivity).
    apply indices_spec in I. destruct I as [s [Ej Ps]].
    apply nth_error_In in Ej. rewrite H in Ps by exact Ej. discriminate.
Qed.

Lemma existsb_indices p specs : existsb p specs = negb (match indices p specs with [] => true | _ => false end).
Proof.
  destruct (indices p specs) as [|j l] eqn:E; cbn.
  - destruct (existsb p specs) eqn:X; [|reflexivity].
    apply existsb_exists in X. destruct X as [s [I Ps]].
    rewrite (proj1 (indices_nil p specs) E s I) in Ps. discriminate.
  - assert (I : In j (indices p specs)) by (rewrite E; left; reflexivity).
    apply indices_spec in I. destruct I as [s [Ej Ps]].
    apply existsb_exists. exists s. split; [eapply nth_error_In; eauto | exact Ps].
Qed.

(* ---- short names ------------------------------------------------------------ *)

Lemma short_is_spec c s : short_is c s = true <-> sp_short s = Some c.
Proof.
  unfold short_is. apply option_eqb_spec. intros; apply N.eqb_eq.
Qed.

Lemma find_short_from_spec specs c : forall k,
  match find_short_from k specs c with
  | Some (i, s) =>
      (k <= i)%nat /\ nth_error specs (i - k) = Some s /\ sp_short s = Some c /\
      forall j s', (j < i - k)%nat -> nth_error specs j = Some s' -> sp_short s' <> Some c
  | None => forall s, In s specs -> sp_short s <> Some c
  end.
Proof.
  induction specs as [|s t IH]; intros k; cbn.
  - intros s [].
  - fold (short_is c s). destruct (short_is c s) eqn:E.
    + apply short_is_spec in E. rewrite Nat.sub_diag. cbn. repeat split; auto. intros j s' L; lia.
    + assert (NE : sp_short s <> Some c).
      { intros X. apply short_is_spec in X. congruence. }
      specialize (IH (S k)). destruct (find_short_from (S k) t c) as [[i s0]|].
      * destruct IH as [L [N [Sh Min]]]. split; [lia|].
        replace (i - k)%nat with (S (i - S k)) by lia. cbn. repeat split; auto.
        intros [|j] s' Lj Ej; cbn in Ej; [congruence|]. eapply Min; [|exact Ej]. lia.
      * intros s' [<-|I]; auto.
Qed.

Lemma find_short_some specs c i s :
  find_short specs c = Some (i, s) <-> FirstShort specs c i s.
Proof.
  unfold find_short, FirstShort. pose proof (find_short_from_spec specs c 0) as H. split.
  - intros E. rewrite E in H. rewrite Nat.sub_0_r in H. destruct H as [_ [N [Sh Min]]]. auto.
  - intros [N [Sh Min]]. destruct (find_short_from 0 specs c) as [[i' s']|].
    + rewrite Nat.sub_0_r in H. destruct H as [_ [N' [Sh' Min']]].
      destruct (Nat.lt_trichotomy i i') as [L|[->|L]].
      * exfalso. eapply Min'; eauto.
      * congruence.
      * exfalso. eapply Min; eauto.
    + exfalso. apply (H s); [eapply nth_error_In; eauto | exact Sh].
Qed.

Lemma find_short_none specs c : find_short specs c = None <-> NoShort specs c.
Proof.
  unfold find_short, NoShort. pose proof (find_short_from_spec specs c 0) as H. split.
  - intros E. rewrite E in H. exact H.
  - intros NS. destruct (find_short_from 0 specs c) as [[i s]|]; [|reflexivity].
    rewrite Nat.sub_0_r in H. destruct H as [_ [N [Sh _]]]. exfalso.
    apply (NS s); [eapply nth_error_In; eauto | exact Sh].
Qed.

Lemma first_short_fun specs c i s i' s' :
  FirstShort specs c i s -> FirstShort specs c i' s' -> i = i' /\ s = s'.
Proof.
  intros A B. apply find_short_some in A, B. rewrite A in B. inversion B. auto.
Qed.

(* [find] agrees with find_short on the spec found *)
Lemma find_short_is specs c :
  find (short_is c) specs = option_map snd (find_short specs c).
Proof.
  unfold find_short. generalize 0%nat. induction specs as [|s t IH]; intros k; cbn; [reflexivity|].
  fold (short_is c s). destruct (short_is c s); [reflexivity | apply IH].
Qed.

Lemma first_short_b_spec specs c i :
  first_short_b specs c i = true <-> exists s, FirstShort specs c i s.
Proof.
  unfold first_short_b, FirstShort. destruct (nth_error specs i) as [s|] eqn:N.
  - rewrite andb_true_iff, short_is_spec, negb_true_iff. split.
    + intros [Sh NE]. exists s. repeat split; auto. intros j s' L Ej X.
      apply short_is_spec in X.
      assert (existsb (short_is c) (firstn i specs) = true); [|congruence].
      apply existsb_exists. exists s'. split; [|exact X].
      apply nth_error_In with (n := j). rewrite nth_error_firstn_lt by exact L. exact Ej.
    + intros [s0 [E [Sh Min]]]. inversion E; subst s0. split; [exact Sh|].
      destruct (existsb (short_is c) (firstn i specs)) eqn:X; [|reflexivity]. exfalso.
      apply existsb_exists in X. destruct X as [s' [I Ps]]. apply In_nth_error in I.
      destruct I as [j Ej].
      assert (L : (j < i)%nat).
      { assert (j < length (firstn i specs))%nat by (apply nth_error_Some; congruence).
        rewrite firstn_length in H. lia. }
      rewrite nth_error_firstn_lt in Ej by exact L. apply short_is_spec in Ps. eapply Min; eauto.
  - split; [discriminate | intros [s [E _]]; discriminate].
Qed.

(* ---- long names -------------------------------------------------------------- *)

Lemma long_is_spec name s : long_is name s = true <-> sp_long s = Some name.
Proof. unfold long_is. apply option_eqb_spec. intros; apply str_eqb_eq. Qed.

Lemma long_has_prefix_spec name s :
  long_has_prefix name s = true <-> exists l, sp_long s = Some l /\ Prefix name l.
Proof.
  unfold long_has_prefix. destruct (sp_long s) as [l|].
  - rewrite prefixb_spec. split; [intros P; exists l; auto | intros [l' [E P]]; inversion E; subst; exact P].
  - split; [discriminate | intros [l [E _]]; discriminate].
Qed.

Lemma spec_long_match_spec s name :
  match spec_long_match s name with
  | LExact => long_is name s = true
  | LPartial => long_is name s = false /\ long_has_prefix name s = true
  | LNone => long_is name s = false /\ long_has_prefix name s = false
  end.
Proof.
  unfold spec_long_match, long_has_prefix, long_is. destruct (sp_long s) as [l|]; cbn; [|auto].
  destruct (prefixb name l) eqn:P.
  - destruct (Nat.eqb_spec (length l) (length name)) as [L|L].
    + apply prefixb_spec in P. rewrite (prefix_same_length _ _ P L). apply str_eqb_eq. reflexivity.
    + split; [|reflexivity]. destruct (str_eqb l name) eqn:E; [|reflexivity].
      apply str_eqb_eq in E. subst. congruence.
  - split; [|reflexivity]. destruct (str_eqb l name) eqn:E; [|reflexivity].
    apply str_eqb_eq in E. subst. 
    assert (prefixb name name = true) by (apply prefixb_spec, prefix_refl). congruence.
Qed.

Lemma long_scan_spec name specs : forall k acc,
  long_scan k specs name acc =
  match indices_from k (long_is name) specs with
  | j :: _ => inl j
  | [] => inr (acc ++ indices_from k (long_has_prefix name) specs)
  end.
Proof.
  induction specs as [|s t IH]; intros k acc; cbn.
  - rewrite app_nil_r. reflexivity.
  - pose proof (spec_long_match_spec s name) as M.
    destruct (spec_long_match s name).
    + destruct M as [-> ->]. apply IH.
    + destruct M as [-> ->]. rewrite IH, <- app_assoc. reflexivity.
    + rewrite M. reflexivity.
Qed.

(* the model's long_match, as the oracle computes it *)
Lemma long_match_indices specs name :
  long_match specs name =
  match indices (long_is name) specs with
  | j :: _ => inl j
  | [] => match indices (long_has_prefix name) specs with
          | [i] => inl i
          | l => inr l
          end
  end.
Proof.
  unfold long_match, indices. rewrite long_scan_spec.
  destruct (indices_from 0 (long_is name) specs); [|reflexivity].
  cbn [app]. destruct (indices_from 0 (long_has_prefix name) specs) as [|a [|b r]]; reflexivity.
Qed.

Lemma has_long_spec specs j l :
  HasLong specs j l <-> In j (indices (long_is l) specs).
Proof.
  unfold HasLong. rewrite indices_spec. split; intros [s [E P]]; exists s; split; auto; apply long_is_spec; exact P.
Qed.

Lemma has_long_prefix_spec specs j name :
  (exists l, HasLong specs j l /\ Prefix name l) <-> In j (indices (long_has_prefix name) specs).
Proof.
  rewrite indices_spec. unfold HasLong. split.
  - intros [l [[s [E Lg]] P]]. exists s. split; [exact E|]. apply long_has_prefix_spec. exists l. auto.
  - intros [s [E P]]. apply long_has_prefix_spec in P. destruct P as [l [Lg P]]. exists l. split; [exists s; auto | exact P].
Qed.

Lemma resolves_b_spec specs name i :
  resolves_b specs name i = true <-> exists s, Resolves specs name i s.
Proof.
  unfold resolves_b, Resolves.
  destruct (indices (long_is name) specs) as [|j l] eqn:EX.
  - (* no exact match *)
    assert (NoEx : forall j, ~ HasLong specs j name).
    { intros j H. apply has_long_spec in H. rewrite EX in H. destruct H. }
    split.
    + intros E. apply (list_eqb_spec Nat.eqb Nat.eqb_eq) in E.
      assert (I : In i (indices (long_has_prefix name) specs)) by (rewrite E; left; reflexivity).
      apply indices_spec in I. destruct I as [s [Ei P]]. exists s. split; [exact Ei|]. right.
      apply long_has_prefix_spec in P. split; [exact P|]. split; [exact NoEx|].
      intros j l' HL Pl.
      assert (Ij : In j (indices (long_has_prefix name) specs)).
      { apply has_long_prefix_spec. exists l'. auto. }
      rewrite E in Ij. destruct Ij as [<-|[]]. reflexivity.
    + intros [s [Ei [[Lg _]|[[l [Lg P]] [_ Uniq]]]]].
      * exfalso. apply (NoEx i). exists s. auto.
      * apply (list_eqb_spec Nat.eqb Nat.eqb_eq).
        assert (Ii : In i (indices (long_has_prefix name) specs)).
        { apply has_long_prefix_spec. exists l. split; [exists s; auto | exact P]. }
        pose proof (indices_from_sorted (long_has_prefix name) specs 0) as Sorted.
        fold (indices (long_has_prefix name) specs) in Sorted.
        destruct (indices (long_has_prefix name) specs) as [|a [|b r]] eqn:EP.
        -- destruct Ii.
        -- destruct Ii as [<-|[]]. reflexivity.
        -- exfalso.
           assert (a = i). { assert (Ia : In a (indices (long_has_prefix name) specs)) by (rewrite EP; left; reflexivity).
             apply has_long_prefix_spec in Ia. destruct Ia as [l' [HL Pl]]. eapply Uniq; eauto. }
           assert (b = i). { assert (Ib : In b (indices (long_has_prefix name) specs)) by (rewrite EP; right; left; reflexivity).
             apply has_long_prefix_spec in Ib. destruct Ib as [l' [HL Pl]]. eapply Uniq; eauto. }
           subst. inversion Sorted as [|? ? _ F]; subst. inversion F; subst. lia.
  - (* an exact match exists; j is the first *)
    assert (Ij : In j (indices (long_is name) specs)) by (rewrite EX; left; reflexivity).
    rewrite Nat.eqb_eq. split.
    + intros ->. apply indices_spec in Ij. destruct Ij as [s [Ej P]]. exists s. split; [exact Ej|]. left.
      apply long_is_spec in P. split; [exact P|]. intros j' L H. apply has_long_spec in H.
      pose proof (indices_head_least _ _ _ _ EX j' H). lia.
    + intros [s [Ei [[Lg Min]|[_ [NoEx _]]]]].
      * assert (Ii : In i (indices (long_is name) specs)).
        { apply has_long_spec. exists s. auto. }
        pose proof (indices_head_least _ _ _ _ EX i Ii).
        destruct (Nat.eq_dec i j) as [|NE]; [assumption|]. exfalso.
        apply (Min j); [lia|]. apply has_long_spec. exact Ij.
      * exfalso. apply (NoEx j). apply has_long_spec. exact Ij.
Qed.

Lemma resolves_nth specs name i s : Resolves specs name i s -> spec_at specs i = s.
Proof. intros [E _]. apply spec_at_nth. exact E. Qed.

Lemma resolves_fun specs name i s i' s' :
  Resolves specs name i s -> Resolves specs name i' s' -> i = i' /\ s = s'.
Proof.
  intros A B.
  assert (Ai : resolves_b specs name i = true) by (apply resolves_b_spec; eauto).
  assert (Bi : resolves_b specs name i' = true) by (apply resolves_b_spec; eauto).
  unfold resolves_b in *. 
  assert (i = i').
  { destruct (indices (long_is name) specs).
    - apply (list_eqb_spec Nat.eqb Nat.eqb_eq) in Ai, Bi. congruence.
    - apply Nat.eqb_eq in Ai, Bi. congruence. }
  subst i'. split; [reflexivity|]. destruct A as [A _], B as [B _]. congruence.
Qed.

(* long_match against the declarative relations *)
Lemma long_match_resolves specs name i :
  long_match specs name = inl i <-> exists s, Resolves specs name i s.
Proof.
  rewrite <- resolves_b_spec. unfold resolves_b. rewrite long_match_indices.
  destruct (indices (long_is name) specs) as [|j l].
  - destruct (indices (long_has_prefix name) specs) as [|a [|b r]]; cbn.
    + split; discriminate.
    + rewrite andb_true_r, Nat.eqb_eq. split; congruence.
    + split; [discriminate|]. rewrite andb_true_iff. intros [_ X]. discriminate.
  - rewrite Nat.eqb_eq. split; congruence.
Qed.

Lemma long_match_unknown specs name :
  long_match specs name = inr [] <-> NoLongPrefix specs name.
Proof.
  rewrite long_match_indices. unfold NoLongPrefix. split.
  - intros E j l HL P.
    assert (I : In j (indices (long_has_prefix name) specs)) by (apply has_long_prefix_spec; eauto).
    destruct (indices (long_is name) specs); [|discriminate].
    destruct (indices (long_has_prefix name) specs) as [|a [|b r]]; try discriminate. destruct I.
  - intros H.
    assert (NP : indices (long_has_prefix name) specs = []).
    { destruct (indices (long_has_prefix name) specs) as [|a r] eqn:E; [reflexivity|]. exfalso.
      assert (I : In a (indices (long_has_prefix name) specs)) by (rewrite E; left; reflexivity).
      apply has_long_prefix_spec in I. destruct I as [l [HL P]]. eapply H; eauto. }
    destruct (indices (long_is name) specs) as [|j r] eqn:E.
    + rewrite NP. reflexivity.
    + exfalso. assert (I : In j (indices (long_is name) specs)) by (rewrite E; left; reflexivity).
      apply has_long_spec in I. eapply H; [exact I | apply prefix_refl].
Qed.

Lemma long_match_ambiguous specs name l :
  l <> [] -> long_match specs name = inr l ->
  Ambiguous specs name /\ l = indices (long_has_prefix name) specs /\ (2 <= length l)%nat
  /\ indices (long_is name) specs = [].
Proof.
  intros NE. rewrite long_match_indices.
  destruct (indices (long_is name) specs) as [|j r] eqn:EX; [|discriminate].
  pose proof (indices_from_sorted (long_has_prefix name) specs 0) as Sorted.
  fold (indices (long_has_prefix name) specs) in Sorted.
  destruct (indices (long_has_prefix name) specs) as [|a [|b t]] eqn:EP; intros E; inversion E; subst; try congruence.
  split; [|split; [reflexivity | split; [cbn; lia | reflexivity]]].
  split.
  - intros j H. apply has_long_spec in H. rewrite EX in H. destruct H.
  - assert (Ia : In a (indices (long_has_prefix name) specs)) by (rewrite EP; left; reflexivity).
    assert (Ib : In b (indices (long_has_prefix name) specs)) by (rewrite EP; right; left; reflexivity).
    apply has_long_prefix_spec in Ia, Ib. destruct Ia as [l1 [H1 P1]], Ib as [l2 [H2 P2]].
    exists a, b, l1, l2. repeat split; auto.
    inversion Sorted as [|? ? _ F]; subst. inversion F; subst. lia.
Qed.

Lemma ambiguous_long_match specs name :
  Ambiguous specs name -> exists l, long_match specs name = inr l /\ (2 <= length l)%nat.
Proof.
  intros [NoEx [j1 [j2 [l1 [l2 [NE [H1 [H2 [P1 P2]]]]]]]]]. rewrite long_match_indices.
  destruct (indices (long_is name) specs) as [|j r] eqn:EX.
  - assert (I1 : In j1 (indices (long_has_prefix name) specs)) by (apply has_long_prefix_spec; eauto).
    assert (I2 : In j2 (indices (long_has_prefix name) specs)) by (apply has_long_prefix_spec; eauto).
    destruct (indices (long_has_prefix name) specs) as [|a [|b t]].
    + destruct I1.
    + destruct I1 as [<-|[]], I2 as [<-|[]]. congruence.
    + eexists. split; [reflexivity | cbn; lia].
  - exfalso. apply (NoEx j). apply has_long_spec. rewrite EX. left. reflexivity.
Qed.
