(* C20 — proofs about the model of set's parser: the three ways of writing a
   named option (-o NAME, -oNAME, --NAME, and the same with +) are read alike. *)
From Yv Require Import Common.Base C20.Model C20.Spec C20.SetBuiltin.

Lemma set_named_option_forms (sht : short_table) (lt : long_table) (negate : bool) (name opt : str) (st : bool) (rest : list str) :
  lookup_long name lt = Some (LOk opt st true) -> name <> [] ->
  let o : occurrence := (opt, if negate then negb st else st) in
  sloop sht lt ([sign_char negate; CH_o] :: name :: rest) = sprepend [o] (sloop sht lt rest)
  /\ sloop sht lt ((sign_char negate :: CH_o :: name) :: rest) = sprepend [o] (sloop sht lt rest)
  /\ sloop sht lt ((sign_char negate :: sign_char negate :: name) :: rest) = sprepend [o] (sloop sht lt rest).
Proof.
  intros L NE. destruct name as [|n0 name']; [congruence|]. cbv zeta.
  destruct negate; cbn [sign_char sloop short_sign long_sign skipn schars long_name];
    cbn; unfold long_name; rewrite L; cbn; auto.
Qed.
