(* C20 — proofs: the lemmas the property theorems are closed with, and the
   non-vacuity examples.  The work is in ProofsNames (name resolution),
   ProofsFields (one option field), ProofsMain (parser = grammar), ProofsRules
   (rewrite rules), ProofsOracle and ProofsReject (the boolean oracle). *)
From Yv Require Import Common.Base C20.Model C20.Spec C20.Getopts.
From Yv Require Export C20.ProofsNames C20.ProofsFields C20.ProofsMain C20.ProofsRules
  C20.ProofsOracle C20.ProofsReject C20.ProofsExact C20.ProofsTables C20.ProofsGetopts C20.ProofsGetoptsSpell C20.ProofsKill C20.ProofsSet C20.ProofsTypeset.

Lemma parse_iff_spells_lemma specs m args os ops :
  canon (parse specs m args) = Some (os, ops) <-> Spells specs m os ops args.
Proof.
  split; [|apply parse_sound_lemma].
  destruct (parse specs m args) as [os0 ops0|e] eqn:E; cbn; [|discriminate].
  intros H. inversion H; subst. apply parse_complete_lemma. exact E.
Qed.

Lemma spellings_agree_lemma specs m os ops a b :
  Spells specs m os ops a -> Spells specs m os ops b ->
  canon (parse specs m a) = canon (parse specs m b).
Proof. intros A B. rewrite (parse_sound_lemma _ _ _ _ _ A), (parse_sound_lemma _ _ _ _ _ B). reflexivity. Qed.

Lemma spells_functional_lemma specs m os ops os' ops' args :
  Spells specs m os ops args -> Spells specs m os' ops' args -> os = os' /\ ops = ops'.
Proof.
  intros A B. apply parse_sound_lemma in A, B. rewrite A in B. inversion B. auto.
Qed.

Lemma decides_lemma specs m args :
  (exists os ops, Spells specs m os ops args) \/ (exists d, Malformed specs m args d).
Proof.
  destruct (parse specs m args) as [os ops|e] eqn:E.
  - left. exists (canons os), ops. apply parse_complete_lemma. exact E.
  - right. exists (class_of e). apply parse_err_malformed. exact E.
Qed.

Lemma exclusive_lemma specs m os ops args d :
  Spells specs m os ops args -> ~ Malformed specs m args d.
Proof.
  intros A B. apply parse_sound_lemma in A. apply malformed_parse_err in B.
  destruct B as [e [E _]]. rewrite E in A. discriminate.
Qed.

Lemma oracle_ok_exact_lemma specs m args os ops :
  oracle_parse specs m args (Ok os ops) = None ->
  canon (parse specs m args) = Some (map canon_occ os, ops).
Proof.
  unfold oracle_parse. destruct (spells_b specs m (map canon_occ os) ops args) eqn:S; [|discriminate].
  intros _. apply parse_sound_lemma, spells_b_sound. exact S.
Qed.

Lemma spells_b_decides_lemma specs m os ops args :
  spells_b specs m os ops args = true <-> Spells specs m os ops args.
Proof. split; [apply spells_b_sound | apply spells_b_complete]. Qed.

(* ---- non-vacuity: concrete instances of the hypotheses ------------------------- *)

(* -a/--long   -b/--lot   -o ARG/--other ARG *)
Definition ex_specs : list ospec :=
  [ mkSpec (Some 97%N) (Some [108; 111; 110; 103]%N) false false;
    mkSpec (Some 98%N) (Some [108; 111; 116]%N) false false;
    mkSpec (Some 111%N) (Some [111; 116; 104; 101; 114]%N) true false ].

Definition ex_X : str := [88%N].
Definition f_ab : str := [45; 97; 98]%N.                          (* -ab *)
Definition f_a : str := [45; 97]%N.                               (* -a *)
Definition f_b : str := [45; 98]%N.                               (* -b *)
Definition f_oX : str := [45; 111; 88]%N.                         (* -oX *)
Definition f_o : str := [45; 111]%N.                              (* -o *)
Definition f_lon : str := [45; 45; 108; 111; 110]%N.              (* --lon *)
Definition f_lo : str := [45; 45; 108; 111]%N.                    (* --lo *)
Definition f_other_eq : str := [45; 45; 111; 116; 61; 88]%N.      (* --ot=X *)

(* `-ab -oX X` spells the invocation (a, b, o=X; X) ... *)
Example ex_spells_1 :
  Spells ex_specs with_extensions [(0, None); (1, None); (2, Some ex_X)]%nat [ex_X]
         [f_ab; f_oX; ex_X].
Proof. apply spells_b_sound. vm_compute. reflexivity. Qed.

(* ... and so does `--lon -b --ot=X -- X` *)
Example ex_spells_2 :
  Spells ex_specs with_extensions [(0, None); (1, None); (2, Some ex_X)]%nat [ex_X]
         [f_lon; f_b; f_other_eq; SEP; ex_X].
Proof. apply spells_b_sound. vm_compute. reflexivity. Qed.

Example ex_first_short : FirstShort ex_specs 97%N 0%nat (spec_at ex_specs 0).
Proof. apply find_short_some. vm_compute. reflexivity. Qed.

Example ex_first_short_o : FirstShort ex_specs 111%N 2%nat (spec_at ex_specs 2).
Proof. apply find_short_some. vm_compute. reflexivity. Qed.

Example ex_resolves : Resolves ex_specs [108; 111; 110]%N 0%nat (spec_at ex_specs 0).
Proof.
  assert (H : exists s, Resolves ex_specs [108; 111; 110]%N 0%nat s).
  { apply resolves_b_spec. vm_compute. reflexivity. }
  destruct H as [s R]. rewrite (resolves_nth _ _ _ _ R). exact R.
Qed.

(* `-a` is a complete option field in front of something *)
Example ex_optprefix : OptPrefix ex_specs with_extensions [f_a] [(0%nat, None)].
Proof.
  apply (OP_cons ex_specs with_extensions f_a None [(0%nat, None)] [] []); [|constructor].
  apply OF_short; [discriminate|].
  eapply Sh_flag; [exact ex_first_short | reflexivity | discriminate | constructor].
Qed.

(* `-a -ab` can be respelled `-a -a -b` (grouping, behind a complete field) *)
Example ex_respell :
  Respell ex_specs with_extensions [f_a; f_ab] [f_a; f_a; f_b].
Proof.
  apply (RS_step ex_specs with_extensions [f_a] [(0%nat, None)] [f_ab] [f_a; f_b]).
  - exact ex_optprefix.
  - eapply RW_group; [exact ex_first_short | reflexivity | discriminate | discriminate | discriminate].
Qed.

(* `-a --lo` is malformed: `lo` is a prefix of both `long` and `lot` *)
Example ex_malformed : Malformed ex_specs with_extensions [f_a; f_lo] DAmbiguous.
Proof.
  exact (parse_err_malformed ex_specs with_extensions [f_a; f_lo]
           (AmbiguousLong f_lo [0; 1]%nat) eq_refl).
Qed.

(* `-ab -o` is malformed: the argument of -o is missing *)
Example ex_malformed_missing : Malformed ex_specs with_extensions [f_ab; f_o] DMissingArg.
Proof.
  exact (parse_err_malformed ex_specs with_extensions [f_ab; f_o] (MissingArg f_o 2%nat) eq_refl).
Qed.

(* getopts: `-axb arg` with the option string `ab:` (x unknown, then more
   characters in the same group) and its separate spelling *)
Example ex_getopts_unknown_in_group :
  gvisible (getopts_run [97; 98; 58]%N [[45; 97; 120; 98]%N; [97; 114; 103]%N])
  = Some ([([97]%N, None); ([63]%N, None); ([98]%N, Some [97; 114; 103]%N)], [], false)
  /\ gvisible (getopts_run [97; 98; 58]%N [[45; 97]%N; [45; 120]%N; [45; 98]%N; [97; 114; 103]%N])
     = gvisible (getopts_run [97; 98; 58]%N [[45; 97; 120; 98]%N; [97; 114; 103]%N]).
Proof. split; vm_compute; reflexivity. Qed.

Example ex_getopts_judge : judge [97; 98; 58]%N 120%N <> GTakesArg /\ judge [97; 98; 58]%N 98%N = GTakesArg.
Proof. split; [vm_compute; discriminate | reflexivity]. Qed.

(* a result the oracle accepts *)
Example ex_oracle_accepts :
  oracle_parse ex_specs with_extensions [f_ab; f_oX; ex_X]
    (Ok [mkOcc 0 f_ab (Short 1) None; mkOcc 1 f_ab (Short 2) None;
         mkOcc 2 f_oX (Short 1) (Some (ex_X, f_oX))] [ex_X]) = None.
Proof. vm_compute. reflexivity. Qed.

(* ... and the oracle is not trivially quiet: dropping an option, keeping `--`
   as an operand, or accepting an ambiguous prefix are all rejected *)
Example ex_oracle_rejects_1 :
  oracle_parse ex_specs with_extensions [f_ab; ex_X] (Ok [mkOcc 0 f_ab (Short 1) None] [ex_X]) = Some 0%N.
Proof. vm_compute. reflexivity. Qed.
Example ex_oracle_rejects_2 :
  oracle_parse ex_specs with_extensions [f_a; SEP; ex_X] (Ok [mkOcc 0 f_a (Short 1) None] [SEP; ex_X]) = Some 0%N.
Proof. vm_compute. reflexivity. Qed.
Example ex_oracle_rejects_3 :
  oracle_parse ex_specs with_extensions [f_lo] (Ok [mkOcc 0 f_lo Long None] []) = Some 0%N.
Proof. vm_compute. reflexivity. Qed.
Example ex_oracle_rejects_4 :
  oracle_parse ex_specs with_extensions [f_lon] (Err (UnknownLong f_lon)) = Some 1%N.
Proof. vm_compute. reflexivity. Qed.
