(* C20 — MODEL: the generic option/operand parser of the built-ins,
   yash-builtin/src/common/syntax.rs (`parse_arguments`, `parse_short_options`,
   `parse_long_option`, `long_match`, `OptionSpec::long_match`, `Mode`),
   re-stated as total executable Gallina functions with the same case splits.

   Characters are code points (N), strings are lists of code points.  The
   Rust code works on UTF-8 byte offsets; the only place where a byte offset
   is observable is `OptionSpelling::Short(index)`, which is why [utf8_len]
   exists.  `str::starts_with`, `str::find('=')` and the slicing at the
   offsets they return are the same on code points as on UTF-8 bytes (UTF-8
   is prefix-free and `=`, `-` are ASCII).

   A field (`yash_env::semantics::Field`) is modelled by its value; where the
   parser keeps an `origin`/`location` the model keeps the *text of the field
   the location points at* (the harness creates every field with
   `Field::dummy(value)`, whose origin is a location whose code is `value`).

   The Rust functions have no panic site on any input: the slices are taken at
   offsets returned by `find`/`char_indices` and `drain` ranges are within
   bounds; there is no arithmetic that can overflow.  The loops run over the
   argument iterator / the characters of one field; here they are structural
   recursions, so no fuel is needed. *)
From Yv Require Import Common.Base.

(* ---- data ------------------------------------------------------------ *)

(* OptionSpec { short, long, argument, extension } *)
Record ospec := mkSpec {
  sp_short : option N;
  sp_long : option str;
  sp_arg : bool;            (* OptionArgumentSpec::Required *)
  sp_ext : bool             (* is_extension() *)
}.

(* Mode { long_option_names, extension_options, option_arguments_in_same_field } *)
Record mode := mkMode {
  m_long : bool;
  m_ext : bool;
  m_same : bool
}.

Definition with_extensions : mode := mkMode true true true.
Definition portable_mode : mode := mkMode false false false.   (* Mode::default() *)

(* OptionSpelling (Implied is never produced by the parser) *)
Inductive spelling := Short (byte_index : N) | Long.

(* OptionOccurrence: index of the spec in the table, text of the field the
   location points at, spelling, argument = (value, text of its origin). *)
Record occ := mkOcc {
  o_spec : nat;
  o_loc : str;
  o_spell : spelling;
  o_arg : option (str * str)
}.

(* ParseError; specs are given by their index in the table. *)
Inductive perr :=
| UnknownShort (c : N) (f : str)
| UnknownLong (f : str)
| NonPortableShort (c : N) (f : str) (i : nat)
| NonPortableLong (f : str) (i : nat)
| AmbiguousLong (f : str) (matched : list nat)
| MissingArg (f : str) (i : nat)
| Unseparated (f : str) (i : nat)
| UnexpectedArg (f : str) (i : nat).

Inductive result :=
| Ok (options : list occ) (operands : list str)
| Err (e : perr).

(* ---- characters and strings -------------------------------------------- *)

Definition HYPHEN : N := 45.
Definition EQUAL : N := 61.

(* char::len_utf8 *)
Definition utf8_len (c : N) : N :=
  if (c <? 128)%N then 1%N
  else if (c <? 2048)%N then 2%N
  else if (c <? 65536)%N then 3%N
  else 4%N.

(* str::starts_with: [p] is a prefix of [s] *)
Fixpoint prefixb (p s : str) : bool :=
  match p, s with
  | [], _ => true
  | a :: p', b :: s' => N.eqb a b && prefixb p' s'
  | _ :: _, [] => false
  end.

(* value.find('=') and the two slices around it: (before, Some after) *)
Fixpoint split_eq (s : str) : str * option str :=
  match s with
  | [] => ([], None)
  | c :: s' =>
      if N.eqb c EQUAL then ([], Some s')
      else let (a, b) := split_eq s' in (c :: a, b)
  end.

(* parse_short_options::starts_with_single_hyphen *)
Definition is_short_field (f : str) : bool :=
  match f with
  | c0 :: c1 :: _ => N.eqb c0 HYPHEN && negb (N.eqb c1 HYPHEN)
  | _ => false
  end.

(* parse_long_option::starts_with_double_hyphen: strip_prefix("--") is
   non-empty *)
Definition is_long_field (f : str) : bool :=
  match f with
  | c0 :: c1 :: _ :: _ => N.eqb c0 HYPHEN && N.eqb c1 HYPHEN
  | _ => false
  end.

Definition is_separator (f : str) : bool := str_eqb f [HYPHEN; HYPHEN].

(* ---- short options ------------------------------------------------------- *)

(* option_specs.iter().find(|spec| spec.get_short() == Some(c)), with the
   index of the spec found *)
Fixpoint find_short_from (i : nat) (specs : list ospec) (c : N) : option (nat * ospec) :=
  match specs with
  | [] => None
  | s :: specs' =>
      if option_eqb N.eqb (sp_short s) (Some c) then Some (i, s)
      else find_short_from (S i) specs' c
  end.
Definition find_short := find_short_from 0.

(* Outcome of the `while let Some((index, c)) = chars.next()` loop over one
   field.  [SNeed os i idx]: the last option (spec [i], at byte [idx]) takes
   its argument from the next command-line argument. *)
Inductive short_res :=
| SErr (e : perr)
| SDone (os : list occ)
| SNeed (os : list occ) (i : nat) (idx : N).

Definition short_cons (o : occ) (r : short_res) : short_res :=
  match r with
  | SErr e => SErr e
  | SDone os => SDone (o :: os)
  | SNeed os i idx => SNeed (o :: os) i idx
  end.

Fixpoint short_chars (specs : list ospec) (m : mode) (f : str) (idx : N) (cs : str)
  : short_res :=
  match cs with
  | [] => SDone []
  | c :: cs' =>
      match find_short specs c with
      | None => SErr (UnknownShort c f)
      | Some (i, s) =>
          if sp_ext s && negb (m_ext m) then SErr (NonPortableShort c f i)
          else if sp_arg s then
            match cs' with
            | [] => SNeed [] i idx
            | _ :: _ =>
                if m_same m then SDone [mkOcc i f (Short idx) (Some (cs', f))]
                else SErr (Unseparated f i)
            end
          else
            short_cons (mkOcc i f (Short idx) None)
                       (short_chars specs m f (idx + utf8_len c) cs')
      end
  end.

(* ---- long options ---------------------------------------------------------- *)

Inductive lmatch := LNone | LPartial | LExact.

(* OptionSpec::long_match *)
Definition spec_long_match (s : ospec) (name : str) : lmatch :=
  match sp_long s with
  | Some l =>
      if prefixb name l then
        if Nat.eqb (length l) (length name) then LExact else LPartial
      else LNone
  | None => LNone
  end.

(* the `for spec in option_specs` loop of long_match: [inl i] = an exact match
   returned early, [inr l] = the partial matches collected *)
Fixpoint long_scan (i : nat) (specs : list ospec) (name : str) (acc : list nat)
  : nat + list nat :=
  match specs with
  | [] => inr acc
  | s :: specs' =>
      match spec_long_match s name with
      | LNone => long_scan (S i) specs' name acc
      | LPartial => long_scan (S i) specs' name (acc ++ [i])
      | LExact => inl i
      end
  end.

(* long_match: Ok(spec) / Err(all matched) *)
Definition long_match (specs : list ospec) (name : str) : nat + list nat :=
  match long_scan 0 specs name [] with
  | inl i => inl i
  | inr [i] => inl i
  | inr l => inr l
  end.

Definition dummy_spec : ospec := mkSpec None None false false.
Definition spec_at (specs : list ospec) (i : nat) : ospec := nth i specs dummy_spec.

Inductive long_res :=
| LErr (e : perr)
| LDone (o : occ)
| LNeed (i : nat).

(* parse_long_option on a field that starts_with_double_hyphen *)
Definition long_field (specs : list ospec) (m : mode) (f : str) : long_res :=
  let (name, equal) := split_eq (skipn 2 f) in
  match long_match specs name with
  | inl i =>
      let s := spec_at specs i in
      if m_long m && (m_ext m || negb (sp_ext s)) then
        match sp_arg s, equal with
        | false, None => LDone (mkOcc i f Long None)
        | false, Some _ => LErr (UnexpectedArg f i)
        | true, None => LNeed i
        | true, Some a => LDone (mkOcc i f Long (Some (a, f)))
        end
      else LErr (NonPortableLong f i)
  | inr [] => LErr (UnknownLong f)
  | inr l => LErr (AmbiguousLong f l)
  end.

(* ---- parse_arguments ---------------------------------------------------------- *)

Definition prepend (os : list occ) (r : result) : result :=
  match r with
  | Ok os' ops => Ok (os ++ os') ops
  | Err e => Err e
  end.

Fixpoint parse (specs : list ospec) (m : mode) (args : list str) : result :=
  match args with
  | [] => Ok [] []
  | f :: rest =>
      if is_short_field f then
        match short_chars specs m f 1 (skipn 1 f) with
        | SErr e => Err e
        | SDone os => prepend os (parse specs m rest)
        | SNeed os i idx =>
            match rest with
            | [] => Err (MissingArg f i)
            | a :: rest' =>
                prepend (os ++ [mkOcc i f (Short idx) (Some (a, a))]) (parse specs m rest')
            end
        end
      else if is_long_field f then
        match long_field specs m f with
        | LErr e => Err e
        | LDone o => prepend [o] (parse specs m rest)
        | LNeed i =>
            match rest with
            | [] => Err (MissingArg f i)
            | a :: rest' =>
                prepend [mkOcc i f Long (Some (a, a))] (parse specs m rest')
            end
        end
      else if is_separator f then Ok [] rest
      else Ok [] (f :: rest)
  end.

(* ---- equality tests on results (for the correspondence check) -------------- *)

Definition spelling_eqb (a b : spelling) : bool :=
  match a, b with
  | Short i, Short j => N.eqb i j
  | Long, Long => true
  | _, _ => false
  end.

Definition occ_eqb (a b : occ) : bool :=
  Nat.eqb (o_spec a) (o_spec b) && str_eqb (o_loc a) (o_loc b)
  && spelling_eqb (o_spell a) (o_spell b)
  && option_eqb (pair_eqb str_eqb str_eqb) (o_arg a) (o_arg b).

Definition perr_eqb (a b : perr) : bool :=
  match a, b with
  | UnknownShort c f, UnknownShort c' f' => N.eqb c c' && str_eqb f f'
  | UnknownLong f, UnknownLong f' => str_eqb f f'
  | NonPortableShort c f i, NonPortableShort c' f' i' => N.eqb c c' && str_eqb f f' && Nat.eqb i i'
  | NonPortableLong f i, NonPortableLong f' i' => str_eqb f f' && Nat.eqb i i'
  | AmbiguousLong f l, AmbiguousLong f' l' => str_eqb f f' && list_eqb Nat.eqb l l'
  | MissingArg f i, MissingArg f' i' => str_eqb f f' && Nat.eqb i i'
  | Unseparated f i, Unseparated f' i' => str_eqb f f' && Nat.eqb i i'
  | UnexpectedArg f i, UnexpectedArg f' i' => str_eqb f f' && Nat.eqb i i'
  | _, _ => false
  end.

Definition result_eqb (a b : result) : bool :=
  match a, b with
  | Ok os ops, Ok os' ops' => list_eqb occ_eqb os os' && list_eqb str_eqb ops ops'
  | Err e, Err e' => perr_eqb e e'
  | _, _ => false
  end.
