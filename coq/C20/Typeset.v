(* C20 — the long-option matching rule of the typeset family's own parser
   (yash-builtin/src/typeset/syntax.rs `try_parse_long`): the first two
   entries whose long name starts with the given name are taken; none =
   unknown, two = ambiguous.  Unlike common/syntax.rs `long_match` it does not
   prefer an exact name. *)
From Yv Require Import Common.Base C20.Model C20.Spec.

Inductive tres := TFound (i : nat) | TUnknown | TAmbiguous.

(* MODEL of the rule (a table entry is an [ospec] whose long name is set) *)
Definition tmatch (specs : list ospec) (name : str) : tres :=
  match indices (long_has_prefix name) specs with
  | [] => TUnknown
  | [i] => TFound i
  | _ :: _ :: _ => TAmbiguous
  end.

(* what the generic parser's rule gives, in the same terms *)
Definition common_match (specs : list ospec) (name : str) : tres :=
  match long_match specs name with
  | inl i => TFound i
  | inr [] => TUnknown
  | inr (_ :: _) => TAmbiguous
  end.

(* no long name of the table is a prefix of another entry's long name *)
Definition prefix_free (specs : list ospec) : bool :=
  forallb (fun s => match sp_long s with
                    | Some l => (length (indices (long_has_prefix l) specs) <=? 1)%nat
                    | None => true
                    end) specs.

Definition tres_eqb (a b : tres) : bool :=
  match a, b with
  | TFound i, TFound j => Nat.eqb i j
  | TUnknown, TUnknown | TAmbiguous, TAmbiguous => true
  | _, _ => false
  end.
