(* C20 — the getopts built-in: MODEL of yash-builtin/src/getopts/model.rs
   (`OptionSpec::judge`, `next`), of the way getopts.rs/report.rs turn one
   `next` result into ($name, $OPTARG, $OPTIND), and of a complete
   `while getopts SPEC name; do ...; done` loop; and the SPEC/ORACLE of what
   such a loop must deliver for an abstract invocation.

   Indices are 1-based as in the Rust code (NonZeroUsize); `$OPTIND` is
   "ARG" when the character index is 1 and "ARG:CHAR" otherwise, the harness
   sends it as the pair. *)
From Yv Require Import Common.Base C20.Model C20.Spec.

Definition COLON : N := 58.
Definition QUESTION : N := 63.

(* ---- MODEL ------------------------------------------------------------------ *)

Inductive gtype := GNoArg | GTakesArg | GUnknown.

(* iter.find(|&c| c == option) and then iter.next() *)
Fixpoint find_after (c : N) (raw : str) : option (option N) :=
  match raw with
  | [] => None
  | x :: r => if N.eqb x c then Some (hd_error r) else find_after c r
  end.

(* OptionSpec::judge *)
Definition judge (raw : str) (c : N) : gtype :=
  if N.eqb c COLON then GUnknown
  else match find_after c raw with
       | None => GUnknown
       | Some (Some n) => if N.eqb n COLON then GTakesArg else GNoArg
       | Some None => GNoArg
       end.

Inductive gerr := GUnknownOption | GMissingArgument.

Record gresult := mkGResult {
  gr_option : option (N * option str * option gerr);
  gr_ai : nat;         (* next_arg_index *)
  gr_ci : nat          (* next_char_index *)
}.

Definition non_option (ai : nat) : gresult := mkGResult None ai 1.

(* the `match spec.judge(option)` of model::next: option-argument, increment
   of the argument index, error.  [rem]: what follows the option character in
   its argument, [rest]: the arguments after it *)
Definition gclass (raw : str) (opt : N) (rem : str) (rest : list str)
  : option str * nat * option gerr :=
  let same := match rem with [] => 1%nat | _ :: _ => 0%nat end in
  match judge raw opt with
  | GUnknown => (None, same, Some GUnknownOption)
  | GNoArg => (None, same, None)
  | GTakesArg =>
      match rem with
      | _ :: _ => (Some rem, 1%nat, None)
      | [] =>
          match rest with
          | a :: _ => (Some a, 2%nat, None)
          | [] => (None, 1%nat, Some GMissingArgument)
          end
      end
  end.

(* model::next *)
Definition gnext (args : list str) (raw : str) (ai ci : nat) : gresult :=
  match skipn (ai - 1) args with
  | [] => non_option ai
  | arg :: rest =>
      match arg with
      | [] => non_option ai
      | c0 :: chars =>
          if negb (N.eqb c0 HYPHEN) then non_option ai
          else if str_eqb chars [HYPHEN] then non_option (ai + 1)
          else
            match skipn (ci - 1) chars with
            | [] => non_option ai
            | opt :: rem =>
                let '(argument, incr, err) := gclass raw opt rem rest in
                mkGResult (Some (opt, argument, err)) (ai + incr)
                          (match incr with O => ci + 1 | S _ => 1 end)
            end
      end
  end.

(* Result::report: value of the variable, $OPTARG, and whether nothing is
   written to the standard error *)
Definition greport (colon : bool) (occ : N * option str * option gerr)
  : str * option str * bool :=
  match occ with
  | (opt, argument, None) => ([opt], argument, true)
  | (opt, _, Some GUnknownOption) =>
      if colon then ([QUESTION], Some [opt], true) else ([QUESTION], None, false)
  | (opt, _, Some GMissingArgument) =>
      if colon then ([COLON], Some [opt], true) else ([QUESTION], None, false)
  end.

(* one observation of the loop body: $name, $OPTARG, $OPTIND *)
Definition cevent_t : Type := str * option str.
Definition gevent : Type := cevent_t * (nat * nat).

Definition starts_with_colon (raw : str) : bool :=
  match raw with c :: _ => N.eqb c COLON | [] => false end.

(* the loop `while getopts RAW name; do observe; done`; result: the
   observations, the final argument index, stderr stayed empty.  [None]: out
   of fuel. *)
Fixpoint gloop (fuel : nat) (args : list str) (raw : str) (ai ci : nat)
  : option (list gevent * nat * bool) :=
  match fuel with
  | O => None
  | S fuel' =>
      let r := gnext args raw ai ci in
      match gr_option r with
      | None => Some ([], gr_ai r, true)
      | Some occ =>
          let '(var, optarg, quiet) := greport (starts_with_colon raw) occ in
          match gloop fuel' args raw (gr_ai r) (gr_ci r) with
          | Some (evs, fin, q) => Some ((var, optarg, (gr_ai r, gr_ci r)) :: evs, fin, quiet && q)
          | None => None
          end
      end
  end.

Definition gfuel (args : list str) : nat :=
  S (length args + fold_right (fun f n => length f + n)%nat 0%nat args).

(* what a script sees: observations, the operands left after
   `shift $((OPTIND-1))`, stderr stayed empty *)
Definition getopts_run (raw : str) (args : list str)
  : option (list gevent * list str * bool) :=
  match gloop (gfuel args) args raw 1 1 with
  | Some (evs, fin, q) => Some (evs, skipn (fin - 1) args, q)
  | None => None
  end.

(* ---- the loop, read structurally ---------------------------------------------- *)

(* The same sequence of results, computed by walking the arguments once
   instead of re-entering `next` with ($OPTIND) indices: the characters [cs]
   of the argument number [ai], the first of them having character index
   [ci].  Result: observations, stderr stayed empty, arguments consumed. *)
Fixpoint gchars (raw : str) (colon : bool) (ai ci : nat) (cs : str) (rest : list str)
  : list gevent * bool * nat :=
  match cs with
  | [] => ([], true, 1%nat)
  | opt :: rem =>
      let '(argument, incr, err) := gclass raw opt rem rest in
      let '(var, optarg, quiet) := greport colon (opt, argument, err) in
      match incr with
      | O => let '(evs, q, n) := gchars raw colon ai (ci + 1) rem rest in
             ((var, optarg, (ai, ci + 1)) :: evs, quiet && q, n)
      | S _ => ([(var, optarg, (ai + incr, 1%nat))], quiet, incr)
      end
  end.

Definition gprepend (evs : list gevent) (q : bool) (r : list gevent * nat * list str * bool) :=
  match r with (evs', fin, ops, q') => (evs ++ evs', fin, ops, q && q') end.

(* observations, final argument index, operands left, stderr stayed empty *)
Fixpoint gdirect (raw : str) (colon : bool) (ai : nat) (args : list str)
  : list gevent * nat * list str * bool :=
  match args with
  | [] => ([], ai, [], true)
  | f :: rest =>
      match f with
      | c0 :: c1 :: cs =>
          if negb (N.eqb c0 HYPHEN) then ([], ai, args, true)
          else if str_eqb (c1 :: cs) [HYPHEN] then ([], (ai + 1)%nat, rest, true)
          else
            let '(evs, q, n) := gchars raw colon ai 1 (c1 :: cs) rest in
            match n, rest with
            | S (S _), _ :: rest' => gprepend evs q (gdirect raw colon (ai + 2) rest')
            | _, _ => gprepend evs q (gdirect raw colon (ai + 1) rest)
            end
      | _ => ([], ai, args, true)
      end
  end.

(* what is compared between spellings: ($name, $OPTARG) sequence, operands, stderr *)
Definition gstrip (r : list gevent * nat * list str * bool) : list cevent_t * list str * bool :=
  match r with (evs, _, ops, q) => (map fst evs, ops, q) end.

Definition gobserved (r : list gevent * nat * list str * bool) : list gevent * list str * bool :=
  match r with (evs, _, ops, q) => (evs, ops, q) end.

(* what equivalent spellings must agree on: the $OPTIND values differ *)
Definition gvisible (r : option (list gevent * list str * bool))
  : option (list cevent_t * list str * bool) :=
  match r with
  | Some (evs, ops, q) => Some (map fst evs, ops, q)
  | None => None
  end.

(* ---- SPEC --------------------------------------------------------------------- *)

(* The option string as an option table (in the order of the string, so that
   the first occurrence of a letter counts, as in [judge]), followed by the
   characters used as unknown options, as argument-less entries. *)
Fixpoint gtable_known (raw : str) : list ospec :=
  match raw with
  | [] => []
  | c :: r =>
      if N.eqb c COLON then gtable_known r
      else mkSpec (Some c) None
                  (match r with n :: _ => N.eqb n COLON | [] => false end) false
           :: gtable_known r
  end.

Definition gtable (raw : str) (unknown : list N) : list ospec :=
  gtable_known raw ++ map (fun c => mkSpec (Some c) None false false) unknown.

(* getopts knows no long options; an option-argument may be attached *)
Definition gmode : mode := mkMode false true true.

Definition cevent : Type := cevent_t.

(* what the loop must report for the option (i, oa) of the abstract invocation *)
Definition expected_event (raw : str) (unknown : list N) (o : cocc) : cevent :=
  let t := gtable raw unknown in
  let c := match sp_short (spec_at t (fst o)) with Some c => c | None => 0%N end in
  if (fst o <? length (gtable_known raw))%nat then ([c], snd o)
  else if starts_with_colon raw then ([QUESTION], Some [c]) else ([QUESTION], None).

Definition expected_missing (raw : str) (i : nat) : cevent :=
  let c := match sp_short (spec_at (gtable_known raw) i) with Some c => c | None => 0%N end in
  if starts_with_colon raw then ([COLON], Some [c]) else ([QUESTION], None).

Definition expected_events (raw : str) (unknown : list N) (os : list cocc) (missing : option nat)
  : list cevent :=
  map (expected_event raw unknown) os
  ++ match missing with Some i => [expected_missing raw i] | None => [] end.

(* the option is one of the option string (not an unknown letter) *)
Definition known_b (raw : str) (o : cocc) : bool := (fst o <? length (gtable_known raw))%nat.

Definition expected_quiet (raw : str) (os : list cocc) (missing : option nat) : bool :=
  starts_with_colon raw
  || (forallb (known_b raw) os && match missing with None => true | Some _ => false end).

(* the letters used as unknown options are unknown to the option string *)
Definition AllUnknown (raw : str) (unknown : list N) : Prop :=
  forall c, In c unknown -> judge raw c = GUnknown.

(* ---- ORACLE --------------------------------------------------------------------- *)

(* one run of the loop in the virtual shell *)
Record grun := mkGRun {
  g_args : list str;
  g_events : list gevent;
  g_rest : list str;
  g_quiet : bool;       (* nothing on stderr *)
  g_ok : bool           (* the loop ended and the shell survived *)
}.

Definition cevent_eqb (a b : cevent) : bool :=
  str_eqb (fst a) (fst b) && option_eqb str_eqb (snd a) (snd b).

Definition gevent_eqb (a b : gevent) : bool :=
  cevent_eqb (fst a) (fst b)
  && Nat.eqb (fst (snd a)) (fst (snd b)) && Nat.eqb (snd (snd a)) (snd (snd b)).

(* [None] = accepted *)
Definition oracle_getopts (raw : str) (unknown : list N) (os : list cocc) (missing : option nat)
    (ops : list str) (r : grun) : option N :=
  if negb (g_ok r) then Some 11%N
  else if negb (list_eqb cevent_eqb (map fst (g_events r)) (expected_events raw unknown os missing))
  then Some 8%N
  else if negb (list_eqb str_eqb (g_rest r) ops) then Some 9%N
  else if negb (Bool.eqb (g_quiet r) (expected_quiet raw os missing)) then Some 10%N
  else None.

(* is [args] a spelling of the abstract invocation?  (the generator's part) *)
Definition MARK : str := [90; 90]%N.

Definition gspelling_ok (raw : str) (unknown : list N) (os : list cocc) (missing : option nat)
    (ops : list str) (args : list str) : bool :=
  forallb (fun c => match judge raw c with GUnknown => true | _ => false end) unknown
  && match missing with
     | None => spells_b (gtable raw unknown) gmode os ops args
     | Some i =>
         (* the option that misses its argument is the last field: giving it
            one more field as its argument makes a spelling *)
         sp_arg (spec_at (gtable_known raw) i) && (i <? length (gtable_known raw))%nat
         && match ops with [] => true | _ :: _ => false end
         && spells_b (gtable raw unknown) gmode (os ++ [(i, Some MARK)]) [] (args ++ [MARK])
     end.

Definition model_agrees (raw : str) (r : grun) : bool :=
  match getopts_run raw (g_args r) with
  | Some (evs, rest, q) =>
      list_eqb gevent_eqb evs (g_events r) && list_eqb str_eqb rest (g_rest r)
      && Bool.eqb q (g_quiet r)
  | None => false
  end.
