(* C20 — proofs, part 2: what the model does with one option field
   (short_chars, long_field), against the grammar of Spec.v. *)
From Yv Require Import Common.Base C20.Model C20.Spec C20.ProofsNames.

Ltac splits := repeat match goal with |- _ /\ _ => split end.

Definition canons (os : list occ) : list cocc := map canon_occ os.

Lemma canons_app a b : canons (a ++ b) = canons a ++ canons b.
Proof. apply map_app. Qed.

(* ---- the mode tests ------------------------------------------------------ *)

Lemma short_allowed_b_spec m s : short_allowed_b m s = true <-> ShortAllowed m s.
Proof.
  unfold short_allowed_b, ShortAllowed. destruct (sp_ext s), (m_ext m); cbn; intuition congruence.
Qed.

Lemma long_allowed_b_spec m s : long_allowed_b m s = true <-> LongAllowed m s.
Proof.
  unfold long_allowed_b, LongAllowed. destruct (m_long m), (sp_ext s), (m_ext m); cbn; intuition congruence.
Qed.

Lemma short_test m s : sp_ext s && negb (m_ext m) = negb (short_allowed_b m s).
Proof. unfold short_allowed_b. destruct (sp_ext s), (m_ext m); reflexivity. Qed.

Lemma long_test m s : m_long m && (m_ext m || negb (sp_ext s)) = long_allowed_b m s.
Proof. unfold long_allowed_b. destruct (m_long m), (sp_ext s), (m_ext m); reflexivity. Qed.

Lemma short_allowed_dec m s : ShortAllowed m s \/ ~ ShortAllowed m s.
Proof.
  destruct (short_allowed_b m s) eqn:E.
  - left. apply short_allowed_b_spec. exact E.
  - right. intros H. apply short_allowed_b_spec in H. congruence.
Qed.

(* ---- field shapes --------------------------------------------------------- *)

Lemma is_short_field_inv f :
  is_short_field f = true -> exists c cs, f = HYPHEN :: c :: cs /\ c <> HYPHEN.
Proof.
  destruct f as [|c0 [|c1 t]]; cbn; try discriminate.
  rewrite andb_true_iff, negb_true_iff, N.eqb_eq, N.eqb_neq. intros [-> NE]. eauto.
Qed.

Lemma is_short_field_intro c cs : c <> HYPHEN -> is_short_field (HYPHEN :: c :: cs) = true.
Proof. intros NE. cbn. apply N.eqb_neq in NE. rewrite NE. reflexivity. Qed.

Lemma is_long_field_inv f :
  is_long_field f = true -> exists body, f = HYPHEN :: HYPHEN :: body /\ body <> [].
Proof.
  destruct f as [|c0 [|c1 [|c2 t]]]; cbn; try discriminate.
  rewrite andb_true_iff, !N.eqb_eq. intros [-> ->]. eexists. split; [reflexivity | discriminate].
Qed.

Lemma is_long_field_intro body :
  body <> [] -> is_long_field (HYPHEN :: HYPHEN :: body) = true
                /\ is_short_field (HYPHEN :: HYPHEN :: body) = false.
Proof. destruct body; [congruence|]. intros _. split; reflexivity. Qed.

Lemma not_option_field f :
  is_short_field f = false -> is_long_field f = false -> is_separator f = false ->
  ~ OptionLike f.
Proof.
  intros S L P [c [t ->]]. destruct (N.eqb_spec c HYPHEN) as [->|NE].
  - destruct t; [discriminate P | discriminate L].
  - rewrite is_short_field_intro in S by exact NE. discriminate.
Qed.

Lemma plain_field f :
  ~ OptionLike f ->
  is_short_field f = false /\ is_long_field f = false /\ is_separator f = false.
Proof.
  intros N. destruct f as [|c0 [|c1 t]]; [splits; reflexivity| |].
  - splits; try reflexivity. unfold is_separator. cbn. rewrite andb_false_r. reflexivity.
  - destruct (N.eqb_spec c0 HYPHEN) as [->|NE].
    + exfalso. apply N. exists c1, t. reflexivity.
    + apply N.eqb_neq in NE. unfold is_separator. cbn. rewrite NE.
      destruct t; splits; reflexivity.
Qed.

(* ---- short options ----------------------------------------------------------- *)

(* the defect found by the loop over the characters of a group, at character
   [c] followed by [post] *)
Definition ShortDefect specs m (f : str) (c : N) (post : str) (e : perr) : Prop :=
  (e = UnknownShort c f /\ NoShort specs c)
  \/ (exists i s, e = NonPortableShort c f i /\ FirstShort specs c i s /\ ~ ShortAllowed m s)
  \/ (exists i s, e = Unseparated f i /\ FirstShort specs c i s /\ ShortAllowed m s /\
                  sp_arg s = true /\ post <> [] /\ m_same m = false).

Lemma flags_nil specs m : Flags specs m [].
Proof. unfold Flags. intros c []. Qed.

Lemma flags_cons specs m c i s cs :
  FirstShort specs c i s -> sp_arg s = false -> ShortAllowed m s ->
  Flags specs m cs -> Flags specs m (c :: cs).
Proof. unfold Flags. intros A B C D c' [<-|I]; [eauto | auto]. Qed.

Lemma short_chars_struct specs m f : forall cs idx,
  match short_chars specs m f idx cs with
  | SDone os => Shorts specs m cs None (canons os)
  | SNeed os i _ =>
      exists pre c s, cs = pre ++ [c] /\ Flags specs m pre /\ FirstShort specs c i s /\
                      ShortAllowed m s /\ sp_arg s = true /\
                      forall a, Shorts specs m cs (Some a) (canons os ++ [(i, Some a)])
  | SErr e =>
      exists pre c post, cs = pre ++ c :: post /\ Flags specs m pre /\ ShortDefect specs m f c post e
  end.
Proof.
  induction cs as [|c cs IH]; intros idx; cbn [short_chars].
  - constructor.
  - destruct (find_short specs c) as [[i s]|] eqn:F.
    + apply find_short_some in F. rewrite short_test.
      destruct (short_allowed_b m s) eqn:A; cbn [negb].
      * apply short_allowed_b_spec in A. destruct (sp_arg s) eqn:Ar.
        -- destruct cs as [|c' cs'].
           ++ exists [], c, s. splits; auto using flags_nil.
              intros a. cbn. eapply Sh_next; eauto.
           ++ destruct (m_same m) eqn:Sm.
              ** cbn. eapply Sh_attached; eauto. discriminate.
              ** exists [], c, (c' :: cs'). splits; auto using flags_nil.
                 right. right. exists i, s. splits; auto. discriminate.
        -- specialize (IH (idx + utf8_len c)%N).
           destruct (short_chars specs m f (idx + utf8_len c) cs) as [e|os|os j idx']; cbn [short_cons].
           ++ destruct IH as [pre [c1 [post [E [Fl D]]]]]. exists (c :: pre), c1, post.
              subst cs. splits; eauto using flags_cons.
           ++ cbn. eapply Sh_flag; eauto.
           ++ destruct IH as [pre [c1 [s1 [E [Fl [FS [Al [Ar1 Sh]]]]]]]]. exists (c :: pre), c1, s1.
              subst cs. splits; eauto using flags_cons.
              intros a. cbn. eapply Sh_flag; eauto.
      * exists [], c, cs. splits; auto using flags_nil. right. left. exists i, s.
        splits; auto. intros H. apply short_allowed_b_spec in H. congruence.
    + exists [], c, cs. splits; auto using flags_nil. left. split; [reflexivity|].
      apply find_short_none. exact F.
Qed.

Lemma shorts_short_chars specs m cs extra cos :
  Shorts specs m cs extra cos -> forall f idx,
  match extra with
  | None => exists os, short_chars specs m f idx cs = SDone os /\ canons os = cos
  | Some a => exists os i idx', short_chars specs m f idx cs = SNeed os i idx'
                                /\ canons os ++ [(i, Some a)] = cos
  end.
Proof.
  induction 1 as [|c i s cs extra os FS Ar Al Sh IH|c i s a FS Ar Al NE Sm|c i s a FS Ar Al]; intros f idx.
  - exists []. split; reflexivity.
  - cbn [short_chars]. apply find_short_some in FS. rewrite FS, short_test.
    apply short_allowed_b_spec in Al. rewrite Al, Ar. cbn [negb].
    specialize (IH f (idx + utf8_len c)%N). destruct extra as [a|].
    + destruct IH as [os' [j [idx' [E C]]]]. rewrite E. cbn [short_cons].
      eexists _, j, idx'. split; [reflexivity|]. rewrite <- C. reflexivity.
    + destruct IH as [os' [E C]]. rewrite E. cbn [short_cons].
      eexists. split; [reflexivity|]. rewrite <- C. reflexivity.
  - cbn [short_chars]. apply find_short_some in FS. rewrite FS, short_test.
    apply short_allowed_b_spec in Al. rewrite Al, Ar, Sm. cbn [negb].
    destruct a; [congruence|]. eexists. split; reflexivity.
  - cbn [short_chars]. apply find_short_some in FS. rewrite FS, short_test.
    apply short_allowed_b_spec in Al. rewrite Al, Ar. cbn [negb].
    exists [], i, idx. split; reflexivity.
Qed.

(* leading flags do not change the kind of outcome *)
Definition short_kind (r : short_res) : N :=
  match r with SErr _ => 0%N | SDone _ => 1%N | SNeed _ _ _ => 2%N end.

Lemma short_cons_kind o r : short_kind (short_cons o r) = short_kind r.
Proof. destruct r; reflexivity. Qed.

Definition short_err (r : short_res) : option perr :=
  match r with SErr e => Some e | _ => None end.

Definition short_need (r : short_res) : option nat :=
  match r with SNeed _ i _ => Some i | _ => None end.

Lemma short_cons_err o r : short_err (short_cons o r) = short_err r.
Proof. destruct r; reflexivity. Qed.
Lemma short_cons_need o r : short_need (short_cons o r) = short_need r.
Proof. destruct r; reflexivity. Qed.

Lemma short_chars_flags specs m f pre :
  Flags specs m pre -> forall rest idx, exists idx',
    short_err (short_chars specs m f idx (pre ++ rest)) = short_err (short_chars specs m f idx' rest)
    /\ short_need (short_chars specs m f idx (pre ++ rest)) = short_need (short_chars specs m f idx' rest).
Proof.
  induction pre as [|c pre IH]; intros Fl rest idx.
  - exists idx. split; reflexivity.
  - destruct (Fl c (or_introl eq_refl)) as [i [s [FS [Ar Al]]]].
    cbn [app short_chars]. apply find_short_some in FS. rewrite FS, short_test.
    apply short_allowed_b_spec in Al. rewrite Al, Ar. cbn [negb].
    destruct (IH (fun c' I => Fl c' (or_intror I)) rest (idx + utf8_len c)%N) as [idx' [E1 E2]].
    exists idx'. rewrite short_cons_err, short_cons_need. auto.
Qed.

(* ---- long options -------------------------------------------------------------- *)

Definition LongDefect specs m (f name : str) (oeq : option str) (e : perr) : Prop :=
  (e = UnknownLong f /\ NoLongPrefix specs name)
  \/ (exists l, e = AmbiguousLong f l /\ Ambiguous specs name /\
                l = indices (long_has_prefix name) specs /\ (2 <= length l)%nat /\
                indices (long_is name) specs = [])
  \/ (exists i s, e = NonPortableLong f i /\ Resolves specs name i s /\ ~ LongAllowed m s)
  \/ (exists i s a, e = UnexpectedArg f i /\ Resolves specs name i s /\ LongAllowed m s /\
                    sp_arg s = false /\ oeq = Some a).

Lemma long_field_struct specs m body :
  let f := HYPHEN :: HYPHEN :: body in
  let (name, oeq) := split_eq body in
  match long_field specs m f with
  | LDone o =>
      exists s, Resolves specs name (o_spec o) s /\ LongAllowed m s /\
        ((sp_arg s = false /\ oeq = None /\ o_arg o = None)
         \/ (sp_arg s = true /\ exists a, oeq = Some a /\ o_arg o = Some (a, f)))
  | LNeed i => exists s, Resolves specs name i s /\ LongAllowed m s /\ sp_arg s = true /\ oeq = None
  | LErr e => LongDefect specs m f name oeq e
  end.
Proof.
  intros f. unfold long_field. subst f. cbn [skipn].
  destruct (split_eq body) as [name oeq].
  destruct (long_match specs name) as [i|l] eqn:LM.
  - apply long_match_resolves in LM. destruct LM as [s R].
    rewrite (resolves_nth _ _ _ _ R), long_test.
    destruct (long_allowed_b m s) eqn:A.
    + apply long_allowed_b_spec in A. destruct (sp_arg s) eqn:Ar, oeq as [a|]; cbn.
      * exists s. split; [exact R|]. split; [exact A|]. right. split; [exact Ar|]. eauto.
      * exists s. auto.
      * right. right. right. exists i, s, a. auto.
      * exists s. split; [exact R|]. split; [exact A|]. left. auto.
    + right. right. left. exists i, s. splits; auto.
      intros H. apply long_allowed_b_spec in H. congruence.
  - destruct l as [|a l].
    + left. split; [reflexivity|]. apply long_match_unknown. exact LM.
    + right. left. exists (a :: l). split; [reflexivity|].
      apply long_match_ambiguous in LM; [|discriminate]. tauto.
Qed.

(* LongAllowed is a conjunction; keep the destructuring above honest *)
Lemma long_allowed_dec m s : LongAllowed m s \/ ~ LongAllowed m s.
Proof.
  destruct (long_allowed_b m s) eqn:E.
  - left. apply long_allowed_b_spec. exact E.
  - right. intros H. apply long_allowed_b_spec in H. congruence.
Qed.

Lemma long_field_resolved specs m body name oeq i s :
  split_eq body = (name, oeq) -> Resolves specs name i s ->
  long_field specs m (HYPHEN :: HYPHEN :: body) =
  let f := HYPHEN :: HYPHEN :: body in
  if long_allowed_b m s then
    match sp_arg s, oeq with
    | false, None => LDone (mkOcc i f Long None)
    | false, Some _ => LErr (UnexpectedArg f i)
    | true, None => LNeed i
    | true, Some a => LDone (mkOcc i f Long (Some (a, f)))
    end
  else LErr (NonPortableLong f i).
Proof.
  intros SE R. unfold long_field. cbn [skipn]. rewrite SE.
  assert (LM : long_match specs name = inl i) by (apply long_match_resolves; eauto).
  rewrite LM, (resolves_nth _ _ _ _ R), long_test. reflexivity.
Qed.
