(* C20 — proofs about option tables. *)
From Yv Require Import Common.Base C20.Model C20.Spec C20.Tables C20.ProofsNames.

Lemma entries_ok_from_nth t : forall l i0 i s,
  entries_ok_from t i0 l = true -> nth_error l i = Some s -> entry_ok t (i0 + i) s = true.
Proof.
  induction l as [|a l IH]; intros i0 i s E N.
  - destruct i; discriminate.
  - cbn in E. apply andb_true_iff in E. destruct E as [E1 E2]. destruct i as [|i]; cbn in N.
    + inversion N; subst. rewrite Nat.add_0_r. exact E1.
    + replace (i0 + S i)%nat with (S i0 + i)%nat by lia. eapply IH; eauto.
Qed.

(* in an unambiguous table every option is reached by its own names *)
Lemma table_ok_reachable t i s :
  table_ok t = true -> nth_error t i = Some s ->
  (forall c, sp_short s = Some c -> FirstShort t c i s /\ c <> HYPHEN)
  /\ (forall l, sp_long s = Some l -> Resolves t l i s /\ l <> [] /\ ~ In EQUAL l)
  /\ (sp_short s <> None \/ sp_long s <> None).
Proof.
  intros OK N. pose proof (entries_ok_from_nth t t 0 i s OK N) as E. cbn in E.
  unfold entry_ok in E. apply andb_true_iff in E. destruct E as [E E3].
  apply andb_true_iff in E. destruct E as [E1 E2]. split; [|split].
  - intros c Sh. rewrite Sh in E1. apply andb_true_iff in E1. destruct E1 as [F H].
    apply first_short_b_spec in F. destruct F as [s' F]. split.
    + destruct F as [N' R]. rewrite N in N'. inversion N'; subst s'. split; assumption.
    + apply negb_true_iff, N.eqb_neq in H. exact H.
  - intros l Lg. rewrite Lg in E2. apply andb_true_iff in E2. destruct E2 as [E2 NE].
    apply andb_true_iff in E2. destruct E2 as [R NQ].
    apply resolves_b_spec in R. destruct R as [s' R]. split; [|split].
    + destruct R as [N' R]. rewrite N in N'. inversion N'; subst s'. split; assumption.
    + destruct l; [discriminate NE | discriminate].
    + intros I. apply negb_true_iff in NQ.
      assert (X : existsb (N.eqb EQUAL) l = true); [|congruence].
      apply existsb_exists. exists EQUAL. split; [exact I | apply N.eqb_refl].
  - destruct (sp_short s) as [c|]; [left; discriminate|].
    destruct (sp_long s) as [l|]; [right; discriminate | discriminate E3].
Qed.

Lemma gen_tables_ok : forallb (fun p => table_ok (snd p)) builtin_tables = true.
Proof. vm_compute. reflexivity. Qed.

Lemma gen_tables_reachable name t i s :
  In (name, t) builtin_tables -> nth_error t i = Some s ->
  (forall c, sp_short s = Some c -> FirstShort t c i s /\ c <> HYPHEN)
  /\ (forall l, sp_long s = Some l -> Resolves t l i s /\ l <> [] /\ ~ In EQUAL l)
  /\ (sp_short s <> None \/ sp_long s <> None).
Proof.
  intros I. apply table_ok_reachable.
  pose proof gen_tables_ok as H. rewrite forallb_forall in H. exact (H (name, t) I).
Qed.
