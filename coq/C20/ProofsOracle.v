(* C20 — proofs, part 5: the boolean oracle against the grammar and the model. *)
From Yv Require Import Common.Base C20.Model C20.Spec C20.ProofsNames C20.ProofsFields C20.ProofsMain.

Lemma str_eqb_refl a : str_eqb a a = true.
Proof. apply str_eqb_eq. reflexivity. Qed.

Lemma strs_eqb_eq a b : list_eqb str_eqb a b = true <-> a = b.
Proof. apply list_eqb_spec. apply str_eqb_eq. Qed.

Lemma strs_eqb_refl a : list_eqb str_eqb a a = true.
Proof. apply strs_eqb_eq. reflexivity. Qed.

Lemma optionlike_b_spec f : optionlike_b f = true <-> OptionLike f.
Proof.
  unfold OptionLike. destruct f as [|c0 [|c1 t]]; cbn.
  - split; [discriminate | intros [c [t E]]; discriminate].
  - split; [discriminate | intros [c [t E]]; discriminate].
  - rewrite N.eqb_eq. split; [intros ->; eauto | intros [c [t' E]]; inversion E; reflexivity].
Qed.

Lemma optionlike_b_false f : optionlike_b f = false <-> ~ OptionLike f.
Proof.
  rewrite <- optionlike_b_spec. destruct (optionlike_b f); split; congruence.
Qed.

Lemma first_short_at specs c i s : FirstShort specs c i s -> spec_at specs i = s.
Proof. intros [E _]. apply spec_at_nth. exact E. Qed.

Lemma first_short_b_intro specs c i s : FirstShort specs c i s -> first_short_b specs c i = true.
Proof. intros H. apply first_short_b_spec. eauto. Qed.

(* ---- spells_b accepts every spelling ---------------------------------------- *)

Lemma shorts_w_complete specs m cs extra os :
  Shorts specs m cs extra os -> forall os' next,
  match extra with
  | None => shorts_w specs m cs (os ++ os') next = Some (os', false)
  | Some a => shorts_w specs m cs (os ++ os') (Some a) = Some (os', true)
  end.
Proof.
  induction 1 as [|c i s cs extra os FS Ar Al Sh IH|c i s a FS Ar Al NE Sm|c i s a FS Ar Al]; intros os' next.
  - reflexivity.
  - assert (E : forall nx, shorts_w specs m (c :: cs) (((i, None) :: os) ++ os') nx
                           = shorts_w specs m cs (os ++ os') nx).
    { intros nx. cbn [shorts_w app]. rewrite (first_short_at _ _ _ _ FS), (first_short_b_intro _ _ _ _ FS).
      apply short_allowed_b_spec in Al. rewrite Al, Ar. reflexivity. }
    destruct extra as [a|]; rewrite E; apply IH; exact next.
  - cbn [shorts_w app]. rewrite (first_short_at _ _ _ _ FS), (first_short_b_intro _ _ _ _ FS).
    apply short_allowed_b_spec in Al. rewrite Al, Ar, Sm. cbn [andb].
    destruct a as [|a0 a]; [congruence|]. rewrite str_eqb_refl. reflexivity.
  - cbn [shorts_w app]. rewrite (first_short_at _ _ _ _ FS), (first_short_b_intro _ _ _ _ FS).
    apply short_allowed_b_spec in Al. rewrite Al, Ar. cbn [andb]. rewrite str_eqb_refl. reflexivity.
Qed.

Lemma resolves_b_intro specs name i s : Resolves specs name i s -> resolves_b specs name i = true.
Proof. intros H. apply resolves_b_spec. eauto. Qed.

Lemma field_w_complete specs m f extra os :
  OptField specs m f extra os -> forall os' next,
  match extra with
  | None => field_w specs m f (os ++ os') next = Some (os', false)
  | Some a => field_w specs m f (os ++ os') (Some a) = Some (os', true)
  end.
Proof.
  intros OF os' next.
  destruct OF as [c cs extra os NE Sh|name i s NN NI R Ar Al|name a i s NI R Ar Al|name a i s NN NI R Ar Al].
  - pose proof (shorts_w_complete _ _ _ _ _ Sh os' next) as H.
    cbn [field_w]. rewrite N.eqb_refl. apply N.eqb_neq in NE. rewrite NE. exact H.
  - cbn [field_w]. rewrite !N.eqb_refl. destruct name as [|n0 name]; [congruence|].
    unfold long_w. rewrite (split_eq_noeq _ NI). cbn [app].
    rewrite (resolves_nth _ _ _ _ R), (resolves_b_intro _ _ _ _ R).
    apply long_allowed_b_spec in Al. rewrite Al, Ar. reflexivity.
  - cbn [field_w]. rewrite !N.eqb_refl.
    assert (X : exists n0 t, name ++ EQUAL :: a = n0 :: t) by (destruct name; cbn; eauto).
    destruct X as [n0 [t X]]. rewrite X, <- X.
    unfold long_w. rewrite (split_eq_eq _ _ NI). cbn [app].
    rewrite (resolves_nth _ _ _ _ R), (resolves_b_intro _ _ _ _ R).
    apply long_allowed_b_spec in Al. rewrite Al, Ar. cbn [andb]. rewrite str_eqb_refl. reflexivity.
  - cbn [field_w]. rewrite !N.eqb_refl. destruct name as [|n0 name]; [congruence|].
    unfold long_w. rewrite (split_eq_noeq _ NI). cbn [app].
    rewrite (resolves_nth _ _ _ _ R), (resolves_b_intro _ _ _ _ R).
    apply long_allowed_b_spec in Al. rewrite Al, Ar. cbn [andb]. rewrite str_eqb_refl. reflexivity.
Qed.

Lemma shorts_nonempty specs m c cs extra os : Shorts specs m (c :: cs) extra os -> os <> [].
Proof. inversion 1; discriminate. Qed.

Lemma optfield_nonempty specs m f extra os : OptField specs m f extra os -> os <> [].
Proof.
  destruct 1; try discriminate. eapply shorts_nonempty; eauto.
Qed.

Lemma spells_b_nil specs m os ops :
  spells_b specs m os ops [] = match os, ops with [], [] => true | _, _ => false end.
Proof. reflexivity. Qed.

Lemma spells_b_complete specs m cos ops args :
  Spells specs m cos ops args -> spells_b specs m cos ops args = true.
Proof.
  induction 1 as [ops P|ops|f extra os os' ops rest OF Sp IH].
  - destruct P as [->|[f [t [-> N]]]]; [reflexivity|].
    cbn [spells_b]. apply optionlike_b_false in N. rewrite N, strs_eqb_refl. cbn. apply orb_true_r.
  - cbn [spells_b]. unfold SEP. rewrite str_eqb_refl, strs_eqb_refl. reflexivity.
  - pose proof (optfield_nonempty _ _ _ _ _ OF) as NE.
    pose proof (field_w_complete _ _ _ _ _ OF os') as H.
    destruct (os ++ os') as [|o0 l] eqn:EO; [destruct os; [congruence | discriminate]|].
    cbn [spells_b]. destruct extra as [a|]; cbn [opt_list app].
    + rewrite (H None). exact IH.
    + destruct rest as [|a rest'].
      * rewrite (H None). rewrite spells_b_nil in IH. exact IH.
      * rewrite (H (Some a)). exact IH.
Qed.

(* ---- ... and only spellings --------------------------------------------------- *)

Lemma shorts_w_sound specs m : forall cs os next os' b,
  shorts_w specs m cs os next = Some (os', b) ->
  exists os1, os = os1 ++ os' /\ Shorts specs m cs (if b then next else None) os1.
Proof.
  induction cs as [|c cs IH]; intros os next os' b E; cbn [shorts_w] in E.
  - inversion E; subst. exists []. split; [reflexivity | constructor].
  - destruct os as [|[i oa] os0]; [discriminate|].
    destruct (first_short_b specs c i) eqn:FB; [|discriminate].
    apply first_short_b_spec in FB. destruct FB as [s FS]. rewrite (first_short_at _ _ _ _ FS) in E.
    destruct (short_allowed_b m s) eqn:Al; [|discriminate]. apply short_allowed_b_spec in Al.
    cbn [andb] in E. destruct oa as [a|].
    + destruct (sp_arg s) eqn:Ar; [|discriminate].
      destruct cs as [|c' cs'].
      * destruct next as [n|]; [|discriminate]. destruct (str_eqb n a) eqn:Ea; [|discriminate].
        apply str_eqb_eq in Ea. subst n. inversion E; subst.
        exists [(i, Some a)]. split; [reflexivity | eapply Sh_next; eauto].
      * destruct (m_same m) eqn:Sm; [|discriminate]. cbn [andb] in E.
        destruct (str_eqb a (c' :: cs')) eqn:Ea; [|discriminate]. apply str_eqb_eq in Ea. subst a.
        inversion E; subst. exists [(i, Some (c' :: cs'))]. split; [reflexivity|].
        eapply Sh_attached; eauto. discriminate.
    + destruct (sp_arg s) eqn:Ar; [discriminate|].
      destruct (IH _ _ _ _ E) as [os1 [-> Sh]]. exists ((i, None) :: os1). split; [reflexivity|].
      eapply Sh_flag; eauto.
Qed.

Lemma field_w_sound specs m f os next os' b :
  field_w specs m f os next = Some (os', b) ->
  exists os1, os = os1 ++ os' /\ OptField specs m f (if b then next else None) os1.
Proof.
  intros E. destruct f as [|c0 [|c1 t]]; try discriminate. cbn [field_w] in E.
  destruct (N.eqb_spec c0 HYPHEN) as [->|]; [|discriminate].
  destruct (N.eqb_spec c1 HYPHEN) as [->|NE].
  - destruct t as [|t0 t]; [discriminate|]. unfold long_w in E.
    pose proof (split_eq_spec (t0 :: t)) as SE. destruct (split_eq (t0 :: t)) as [name oeq].
    destruct os as [|[i oa] os0]; [discriminate|].
    destruct (resolves_b specs name i) eqn:RB; [|discriminate].
    apply resolves_b_spec in RB. destruct RB as [s R]. rewrite (resolves_nth _ _ _ _ R) in E.
    destruct (long_allowed_b m s) eqn:Al; [|discriminate]. apply long_allowed_b_spec in Al.
    cbn [andb] in E.
    destruct (sp_arg s) eqn:Ar, oeq as [a|], oa as [a'|]; try discriminate.
    + destruct (str_eqb a a') eqn:Ea; [|discriminate]. apply str_eqb_eq in Ea. subst a'.
      inversion E; subst. destruct SE as [-> NI]. exists [(i, Some a)]. split; [reflexivity|].
      eapply OF_long_eq; eauto.
    + destruct next as [n|]; [|discriminate]. destruct (str_eqb n a') eqn:Ea; [|discriminate].
      apply str_eqb_eq in Ea. subst n. inversion E; subst. destruct SE as [<- NI].
      exists [(i, Some a')]. split; [reflexivity|]. eapply OF_long_next; eauto. discriminate.
    + inversion E; subst. destruct SE as [<- NI]. exists [(i, None)]. split; [reflexivity|].
      eapply OF_long_flag; eauto. discriminate.
  - destruct (shorts_w_sound _ _ _ _ _ _ _ E) as [os1 [-> Sh]]. exists os1. split; [reflexivity|].
    apply OF_short; assumption.
Qed.

Lemma spells_b_sound specs m : forall args cos ops,
  spells_b specs m cos ops args = true -> Spells specs m cos ops args.
Proof.
  intros args. induction args as [|f rest IH1 IH2] using args_ind2; intros cos ops E.
  - rewrite spells_b_nil in E. destruct cos, ops; try discriminate. apply Sp_plain. left. reflexivity.
  - cbn [spells_b] in E. destruct cos as [|c0 cos0].
    + apply orb_true_iff in E. destruct E as [E|E]; apply andb_true_iff in E; destruct E as [A B].
      * apply str_eqb_eq in A. apply strs_eqb_eq in B. subst. apply Sp_sep.
      * apply negb_true_iff, optionlike_b_false in A. apply strs_eqb_eq in B. subst.
        apply Sp_plain. right. eauto.
    + destruct rest as [|a rest'].
      * destruct (field_w specs m f (c0 :: cos0) None) as [[os' b]|] eqn:FW; [|discriminate].
        destruct b; [discriminate|].
        destruct (field_w_sound _ _ _ _ _ _ _ FW) as [os1 [-> OF]].
        destruct os', ops; try discriminate.
        apply (Sp_opt specs m f None os1 [] [] []); [exact OF|]. apply Sp_plain. left. reflexivity.
      * destruct (field_w specs m f (c0 :: cos0) (Some a)) as [[os' b]|] eqn:FW; [|discriminate].
        destruct (field_w_sound _ _ _ _ _ _ _ FW) as [os1 [-> OF]]. destruct b.
        -- apply (Sp_opt specs m f (Some a) os1 os' ops rest'); [exact OF|].
           apply (IH2 a rest' eq_refl). exact E.
        -- apply (Sp_opt specs m f None os1 os' ops (a :: rest')); [exact OF|]. apply IH1. exact E.
Qed.
