(* C20 — proofs, part 4: the rewrite rules of the syntax guidelines. *)
From Yv Require Import Common.Base C20.Model C20.Spec C20.ProofsNames C20.ProofsFields C20.ProofsMain.

(* the spelling-independent content of what one field contributes *)
Inductive cfield :=
| CErr
| CDone (cos : list cocc)
| CNeed (cos : list cocc) (i : nat).

Definition cshort_of (r : short_res) : cfield :=
  match r with
  | SErr _ => CErr
  | SDone os => CDone (canons os)
  | SNeed os i _ => CNeed (canons os) i
  end.

Definition clong_of (r : long_res) : cfield :=
  match r with
  | LErr _ => CErr
  | LDone o => CDone [canon_occ o]
  | LNeed i => CNeed [] i
  end.

Definition lift (cos : list cocc) (x : option (list cocc * list str)) :=
  match x with Some (c, ops) => Some (cos ++ c, ops) | None => None end.

Definition cstep (cf : cfield) (rest : list str) (k : list str -> option (list cocc * list str)) :=
  match cf with
  | CErr => None
  | CDone cos => lift cos (k rest)
  | CNeed cos i =>
      match rest with
      | [] => None
      | a :: rest' => lift (cos ++ [(i, Some a)]) (k rest')
      end
  end.

Lemma canon_prepend_lift os r : canon (prepend os r) = lift (canons os) (canon r).
Proof. rewrite canon_prepend. destruct (canon r) as [[c ops]|]; reflexivity. Qed.

Lemma canon_parse_short specs m c cs rest :
  c <> HYPHEN ->
  canon (parse specs m ((HYPHEN :: c :: cs) :: rest)) =
  cstep (cshort_of (short_chars specs m (HYPHEN :: c :: cs) 1 (c :: cs))) rest
        (fun l => canon (parse specs m l)).
Proof.
  intros NE. rewrite parse_short_step by exact NE. cbv zeta.
  destruct (short_chars specs m (HYPHEN :: c :: cs) 1 (c :: cs)) as [e|os|os i idx]; cbn [cshort_of cstep].
  - reflexivity.
  - apply canon_prepend_lift.
  - destruct rest as [|a rest']; [reflexivity|]. rewrite canon_prepend_lift, canons_app. reflexivity.
Qed.

Lemma canon_parse_long specs m body rest :
  body <> [] ->
  canon (parse specs m ((HYPHEN :: HYPHEN :: body) :: rest)) =
  cstep (clong_of (long_field specs m (HYPHEN :: HYPHEN :: body))) rest
        (fun l => canon (parse specs m l)).
Proof.
  intros NE. rewrite parse_long_step by exact NE. cbv zeta.
  destruct (long_field specs m (HYPHEN :: HYPHEN :: body)) as [e|o|i]; cbn [clong_of cstep].
  - reflexivity.
  - apply canon_prepend_lift.
  - destruct rest as [|a rest']; [reflexivity|]. rewrite canon_prepend_lift. reflexivity.
Qed.

Definition ccons (c : cocc) (cf : cfield) : cfield :=
  match cf with
  | CErr => CErr
  | CDone cos => CDone (c :: cos)
  | CNeed cos i => CNeed (c :: cos) i
  end.

Lemma cshort_cons o r : cshort_of (short_cons o r) = ccons (canon_occ o) (cshort_of r).
Proof. destruct r; reflexivity. Qed.

(* the content of a group does not depend on the field text or the byte offset *)
Lemma cshort_indep specs m cs : forall f idx f' idx',
  cshort_of (short_chars specs m f idx cs) = cshort_of (short_chars specs m f' idx' cs).
Proof.
  induction cs as [|c cs IH]; intros f idx f' idx'; cbn [short_chars]; [reflexivity|].
  destruct (find_short specs c) as [[i s]|]; [|reflexivity].
  destruct (sp_ext s && negb (m_ext m)); [reflexivity|].
  destruct (sp_arg s).
  - destruct cs; [reflexivity|]. destruct (m_same m); reflexivity.
  - rewrite !cshort_cons. rewrite (IH f (idx + utf8_len c)%N f' (idx' + utf8_len c)%N). reflexivity.
Qed.

Lemma lift_lift a b x : lift a (lift b x) = lift (a ++ b) x.
Proof. destruct x as [[c ops]|]; cbn; [rewrite app_assoc|]; reflexivity. Qed.

Lemma cstep_ccons c cf rest k : cstep (ccons c cf) rest k = lift [c] (cstep cf rest k).
Proof.
  destruct cf as [|cos|cos i]; cbn; [reflexivity| |].
  - rewrite lift_lift. reflexivity.
  - destruct rest; [reflexivity|]. rewrite lift_lift. reflexivity.
Qed.

Lemma short_chars_flag specs m f idx c cs i s :
  find_short specs c = Some (i, s) -> short_allowed_b m s = true -> sp_arg s = false ->
  short_chars specs m f idx (c :: cs) =
  short_cons (mkOcc i f (Short idx) None) (short_chars specs m f (idx + utf8_len c) cs).
Proof.
  intros F A Ar. cbn [short_chars]. rewrite F, short_test, A, Ar. reflexivity.
Qed.

(* ---- the rules ---------------------------------------------------------------------- *)

Lemma rule_group specs m c i s c' cs rest :
  FirstShort specs c i s -> sp_arg s = false -> ShortAllowed m s ->
  c <> HYPHEN -> c' <> HYPHEN ->
  canon (parse specs m ((HYPHEN :: c :: c' :: cs) :: rest)) =
  canon (parse specs m ([HYPHEN; c] :: (HYPHEN :: c' :: cs) :: rest)).
Proof.
  intros FS Ar Al NE NE'. rewrite !canon_parse_short by assumption.
  apply find_short_some in FS. apply short_allowed_b_spec in Al.
  rewrite !(short_chars_flag specs m _ _ c _ i s FS Al Ar).
  rewrite !cshort_cons, !cstep_ccons.
  change (short_chars specs m [HYPHEN; c] (1 + utf8_len c) []) with (SDone []).
  cbn [cshort_of canons map cstep lift app].
  rewrite canon_parse_short by assumption.
  rewrite (cshort_indep specs m (c' :: cs) (HYPHEN :: c :: c' :: cs) (1 + utf8_len c)%N (HYPHEN :: c' :: cs) 1%N).
  cbn [canon_occ o_spec o_arg option_map].
  destruct (cstep _ rest _) as [[x y]|]; reflexivity.
Qed.

Lemma rule_attach specs m c i s a rest :
  FirstShort specs c i s -> sp_arg s = true -> m_same m = true ->
  c <> HYPHEN -> a <> [] ->
  canon (parse specs m ((HYPHEN :: c :: a) :: rest)) =
  canon (parse specs m ([HYPHEN; c] :: a :: rest)).
Proof.
  intros FS Ar Sm NE NA. rewrite !canon_parse_short by assumption.
  apply find_short_some in FS. cbn [short_chars]. rewrite FS, Ar, Sm.
  destruct (sp_ext s && negb (m_ext m)); [reflexivity|].
  destruct a as [|a0 a]; [congruence|]. reflexivity.
Qed.

Lemma rule_equal specs m name i s a rest :
  Resolves specs name i s -> sp_arg s = true -> name <> [] -> ~ In EQUAL name ->
  canon (parse specs m ((HYPHEN :: HYPHEN :: name ++ EQUAL :: a) :: rest)) =
  canon (parse specs m ((HYPHEN :: HYPHEN :: name) :: a :: rest)).
Proof.
  intros R Ar NN NI. rewrite !canon_parse_long by (try assumption; destruct name; discriminate).
  rewrite (long_field_resolved specs m _ name (Some a) i s (split_eq_eq _ _ NI) R).
  rewrite (long_field_resolved specs m _ name None i s (split_eq_noeq _ NI) R).
  cbv zeta. rewrite Ar. destruct (long_allowed_b m s); reflexivity.
Qed.

Lemma rule_abbrev specs m p q i s rest :
  Resolves specs p i s -> Resolves specs q i s ->
  p <> [] -> q <> [] -> ~ In EQUAL p -> ~ In EQUAL q ->
  canon (parse specs m ((HYPHEN :: HYPHEN :: p) :: rest)) =
  canon (parse specs m ((HYPHEN :: HYPHEN :: q) :: rest)).
Proof.
  intros Rp Rq NP NQ IP IQ. rewrite !canon_parse_long by assumption.
  rewrite (long_field_resolved specs m _ p None i s (split_eq_noeq _ IP) Rp).
  rewrite (long_field_resolved specs m _ q None i s (split_eq_noeq _ IQ) Rq).
  cbv zeta. destruct (long_allowed_b m s), (sp_arg s); reflexivity.
Qed.

Lemma rule_abbrev_equal specs m p q i s a rest :
  Resolves specs p i s -> Resolves specs q i s -> ~ In EQUAL p -> ~ In EQUAL q ->
  canon (parse specs m ((HYPHEN :: HYPHEN :: p ++ EQUAL :: a) :: rest)) =
  canon (parse specs m ((HYPHEN :: HYPHEN :: q ++ EQUAL :: a) :: rest)).
Proof.
  intros Rp Rq IP IQ. rewrite !canon_parse_long by (destruct p + destruct q; discriminate).
  rewrite (long_field_resolved specs m _ p (Some a) i s (split_eq_eq _ _ IP) Rp).
  rewrite (long_field_resolved specs m _ q (Some a) i s (split_eq_eq _ _ IQ) Rq).
  cbv zeta. destruct (long_allowed_b m s), (sp_arg s); reflexivity.
Qed.

Lemma rule_short_long specs m c name i s rest :
  FirstShort specs c i s -> Resolves specs name i s -> LongAllowed m s ->
  c <> HYPHEN -> name <> [] -> ~ In EQUAL name ->
  canon (parse specs m ([HYPHEN; c] :: rest)) =
  canon (parse specs m ((HYPHEN :: HYPHEN :: name) :: rest)).
Proof.
  intros FS R Al NE NN NI. rewrite canon_parse_short, canon_parse_long by assumption.
  rewrite (long_field_resolved specs m _ name None i s (split_eq_noeq _ NI) R). cbv zeta.
  assert (SA : short_allowed_b m s = true).
  { apply short_allowed_b_spec. intros X. apply Al. exact X. }
  apply long_allowed_b_spec in Al. rewrite Al.
  apply find_short_some in FS. cbn [short_chars]. rewrite FS, short_test, SA. cbn [negb].
  destruct (sp_arg s); reflexivity.
Qed.

Lemma rule_sep specs m ops :
  PlainStart ops -> canon (parse specs m ops) = canon (parse specs m (SEP :: ops)).
Proof. intros P. rewrite parse_plain by exact P. reflexivity. Qed.

Lemma rewrite_same specs m l r :
  Rewrite specs m l r -> canon (parse specs m l) = canon (parse specs m r).
Proof.
  intros RW. destruct RW.
  - eapply rule_group; eauto.
  - eapply rule_attach; eauto.
  - eapply rule_equal; eauto.
  - eapply rule_abbrev; eauto.
  - eapply rule_abbrev_equal; eauto.
  - eapply rule_short_long; eauto.
  - apply rule_sep; assumption.
Qed.

Lemma optprefix_congruence specs m pre cos l r :
  OptPrefix specs m pre cos ->
  canon (parse specs m l) = canon (parse specs m r) ->
  canon (parse specs m (pre ++ l)) = canon (parse specs m (pre ++ r)).
Proof.
  intros OP E. destruct (optprefix_parse _ _ _ _ OP) as [os [_ H]].
  rewrite !H, !canon_prepend, E. reflexivity.
Qed.

Lemma respell_same specs m a b :
  Respell specs m a b -> canon (parse specs m a) = canon (parse specs m b).
Proof.
  induction 1 as [pre cos l r OP RW| | |].
  - eapply optprefix_congruence; [exact OP | apply rewrite_same; exact RW].
  - reflexivity.
  - congruence.
  - congruence.
Qed.

Lemma double_dash specs m pre cos ops :
  OptPrefix specs m pre cos -> canon (parse specs m (pre ++ SEP :: ops)) = Some (cos, ops).
Proof.
  intros OP. destruct (optprefix_parse _ _ _ _ OP) as [os [C H]].
  rewrite H, parse_sep, canon_prepend. cbn. rewrite app_nil_r, C. reflexivity.
Qed.
