(* C20 — the kill built-in's own argument parser: MODEL of
   yash-builtin/src/kill/syntax.rs (`parse_signal`, `set_signal`, `parse`,
   `parse_list_case`) with the `portable` shell option off, and the SPEC of
   the spellings the documentation (docs/src/builtins/kill.md) describes.

   External component: `Signals::str2sig` of the system, given as a table of
   (upper-case name without SIG, number); real-time names (RTMIN+n ...) are
   outside the table and outside the generator. *)
From Yv Require Import Common.Base C20.Model C20.Spec.

Definition sigtable : Type := list (str * Z).

Definition CH_s : N := 115.  Definition CH_n : N := 110.
Definition CH_l : N := 108.  Definition CH_v : N := 118.
Definition PLUS : N := 43.

(* ---- numbers and signal names ------------------------------------------------ *)

Fixpoint digits_val (acc : Z) (s : str) : option Z :=
  match s with
  | [] => Some acc
  | c :: r => if (48 <=? c)%N && (c <=? 57)%N
              then digits_val (acc * 10 + Z.of_N (c - 48)) r else None
  end.

(* str::parse::<i32>() *)
Definition parse_i32 (s : str) : option Z :=
  let '(neg, ds) := match s with
                    | c :: r => if N.eqb c PLUS then (false, r)
                                else if N.eqb c HYPHEN then (true, r) else (false, s)
                    | [] => (false, s)
                    end in
  match ds with
  | [] => None
  | _ :: _ =>
      match digits_val 0 ds with
      | Some v => let v' := if neg then (- v)%Z else v in
                  if (-2147483648 <=? v')%Z && (v' <=? 2147483647)%Z then Some v' else None
      | None => None
      end
  end.

Definition upper (c : N) : N := if (97 <=? c)%N && (c <=? 122)%N then (c - 32)%N else c.

Fixpoint lookup_sig (name : str) (t : sigtable) : option Z :=
  match t with
  | [] => None
  | (n, z) :: t' => if str_eqb n name then Some z else lookup_sig name t'
  end.

Definition strip_sig (u : str) : str :=
  match u with
  | 83 :: 73 :: 71 :: r => r       (* "SIG" *)
  | _ => u
  end%N.

(* parse_signal with allow_sig_prefix = true *)
Definition parse_signal (t : sigtable) (spec : str) : option Z :=
  match parse_i32 spec with
  | Some n => Some n
  | None => lookup_sig (strip_sig (map upper spec)) t
  end.

Definition orelse {A} (a b : option A) : option A := match a with Some _ => a | None => b end.

(* ---- MODEL ---------------------------------------------------------------------- *)

Inductive kcmd :=
| KSend (signal : Z) (origin : option str) (targets : list str)
| KPrint (signals : list str) (verbose : bool).

Inductive kerr :=
| KUnknownOption (f : str)
| KConflicting (signal_arg : str) (name : N) (loc : str)
| KMissingSignal (name : N) (loc : str)
| KMultiple (f1 f2 : str)
| KInvalidSignal (f : str)
| KMissingTarget.

Inductive kresult := KOk (c : kcmd) | KErr (e : kerr).

Record kstate := mkK {
  ks_sig : Z;
  ks_origin : option str;
  ks_list : option str;       (* text of the argument the last `l` was in *)
  ks_verbose : option str
}.

Definition set_signal (st : kstate) (new : option Z) (origin : str) : kerr + kstate :=
  match new with
  | None => inl (KInvalidSignal origin)
  | Some n =>
      match ks_origin st with
      | Some prev => inl (KMultiple prev origin)
      | None => inr (mkK n (Some origin) (ks_list st) (ks_verbose st))
      end
  end.

Inductive kstep := KSErr (e : kerr) | KSDone (st : kstate) | KSNeed (st : kstate) (c : N).

Definition of_set (r : kerr + kstate) : kstep :=
  match r with inl e => KSErr e | inr st => KSDone st end.

(* the `while let Some(option) = chars.next()` loop over one argument *)
Fixpoint kchars (t : sigtable) (arg options : str) (st : kstate) (cs : str) : kstep :=
  match cs with
  | [] => KSDone st
  | c :: rem =>
      if N.eqb c CH_s || N.eqb c CH_n then
        match rem with
        | [] => KSNeed st c
        | _ :: _ => of_set (set_signal st (orelse (parse_signal t rem) (parse_signal t options)) arg)
        end
      else if N.eqb c CH_l then kchars t arg options (mkK (ks_sig st) (ks_origin st) (Some arg) (ks_verbose st)) rem
      else if N.eqb c CH_v then kchars t arg options (mkK (ks_sig st) (ks_origin st) (ks_list st) (Some arg)) rem
      else match set_signal st (parse_signal t options) arg with
           | inl (KInvalidSignal f) => KSErr (KUnknownOption f)
           | inl e => KSErr e
           | inr st' => KSDone st'
           end
  end.

(* arg.value.strip_prefix('-').is_some_and(|s| !s.is_empty()) *)
Definition is_option_arg (f : str) : bool :=
  match f with c :: _ :: _ => N.eqb c HYPHEN | _ => false end.

Fixpoint kloop (t : sigtable) (st : kstate) (args : list str) : kerr + (kstate * list str) :=
  match args with
  | [] => inr (st, [])
  | f :: rest =>
      if is_option_arg f then
        let options := skipn 1 f in
        if str_eqb options [HYPHEN] then inr (st, rest)
        else match kchars t f options st options with
             | KSErr e => inl e
             | KSDone st' => kloop t st' rest
             | KSNeed st' c =>
                 match rest with
                 | [] => inl (KMissingSignal c f)
                 | a :: rest' =>
                     match set_signal st' (parse_signal t a) a with
                     | inl e => inl e
                     | inr st'' => kloop t st'' rest'
                     end
                 end
             end
      else inr (st, args)
  end.

Definition list_case (ops : list str) (origin : option str) (name : N) (loc : str) (verbose : bool) : kresult :=
  match origin with
  | Some a => KErr (KConflicting a name loc)
  | None => KOk (KPrint ops verbose)
  end.

Definition kfinish (st : kstate) (ops : list str) : kresult :=
  match ks_verbose st with
  | Some loc => list_case ops (ks_origin st) CH_v loc true
  | None =>
      match ks_list st with
      | Some loc => list_case ops (ks_origin st) CH_l loc false
      | None => match ops with
                | [] => KErr KMissingTarget
                | _ :: _ => KOk (KSend (ks_sig st) (ks_origin st) ops)
                end
      end
  end.

Definition kfrom (t : sigtable) (st : kstate) (args : list str) : kresult :=
  match kloop t st args with
  | inl e => KErr e
  | inr (st', ops) => kfinish st' ops
  end.

(* syntax::parse; [term] = SIGTERM of the system *)
Definition kparse (t : sigtable) (term : Z) (args : list str) : kresult :=
  kfrom t (mkK term None None None) args.

(* ---- SPEC ------------------------------------------------------------------------- *)

(* what the command means, whatever its spelling *)
Inductive ccmd := CSend (signal : Z) (targets : list str) | CPrint (verbose : bool) (signals : list str).

Definition kcanon (r : kresult) : option ccmd :=
  match r with
  | KOk (KSend sg _ targets) => Some (CSend sg targets)
  | KOk (KPrint sigs verbose) => Some (CPrint verbose sigs)
  | KErr _ => None
  end.

Definition is_lv (c : N) : bool := N.eqb c CH_l || N.eqb c CH_v.

(* -l, -v, -lv, ... *)
Definition lv_cluster (f : str) : bool :=
  match f with
  | c0 :: c :: cs => N.eqb c0 HYPHEN && forallb is_lv (c :: cs)
  | _ => false
  end.

(* the signal an argument of the forms -SIGNAL, -sSIGNAL, -nSIGNAL denotes *)
Definition sig_of_field (t : sigtable) (f : str) : option Z :=
  match f with
  | c0 :: c :: rem =>
      if negb (N.eqb c0 HYPHEN) then None
      else if N.eqb c CH_s || N.eqb c CH_n then
        match rem with
        | [] => None
        | _ :: _ => orelse (parse_signal t rem) (parse_signal t (c :: rem))
        end
      else parse_signal t (c :: rem)
  | _ => None
  end.

(* Declaratively: after the options come `--` and anything, or operands whose
   first does not look like an option. *)
Inductive Operands : list str -> list str -> Prop :=
| Op_sep : forall ops, Operands (SEP :: ops) ops
| Op_nil : Operands [] []
| Op_plain : forall f ops, is_option_arg f = false -> Operands (f :: ops) (f :: ops).

Inductive Clusters : list str -> bool -> list str -> Prop :=
| Cl_end : forall rest, Clusters rest false rest
| Cl_cons : forall f rest v rest', lv_cluster f = true -> Clusters rest v rest' ->
            Clusters (f :: rest) (existsb (N.eqb CH_v) f || v) rest'.

(* [KSpells t term c args]: the vector is a documented way of writing [c] *)
Inductive KSpells (t : sigtable) (term : Z) : ccmd -> list str -> Prop :=
(* kill target...      (SIGTERM) *)
| KS_default : forall args ops, Operands args ops -> ops <> [] -> KSpells t term (CSend term ops) args
(* kill -s SIGNAL target...  /  kill -n SIGNAL target... *)
| KS_separate : forall f a sg rest ops,
    (f = [HYPHEN; CH_s] \/ f = [HYPHEN; CH_n]) -> parse_signal t a = Some sg ->
    Operands rest ops -> ops <> [] -> KSpells t term (CSend sg ops) (f :: a :: rest)
(* kill -sSIGNAL / -nSIGNAL / -SIGNAL target... *)
| KS_attached : forall f sg rest ops,
    lv_cluster f = false -> sig_of_field t f = Some sg ->
    Operands rest ops -> ops <> [] -> KSpells t term (CSend sg ops) (f :: rest)
(* kill -l|-v [operand...] *)
| KS_print : forall f rest v rest' ops,
    lv_cluster f = true -> Clusters (f :: rest) v rest' -> Operands rest' ops ->
    (forall g r, rest' = g :: r -> lv_cluster g = false) ->
    KSpells t term (CPrint v ops) (f :: rest).

(* the same, as a function (the boolean form used as the oracle) *)
Definition operands_of (args : list str) : option (list str) :=
  match args with
  | [] => Some []
  | f :: rest => if str_eqb f SEP then Some rest
                 else if is_option_arg f then None else Some args
  end.

Fixpoint print_mode (verbose : bool) (args : list str) : option ccmd :=
  match args with
  | [] => Some (CPrint verbose [])
  | f :: rest =>
      if lv_cluster f then print_mode (verbose || existsb (N.eqb CH_v) f) rest
      else match operands_of args with
           | Some ops => Some (CPrint verbose ops)
           | None => None
           end
  end.

Definition send (sg : Z) (ops : option (list str)) : option ccmd :=
  match ops with
  | Some (o :: ops') => Some (CSend sg (o :: ops'))
  | _ => None
  end.

Definition kref (t : sigtable) (term : Z) (args : list str) : option ccmd :=
  match args with
  | [] => None
  | f :: rest =>
      if negb (is_option_arg f) || str_eqb f SEP then send term (operands_of args)
      else if lv_cluster f then print_mode false args
      else if str_eqb f [HYPHEN; CH_s] || str_eqb f [HYPHEN; CH_n] then
        match rest with
        | a :: rest' => match parse_signal t a with
                        | Some sg => send sg (operands_of rest')
                        | None => None
                        end
        | [] => None
        end
      else match sig_of_field t f with
           | Some sg => send sg (operands_of rest)
           | None => None
           end
  end.

(* The open finding F42 (tag C20-kill-lv-cluster): the first argument is the
   obsolete -SIGNAL form of a signal name that starts with a lower-case `l`
   or `v` (-lost, -vtalrm): the letter is taken as the -l/-v option. *)
Definition known_lv (t : sigtable) (args : list str) : bool :=
  match args with
  | (c0 :: c :: rem) :: _ =>
      N.eqb c0 HYPHEN && is_lv c && negb (forallb is_lv (c :: rem))
      && match parse_signal t (c :: rem) with Some _ => true | None => false end
  | _ => false
  end.

(* ---- ORACLE ----------------------------------------------------------------------- *)

Definition ccmd_eqb (a b : ccmd) : bool :=
  match a, b with
  | CSend s1 t1, CSend s2 t2 => Z.eqb s1 s2 && list_eqb str_eqb t1 t2
  | CPrint v1 o1, CPrint v2 o2 => Bool.eqb v1 v2 && list_eqb str_eqb o1 o2
  | _, _ => false
  end.

(* [None] = accepted: what the implementation returned means what the
   documented grammar says the vector means (or both reject) *)
Definition oracle_kill (t : sigtable) (term : Z) (args : list str) (r : kresult) : option N :=
  if option_eqb ccmd_eqb (kcanon r) (kref t term args) then None
  else match kcanon r with Some _ => Some 12%N | None => Some 13%N end.

Definition kerr_eqb (a b : kerr) : bool :=
  match a, b with
  | KUnknownOption f, KUnknownOption g => str_eqb f g
  | KConflicting a1 n1 l1, KConflicting a2 n2 l2 => str_eqb a1 a2 && N.eqb n1 n2 && str_eqb l1 l2
  | KMissingSignal n1 l1, KMissingSignal n2 l2 => N.eqb n1 n2 && str_eqb l1 l2
  | KMultiple a1 b1, KMultiple a2 b2 => str_eqb a1 a2 && str_eqb b1 b2
  | KInvalidSignal f, KInvalidSignal g => str_eqb f g
  | KMissingTarget, KMissingTarget => true
  | _, _ => false
  end.

Definition kresult_eqb (a b : kresult) : bool :=
  match a, b with
  | KOk (KSend s1 o1 t1), KOk (KSend s2 o2 t2) =>
      Z.eqb s1 s2 && option_eqb str_eqb o1 o2 && list_eqb str_eqb t1 t2
  | KOk (KPrint s1 v1), KOk (KPrint s2 v2) => list_eqb str_eqb s1 s2 && Bool.eqb v1 v2
  | KErr e1, KErr e2 => kerr_eqb e1 e2
  | _, _ => false
  end.
