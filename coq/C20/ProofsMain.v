(* C20 — proofs, part 3: the parser against the grammar of spellings. *)
From Yv Require Import Common.Base C20.Model C20.Spec C20.ProofsNames C20.ProofsFields.

(* induction for functions that consume one or two arguments per step *)
Lemma args_ind2 (P : list str -> Prop) :
  P [] ->
  (forall f rest, P rest -> (forall a rest', rest = a :: rest' -> P rest') -> P (f :: rest)) ->
  forall args, P args.
Proof.
  intros H0 HS.
  assert (H : forall args, P args /\ (forall a rest', args = a :: rest' -> P rest')).
  { induction args as [|f rest [IH1 IH2]].
    - split; [exact H0 | discriminate].
    - split; [apply HS; assumption|]. intros a rest' E. inversion E; subst. exact IH1. }
  intros args. apply H.
Qed.

Lemma prepend_ok os r os' ops :
  prepend os r = Ok os' ops -> exists os2, r = Ok os2 ops /\ os' = os ++ os2.
Proof. destruct r; cbn; intros E; inversion E; eauto. Qed.

Lemma prepend_err os r e : prepend os r = Err e -> r = Err e.
Proof. destruct r; cbn; intros E; inversion E; eauto. Qed.

Lemma canon_prepend os r :
  canon (prepend os r) =
  match canon r with Some (cos, ops) => Some (canons os ++ cos, ops) | None => None end.
Proof. destruct r; cbn; [rewrite map_app|]; reflexivity. Qed.

(* ---- one step of the parser -------------------------------------------------- *)

Lemma parse_short_step specs m c cs rest :
  c <> HYPHEN ->
  parse specs m ((HYPHEN :: c :: cs) :: rest) =
  let f := HYPHEN :: c :: cs in
  match short_chars specs m f 1 (c :: cs) with
  | SErr e => Err e
  | SDone os => prepend os (parse specs m rest)
  | SNeed os i idx =>
      match rest with
      | [] => Err (MissingArg f i)
      | a :: rest' => prepend (os ++ [mkOcc i f (Short idx) (Some (a, a))]) (parse specs m rest')
      end
  end.
Proof.
  intros NE. cbn [parse]. rewrite is_short_field_intro by exact NE. reflexivity.
Qed.

Lemma parse_long_step specs m body rest :
  body <> [] ->
  parse specs m ((HYPHEN :: HYPHEN :: body) :: rest) =
  let f := HYPHEN :: HYPHEN :: body in
  match long_field specs m f with
  | LErr e => Err e
  | LDone o => prepend [o] (parse specs m rest)
  | LNeed i =>
      match rest with
      | [] => Err (MissingArg f i)
      | a :: rest' => prepend [mkOcc i f Long (Some (a, a))] (parse specs m rest')
      end
  end.
Proof.
  intros NE. cbn [parse]. destruct (is_long_field_intro body NE) as [-> ->]. reflexivity.
Qed.

Lemma parse_sep specs m ops : parse specs m (SEP :: ops) = Ok [] ops.
Proof. reflexivity. Qed.

Lemma parse_plain specs m ops : PlainStart ops -> parse specs m ops = Ok [] ops.
Proof.
  intros [->|[f [t [-> N]]]]; [reflexivity|].
  destruct (plain_field f N) as [S [L P]]. cbn [parse]. rewrite S, L, P. reflexivity.
Qed.

(* ---- soundness: every spelling is read as the invocation it spells --------- *)

Lemma optfield_parse specs m f extra cos :
  OptField specs m f extra cos ->
  exists os, canons os = cos /\ forall rest,
             parse specs m (f :: opt_list extra ++ rest) = prepend os (parse specs m rest).
Proof.
  intros OF. destruct OF as [c cs extra os NE Sh|name i s NN NI R Ar Al|name a i s NI R Ar Al|name a i s NN NI R Ar Al].
  - pose proof (shorts_short_chars _ _ _ _ _ Sh (HYPHEN :: c :: cs) 1%N) as H.
    destruct extra as [a|].
    + destruct H as [os1 [i [idx' [E C]]]]. eexists. split;
        [|intros rest; rewrite parse_short_step by exact NE; cbv zeta; rewrite E; cbn [opt_list app]; reflexivity].
      rewrite canons_app. exact C.
    + destruct H as [os1 [E C]]. eexists. split;
        [|intros rest; rewrite parse_short_step by exact NE; cbv zeta; rewrite E; cbn [opt_list app]; reflexivity].
      exact C.
  - apply long_allowed_b_spec in Al.
    eexists. split; [|intros rest; rewrite parse_long_step by exact NN; cbv zeta;
      rewrite (long_field_resolved specs m name name None i s (split_eq_noeq _ NI) R); cbv zeta;
      rewrite Al, Ar; cbn [opt_list app]; reflexivity]. reflexivity.
  - apply long_allowed_b_spec in Al.
    eexists. split; [|intros rest; rewrite parse_long_step by (destruct name; discriminate); cbv zeta;
      rewrite (long_field_resolved specs m _ name (Some a) i s (split_eq_eq _ _ NI) R); cbv zeta;
      rewrite Al, Ar; cbn [opt_list app]; reflexivity]. reflexivity.
  - apply long_allowed_b_spec in Al.
    eexists. split; [|intros rest; rewrite parse_long_step by exact NN; cbv zeta;
      rewrite (long_field_resolved specs m name name None i s (split_eq_noeq _ NI) R); cbv zeta;
      rewrite Al, Ar; cbn [opt_list app]; reflexivity]. reflexivity.
Qed.

Lemma parse_sound_lemma specs m cos ops args :
  Spells specs m cos ops args -> canon (parse specs m args) = Some (cos, ops).
Proof.
  induction 1 as [ops P|ops|f extra os os' ops rest OF Sp IH].
  - rewrite parse_plain by exact P. reflexivity.
  - rewrite parse_sep. reflexivity.
  - destruct (optfield_parse _ _ _ _ _ OF) as [os1 [C E]].
    rewrite E, canon_prepend, IH, C. reflexivity.
Qed.

(* complete option fields in front: the parser reads them and goes on *)
Lemma optprefix_parse specs m pre cos :
  OptPrefix specs m pre cos ->
  exists os, canons os = cos /\
             forall rest, parse specs m (pre ++ rest) = prepend os (parse specs m rest).
Proof.
  induction 1 as [|f extra os pre os' OF OP IH].
  - exists []. split; [reflexivity|]. intros rest. cbn [app]. destruct (parse specs m rest); reflexivity.
  - destruct IH as [os2 [C2 E2]].
    pose proof (optfield_parse _ _ _ _ _ OF) as X.
    destruct X as [os1 [C1 E1]]. exists (os1 ++ os2). split.
    + rewrite canons_app, C1, C2. reflexivity.
    + intros rest. cbn [app]. rewrite <- app_assoc, E1, E2.
      destruct (parse specs m rest); cbn; [rewrite app_assoc|]; reflexivity.
Qed.

(* ---- completeness: what the parser returns is a reading of the vector ------- *)

Lemma parse_complete_lemma specs m : forall args os ops,
  parse specs m args = Ok os ops -> Spells specs m (canons os) ops args.
Proof.
  intros args. induction args as [|f rest IH1 IH2] using args_ind2; intros os ops E.
  - cbn in E. inversion E; subst. apply Sp_plain. left. reflexivity.
  - destruct (is_short_field f) eqn:SF.
    { apply is_short_field_inv in SF. destruct SF as [c [cs [-> NE]]].
      rewrite parse_short_step in E by exact NE. cbv zeta in E.
      pose proof (short_chars_struct specs m (HYPHEN :: c :: cs) (c :: cs) 1%N) as H.
      destruct (short_chars specs m (HYPHEN :: c :: cs) 1 (c :: cs)) as [e|os1|os1 i idx].
      - discriminate.
      - apply prepend_ok in E. destruct E as [os2 [E ->]]. rewrite canons_app.
        apply (Sp_opt specs m _ None); [apply OF_short; assumption | apply IH1; exact E].
      - destruct H as [pre [c1 [s [_ [_ [_ [_ [_ Sh]]]]]]]].
        destruct rest as [|a rest']; [discriminate|].
        apply prepend_ok in E. destruct E as [os2 [E ->]]. rewrite !canons_app. cbn [canons map].
        apply (Sp_opt specs m _ (Some a)); [apply OF_short; [assumption | apply Sh]|].
        apply (IH2 a rest' eq_refl). exact E. }
    destruct (is_long_field f) eqn:LF.
    { apply is_long_field_inv in LF. destruct LF as [body [-> NE]].
      rewrite parse_long_step in E by exact NE. cbv zeta in E.
      pose proof (long_field_struct specs m body) as H. cbv zeta in H.
      pose proof (split_eq_spec body) as SE.
      destruct (split_eq body) as [name oeq].
      destruct (long_field specs m (HYPHEN :: HYPHEN :: body)) as [e|o|i].
      - discriminate.
      - apply prepend_ok in E. destruct E as [os2 [E ->]]. cbn [app canons map].
        change (canon_occ o :: map canon_occ os2) with ([canon_occ o] ++ canons os2).
        destruct H as [s [R [Al [[Ar [-> Oa]]|[Ar [a [-> Oa]]]]]]]; destruct SE as [-> NI].
        + apply (Sp_opt specs m _ None); [|apply IH1; exact E].
          unfold canon_occ. rewrite Oa. cbn [option_map]. eapply OF_long_flag; eauto.
        + apply (Sp_opt specs m _ None); [|apply IH1; exact E].
          unfold canon_occ. rewrite Oa. cbn [option_map fst]. eapply OF_long_eq; eauto.
      - destruct H as [s [R [Al [Ar ->]]]]. destruct SE as [-> NI].
        destruct rest as [|a rest']; [discriminate|].
        apply prepend_ok in E. destruct E as [os2 [E ->]]. cbn [app canons map].
        change (canon_occ (mkOcc i (HYPHEN :: HYPHEN :: name) Long (Some (a, a))) :: map canon_occ os2)
          with ([(i, Some a)] ++ canons os2).
        apply (Sp_opt specs m _ (Some a)); [eapply OF_long_next; eauto|].
        apply (IH2 a rest' eq_refl). exact E. }
    cbn [parse] in E. rewrite SF, LF in E.
    destruct (is_separator f) eqn:SP.
    + inversion E; subst. apply str_eqb_eq in SP. subst f. apply Sp_sep.
    + inversion E; subst. apply Sp_plain. right. exists f, rest. split; [reflexivity|].
      apply not_option_field; assumption.
Qed.

(* ---- rejections -------------------------------------------------------------------- *)

Lemma malformed_cons specs m f extra os args d :
  OptField specs m f extra os -> Malformed specs m args d ->
  Malformed specs m (f :: opt_list extra ++ args) d.
Proof.
  intros OF [pre [os' [b [rest [-> [OP BF]]]]]].
  exists (f :: opt_list extra ++ pre), (os ++ os'), b, rest. split; [|split; [|exact BF]].
  - cbn. rewrite <- app_assoc. reflexivity.
  - apply OP_cons; assumption.
Qed.

Lemma malformed_here specs m f rest d :
  BadField specs m f rest d -> Malformed specs m (f :: rest) d.
Proof. intros BF. exists [], [], f, rest. split; [reflexivity|]. split; [constructor | exact BF]. Qed.

Lemma parse_err_malformed specs m : forall args e,
  parse specs m args = Err e -> Malformed specs m args (class_of e).
Proof.
  intros args. induction args as [|f rest IH1 IH2] using args_ind2; intros e E.
  - discriminate.
  - destruct (is_short_field f) eqn:SF.
    { apply is_short_field_inv in SF. destruct SF as [c [cs [-> NE]]].
      rewrite parse_short_step in E by exact NE. cbv zeta in E.
      pose proof (short_chars_struct specs m (HYPHEN :: c :: cs) (c :: cs) 1%N) as H.
      destruct (short_chars specs m (HYPHEN :: c :: cs) 1 (c :: cs)) as [e'|os1|os1 i idx].
      - inversion E; subst e'. destruct H as [pre [c1 [post [Ecs [Fl D]]]]].
        apply malformed_here.
        destruct D as [[-> NS]|[[i [s [-> [FS NA]]]]|[i [s [-> [FS [Al [Ar [NP Sm]]]]]]]]]; cbn [class_of].
        + eapply BF_unknown_short; eauto.
        + eapply BF_nonportable_short; eauto.
        + eapply BF_unseparated; eauto.
      - apply prepend_err in E.
        apply (malformed_cons specs m _ None (canons os1)); [apply OF_short; assumption | auto].
      - destruct H as [pre [c1 [s [Ecs [Fl [FS [Al [Ar Sh]]]]]]]].
        destruct rest as [|a rest'].
        + inversion E; subst e. apply malformed_here. cbn [class_of]. eapply BF_missing_short; eauto.
        + apply prepend_err in E.
          apply (malformed_cons specs m _ (Some a) (canons os1 ++ [(i, Some a)])).
          * apply OF_short; [assumption | apply Sh].
          * apply (IH2 a rest' eq_refl). exact E. }
    destruct (is_long_field f) eqn:LF.
    { apply is_long_field_inv in LF. destruct LF as [body [-> NE]].
      rewrite parse_long_step in E by exact NE. cbv zeta in E.
      pose proof (long_field_struct specs m body) as H. cbv zeta in H.
      pose proof (split_eq_spec body) as SE.
      destruct (split_eq body) as [name oeq] eqn:SEq.
      destruct (long_field specs m (HYPHEN :: HYPHEN :: body)) as [e'|o|i].
      - inversion E; subst e'. apply malformed_here.
        destruct H as [[-> NL]|[[l [-> [Am _]]]|[[i [s [-> [R NA]]]]|[i [s [a [-> [R [Al [Ar ->]]]]]]]]]]; cbn [class_of].
        + eapply BF_unknown_long; eauto.
        + eapply BF_ambiguous; eauto.
        + eapply BF_nonportable_long; eauto.
        + eapply BF_unexpected; eauto.
      - apply prepend_err in E.
        destruct H as [s [R [Al [[Ar [-> Oa]]|[Ar [a [-> Oa]]]]]]]; destruct SE as [-> NI].
        + apply (malformed_cons specs m _ None [(o_spec o, None)]); [eapply OF_long_flag; eauto | auto].
        + apply (malformed_cons specs m _ None [(o_spec o, Some a)]); [eapply OF_long_eq; eauto | auto].
      - destruct H as [s [R [Al [Ar ->]]]]. destruct SE as [-> NI].
        destruct rest as [|a rest'].
        + inversion E; subst e. apply malformed_here. cbn [class_of]. eapply BF_missing_long; eauto.
        + apply prepend_err in E.
          apply (malformed_cons specs m _ (Some a) [(i, Some a)]); [eapply OF_long_next; eauto|].
          apply (IH2 a rest' eq_refl). exact E. }
    cbn [parse] in E. rewrite SF, LF in E. destruct (is_separator f); discriminate.
Qed.

Lemma parse_short_err specs m c0 cs rest e :
  c0 <> HYPHEN ->
  short_err (short_chars specs m (HYPHEN :: c0 :: cs) 1 (c0 :: cs)) = Some e ->
  parse specs m ((HYPHEN :: c0 :: cs) :: rest) = Err e.
Proof.
  intros NE E. rewrite parse_short_step by exact NE. cbv zeta.
  destruct (short_chars specs m (HYPHEN :: c0 :: cs) 1 (c0 :: cs)); inversion E. reflexivity.
Qed.

Lemma parse_short_need_nil specs m c0 cs i :
  c0 <> HYPHEN ->
  short_need (short_chars specs m (HYPHEN :: c0 :: cs) 1 (c0 :: cs)) = Some i ->
  parse specs m [HYPHEN :: c0 :: cs] = Err (MissingArg (HYPHEN :: c0 :: cs) i).
Proof.
  intros NE E. rewrite parse_short_step by exact NE. cbv zeta.
  destruct (short_chars specs m (HYPHEN :: c0 :: cs) 1 (c0 :: cs)); inversion E. reflexivity.
Qed.

Lemma badfield_parse specs m f rest d :
  BadField specs m f rest d -> exists e, parse specs m (f :: rest) = Err e /\ class_of e = d.
Proof.
  intros BF.
  destruct BF as [c0 cs pre c post rest NE Ecs Fl NS
                 |c0 cs pre c post rest i s NE Ecs Fl FS NA
                 |c0 cs pre c post rest i s NE Ecs Fl FS Al Ar NP Sm
                 |c0 cs pre c i s NE Ecs Fl FS Al Ar
                 |body name oa rest NN SE NL
                 |body name oa rest NN SE Am
                 |body name oa rest i s NN SE R NA
                 |body name a rest i s SE R Al Ar
                 |body name i s NN SE R Al Ar].
  - eexists. split; [apply parse_short_err; [exact NE|]|].
    + rewrite Ecs at 2.
      destruct (short_chars_flags specs m (HYPHEN :: c0 :: cs) pre Fl (c :: post) 1%N) as [idx' [E _]].
      rewrite E. cbn [short_chars]. apply find_short_none in NS. rewrite NS. reflexivity.
    + reflexivity.
  - eexists. split; [apply parse_short_err; [exact NE|]|].
    + rewrite Ecs at 2.
      destruct (short_chars_flags specs m (HYPHEN :: c0 :: cs) pre Fl (c :: post) 1%N) as [idx' [E _]].
      rewrite E. cbn [short_chars]. apply find_short_some in FS. rewrite FS, short_test.
      assert (A : short_allowed_b m s = false).
      { destruct (short_allowed_b m s) eqn:X; [|reflexivity]. apply short_allowed_b_spec in X. contradiction. }
      rewrite A. reflexivity.
    + reflexivity.
  - eexists. split; [apply parse_short_err; [exact NE|]|].
    + rewrite Ecs at 2.
      destruct (short_chars_flags specs m (HYPHEN :: c0 :: cs) pre Fl (c :: post) 1%N) as [idx' [E _]].
      rewrite E. cbn [short_chars]. apply find_short_some in FS. rewrite FS, short_test.
      apply short_allowed_b_spec in Al. rewrite Al, Ar, Sm. cbn [negb].
      destruct post; [congruence|]. reflexivity.
    + reflexivity.
  - eexists. split; [apply parse_short_need_nil; [exact NE|]|].
    + rewrite Ecs at 2.
      destruct (short_chars_flags specs m (HYPHEN :: c0 :: cs) pre Fl [c] 1%N) as [idx' [_ E]].
      rewrite E. cbn [short_chars]. apply find_short_some in FS. rewrite FS, short_test.
      apply short_allowed_b_spec in Al. rewrite Al, Ar. reflexivity.
    + reflexivity.
  - rewrite parse_long_step by exact NN. cbv zeta. unfold long_field. cbn [skipn]. rewrite SE.
    apply long_match_unknown in NL. rewrite NL. eexists. split; reflexivity.
  - rewrite parse_long_step by exact NN. cbv zeta. unfold long_field. cbn [skipn]. rewrite SE.
    apply ambiguous_long_match in Am. destruct Am as [l [-> L]].
    destruct l as [|a l]; [cbn in L; lia|]. eexists. split; reflexivity.
  - rewrite parse_long_step by exact NN. cbv zeta.
    rewrite (long_field_resolved specs m body name oa i s SE R). cbv zeta.
    assert (A : long_allowed_b m s = false).
    { destruct (long_allowed_b m s) eqn:X; [|reflexivity]. apply long_allowed_b_spec in X. contradiction. }
    rewrite A. eexists. split; reflexivity.
  - assert (NN : body <> []) by (intros ->; discriminate SE).
    rewrite parse_long_step by exact NN. cbv zeta.
    rewrite (long_field_resolved specs m body name (Some a) i s SE R). cbv zeta.
    apply long_allowed_b_spec in Al. rewrite Al, Ar. eexists. split; reflexivity.
  - rewrite parse_long_step by exact NN. cbv zeta.
    rewrite (long_field_resolved specs m body name None i s SE R). cbv zeta.
    apply long_allowed_b_spec in Al. rewrite Al, Ar. eexists. split; reflexivity.
Qed.

Lemma malformed_parse_err specs m args d :
  Malformed specs m args d -> exists e, parse specs m args = Err e /\ class_of e = d.
Proof.
  intros [pre [os [f [rest [-> [OP BF]]]]]].
  destruct (optprefix_parse _ _ _ _ OP) as [os1 [_ E]]. rewrite E.
  destruct (badfield_parse _ _ _ _ _ BF) as [e [-> C]]. exists e. split; [reflexivity | exact C].
Qed.
