(* C09 — property theorems only.  Each is closed by [exact] of a lemma from
   Proofs*.v; the driver pins the statements with [Check] and prints the
   assumptions on every run.

   Reading guide.  [s] is a process of the kernel model (Kernel.v): descriptor
   table, descriptor limit, a list of injected allocation failures, the files.
   All theorems quantify over every such process whose table is a map
   ([sorted], the BTreeMap invariant) and holds no descriptor at or above its
   limit ([below_limit]) - in particular over every limit and over every
   pattern of allocation failures, so over every point at which a redirection
   can fail - over both settings of noclobber [nc], and over every list of
   redirections [rs]. *)
From Yv Require Import Common.Base C09.Kernel C09.Model C09.Spec C09.Proofs.

(* -- the kernel model allocates the least unused descriptor ------------------- *)
Theorem min_unused_spec : forall c t,
  sorted t ->
  lookup t (min_unused c t) = None /\ (c <= min_unused c t)%N
  /\ forall x, (c <= x < min_unused c t)%N -> lookup t x <> None.
Proof. exact min_unused_spec_lemma. Qed.

(* -- restoration ------------------------------------------------------------------ *)

(* perform_redirs, stopped by an error or not, followed by undo_redirs (what
   dropping the RedirGuard does) gives back the table: same descriptors, same
   open file descriptions, same flags. *)
Theorem undo_restores : forall nc s rs s' stack ok,
  sorted (k_tab s) -> below_limit (k_lim s) (k_tab s) ->
  perform_redirs nc s rs [] = (s', stack, ok) ->
  forall fd, lookup (k_tab (undo_redirs s' stack)) fd = lookup (k_tab s) fd.
Proof. exact undo_restores_ext_lemma. Qed.

Theorem undo_restores_table : forall nc s rs s' stack ok,
  sorted (k_tab s) -> below_limit (k_lim s) (k_tab s) ->
  perform_redirs nc s rs [] = (s', stack, ok) ->
  k_tab (undo_redirs s' stack) = k_tab s.
Proof. exact undo_restores_lemma. Qed.

(* a redirection that fails leaves nothing behind (the saved copy is closed) *)
Theorem failed_redir_changes_nothing : forall nc s r s',
  sorted (k_tab s) -> below_limit (k_lim s) (k_tab s) ->
  perform nc s r = (s', None) -> k_tab s' = k_tab s.
Proof. exact failed_redir_lemma. Qed.

(* the hypotheses are invariants *)
Theorem redirs_keep_table_wellformed : forall nc s rs s' stack ok,
  sorted (k_tab s) -> below_limit (k_lim s) (k_tab s) ->
  perform_redirs nc s rs [] = (s', stack, ok) ->
  sorted (k_tab s') /\ below_limit (k_lim s') (k_tab s') /\ k_lim s' = k_lim s.
Proof. exact wellformed_lemma. Qed.

(* every kind of command, however it ends: the shell's table afterwards is the
   table before, except after a successful exec *)
Theorem command_restores_table : forall nc s c s' inside ex,
  sorted (k_tab s) -> below_limit (k_lim s) (k_tab s) ->
  run_cmd nc s c = (s', inside, ex) ->
  c_kind c <> KExec \/ ex = true ->
  k_tab s' = k_tab s /\ k_lim s' = k_lim s.
Proof. exact command_restores_lemma. Qed.

(* ... and so does every compound command or function with redirections whose
   body is a list of further (redirected, nested) commands, if nothing in it is
   meant to persist (no exec, no change of the limit): whether the body runs to
   its end, a redirection is refused, or the shell exits from inside it. *)
Theorem script_item_restores_table : forall i sh steps sh' ex,
  sorted (k_tab (sh_k sh)) -> below_limit (k_lim (sh_k sh)) (k_tab (sh_k sh)) ->
  transient i = true -> run_item sh i = (steps, sh', ex) ->
  k_tab (sh_k sh') = k_tab (sh_k sh) /\ k_lim (sh_k sh') = k_lim (sh_k sh).
Proof. exact script_restores_lemma. Qed.

(* the limit hypothesis cannot be dropped: 15<&- with descriptor 15 open above
   a limit of 12 loses descriptor 15 *)
Theorem undo_restores_needs_limit_refuted :
  exists nc s rs s' stack ok,
    sorted (k_tab s) /\ perform_redirs nc s rs [] = (s', stack, ok)
    /\ lookup (k_tab (undo_redirs s' stack)) 15%N <> lookup (k_tab s) 15%N.
Proof. exact undo_needs_limit_lemma. Qed.

(* -- meaning: applied in order -------------------------------------------------------- *)

(* If the list is performed successfully, the specification (left fold of the
   operators' meanings over the user-visible table) also succeeds, and the
   command sees exactly the table, the files and the descriptions it gives. *)
Theorem redirs_applied_in_order : forall nc s rs s' stack,
  sorted (k_tab s) -> below_limit (k_lim s) (k_tab s) ->
  perform_redirs nc s rs [] = (s', stack, true) ->
  exists u, spec_redirs (view (k_tab s)) (ofd_get (k_ofd s)) nc
                        (mkU [] (k_fs s) (k_next s) []) rs = Some u
            /\ (forall fd, view (k_tab s') fd = uget (view (k_tab s)) u fd)
            /\ k_fs s' = u_fs u
            /\ (forall id, ofd_get (k_ofd s') id = uattr (ofd_get (k_ofd s)) u id).
Proof. exact redirs_applied_in_order_lemma. Qed.

(* ... and conversely (progress): with no descriptor limit and no allocation
   failure, the shell's own descriptors at 10 or above and a list that only
   names descriptors 0..9, a list the specification accepts is performed. *)
Theorem redirs_succeed_when_unconstrained : forall nc s rs u,
  sorted (k_tab s) -> k_lim s = None -> k_flt s = [] ->
  (forall fd e, lookup (k_tab s) fd = Some e -> e_cx e = true -> (10 <= fd)%N) ->
  portable rs = true ->
  spec_redirs (view (k_tab s)) (ofd_get (k_ofd s)) nc (mkU [] (k_fs s) (k_next s) []) rs = Some u ->
  exists s' stack, perform_redirs nc s rs [] = (s', stack, true).
Proof. exact progress_lemma. Qed.

(* noclobber: > on an existing regular file is refused; table and files are
   untouched *)
Theorem noclobber_refuses_existing_regular : forall s r k c d,
  sorted (k_tab s) -> below_limit (k_lim s) (k_tab s) ->
  r_body r = BFile FileOut (PKey k) -> fs_get (k_fs s) k = Some (Reg c d) ->
  exists s', perform true s r = (s', None) /\ k_tab s' = k_tab s /\ k_fs s' = k_fs s.
Proof. exact noclobber_lemma. Qed.

(* -- the shell's own descriptors --------------------------------------------------------- *)

Theorem internal_fds_ge_10_cloexec : forall nc s rs s' stack ok,
  sorted (k_tab s) -> below_limit (k_lim s) (k_tab s) ->
  perform_redirs nc s rs [] = (s', stack, ok) ->
  explained (targets rs) (k_tab s) (k_tab s').
Proof. exact internal_lemma. Qed.

(* the stack discipline: a saved descriptor stays open, close-on-exec, >= 10,
   different from its original and from every other saved descriptor ... *)
Theorem saved_fds_intact : forall nc s rs s' stack ok orig sv,
  sorted (k_tab s) -> below_limit (k_lim s) (k_tab s) ->
  perform_redirs nc s rs [] = (s', stack, ok) -> In (orig, Some sv) stack ->
  (exists e, lookup (k_tab s') sv = Some e /\ e_cx e = true) /\ (10 <= sv)%N /\ sv <> orig
  /\ NoDup (saves stack).
Proof. exact saved_fds_intact_lemma. Qed.

(* ... because a redirection whose target is a saved descriptor is refused *)
Theorem saved_fd_never_target : forall nc nc' s rs s' stack ok orig sv r,
  sorted (k_tab s) -> below_limit (k_lim s) (k_tab s) ->
  perform_redirs nc s rs [] = (s', stack, ok) -> In (orig, Some sv) stack ->
  r_fd r = sv -> perform nc' s' r = (s', None).
Proof. exact saved_fd_never_target_lemma. Qed.

(* assert_ne!(save, original) in undo_redirs never fires *)
Theorem undo_never_panics : forall nc s rs s' stack ok,
  sorted (k_tab s) -> below_limit (k_lim s) (k_tab s) ->
  perform_redirs nc s rs [] = (s', stack, ok) -> undo_panics stack = false.
Proof. exact undo_never_panics_lemma. Qed.

(* -- exec: persistence ------------------------------------------------------------------------ *)

Theorem preserve_keeps_only_targets : forall nc s rs s' stack ok fd,
  sorted (k_tab s) -> below_limit (k_lim s) (k_tab s) ->
  perform_redirs nc s rs [] = (s', stack, ok) -> ~ In fd (targets rs) ->
  lookup (k_tab (preserve_redirs s' stack)) fd = lookup (k_tab s) fd.
Proof. exact preserve_lemma. Qed.

Theorem preserve_keeps_view : forall nc s rs s' stack ok fd,
  sorted (k_tab s) -> below_limit (k_lim s) (k_tab s) ->
  perform_redirs nc s rs [] = (s', stack, ok) ->
  view (k_tab (preserve_redirs s' stack)) fd = view (k_tab s') fd.
Proof. exact preserve_view_lemma. Qed.

(* -- the oracle never asks for more than the theorems give -------------------------------------- *)

Theorem oracle_restored_sound : forall nc s c s' inside ex,
  sorted (k_tab s) -> below_limit (k_lim s) (k_tab s) ->
  run_cmd nc s c = (s', inside, ex) ->
  c_kind c <> KExec \/ ex = true ->
  restored (k_tab s) (k_tab s') = true.
Proof. exact ProofsSpec.oracle_restored_sound. Qed.

Theorem oracle_internal_sound : forall nc s c s' si ex,
  sorted (k_tab s) -> below_limit (k_lim s) (k_tab s) ->
  run_cmd nc s c = (s', Some si, ex) ->
  internal_ok (targets (c_redirs c)) (k_tab s) (k_tab si) = true.
Proof. exact ProofsSpec.oracle_internal_sound. Qed.

Theorem oracle_persisted_sound : forall nc s c s' inside,
  sorted (k_tab s) -> below_limit (k_lim s) (k_tab s) ->
  c_kind c = KExec -> run_cmd nc s c = (s', inside, false) ->
  persisted_ok (targets (c_redirs c)) (k_tab s) (k_tab s') = true.
Proof. exact ProofsSpec.oracle_persisted_sound. Qed.

(* -- non-vacuity ------------------------------------------------------------------------------------ *)

(* A process with descriptors 0-2 and 5, a limit of 12, an allocation failure
   injected at the fourth allocation; the list  0</3  5>&-  1>/4  2<</  ...:
   the hypotheses hold, three redirections succeed (two descriptors saved at
   10 and 11), the fourth fails. *)
Definition ex_state : kst :=
  mkK [(0, mkEnt 0 false); (1, mkEnt 1 false); (2, mkEnt 2 false); (5, mkEnt 1 false)]%N
      (Some 12%N) [false; false; false; false; false; true] 3%N
      [(2, mkOfd (FPath 2) true true true); (1, mkOfd (FPath 1) true true true);
       (0, mkOfd (FPath 0) true true true)]%N
      [(3, Reg [65; 66] false); (4, Reg [67] false)]%N.

Definition ex_redirs : list redir :=
  [mkRedir 0 (BFile FileIn (PKey 3)); mkRedir 5 (BDup FdOut DClose);
   mkRedir 1 (BFile FileOut (PKey 4)); mkRedir 2 (BHere [104; 10])]%N.

Example hypotheses_satisfiable :
  sorted (k_tab ex_state) /\ below_limit (k_lim ex_state) (k_tab ex_state)
  /\ exists s' stack,
       perform_redirs false ex_state ex_redirs [] = (s', stack, false)
       /\ saves stack = [11; 10]%N
       /\ k_tab s' <> k_tab ex_state
       /\ k_tab (undo_redirs s' stack) = k_tab ex_state.
Proof.
  split; [|split].
  - cbn. repeat split; intros k' H; cbn in H; intuition lia.
  - intros k' H. cbn in H. intuition (subst; reflexivity).
  - eexists. eexists. split; [vm_compute; reflexivity|].
    split; [reflexivity|]. split; [vm_compute; discriminate|vm_compute; reflexivity].
Qed.

Example success_case_satisfiable :
  exists s' stack,
    perform_redirs false (with_lim ex_state None) (firstn 3 ex_redirs ++ [mkRedir 7 (BDup FdIn (DFd 0))]%N) []
    = (s', stack, true) /\ view (k_tab s') 7%N = view (k_tab s') 0%N /\ view (k_tab s') 7%N <> None.
Proof.
  eexists. eexists. split; [vm_compute; reflexivity|]. split; [reflexivity|vm_compute; discriminate].
Qed.

Example noclobber_case_satisfiable :
  fs_get (k_fs ex_state) 4%N = Some (Reg [67]%N false)
  /\ exists s', perform true ex_state (mkRedir 1 (BFile FileOut (PKey 4)))%N = (s', None).
Proof. split; [reflexivity|]. eexists. vm_compute. reflexivity. Qed.
