(* C09 — property theorems only.  Each is closed by [exact] of a lemma from
   Proofs*.v; the driver pins the statements with [Check] and prints the
   assumptions on every run.

   Reading guide.  [s] is a process of the kernel model (Kernel.v): descriptor
   table, descriptor limit, a list of injected allocation failures, the files.
   All theorems quantify over every such process whose table is a map
   ([sorted], the BTreeMap invariant) and holds no descriptor at or above its
   limit ([below_limit]) - in particular over every limit and over every
   pattern of allocation failures, so over every point at which a redirection
   can fail - over both settings of noclobber [nc], and over every list of
   redirections [rs]. *)
From Yv Require Import Common.Base C09.Kernel C09.Model C09.Spec C09.Proofs.
From Yv Require Import Gen.Gen_Consts.

(* -- the kernel model allocates the least unused descriptor ------------------- *)
Theorem min_unused_spec : forall c t,
  sorted t ->
  lookup t (min_unused c t) = None /\ (c <= min_unused c t)%N
  /\ forall x, (c <= x < min_unused c t)%N -> lookup t x <> None.
Proof. exact min_unused_spec_lemma. Qed.

(* -- restoration ------------------------------------------------------------------ *)

(* perform_redirs, stopped by an error or not, followed by undo_redirs (what
   dropping the RedirGuard does) gives back the table: same descriptors, same
   open file descriptions, same flags. *)
Theorem undo_restores : forall nc s rs s' stack ok,
  sorted (k_tab s) -> below_limit (k_lim s) (k_tab s) ->
  perform_redirs nc s rs [] = (s', stack, ok) ->
  forall fd, lookup (k_tab (undo_redirs s' stack)) fd = lookup (k_tab s) fd.
Proof. exact undo_restores_ext_lemma. Qed.

Theorem undo_restores_table : forall nc s rs s' stack ok,
  sorted (k_tab s) -> below_limit (k_lim s) (k_tab s) ->
  perform_redirs nc s rs [] = (s', stack, ok) ->
  k_tab (undo_redirs s' stack) = k_tab s.
Proof. exact undo_restores_lemma. Qed.

(* a redirection that fails leaves nothing behind (the saved copy is closed) *)
Theorem failed_redir_changes_nothing : forall nc s r s',
  sorted (k_tab s) -> below_limit (k_lim s) (k_tab s) ->
  perform nc s r = (s', None) -> k_tab s' = k_tab s.
Proof. exact failed_redir_lemma. Qed.

(* the hypotheses are invariants *)
Theorem redirs_keep_table_wellformed : forall nc s rs s' stack ok,
  sorted (k_tab s) -> below_limit (k_lim s) (k_tab s) ->
  perform_redirs nc s rs [] = (s', stack, ok) ->
  sorted (k_tab s') /\ below_limit (k_lim s') (k_tab s') /\ k_lim s' = k_lim s.
Proof. exact wellformed_lemma. Qed.

(* ... also of whole commands, exec included: the hypotheses hold again for the
   next command of the script *)
Theorem command_keeps_table_wellformed : forall nc s c s' inside ex,
  sorted (k_tab s) -> below_limit (k_lim s) (k_tab s) ->
  run_cmd nc s c = (s', inside, ex) ->
  sorted (k_tab s') /\ below_limit (k_lim s') (k_tab s').
Proof. exact command_keeps_wf_lemma. Qed.

(* every kind of command, however it ends: the shell's table afterwards is the
   table before, except after an exec whose redirections succeeded *)
Theorem command_restores_table : forall nc s c s' inside ex,
  sorted (k_tab s) -> below_limit (k_lim s) (k_tab s) ->
  run_cmd nc s c = (s', inside, ex) ->
  exec_like (c_kind c) = false \/ snd (perform_redirs nc s (c_redirs c) []) = false ->
  k_tab s' = k_tab s /\ k_lim s' = k_lim s.
Proof. exact command_restores_lemma. Qed.

(* exec, with or without an operand (an operand that cannot be invoked: the
   shell goes on if it is interactive and exits otherwise): redirections that
   succeeded are kept, exactly the same table in both cases *)
Theorem exec_keeps_successful_redirections : forall nc s c s' inside ex s1 stack,
  exec_like (c_kind c) = true ->
  perform_redirs nc s (c_redirs c) [] = (s1, stack, true) ->
  run_cmd nc s c = (s', inside, ex) ->
  k_tab s' = k_tab (preserve_redirs s1 stack) /\ k_lim s' = k_lim s1
  /\ ex = match c_kind c with KExecFail false => true | _ => false end.
Proof. exact run_cmd_exec. Qed.

(* ... and so does every compound command or function with redirections whose
   body is a list of further (redirected, nested) commands, every script read
   with `.` or `command .` (with redirections; the shell opens a descriptor of
   its own for it) and every command with a command substitution (a pipe), if
   and every pipeline, if nothing in it is meant to persist (no exec, no change
   of the limit): whether the body runs to its end, a redirection is refused,
   the script cannot be opened or moved to 10 or above, a pipe cannot be made,
   or the shell exits from inside it. *)
Theorem script_item_restores_table : forall i sh steps sh' ex,
  sorted (k_tab (sh_k sh)) -> below_limit (k_lim (sh_k sh)) (k_tab (sh_k sh)) ->
  transient i = true -> run_item sh i = (steps, sh', ex) ->
  k_tab (sh_k sh') = k_tab (sh_k sh) /\ k_lim (sh_k sh') = k_lim (sh_k sh).
Proof. exact script_restores_lemma. Qed.

(* the limit hypothesis cannot be dropped: 15<&- with descriptor 15 open above
   a limit of 12 loses descriptor 15 *)
Theorem undo_restores_needs_limit_refuted :
  exists nc s rs s' stack ok,
    sorted (k_tab s) /\ perform_redirs nc s rs [] = (s', stack, ok)
    /\ lookup (k_tab (undo_redirs s' stack)) 15%N <> lookup (k_tab s) 15%N.
Proof. exact undo_needs_limit_lemma. Qed.

(* -- meaning: applied in order -------------------------------------------------------- *)

(* If the list is performed successfully, the specification (left fold of the
   operators' meanings over the user-visible table) also succeeds, and the
   command sees exactly the table, the files and the descriptions it gives. *)
Theorem redirs_applied_in_order : forall nc s rs s' stack,
  sorted (k_tab s) -> below_limit (k_lim s) (k_tab s) ->
  perform_redirs nc s rs [] = (s', stack, true) ->
  exists u, spec_redirs (view (k_tab s)) (ofd_get (k_ofd s)) nc
                        (mkU [] (k_fs s) (k_next s) []) rs = Some u
            /\ (forall fd, view (k_tab s') fd = uget (view (k_tab s)) u fd)
            /\ k_fs s' = u_fs u
            /\ (forall id, ofd_get (k_ofd s') id = uattr (ofd_get (k_ofd s)) u id).
Proof. exact redirs_applied_in_order_lemma. Qed.

(* ... and conversely (progress): with no descriptor limit and no allocation
   failure, the shell's own descriptors at 10 or above and a list that only
   names descriptors 0..9, a list the specification accepts is performed. *)
Theorem redirs_succeed_when_unconstrained : forall nc s rs u,
  sorted (k_tab s) -> k_lim s = None -> k_flt s = [] ->
  (forall fd e, lookup (k_tab s) fd = Some e -> e_cx e = true -> (10 <= fd)%N) ->
  portable rs = true ->
  spec_redirs (view (k_tab s)) (ofd_get (k_ofd s)) nc (mkU [] (k_fs s) (k_next s) []) rs = Some u ->
  exists s' stack, perform_redirs nc s rs [] = (s', stack, true).
Proof. exact progress_lemma. Qed.

(* noclobber: > on an existing regular file is refused; table and files are
   untouched *)
Theorem noclobber_refuses_existing_regular : forall s r k c d,
  sorted (k_tab s) -> below_limit (k_lim s) (k_tab s) ->
  r_body r = BFile FileOut (PKey k) -> fs_get (k_fs s) k = Some (Reg c d) ->
  exists s', perform true s r = (s', None) /\ k_tab s' = k_tab s /\ k_fs s' = k_fs s.
Proof. exact noclobber_lemma. Qed.

(* noclobber through symbolic links (model Symlink.v: the algorithm of
   open_file_noclobber over POSIX open(2) with links; not tied to the code on
   the simulated OS, which does not follow links - C19 finding F41): a name that
   resolves, through any chain of links, to an existing regular file is refused *)
Theorem link_noclobber_refuses_regular : forall fuel f name final,
  lresolve fuel f name = Some (Found final LReg) -> noclobber_open fuel f name = Refused.
Proof. exact link_noclobber_regular_lemma. Qed.

(* ... a FIFO or a device behind links is opened as it is ... *)
Theorem link_noclobber_opens_fifo_and_device : forall fuel f name final n,
  lresolve fuel f name = Some (Found final n) -> n = LFifo \/ n = LDev ->
  noclobber_open fuel f name = Opened n.
Proof. exact link_noclobber_special_lemma. Qed.

(* ... a missing name is created; a directory, a dangling link and a cycle of
   links are refused *)
Theorem link_noclobber_other_cases : forall fuel f name,
  (f name = None -> noclobber_open fuel f name = Created)
  /\ (forall final, lresolve fuel f name = Some (Found final LDir) -> noclobber_open fuel f name = Refused)
  /\ (lresolve fuel f name = Some Dangling -> noclobber_open fuel f name = Refused)
  /\ (lresolve fuel f name = Some Loop -> noclobber_open fuel f name = Refused).
Proof. exact link_noclobber_other_lemma. Qed.

(* examining the name (lstat) instead of the opened file is wrong: a link to a
   regular file would be overwritten *)
Theorem link_noclobber_lstat_variant_refuted :
  exists fuel f name final,
    lresolve fuel f name = Some (Found final LReg)
    /\ noclobber_open fuel f name = Refused
    /\ noclobber_open_lstat fuel f name = Opened LReg.
Proof. exact link_noclobber_lstat_lemma. Qed.

(* -- the shell's own descriptors --------------------------------------------------------- *)

Theorem internal_fds_ge_10_cloexec : forall nc s rs s' stack ok,
  sorted (k_tab s) -> below_limit (k_lim s) (k_tab s) ->
  perform_redirs nc s rs [] = (s', stack, ok) ->
  explained (targets rs) (k_tab s) (k_tab s').
Proof. exact internal_lemma. Qed.

(* the stack discipline: a saved descriptor stays open, close-on-exec, >= 10,
   different from its original and from every other saved descriptor ... *)
Theorem saved_fds_intact : forall nc s rs s' stack ok orig sv,
  sorted (k_tab s) -> below_limit (k_lim s) (k_tab s) ->
  perform_redirs nc s rs [] = (s', stack, ok) -> In (orig, Some sv) stack ->
  (exists e, lookup (k_tab s') sv = Some e /\ e_cx e = true) /\ (10 <= sv)%N /\ sv <> orig
  /\ NoDup (saves stack).
Proof. exact saved_fds_intact_lemma. Qed.

(* ... because a redirection whose target is a saved descriptor is refused *)
Theorem saved_fd_never_target : forall nc nc' s rs s' stack ok orig sv r,
  sorted (k_tab s) -> below_limit (k_lim s) (k_tab s) ->
  perform_redirs nc s rs [] = (s', stack, ok) -> In (orig, Some sv) stack ->
  r_fd r = sv -> perform nc' s' r = (s', None).
Proof. exact saved_fd_never_target_lemma. Qed.

(* assert_ne!(save, original) in undo_redirs never fires *)
Theorem undo_never_panics : forall nc s rs s' stack ok,
  sorted (k_tab s) -> below_limit (k_lim s) (k_tab s) ->
  perform_redirs nc s rs [] = (s', stack, ok) -> undo_panics stack = false.
Proof. exact undo_never_panics_lemma. Qed.

(* -- descriptors the shell opens for its own use ---------------------------------------------- *)

(* move_fd_internal: whether or not the copy at 10 or above can be made, the
   low descriptor it was opened at does not stay behind *)
Theorem move_fd_internal_leaves_nothing_behind : forall s from e s' res,
  sorted (k_tab s) -> below_limit (k_lim s) (k_tab s) ->
  lookup (k_tab s) from = Some e -> move_fd_internal s from = (s', res) ->
  k_lim s' = k_lim s /\
  match res with
  | Ok fd =>
      if N.leb 10 from then fd = from /\ k_tab s' = k_tab s
      else (10 <= fd)%N /\ lookup (k_tab s) fd = None
           /\ k_tab s' = tdel (tset (k_tab s) fd (mkEnt (e_ofd e) true)) from
  | Err _ => (from < 10)%N /\ k_tab s' = tdel (k_tab s) from
  end.
Proof. exact move_fd_internal_lemma. Qed.

(* opening a script (`.`, start-up): exactly one new descriptor, close-on-exec,
   at 10 or above - or, on any failure, no change at all *)
Theorem open_internal_all_or_nothing : forall s p s' r,
  sorted (k_tab s) -> below_limit (k_lim s) (k_tab s) ->
  open_internal s p = (s', r) ->
  k_lim s' = k_lim s /\
  match r with
  | None => k_tab s' = k_tab s
  | Some fd => (10 <= fd)%N /\ lookup (k_tab s) fd = None
               /\ exists id, k_tab s' = tset (k_tab s) fd (mkEnt id true)
  end.
Proof. exact open_internal_lemma. Qed.

(* pipe(2): two new descriptors or none *)
Theorem pipe_all_or_nothing : forall s s' res,
  sorted (k_tab s) -> below_limit (k_lim s) (k_tab s) ->
  k_pipe s = (s', res) ->
  k_lim s' = k_lim s /\
  match res with
  | Ok (r, w) =>
      r <> w /\ lookup (k_tab s) r = None /\ lookup (k_tab s) w = None
      /\ exists e1 e2, k_tab s' = tset (tset (k_tab s) r e1) w e2
  | Err _ => k_tab s' = k_tab s
  end.
Proof. exact pipe_lemma. Qed.

(* a pipeline leaves the parent's table as it was, whether or not every pipe
   can be made (when one cannot, the read end of the previous pipe is closed
   too) *)
Theorem pipeline_restores_table : forall s n s' children ok,
  sorted (k_tab s) -> below_limit (k_lim s) (k_tab s) ->
  run_pipeline s n = (s', children, ok) ->
  k_tab s' = k_tab s /\ k_lim s' = k_lim s.
Proof. exact pipeline_restores_lemma. Qed.

(* -- exec: persistence ------------------------------------------------------------------------ *)

Theorem preserve_keeps_only_targets : forall nc s rs s' stack ok fd,
  sorted (k_tab s) -> below_limit (k_lim s) (k_tab s) ->
  perform_redirs nc s rs [] = (s', stack, ok) -> ~ In fd (targets rs) ->
  lookup (k_tab (preserve_redirs s' stack)) fd = lookup (k_tab s) fd.
Proof. exact preserve_lemma. Qed.

Theorem preserve_keeps_view : forall nc s rs s' stack ok fd,
  sorted (k_tab s) -> below_limit (k_lim s) (k_tab s) ->
  perform_redirs nc s rs [] = (s', stack, ok) ->
  view (k_tab (preserve_redirs s' stack)) fd = view (k_tab s') fd.
Proof. exact preserve_view_lemma. Qed.

(* -- the oracle never asks for more than the theorems give -------------------------------------- *)

Theorem oracle_restored_sound : forall nc s c s' inside ex,
  sorted (k_tab s) -> below_limit (k_lim s) (k_tab s) ->
  run_cmd nc s c = (s', inside, ex) ->
  exec_like (c_kind c) = false \/ snd (perform_redirs nc s (c_redirs c) []) = false ->
  restored (k_tab s) (k_tab s') = true.
Proof. exact ProofsSpec.oracle_restored_sound. Qed.

Theorem oracle_internal_sound : forall nc s c s' si ex,
  sorted (k_tab s) -> below_limit (k_lim s) (k_tab s) ->
  c_kind c <> KAsync ->
  run_cmd nc s c = (s', Some si, ex) ->
  internal_ok (targets (c_redirs c)) (k_tab s) (k_tab si) = true.
Proof. exact ProofsSpec.oracle_internal_sound. Qed.

Theorem oracle_persisted_sound : forall nc s c s' inside ex s1 stack,
  sorted (k_tab s) -> below_limit (k_lim s) (k_tab s) ->
  exec_like (c_kind c) = true ->
  perform_redirs nc s (c_redirs c) [] = (s1, stack, true) ->
  run_cmd nc s c = (s', inside, ex) ->
  persisted_ok (targets (c_redirs c)) (k_tab s) (k_tab s') = true.
Proof. exact ProofsSpec.oracle_persisted_sound. Qed.

(* -- the saving step as a failure point ---------------------------------------- *)

(* redir.rs perform: dup(target, MIN_INTERNAL_FD, CLOEXEC) fails although the
   target is open (no descriptor can be allocated: the limit, or an injected
   failure): the redirection is refused - it is NOT applied without a backup -
   and neither the table nor the files have changed *)
Theorem save_failure_refuses : forall nc s r en s1 e, lookup (k_tab s) (r_fd r) = Some en -> e_cx en = false -> alloc_fd s MIN_INTERNAL_FD (mkEnt (e_ofd en) true) = (s1, Err e) -> perform nc s r = (s1, None) /\ k_tab s1 = k_tab s /\ k_fs s1 = k_fs s.
Proof. exact ProofsSave.save_failure_refuses_lemma. Qed.

(* `ulimit -n 10; echo x >file; echo still-here`: the first target is open and
   there is no slot at 10 or above for its backup: a command that does not end
   the shell does not run, the shell goes on, the table is the one before *)
Theorem command_refused_when_no_backup_slot : forall nc s c r rs en s' inside ex, c_redirs c = r :: rs -> lookup (k_tab s) (r_fd r) = Some en -> e_cx en = false -> k_flt s = [] -> in_limit (k_lim s) (min_unused MIN_INTERNAL_FD (k_tab s)) = false -> match c_kind c with KRegular | KFunction | KGroup | KSubshell | KNotFound => True | _ => False end -> run_cmd nc s c = (s', inside, ex) -> inside = None /\ ex = false /\ k_tab s' = k_tab s /\ k_lim s' = k_lim s.
Proof. exact ProofsSave.command_refused_lemma. Qed.

(* a successful perform records no backup exactly when the target was closed;
   otherwise the backup is a fresh descriptor at 10 or above, close-on-exec, on
   the description the target had *)
Theorem backup_iff_target_open : forall nc s r s' n save, sorted (k_tab s) -> below_limit (k_lim s) (k_tab s) -> perform nc s r = (s', Some (n, save)) -> n = r_fd r /\ match save with | None => lookup (k_tab s) n = None | Some sv => exists en, lookup (k_tab s) n = Some en /\ e_cx en = false /\ lookup (k_tab s) sv = None /\ (10 <= sv)%N /\ sv <> n /\ lookup (k_tab s') sv = Some (mkEnt (e_ofd en) true) end.
Proof. exact ProofsSave.backup_iff_open_lemma. Qed.

(* so the closing branch of undo_redirs only closes what was closed before *)
Theorem undo_closes_only_closed : forall nc s r s' n, sorted (k_tab s) -> below_limit (k_lim s) (k_tab s) -> perform nc s r = (s', Some (n, None)) -> lookup (k_tab s) n = None /\ lookup (undo_one (k_lim s') (k_tab s') (n, None)) n = lookup (k_tab s) n.
Proof. exact ProofsSave.undo_closes_only_closed_lemma. Qed.

(* after a list of redirections has been performed, every target that was open
   before has a backup among the shell's own descriptors, on the description it
   had before the first redirection *)
Theorem backups_while_running : forall nc s rs s' stack fd e, sorted (k_tab s) -> below_limit (k_lim s) (k_tab s) -> perform_redirs nc s rs [] = (s', stack, true) -> In fd (targets rs) -> lookup (k_tab s) fd = Some e -> exists sv esv, lookup (k_tab s') sv = Some esv /\ (10 <= sv)%N /\ e_cx esv = true /\ e_ofd esv = e_ofd e.
Proof. exact ProofsSave.backups_while_running_lemma. Qed.

(* soundness of oracle clause B (verdict 12) *)
Theorem oracle_backup_sound : forall nc s c s' si ex, sorted (k_tab s) -> below_limit (k_lim s) (k_tab s) -> c_kind c <> KAsync -> run_cmd nc s c = (s', Some si, ex) -> backup_ok (targets (c_redirs c)) (k_tab s) (k_tab si) = true.
Proof. exact ProofsSave.oracle_backup_sound_lemma. Qed.

(* the variant of perform that takes every failure of the saving dup as "the
   target is not open" (ProofsSave.perform_lenient) loses a descriptor of the
   user's: with descriptors 0 1 2 open and the limit at 10, `>file` succeeds
   there, and the undo leaves descriptor 1 closed; perform refuses *)
Theorem lenient_save_variant_refuted : exists nc s r s' sv, sorted (k_tab s) /\ below_limit (k_lim s) (k_tab s) /\ k_flt s = [] /\ ProofsSave.perform_lenient nc s r = (s', Some sv) /\ lookup (k_tab s) 1%N <> None /\ lookup (k_tab (undo_redirs s' [sv])) 1%N = None /\ perform nc s r = (s, None).
Proof. exact ProofsSave.lenient_save_refuted_lemma. Qed.

(* non-vacuity of the hypotheses: see Examples.v (hypotheses_satisfiable, ...) *)
(* ... and ProofsSave.command_refused_example *)

(* TIE BY TRANSLATION: the lowest descriptor the shell keeps for itself is the
   constant the source declares now (translator/consts.py reads MIN_INTERNAL_FD
   out of yash-env/src/io.rs on every run) *)
Theorem min_internal_fd_is_source : MIN_INTERNAL_FD = gen_min_internal_fd.
Proof. reflexivity. Qed.

Print Assumptions min_unused_spec.
Print Assumptions undo_restores.
Print Assumptions undo_restores_table.
Print Assumptions failed_redir_changes_nothing.
Print Assumptions redirs_keep_table_wellformed.
Print Assumptions command_keeps_table_wellformed.
Print Assumptions command_restores_table.
Print Assumptions exec_keeps_successful_redirections.
Print Assumptions script_item_restores_table.
Print Assumptions undo_restores_needs_limit_refuted.
Print Assumptions redirs_applied_in_order.
Print Assumptions redirs_succeed_when_unconstrained.
Print Assumptions noclobber_refuses_existing_regular.
Print Assumptions link_noclobber_refuses_regular.
Print Assumptions link_noclobber_opens_fifo_and_device.
Print Assumptions link_noclobber_other_cases.
Print Assumptions link_noclobber_lstat_variant_refuted.
Print Assumptions internal_fds_ge_10_cloexec.
Print Assumptions saved_fds_intact.
Print Assumptions saved_fd_never_target.
Print Assumptions undo_never_panics.
Print Assumptions move_fd_internal_leaves_nothing_behind.
Print Assumptions open_internal_all_or_nothing.
Print Assumptions pipe_all_or_nothing.
Print Assumptions pipeline_restores_table.
Print Assumptions preserve_keeps_only_targets.
Print Assumptions preserve_keeps_view.
Print Assumptions oracle_restored_sound.
Print Assumptions oracle_internal_sound.
Print Assumptions oracle_persisted_sound.
Print Assumptions save_failure_refuses.
Print Assumptions command_refused_when_no_backup_slot.
Print Assumptions backup_iff_target_open.
Print Assumptions undo_closes_only_closed.
Print Assumptions backups_while_running.
Print Assumptions oracle_backup_sound.
Print Assumptions lenient_save_variant_refuted.
Print Assumptions min_internal_fd_is_source.
