(* C09 — proofs, part 5: progress.  When nothing constrains allocation (no
   descriptor limit, no injected failure), the shell's own descriptors are at 10
   or above and the list only names descriptors 0..9, a list that the
   specification accepts is performed successfully by the model: yash-rs refuses
   no redirection that POSIX allows. *)
From Yv Require Import Common.Base C09.Kernel C09.Model C09.Spec
  C09.ProofsTab C09.ProofsList C09.ProofsVal C09.ProofsSpec.

Local Open Scope N_scope.

(* unconstrained allocation *)
Definition unc (s : kst) : Prop := k_flt s = [] /\ k_lim s = None.

Definition own_fds_high (t : table) : Prop :=
  forall fd e, lookup t fd = Some e -> e_cx e = true -> 10 <= fd.

Lemma alloc_unc s min v :
  unc s ->
  alloc_fd s min v = (with_tab s (tset (k_tab s) (min_unused min (k_tab s)) v),
                      Ok (min_unused min (k_tab s))).
Proof.
  intros [Hf Hl]. unfold alloc_fd, take_fault. rewrite Hf. cbv zeta. rewrite Hl. reflexivity.
Qed.

Lemma unc_with_tab s t : unc s -> unc (with_tab s t).
Proof. intros [A B]. split; assumption. Qed.

Lemma unc_with_fs s f : unc s -> unc (with_fs s f).
Proof. intros [A B]. split; assumption. Qed.

Lemma unc_close s fd : unc s -> unc (k_close s fd).
Proof. apply unc_with_tab. Qed.

Lemma k_open_unc s p r w fl f' k :
  unc s -> k_resolve (k_fs s) p w fl = (f', Ok k) ->
  exists s' c, k_open s p r w fl = (s', Ok c) /\ unc s'.
Proof.
  intros Hu Hr. unfold k_open. rewrite Hr. cbn [new_ofd].
  rewrite alloc_unc by (destruct Hu; split; assumption).
  eexists. eexists. split; [reflexivity|]. destruct Hu. split; assumption.
Qed.

Lemma k_open_err_unc s p r w fl f' e :
  unc s -> k_resolve (k_fs s) p w fl = (f', Err e) ->
  k_open s p r w fl = (with_fs s f', Err e).
Proof. intros _ Hr. unfold k_open. rewrite Hr. reflexivity. Qed.

Lemma sopen_resolve f p r w fl f' o :
  sopen f p r w fl = Some (f', o) -> exists k, k_resolve f p w fl = (f', Ok k).
Proof.
  unfold sopen. destruct (k_resolve f p w fl) as [f1 [k|e]]; [|discriminate].
  intros E. injection E as <- _. eauto.
Qed.

Lemma open_file_unc s r w fl p f' o :
  unc s -> sopen (k_fs s) p r w fl = Some (f', o) ->
  exists s1 f, open_file s r w fl p = (s1, Some (Owned f)) /\ unc s1.
Proof.
  intros Hu Hs. apply sopen_resolve in Hs. destruct Hs as [k Hr].
  destruct (k_open_unc s p r w fl f' k Hu Hr) as [s' [c [Ho Hu']]].
  unfold open_file. rewrite Ho. eauto.
Qed.

Lemma open_normal_unc nc s b f' o :
  unc s -> spec_new nc (k_fs s) b = Some (f', o) ->
  exists s1 f, open_normal nc s b = (s1, Some (Owned f)) /\ unc s1.
Proof.
  intros Hu. destruct b as [op p|op a|c|]; cbn [spec_new open_normal]; try discriminate.
  - destruct op; try (apply open_file_unc; assumption).
    destruct nc; [|apply open_file_unc; assumption].
    destruct p as [k|]; [|discriminate].
    destruct (fs_get (k_fs s) k) as [[cc dd|]|] eqn:Eg; [discriminate|discriminate|].
    (* missing: created exclusively *)
      intros _. unfold open_file_noclobber.
      destruct (k_open_unc s (PKey k) false true fl_excl (fs_set (k_fs s) k (Reg [] false)) k Hu)
        as [sa [c [Ho Hua]]].
      { unfold k_resolve. rewrite Eg. reflexivity. }
      rewrite Ho. eauto.
  - intros _. unfold k_tmpfile. cbn [new_ofd].
    rewrite alloc_unc by (destruct Hu; split; assumption).
    eexists. eexists. split; [reflexivity|]. destruct Hu; split; assumption.
Qed.

Lemma owned_is_open nc s b s1 f :
  wf s -> open_normal nc s b = (s1, Some (Owned f)) -> lookup (k_tab s1) f <> None.
Proof.
  intros Hwf Ho. apply open_normal_shape in Ho; [|assumption].
  destruct Ho as [_ [_ [_ [id ->]]]]. rewrite lookup_tset, N.eqb_refl. discriminate.
Qed.

Lemma k_dup2_unc s from to e :
  unc s -> lookup (k_tab s) from = Some e ->
  exists s', k_dup2 s from to = (s', true) /\ unc s'.
Proof.
  intros [Hf Hl] Hfrom. unfold k_dup2, t_dup2. rewrite Hfrom, Hl.
  destruct (N.eqb from to); cbn; (eexists; split; [reflexivity|]; split; assumption).
Qed.

(* [apply] succeeds *)
Lemma apply_unc nc s0 s u r u' :
  wf s -> unc s -> sim s0 s u ->
  spec_redir (view (k_tab s0)) (ofd_get (k_ofd s0)) nc u r = Some u' ->
  exists s2, apply nc s r = (s2, true) /\ unc s2.
Proof.
  intros Hwf Hu [Sv Sf Sn Sa]. unfold spec_redir, apply.
  assert (forall b, b = r_body r -> forall f' o, spec_new nc (u_fs u) b = Some (f', o) ->
            exists s2, match open_normal nc s b with
                       | (s1, None) => (s1, false)
                       | (s1, Some sp) =>
                           match spec_fd sp with
                           | Some fd =>
                               if N.eqb fd (r_fd r) then (s1, true)
                               else let (s2, ok) := k_dup2 s1 fd (r_fd r) in (spec_close s2 sp, ok)
                           | None => (k_close s1 (r_fd r), true)
                           end
                       end = (s2, true) /\ unc s2) as Hnew.
  { intros b _ f' o Hsn. rewrite <- Sf in Hsn.
    destruct (open_normal_unc nc s b f' o Hu Hsn) as [s1 [f [Ho Hu1]]].
    pose proof (owned_is_open _ _ _ _ _ Hwf Ho) as Hopen. rewrite Ho. cbn [spec_fd].
    destruct (N.eqb f (r_fd r)); [eauto|].
    destruct (lookup (k_tab s1) f) as [e|] eqn:Ef; [|congruence].
    destruct (k_dup2_unc s1 f (r_fd r) e Hu1 Ef) as [s2 [Hd Hu2]]. rewrite Hd.
    eexists. split; [reflexivity|]. cbn. apply unc_close. exact Hu2. }
  destruct (r_body r) as [op p|op a|c|] eqn:Hbody.
  - destruct (spec_new nc (u_fs u) (BFile op p)) as [[f' o]|] eqn:Hsn; [|destruct op; discriminate].
    intros _. eapply Hnew; [reflexivity|exact Hsn].
  - destruct a as [m| |]; [| |discriminate].
    + destruct (uget (view (k_tab s0)) u m) as [id|] eqn:Hum; [|discriminate].
      destruct (uattr (ofd_get (k_ofd s0)) u id) as [o|] eqn:Hat; [|discriminate].
      destruct (acc op o) eqn:Hacc; [|discriminate]. intros _.
      rewrite <- Sv in Hum. unfold view in Hum.
      destruct (lookup (k_tab s) m) as [e|] eqn:Hm; [|discriminate].
      destruct (e_cx e) eqn:Hcx; [discriminate|]. injection Hum as <-.
      rewrite <- Sa in Hat.
      cbn [open_normal]. unfold copy_fd, fd_valid, k_ofd_of, k_cloexec. rewrite Hm, Hat.
      unfold acc in Hacc. rewrite Hacc, Hcx. cbn [negb spec_fd spec_close].
      destruct (N.eqb m (r_fd r)); [eauto|].
      destruct (k_dup2_unc s m (r_fd r) e Hu Hm) as [s2 [Hd Hu2]]. rewrite Hd. eauto.
    + intros _. cbn [open_normal copy_fd spec_fd]. eexists. split; [reflexivity|].
      apply unc_close. exact Hu.
  - destruct (spec_new nc (u_fs u) (BHere c)) as [[f' o]|] eqn:Hsn; [|discriminate].
    intros _. eapply Hnew; [reflexivity|exact Hsn].
  - cbn. discriminate.
Qed.

Lemma perform_unc nc s0 s u r u' :
  wf s -> unc s -> own_fds_high (k_tab s) -> sim s0 s u -> r_fd r < 10 ->
  spec_redir (view (k_tab s0)) (ofd_get (k_ofd s0)) nc u r = Some u' ->
  exists s' sv, perform nc s r = (s', Some sv) /\ unc s'.
Proof.
  intros Hwf Hu Hhigh Hsim Hlt Hspec. pose proof Hwf as [Hs Hb]. unfold perform.
  assert (k_cloexec s (r_fd r) = false) as ->.
  { unfold k_cloexec. destruct (lookup (k_tab s) (r_fd r)) as [e|] eqn:E; [|reflexivity].
    destruct (e_cx e) eqn:Ecx; [|reflexivity]. specialize (Hhigh _ _ E Ecx). lia. }
  unfold k_dup. destruct (lookup (k_tab s) (r_fd r)) as [en|] eqn:Hn.
  - rewrite alloc_unc by exact Hu.
    set (sv := min_unused MIN_INTERNAL_FD (k_tab s)).
    set (s1 := with_tab s (tset (k_tab s) sv (mkEnt (e_ofd en) true))).
    assert (lookup (k_tab s) sv = None) as Hfresh by (apply min_unused_fresh; exact Hs).
    assert (wf s1) as Hwf1.
    { split; [apply sorted_tset; exact Hs|]. cbn. destruct Hu as [_ Hl]. rewrite Hl.
      intros k' _. reflexivity. }
    assert (unc s1) as Hu1 by (apply unc_with_tab; exact Hu).
    assert (sim s0 s1 u) as Hsim1.
    { destruct Hsim as [Sv Sf Sn Sa]. split; try assumption.
      intros fd. rewrite <- Sv. unfold view. cbn. rewrite lookup_tset.
      destruct (N.eqb_spec sv fd) as [<-|_]; [|reflexivity]. cbn. rewrite Hfresh. reflexivity. }
    destruct (apply_unc nc s0 s1 u r u' Hwf1 Hu1 Hsim1 Hspec) as [s2 [Hap Hu2]].
    rewrite Hap. eauto.
  - destruct (apply_unc nc s0 s u r u' Hwf Hu Hsim Hspec) as [s2 [Hap Hu2]].
    rewrite Hap. eauto.
Qed.

Lemma own_fds_high_step nc s r s' sv :
  wf s -> own_fds_high (k_tab s) -> perform nc s r = (s', Some sv) -> own_fds_high (k_tab s').
Proof.
  intros Hwf Hhigh Hp. apply perform_step in Hp; [|assumption].
  destruct sv as [n save]. destruct Hp as [_ [_ [Hn [Hcx [v [Hv Hsave]]]]]].
  intros fd e He Hce. destruct save as [x|].
  - destruct Hsave as [en [Hln [Hcxn [Hfresh [Hge [Hne Hupd]]]]]].
    rewrite Hupd in He. destruct (N.eqb_spec fd n) as [->|Hfd].
    + rewrite (Hv e He) in Hce. discriminate.
    + rewrite lookup_tset in He. destruct (N.eqb_spec x fd) as [<-|_]; [exact Hge|].
      eapply Hhigh; eassumption.
  - destruct Hsave as [Hln Hupd]. rewrite Hupd in He.
    destruct (N.eqb_spec fd n) as [->|Hfd].
    + rewrite (Hv e He) in Hce. discriminate.
    + eapply Hhigh; eassumption.
Qed.

Lemma spec_redir_det base battr nc u r a b :
  spec_redir base battr nc u r = Some a -> spec_redir base battr nc u r = Some b -> a = b.
Proof. congruence. Qed.

Lemma perform_redirs_unc nc s0 rs :
  forall s stack u u',
    wf s -> unc s -> own_fds_high (k_tab s) -> sim s0 s u -> portable rs = true ->
    spec_redirs (view (k_tab s0)) (ofd_get (k_ofd s0)) nc u rs = Some u' ->
    exists s' stack', perform_redirs nc s rs stack = (s', stack', true).
Proof.
  induction rs as [|r rs IH]; intros s stack u u' Hwf Hu Hhigh Hsim Hport; cbn [perform_redirs spec_redirs].
  - intros _. eauto.
  - destruct (spec_redir (view (k_tab s0)) (ofd_get (k_ofd s0)) nc u r) as [u1|] eqn:Hs1; [|discriminate].
    intros Hrest. cbn [portable forallb] in Hport. apply andb_true_iff in Hport.
    destruct Hport as [Hr Hport]. apply andb_true_iff in Hr. destruct Hr as [Hlt _].
    apply N.ltb_lt in Hlt.
    destruct (perform_unc nc s0 s u r u1 Hwf Hu Hhigh Hsim Hlt Hs1) as [s1 [sv [Hp Hu1]]].
    rewrite Hp.
    pose proof (perform_step _ _ _ _ _ Hwf Hp) as [Hwf1 _].
    destruct sv as [n save].
    destruct (step_sim _ _ _ _ _ _ _ _ Hwf Hsim Hp) as [u1' [Hs1' Hsim1]].
    assert (u1' = u1) as -> by congruence.
    exact (IH s1 ((n, save) :: stack) u1 u' Hwf1 Hu1
              (own_fds_high_step _ _ _ _ _ Hwf Hhigh Hp) Hsim1 Hport Hrest).
Qed.

Lemma progress_lemma nc s rs u :
  sorted (k_tab s) -> k_lim s = None -> k_flt s = [] -> own_fds_high (k_tab s) ->
  portable rs = true ->
  spec_redirs (view (k_tab s)) (ofd_get (k_ofd s)) nc (mkU [] (k_fs s) (k_next s) []) rs = Some u ->
  exists s' stack, perform_redirs nc s rs [] = (s', stack, true).
Proof.
  intros Hs Hl Hf Hhigh Hport Hspec.
  assert (wf s) as Hwf by (split; [exact Hs|rewrite Hl; intros k' _; reflexivity]).
  eapply perform_redirs_unc; try eassumption; [split; assumption|apply sim_init].
Qed.
