(* C09 — SPEC: what a list of redirections means, stated on the *user-visible*
   descriptor table (descriptor |-> open file description; descriptors with
   close-on-exec are the shell's own and invisible), independent of how the
   implementation saves and restores descriptors; and the ORACLE, the boolean
   form that is evaluated on what the implementation was observed to do. *)
From Yv Require Import Common.Base C09.Kernel C09.Model.

(* ---- the user's view of a table ----------------------------------------- *)

Definition view (t : table) (fd : N) : option N :=
  match lookup t fd with
  | Some e => if e_cx e then None else Some (e_ofd e)
  | None => None
  end.

(* ---- abstract meaning of the operators ----------------------------------- *)

(* the mode in which the source of n<&m / n>&m must be open *)
Definition acc (op : dop) (o : ofd) : bool :=
  match op with FdIn => o_r o | FdOut => o_w o end.

(* open(2) on the file system, by the kernel's rules: the files afterwards and
   the attributes of the new description *)
Definition sopen (f : fsys) (p : pth) (r w : bool) (fl : oflags) : option (fsys * ofd) :=
  match k_resolve f p w fl with
  | (f', Ok k) => Some (f', mkOfd (FPath k) r w (f_append fl))
  | (_, Err _) => None
  end.

(* operators that give the target a description of its own *)
Definition spec_new (nc : bool) (f : fsys) (b : body) : option (fsys * ofd) :=
  match b with
  | BFile FileIn p => sopen f p true false fl_none                 (* n<p : reading *)
  | BFile FileInOut p => sopen f p true true fl_create             (* n<>p : both, created if missing *)
  | BFile FileAppend p => sopen f p false true fl_append           (* n>>p : appending, created *)
  | BFile FileClobber p => sopen f p false true fl_trunc           (* n>|p : writing, truncated *)
  | BFile FileOut p =>
      if nc then
        (* noclobber: never onto an existing regular file; a missing file is
           created; a directory cannot be opened for writing *)
        match p with
        | PBad => None
        | PKey k =>
            match fs_get f k with
            | Some (Reg _ _) => None
            | Some Dir => None
            | None => Some (fs_set f k (Reg [] false), mkOfd (FPath k) false true false)
            end
        end
      else sopen f p false true fl_trunc                           (* n>p *)
  | BHere c => Some (f, mkOfd (FAnon c 0) true true false)         (* n<<E : the text, from its start *)
  | BDup _ _ | BUnsupported => None
  end.

(* The abstract state is an update log over a base view: which descriptors
   were (re)bound, newest first; the files; the descriptions created. *)
Record ust := mkU {
  u_log : list (N * option N);
  u_fs : fsys;
  u_next : N;
  u_new : list (N * ofd)
}.

Fixpoint log_get (l : list (N * option N)) (fd : N) : option (option N) :=
  match l with
  | [] => None
  | (fd', v) :: l' => if N.eqb fd' fd then Some v else log_get l' fd
  end.

Section Spec.
  Variable base : N -> option N.          (* user-visible table before the command *)
  Variable battr : N -> option ofd.       (* attributes of the descriptions that exist before *)

  Definition uget (u : ust) (fd : N) : option N :=
    match log_get (u_log u) fd with Some v => v | None => base fd end.

  Definition uattr (u : ust) (id : N) : option ofd :=
    match ofd_get (u_new u) id with Some o => Some o | None => battr id end.

  Definition ubind (u : ust) (fd : N) (v : option N) : ust :=
    mkU ((fd, v) :: u_log u) (u_fs u) (u_next u) (u_new u).

  (* descriptor fd becomes a fresh description with attributes o *)
  Definition ufresh (u : ust) (f : fsys) (fd : N) (o : ofd) : ust :=
    mkU ((fd, Some (u_next u)) :: u_log u) f (u_next u + 1) ((u_next u, o) :: u_new u).

  Definition spec_redir (nc : bool) (u : ust) (r : redir) : option ust :=
    let n := r_fd r in
    match r_body r with
    | BDup op (DFd m) =>
        (* n<&m  n>&m : n becomes a copy of m, which must be open in the right mode *)
        match uget u m with
        | Some id =>
            match uattr u id with
            | Some o => if acc op o then Some (ubind u n (Some id)) else None
            | None => None
            end
        | None => None
        end
    | BDup _ DClose => Some (ubind u n None)                           (* n<&-  n>&- *)
    | BDup _ DMalformed => None
    | b =>
        match spec_new nc (u_fs u) b with
        | Some (f, o) => Some (ufresh u f n o)
        | None => None
        end
    end.

  (* left to right *)
  Fixpoint spec_redirs (nc : bool) (u : ust) (rs : list redir) : option ust :=
    match rs with
    | [] => Some u
    | r :: rs' =>
        match spec_redir nc u r with
        | Some u' => spec_redirs nc u' rs'
        | None => None
        end
    end.
End Spec.

Definition targets (rs : list redir) : list N := map r_fd rs.

(* ---- the shell's own descriptors --------------------------------------------- *)

(* the descriptors in which RedirGuard keeps the saved originals *)
Definition saves (stack : list saved) : list N :=
  flat_map (fun sv : saved => match snd sv with Some x => [x] | None => [] end) stack.

(* Every binding of t that differs from t0 is explained: it is a redirection
   target (absent, or present without close-on-exec: visible to the user), or
   it is one of the shell's own descriptors: close-on-exec, at 10 or above, in a
   slot that was free in t0 or was freed by a redirection of that very slot. *)
Definition explained (tg : list N) (t0 t : table) : Prop :=
  forall fd,
    lookup t fd = lookup t0 fd
    \/ match lookup t fd with
       | None => In fd tg
       | Some e =>
           if e_cx e then (10 <= fd)%N /\ (In fd tg \/ lookup t0 fd = None)
           else In fd tg
       end.

(* ---- observations --------------------------------------------------------- *)

Record obs := mkObs {
  ob_tab : table;                       (* the process's descriptor table *)
  ob_ofd : list (N * ofd);              (* attributes of the descriptions in it *)
  ob_fs : list (N * option fnode)       (* the files at the path keys in play *)
}.

Record step := mkStep {
  st_inside : option obs;               (* the table the command body saw, if it ran *)
  st_after : obs;                       (* the shell's table after the command *)
  st_exit : bool                        (* the shell exited because of the command *)
}.

(* ---- the oracle ------------------------------------------------------------ *)

Definition mem (x : N) (l : list N) : bool := existsb (N.eqb x) l.

Definition ent_opt_eqb (a b : option fdent) : bool := option_eqb fdent_eqb a b.

(* R: the table is what it was (same descriptors, same descriptions, same flags) *)
Definition restored (before after : table) : bool :=
  forallb (fun fd => ent_opt_eqb (lookup before fd) (lookup after fd)) (keys before ++ keys after).

(* I: while the command runs, every binding that differs from before is either
   a redirection target (visible to the user: not close-on-exec) or one of the
   shell's own descriptors: close-on-exec, at 10 or above, in a slot that was
   free before or was freed by a redirection of that very descriptor *)
Definition internal_ok (tg : list N) (before inside : table) : bool :=
  forallb (fun fd =>
    let b := lookup before fd in
    let i := lookup inside fd in
    ent_opt_eqb b i
    || match i with
       | None => mem fd tg
       | Some e =>
           if e_cx e then N.leb 10 fd && (mem fd tg || match b with None => true | Some _ => false end)
           else mem fd tg
       end) (keys before ++ keys inside).

(* B: while the command runs, every redirection target that was open before
   has a backup: one of the shell's own descriptors (at 10 or above,
   close-on-exec) open on the very description the target had before.  (A
   command that runs with a target rebound and no backup cannot be undone: the
   undo would close the user's descriptor.) *)
Definition backup_ok (tg : list N) (before inside : table) : bool :=
  forallb (fun fd =>
    match lookup before fd with
    | Some e =>
        existsb (fun p : N * fdent =>
                   N.leb 10 (fst p) && e_cx (snd p) && N.eqb (e_ofd (snd p)) (e_ofd e)) inside
    | None => true
    end) tg.

(* P: after exec, nothing but the targets has changed *)
Definition persisted_ok (tg : list N) (before after : table) : bool :=
  forallb (fun fd =>
    let b := lookup before fd in
    let a := lookup after fd in
    ent_opt_eqb b a
    || (mem fd tg && match a with Some e => negb (e_cx e) | None => true end))
    (keys before ++ keys after).

Definition fref_eqb (a b : fref) : bool :=
  match a, b with
  | FPath p, FPath q => N.eqb p q
  | FAnon c o, FAnon c' o' => str_eqb c c' && N.eqb o o'
  | FAnonDirty, FAnonDirty => true
  | FPipe, FPipe => true
  | _, _ => false
  end.

Definition ofd_eqb (a b : ofd) : bool :=
  fref_eqb (o_file a) (o_file b) && Bool.eqb (o_r a) (o_r b)
  && Bool.eqb (o_w a) (o_w b) && Bool.eqb (o_app a) (o_app b).

Definition fnode_eqb (a b : fnode) : bool :=
  match a, b with
  | Reg c _, Reg c' _ => str_eqb c c'
  | Dir, Dir => true
  | _, _ => false
  end.

Definition fs_of_obs (l : list (N * option fnode)) : fsys :=
  flat_map (fun p : N * option fnode => match snd p with Some n => [(fst p, n)] | None => [] end) l.

Definition max_id (o : obs) : N :=
  fold_left N.max (map (fun p : N * fdent => e_ofd (snd p)) (ob_tab o) ++ map fst (ob_ofd o)) 0%N.

(* the abstract state the specification starts from, read off an observation *)
Definition ust_of_obs (o : obs) : ust := mkU [] (fs_of_obs (ob_fs o)) (max_id o + 1) [].

Definition spec_of_obs (nc : bool) (before : obs) (rs : list redir) : option ust :=
  spec_redirs (view (ob_tab before)) (ofd_get (ob_ofd before)) nc (ust_of_obs before) rs.

(* M: the user-visible table the command saw is the one the specification
   gives.  The specification names new descriptions by numbers of its own, so
   they are matched against the observed ones by a one-to-one renaming [m]
   built on the way; descriptions that existed before must be the same. *)
Fixpoint ren_get (m : list (N * N)) (x : N) : option N :=
  match m with [] => None | (a, b) :: m' => if N.eqb a x then Some b else ren_get m' x end.

Definition ren_has_image (m : list (N * N)) (y : N) : bool := existsb (fun p : N * N => N.eqb (snd p) y) m.

(* same attributes, except for the text of an unnamed file (a diagnostic
   message may have been written to it) *)
Definition ofd_similar (a b : ofd) : bool :=
  match o_file a, o_file b with
  | FAnon _ _, FAnon _ _ =>
      Bool.eqb (o_r a) (o_r b) && Bool.eqb (o_w a) (o_w b) && Bool.eqb (o_app a) (o_app b)
  | _, _ => ofd_eqb a b
  end.

(* [blur]: the observed description that received a diagnostic message, if any *)
Definition match_fd (blur : option N) (before seen : obs) (u : ust) (fd : N) (m : option (list (N * N)))
  : option (list (N * N)) :=
  match m with
  | None => None
  | Some m =>
      match uget (view (ob_tab before)) u fd, view (ob_tab seen) fd with
      | None, None => Some m
      | Some x, Some y =>
          if N.ltb x (max_id before + 1) then (if N.eqb x y then Some m else None)
          else if N.leb y (max_id before) then None       (* must be a new description *)
          else
            match ren_get m x with
            | Some y' => if N.eqb y y' then Some m else None
            | None =>
                if ren_has_image m y then None
                else
                  match ofd_get (u_new u) x, ofd_get (ob_ofd seen) y with
                  | Some a, Some b =>
                      if ofd_eqb a b
                         || (match blur with Some z => N.eqb z y | None => false end && ofd_similar a b)
                      then Some ((x, y) :: m) else None
                  | _, _ => None
                  end
            end
      | _, _ => None
      end
  end.

Definition meaning_ok_blur (blur : option N) (before seen : obs) (tg : list N) (u : ust) : bool :=
  match fold_right (match_fd blur before seen u) (Some [])
          (keys (ob_tab before) ++ keys (ob_tab seen) ++ tg) with
  | Some _ => true
  | None => false
  end.

Definition meaning_ok := meaning_ok_blur None.

(* F: the files are what the specification says (created, truncated, otherwise
   untouched); [skip]: the file that received a diagnostic message, if any *)
Definition files_ok_skip (skip : option N) (seen : obs) (u : ust) : bool :=
  forallb (fun p : N * option fnode =>
             match skip with Some k => N.eqb k (fst p) | None => false end
             || option_eqb fnode_eqb (snd p) (fs_get (u_fs u) (fst p))) (ob_fs seen).

Definition files_ok := files_ok_skip None.

(* the description on descriptor 2, where diagnostic messages go, and the file
   it is open on *)
Definition stderr_ofd (o : obs) : option N :=
  match lookup (ob_tab o) 2 with Some e => Some (e_ofd e) | None => None end.

Definition stderr_path (o : obs) : option N :=
  match stderr_ofd o with
  | Some id => match ofd_get (ob_ofd o) id with
               | Some a => match o_file a with FPath k => Some k | _ => None end
               | None => None
               end
  | None => None
  end.

(* POSIX leaves descriptors 0..9 to the user; what happens with a larger
   number as target or source is the implementation's business (yash-rs refuses
   those it uses itself) *)
Definition portable (rs : list redir) : bool :=
  forallb (fun r => N.ltb (r_fd r) 10
                    && match r_body r with BDup _ (DFd m) => N.ltb m 10 | _ => true end) rs.

(* Verdict clauses for one command: [None] = accepted, [Some k] = clause k
   violated.  [lim] is the descriptor limit in force (None = no limit: then no
   allocation can fail and the specification decides alone whether the command
   runs).  [ref] is the observation the table must be restored to: the one made
   just before the command - or, when the shell exits from inside compound
   commands, the one made before the outermost of them. *)
(* does the command keep its redirections?  exec does when they succeed (then
   the shell goes on); so does exec with an operand that cannot be invoked - an
   interactive shell then goes on, any other shell exits with them in place *)
Definition persists (ref : obs) (c : cmd) (st : step) : bool :=
  match c_kind c with
  | KExec | KExecFail true => negb (st_exit st)
  | KExecFail false => negb (restored (ob_tab ref) (ob_tab (st_after st)))
  | _ => false
  end.

Definition oracle_table (ref before : obs) (c : cmd) (st : step) : option N :=
  let tg := targets (c_redirs c) in
  let after := st_after st in
  if negb (persists ref c st) && negb (restored (ob_tab ref) (ob_tab after)) then Some 0%N
  else if persists ref c st && negb (persisted_ok tg (ob_tab before) (ob_tab after)) then Some 1%N
  else None.

Definition oracle_seen (nc : bool) (lim : option N) (ref before : obs) (c : cmd) (st : step)
  : option N :=
  let tg := targets (c_redirs c) in
  let after := st_after st in
  let sp := spec_of_obs nc before (c_redirs c) in
  match st_inside st with
  | Some inside =>
      if match c_kind c with KAsync => true | _ => false end then
        (* a child process whose standard input has been replaced by /dev/null:
           nothing else may differ from the parent but the targets and the
           child's own saved copies *)
        if internal_ok (0%N :: tg) (ob_tab before) (ob_tab inside) then None else Some 2%N
      else
      if negb (internal_ok tg (ob_tab before) (ob_tab inside)) then Some 2%N
      else if negb (backup_ok tg (ob_tab before) (ob_tab inside)) then Some 10%N
      else
        match sp with
        | None => Some 3%N                (* ran although the list must fail (noclobber, closed source, ...) *)
        | Some u =>
            if negb (meaning_ok before inside tg u) then Some 4%N
            else if negb (files_ok inside u) then Some 5%N
            else None
        end
  | None =>
      if persists ref c st then
        (* a failed exec has reported "cannot execute" on descriptor 2, with the
           redirections in effect *)
        let msg := match c_kind c with KExecFail _ => true | _ => false end in
        match sp with
        | None => Some 3%N
        | Some u =>
            if negb (meaning_ok_blur (if msg then stderr_ofd after else None) before after tg u) then Some 4%N
            else if negb (files_ok_skip (if msg then stderr_path after else None) after u) then Some 5%N
            else None
        end
      else
        (* the body did not run (or cannot be observed: empty command,
           command not found) *)
        match c_kind c, sp, lim with
        | (KRegular | KSpecial | KFunction | KGroup | KSubshell | KExec | KExecFail true), Some _, None =>
            if portable (c_redirs c) then Some 6%N else None
        | KExecFail false, Some u, None =>
            (* the shell exited with a table equal to the one before: fine if
               that is what the redirections amount to (not judged when the
               exit unwinds enclosing compound commands: ref is then another
               table) *)
            if portable (c_redirs c) && restored (ob_tab ref) (ob_tab before)
               && negb (meaning_ok_blur (stderr_ofd after) before after tg u) then Some 6%N else None
        | KEmpty, Some u, None =>
            if portable (c_redirs c) && negb (files_ok after u) then Some 5%N else None
        | _, _, _ => None
        end
  end.

(* ---- what a child process started for a pipe sees ----------------------------- *)

(* descriptor fd of the child is a new description, one end of a pipe *)
Definition pipe_end_ok (before child : obs) (fd : N) (writing : bool) : bool :=
  match lookup (ob_tab child) fd with
  | Some e =>
      negb (e_cx e) && N.ltb (max_id before) (e_ofd e)
      && match ofd_get (ob_ofd child) (e_ofd e) with
         | Some o => ofd_eqb o (mkOfd FPipe (negb writing) writing false)
         | None => false
         end
  | None => false
  end.

(* the child's table is the parent's, except for the standard descriptors the
   pipe ends were moved to: no other end of any pipe is inherited *)
Definition child_ok (before child : obs) (stdin_piped stdout_piped : bool) : bool :=
  forallb (fun fd =>
    if N.eqb fd 0 && stdin_piped then pipe_end_ok before child 0 false
    else if N.eqb fd 1 && stdout_piped then pipe_end_ok before child 1 true
    else ent_opt_eqb (lookup (ob_tab before) fd) (lookup (ob_tab child) fd))
    (0 :: 1 :: keys (ob_tab before) ++ keys (ob_tab child))%N.

Definition oracle_cmd (nc : bool) (lim : option N) (ref before : obs) (c : cmd) (st : step)
  : option N :=
  match oracle_table ref before c st with
  | Some k => Some k
  | None => oracle_seen nc lim ref before c st
  end.
